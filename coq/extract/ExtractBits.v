(* Extraction of the ops.rs model for the correspondence check.  ExtrOcamlBasic only. *)
From Coq Require Import ZArith List Extraction ExtrOcamlBasic.
From DD Require Import Common Carrier Bits BitsSpec.
Extraction Language OCaml.
Extraction "bits_model.ml" load store spec_load carriers.
