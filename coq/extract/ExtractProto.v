(* Extraction of the protocol-layer model (Proto.v, instantiated by ProtoCases.v) for the
   correspondence checks C05 / C09 / C10.  ExtrOcamlBasic only. *)
From Coq Require Import ZArith List Extraction ExtrOcamlBasic.
From DD Require Import Proto ProtoCases.
Extraction Language OCaml.
Extraction "proto_model.ml" case_reg case_cmd case_buf.
