(* C15 — Enum analysis rejects ill-formed enums and grants infallibility only when total. *)
From Coq Require Import ZArith List Bool String.
From DD Require Import Common Mir GenErr Enum EnumProofs.
Import ListNotations.
Open Scope string_scope.
Open Scope Z_scope.

(* The pass (enum_values_checked: "last seen + 1") and the emitter (lir_transform::transform_enum:
   next_variant_number) assign the same number to every variant of every variant list — both on the variant
   list as written and on the list as the pass leaves it (Unspecified overwritten by Specified). *)
Theorem C15_numberings_agree : forall vs,
  map ev_num (emit_variants vs) = numbers vs /\
  map ev_num (emit_variants (mutated vs)) = numbers vs.
Proof. exact numberings_agree. Qed.

(* "Implicit numbering starts at 0 and continues one above the previous variant, whatever that variant's
   kind": the pass's numbers satisfy that rule position by position (explicit numbers are kept; a variant
   without a number — plain, default or catch-all — gets 0 in first position and predecessor + 1 elsewhere),
   and they are the only list of numbers that does. *)
Theorem C15_implicit_numbering : forall vs,
  numbering_ok vs (numbers vs) /\ (forall ns, numbering_ok vs ns -> ns = numbers vs).
Proof. intros vs. split; [apply numbering_ok_numbers|apply numbering_ok_unique]. Qed.

(* HISTORICAL (about [enum_check], the model of the pass BEFORE the repair of D12 (3c1cc51); kept because the
   C07 development is stated over that model and because EnumProofs.repaired_ok_implies_ok carries every
   consequence of its acceptance over to the pass as it is now).
   For every enum on a field of width 0 <= w <= 126 (beyond that the generator panics, see notes) whose
   variant list is outside the D12 class (no two DIFFERENTLY NAMED variants with the same cfg and the same
   number): the pass rejects it iff the property's disjunction holds (no variants, or two variants under the
   same cfg with the same number, or a number above 2^w - 1, or two defaults, or two catch-alls, or
   non-`try` and not total). *)
Theorem C15_reject_iff_partial : forall obj fld w e use_try,
  0 <= w < 127 -> ~ d12_class (e_variants e) ->
  ((exists err, enum_check obj fld w e use_try = VErr err) <-> spec_reject w (e_variants e) use_try).
Proof. exact reject_iff_partial. Qed.

(* HISTORICAL (same model). Without the side condition that pass was still sound: it never rejected what the
   property's older reading (numbers only tested from above) accepts. *)
Theorem C15_reject_sound : forall obj fld w e use_try,
  0 <= w < 127 ->
  (exists err, enum_check obj fld w e use_try = VErr err) -> spec_reject w (e_variants e) use_try.
Proof. exact reject_sound. Qed.

(* HISTORICAL: the full statement was FALSE of the code before 3c1cc51 (defect D12): {A = 1, B = 1} with `try` on a 2-bit field is
   accepted although two variants (no cfg) share the number 1; itertools' duplicates() compares
   (value, name+cfg) pairs, so only a repeated NAME can ever be reported. *)
Definition d12_witness : enum_def :=
  {| e_cfg := None; e_name := "E";
     e_variants := [ {| v_cfg := None; v_name := "A"; v_value := EVSpec 1 |};
                     {| v_cfg := None; v_name := "B"; v_value := EVSpec 1 |} ];
     e_style := None |}.

Theorem C15_duplicate_numbers_refuted :
  exists obj fld w e use_try,
    0 <= w < 127 /\ spec_reject w (e_variants e) use_try /\ enum_check obj fld w e use_try = VOk.
Proof.
  exists "R", "f", 2, d12_witness, true. split; [split; [discriminate|reflexivity]|]. split; [|reflexivity].
  right; left. exists 0%nat, 1%nat,
    {| v_cfg := None; v_name := "A"; v_value := EVSpec 1 |},
    {| v_cfg := None; v_name := "B"; v_value := EVSpec 1 |}, 1.
  repeat split; auto.
Qed.

(* HISTORICAL (about [enum_check_fixed], the pass after the repair of D12 and before the repairs of D16 / D17):
   with duplicates_by (value, cfg) the pass decided exactly the disjunction above, in which "does not fit the
   field's width" only looks upwards.  The statement for the pass as it is now is C15_reject_iff_after_repairs. *)
Theorem C15_reject_iff_after_repair : forall obj fld w e use_try,
  0 <= w < 127 ->
  ((exists err, enum_check_fixed obj fld w e use_try = VErr err) <-> spec_reject w (e_variants e) use_try).
Proof. exact reject_iff_fixed. Qed.

(* THE PASS AS IT IS NOW (D12 repaired by 3c1cc51, D16 by 717250d, D17 by e1d126c).
   For every enum on a field of base type [base] and width 0 <= w <= 126: the pass rejects it iff the property's
   disjunction holds — no variants, or two variants under the same cfg with the same number, or a number that
   does not fit the field's width, or two defaults, or two catch-alls, or non-`try` and not total — where "a
   variant's number does not fit the field's width" is: above 2^w - 1 [spec_too_high, inside spec_reject], or
   negative on a field that is not `int`, or outside the signed repr i{c} of an `int` field, c = the least power
   of two >= max(8, w) [spec_unrepresentable]. *)
Theorem C15_reject_iff_after_repairs : forall base obj fld w e use_try,
  0 <= w < 127 ->
  ((exists err, enum_check_repaired base obj fld w e use_try = VErr err) <->
   spec_reject_repaired base w (e_variants e) use_try).
Proof. exact reject_iff_repaired. Qed.

(* Whatever the pass as it is now accepts, the two older models accept as well — so every theorem about an
   acceptance by [enum_check] / [enum_check_fixed] (C07's included) applies to it — and every number of an accepted
   enum is representable in the repr the emitter gives the enum. *)
Theorem C15_repaired_accepts_less : forall base obj fld w e use_try,
  enum_check_repaired base obj fld w e use_try = VOk ->
  enum_check_fixed obj fld w e use_try = VOk /\ enum_check obj fld w e use_try = VOk /\
  ~ spec_unrepresentable base w (e_variants e) /\ ~ d12_class (e_variants e).
Proof. exact repaired_accepts_less. Qed.

(* The generation style is Infallible{w} exactly when the enum has a default, or a catch-all, or a variant
   for every bit pattern 0..2^w-1; it never records another width; otherwise it is Fallible. *)
Theorem C15_infallible_iff_total : forall w vs, 0 <= w ->
  (enum_style w vs = GInfallible w <-> spec_total w vs) /\
  (forall b, enum_style w vs = GInfallible b -> b = w) /\
  (enum_style w vs = GFallible <-> ~ spec_total w vs).
Proof. exact infallible_iff_total. Qed.

(* Device level (HISTORICAL model; the same statements for the pass as it is now follow): the pass accepts a device iff it accepts every inline enum of every field set of every
   object (pre-order, any nesting depth), and a rejection is the rejection of one of them. *)
Theorem C15_device_accept_iff : forall d,
  enum_values_check d = VOk <->
  Forall (fun s => enum_check (s_obj s) (f_name (s_field s)) (s_width s) (s_enum s) (s_try s) = VOk) (enum_sites d).
Proof. exact device_accept_iff. Qed.

Theorem C15_device_reject_site : forall d e,
  enum_values_check d = VErr e ->
  exists s, In s (enum_sites d) /\
            enum_check (s_obj s) (f_name (s_field s)) (s_width s) (s_enum s) (s_try s) = VErr e.
Proof. exact device_reject_site. Qed.

Theorem C15_device_accept_iff_after_repairs : forall d,
  enum_values_check_repaired d = VOk <->
  Forall (fun s => enum_check_repaired (f_base (s_field s)) (s_obj s) (f_name (s_field s)) (s_width s) (s_enum s) (s_try s) = VOk)
         (enum_sites d).
Proof. exact device_accept_iff_repaired. Qed.

Theorem C15_device_reject_site_after_repairs : forall d e,
  enum_values_check_repaired d = VErr e ->
  exists s, In s (enum_sites d) /\
            enum_check_repaired (f_base (s_field s)) (s_obj s) (f_name (s_field s)) (s_width s) (s_enum s) (s_try s) = VErr e.
Proof. exact device_reject_site_repaired. Qed.

(* ---------------- non-vacuity ---------------- *)

Definition var (n : string) (x : enum_value) : variant := {| v_cfg := None; v_name := n; v_value := x |}.
Definition en (vs : list variant) : enum_def := {| e_cfg := None; e_name := "E"; e_variants := vs; e_style := None |}.

(* numbering: explicit 5, then implicit 6, default takes 7, catch-all 8, implicit 9; a leading implicit is 0;
   negative explicit numbers continue upwards; both numberings agree on it *)
Example C15_numbering_examples :
  numbers [var "A" (EVSpec 5); var "B" EVUnspec; var "C" EVDefault; var "D" EVCatchAll; var "F" EVUnspec] = [5; 6; 7; 8; 9] /\
  numbers [var "A" EVCatchAll; var "B" EVUnspec; var "C" (EVSpec (-3)); var "D" EVUnspec] = [0; 1; -3; -2] /\
  map ev_num (emit_variants [var "A" EVCatchAll; var "B" EVUnspec; var "C" (EVSpec (-3)); var "D" EVUnspec]) = [0; 1; -3; -2].
Proof. vm_compute. repeat split. Qed.

(* HISTORICAL model: every rejection reason is reachable and reported in the order of the code; accepted instances
   exist for try and non-try; a negative number passed the range test (it was only tested from above: D16) *)
Example C15_check_examples :
  let k v := match v with VErr e => e_kind e | VOk => "ok" | VPanic => "panic" end in
  k (enum_check "R" "f" 2 (en []) false) = "enum_empty" /\
  k (enum_check "R" "f" 2 (en [var "A" (EVSpec 1); var "A" (EVSpec 1)]) true) = "enum_dup_value" /\
  k (enum_check "R" "f" 2 (en [var "A" (EVSpec 3); var "B" EVUnspec]) true) = "enum_value_too_high" /\
  k (enum_check "R" "f" 2 (en [var "A" EVDefault; var "B" EVDefault]) true) = "enum_multi_default" /\
  k (enum_check "R" "f" 2 (en [var "A" EVCatchAll; var "B" EVCatchAll]) true) = "enum_multi_catch_all" /\
  k (enum_check "R" "f" 2 (en [var "A" EVUnspec; var "B" EVUnspec; var "C" EVUnspec]) false) = "enum_not_covered" /\
  k (enum_check "R" "f" 2 (en [var "A" EVUnspec; var "B" EVUnspec; var "C" EVUnspec]) true) = "ok" /\
  k (enum_check "R" "f" 2 (en [var "A" EVUnspec; var "B" EVUnspec; var "C" EVUnspec; var "D" EVUnspec]) false) = "ok" /\
  k (enum_check "R" "f" 2 (en [var "A" EVUnspec; var "B" EVDefault]) false) = "ok" /\
  k (enum_check "R" "f" 2 (en [var "A" (EVSpec (-7)); var "B" EVCatchAll]) false) = "ok" /\
  (* a catch-all consumes a number and that number is range-checked like any other *)
  k (enum_check "R" "f" 2 (en [var "A" (EVSpec 1); var "B" EVUnspec; var "C" EVDefault; var "D" EVCatchAll]) false) = "enum_value_too_high" /\
  (* too-high is reported before the multiplicity and coverage errors, duplicates before too-high *)
  k (enum_check "R" "f" 1 (en [var "A" EVDefault; var "B" EVDefault; var "C" EVUnspec]) false) = "enum_value_too_high" /\
  k (enum_check "R" "f" 127 (en [var "A" EVUnspec]) true) = "panic".
Proof. vm_compute. repeat split. Qed.

(* the hypotheses of C15_reject_iff_partial are met by accepted and by rejected instances *)
Example C15_reject_iff_nonvacuous :
  ~ d12_class [var "A" EVUnspec; var "B" EVDefault] /\
  enum_check "R" "f" 3 (en [var "A" EVUnspec; var "B" EVDefault]) false = VOk /\
  ~ d12_class [var "A" (EVSpec 9)] /\ spec_reject 3 [var "A" (EVSpec 9)] true /\
  d12_class (e_variants d12_witness) /\
  enum_check_fixed "R" "f" 2 d12_witness true = VErr (mk_err "enum_dup_value" ["E"; "R"; "f"]).
Proof.
  repeat split.
  - intros H. apply d12_class_reflect in H. vm_compute in H. discriminate.
  - intros H. apply d12_class_reflect in H. vm_compute in H. discriminate.
  - apply spec_reject_reflect; [discriminate|reflexivity].
  - apply d12_class_reflect. reflexivity.
Qed.

(* the pass as it is now: the hypotheses of C15_reject_iff_after_repairs are met by accepted and by rejected
   instances; `A = -1` on a uint (and on a bool) field and `B = 255` on an 8-bit int field are rejected with the
   new kinds, naming the first offending variant and its number; `A = -128, B = 127` on an 8-bit int field and
   `A = -3` on a 4-bit int field are accepted; the boundaries are exact (-129 / 128 on i8; -32769 / 32768 on a
   12-bit and on a 16-bit int field, repr i16); an implicit successor is checked like an explicit number
   (127 then implicit = 128); the new tests come after "too high" and before "more than one default"; the D12
   witness is rejected; the carrier width is the least power of two >= max(8, w). *)
Example C15_after_repairs_examples :
  let k v := match v with VErr e => show_error e | VOk => "ok" | VPanic => "panic" end in
  k (enum_check_repaired BUint "R" "f" 8 (en [var "A" (EVSpec (-1)); var "B" EVDefault]) false)
    = "enum_value_too_low:A|E|R|f|-1" /\
  k (enum_check_repaired BBool "R" "f" 1 (en [var "A" EVUnspec; var "B" (EVSpec (-1))]) true)
    = "enum_value_too_low:B|E|R|f|-1" /\
  k (enum_check_repaired BInt "R" "f" 8 (en [var "A" EVUnspec; var "B" (EVSpec 255)]) true)
    = "enum_value_repr:B|E|R|f|255" /\
  k (enum_check_repaired BInt "R" "f" 8 (en [var "A" (EVSpec (-128)); var "B" (EVSpec 127)]) true) = "ok" /\
  k (enum_check_repaired BInt "R" "f" 4 (en [var "A" (EVSpec (-3))]) true) = "ok" /\
  k (enum_check_repaired BInt "R" "f" 8 (en [var "A" (EVSpec (-129)); var "B" EVDefault]) false)
    = "enum_value_repr:A|E|R|f|-129" /\
  k (enum_check_repaired BInt "R" "f" 8 (en [var "A" (EVSpec 127); var "B" EVUnspec; var "C" (EVSpec (-129))]) true)
    = "enum_value_repr:B|E|R|f|128" /\
  k (enum_check_repaired BInt "R" "f" 4 (en [var "A" (EVSpec (-128)); var "B" EVCatchAll]) false) = "ok" /\
  k (enum_check_repaired BInt "R" "f" 4 (en [var "A" (EVSpec (-129)); var "B" EVCatchAll]) false)
    = "enum_value_repr:A|E|R|f|-129" /\
  k (enum_check_repaired BInt "R" "f" 12 (en [var "A" (EVSpec (-32768))]) true) = "ok" /\
  k (enum_check_repaired BInt "R" "f" 12 (en [var "A" (EVSpec (-32769))]) true) = "enum_value_repr:A|E|R|f|-32769" /\
  k (enum_check_repaired BInt "R" "f" 16 (en [var "A" (EVSpec 32767); var "B" (EVSpec (-32768))]) true) = "ok" /\
  k (enum_check_repaired BInt "R" "f" 16 (en [var "A" (EVSpec 32767); var "B" EVUnspec]) true)
    = "enum_value_repr:B|E|R|f|32768" /\
  (* order: duplicates, too high, then the new tests, then the multiplicities *)
  k (enum_check_repaired BUint "R" "f" 2 (en [var "A" (EVSpec (-1)); var "B" (EVSpec 4)]) true)
    = "enum_value_too_high:B|E|R|f|4|3" /\
  k (enum_check_repaired BUint "R" "f" 2 (en [var "A" (EVSpec (-1)); var "B" EVDefault; var "C" EVDefault]) true)
    = "enum_value_too_low:A|E|R|f|-1" /\
  k (enum_check_repaired BInt "R" "f" 8 (en [var "A" (EVSpec 200); var "B" EVCatchAll; var "C" EVCatchAll]) true)
    = "enum_value_repr:A|E|R|f|200" /\
  k (enum_check_repaired BUint "R" "f" 2 d12_witness true) = "enum_dup_value:E|R|f" /\
  (* the older models accepted the D16 / D17 witnesses *)
  enum_check_fixed "R" "f" 8 (en [var "A" (EVSpec (-1)); var "B" EVDefault]) false = VOk /\
  enum_check_fixed "R" "f" 8 (en [var "A" EVUnspec; var "B" (EVSpec 255)]) true = VOk /\
  map carrier_bits [1; 4; 8; 9; 12; 16; 17; 32; 33; 64; 65; 126] = [8; 8; 8; 16; 16; 16; 32; 32; 64; 64; 128; 128].
Proof. vm_compute. repeat split. Qed.

Example C15_after_repairs_nonvacuous :
  (* rejected by the new clause only (the older rule accepts it), on both kinds of field *)
  spec_reject_repaired BUint 8 [var "A" (EVSpec (-1)); var "B" EVDefault] false /\
  ~ spec_reject 8 [var "A" (EVSpec (-1)); var "B" EVDefault] false /\
  spec_reject_repaired BInt 8 [var "A" EVUnspec; var "B" (EVSpec 255)] true /\
  ~ spec_reject 8 [var "A" EVUnspec; var "B" (EVSpec 255)] true /\
  (* accepted *)
  ~ spec_reject_repaired BInt 8 [var "A" (EVSpec (-128)); var "B" (EVSpec 127)] true /\
  ~ spec_reject_repaired BInt 4 [var "A" (EVSpec (-3))] true /\
  ~ spec_reject_repaired BUint 3 [var "A" EVUnspec; var "B" EVDefault] false.
Proof.
  repeat split;
    try (apply spec_reject_repaired_reflect; [discriminate|reflexivity]);
    intros H;
    try (apply spec_reject_repaired_reflect in H; [vm_compute in H|]; discriminate);
    try (apply spec_reject_reflect in H; [vm_compute in H|]; discriminate).
Qed.

(* Infallible by fallback, Infallible by coverage (4 of 4 patterns), Fallible (3 of 4) *)
Example C15_style_examples :
  enum_style 2 [var "A" EVUnspec; var "B" EVCatchAll] = GInfallible 2 /\
  enum_style 2 [var "A" (EVSpec 3); var "B" (EVSpec 0); var "C" EVUnspec; var "D" EVUnspec] = GInfallible 2 /\
  enum_style 2 [var "A" EVUnspec; var "B" EVUnspec; var "C" EVUnspec] = GFallible /\
  enum_style 16 [var "A" EVUnspec; var "B" (EVSpec 65535)] = GFallible.
Proof. vm_compute. repeat split. Qed.

Print Assumptions C15_numberings_agree.
Print Assumptions C15_implicit_numbering.
Print Assumptions C15_reject_iff_partial.
Print Assumptions C15_reject_sound.
Print Assumptions C15_duplicate_numbers_refuted.
Print Assumptions C15_reject_iff_after_repair.
Print Assumptions C15_reject_iff_after_repairs.
Print Assumptions C15_repaired_accepts_less.
Print Assumptions C15_device_accept_iff_after_repairs.
Print Assumptions C15_device_reject_site_after_repairs.
Print Assumptions C15_infallible_iff_total.
Print Assumptions C15_device_accept_iff.
Print Assumptions C15_device_reject_site.

(* ---- whole pipeline: every inline enum of a definition the whole generator accepts passes the analysis AS IT IS
   NOW (hence also the older models, C15_repaired_accepts_less), and (field width below 127 bits) is outside the
   property's reject class, the D16 / D17 clauses included ---- *)
From DD Require Pipeline PipelineProofs Names.
Theorem C15_whole_pipeline_accept : forall fuel dev_name d0,
  Pipeline.pipeline_result fuel dev_name d0 = "ok"%string ->
  Forall (fun s => enum_check_repaired (f_base (s_field s)) (s_obj s) (f_name (s_field s)) (s_width s) (s_enum s) (s_try s) = VOk
                   /\ enum_check_fixed (s_obj s) (f_name (s_field s)) (s_width s) (s_enum s) (s_try s) = VOk
                   /\ (0 <= s_width s < 127 ->
                       ~ spec_reject_repaired (f_base (s_field s)) (s_width s) (e_variants (s_enum s)) (s_try s)))
         (enum_sites (Names.names_normalized d0)).
Proof.
  intros fuel dev_name d0 H. apply PipelineProofs.pipeline_result_ok_iff in H.
  exact (PipelineProofs.pipeline_accept_enums _ _ _ H).
Qed.

Print Assumptions C15_whole_pipeline_accept.

(* The ORDER of the passes that Pipeline.v sequences (and in which the first error wins), TRANSLATED from the two
   `run_passes` functions of generation/src/{mir,lir}/passes/mod.rs on every build: enum_values_checked runs after names_unique and before bool_fields_checked / bit_ranges_validated. *)
From DD Require GenPassOrder.
Theorem C15_pass_order_from_source :
  DDGen.PassOrder.mir_pass_order = GenPassOrder.expected_mir_pass_order /\
  DDGen.PassOrder.lir_pass_order = GenPassOrder.expected_lir_pass_order.
Proof. exact GenPassOrder.pass_order_as_modelled. Qed.
Print Assumptions C15_pass_order_from_source.
