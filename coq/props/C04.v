(* C04 — Every operation reaches the device at the mathematically defined address. *)
From Coq Require Import ZArith List Bool String.
From DD Require Import Common Mir GenErr AddrPath AddrPathProofs Addr04.
Import ListNotations.
Open Scope Z_scope.

(* The emitted arithmetic (block_transform.rs), evaluated as a debug build evaluates it (every
   intermediate checked in the internal type IT), along ANY chain of nested block accessors ending in
   a leaf accessor, with any indices: if it does not panic, the address handed on is exactly
   sum(level address + index * stride) in the integers — negative addresses, offsets and strides
   included — and every index was in range.  Hypothesis on indices: representable in IT (the
   `index as IT` cast is silent; C13 deals with definitions where that fails: D3b). *)
Theorem C04_address_chain_exact : forall it path base v,
  0 < bits it -> Forall (fun l => in_range it (l_index l) = true \/ l_rep l = None) path ->
  gen_addr_from Debug it base path = Ok v ->
  v = base + addr_sem path /\ forallb index_valid path = true.
Proof. exact gen_addr_from_exact. Qed.

(* ... and the final `as AT` cast does not change it when it fits the address type. *)
Theorem C04_address_exact : forall it at_ path v,
  0 < bits it -> 0 < bits at_ ->
  Forall (fun l => in_range it (l_index l) = true \/ l_rep l = None) path ->
  gen_addr Debug it at_ path = Ok v -> in_range at_ (addr_sem path) = true ->
  v = addr_sem path.
Proof. exact address_exact. Qed.

(* Release build (wrapping arithmetic): every level's result is the mathematical address modulo
   2^bits(IT), whatever wrapped on the way ... *)
Theorem C04_address_chain_release_mod : forall it path base base' v,
  0 < bits it -> base mod 2 ^ bits it = base' mod 2 ^ bits it ->
  gen_addr_from Release it base path = Ok v ->
  v mod 2 ^ bits it = (base' + addr_sem path) mod 2 ^ bits it /\ forallb index_valid path = true.
Proof. exact gen_addr_from_release. Qed.

(* ... hence the bus address is EXACT whenever the mathematical address fits the address type and the
   internal type is at least as wide — no hypothesis on the indices or on intermediate overflow. *)
Theorem C04_address_exact_release : forall it at_ path v,
  0 < bits at_ -> bits at_ <= bits it ->
  gen_addr Release it at_ path = Ok v -> in_range at_ (addr_sem path) = true ->
  v = addr_sem path /\ forallb index_valid path = true.
Proof. exact address_exact_release. Qed.

(* An index >= the repeat count panics in that accessor (assert!) in both build profiles, before any
   arithmetic; nothing below it is evaluated, so no operation object exists and the interface is
   never touched. *)
Theorem C04_index_guard : forall b it base l,
  index_valid l = false -> level_address b it base l = Fail AssertFail.
Proof. exact first_invalid_index_asserts. Qed.

Theorem C04_index_guard_chain : forall b it path base,
  existsb (fun l => negb (index_valid l)) path = true ->
  exists k, gen_addr_from b it base path = Fail k.
Proof. intros. eapply index_guard; eauto. Qed.

(* A register ref's accessor: the ref's own (snake-cased) name, its overridden address / repeat /
   access where given and the target's otherwise — relative to the REF's enclosing blocks because it
   is a method of the block the ref is declared in. *)
Theorem C04_ref_address : forall all c n target acc addr ao rv rep r,
  find_object all target = Some (ORegister r) ->
  method_of all (ORef c n (OvRegister target acc addr ao rv rep)) =
    Some {| m_name := meth_name n;
            m_kind := KReg (match acc with Some a => a | None => rg_access r end);
            m_addr := match addr with Some a => a | None => rg_address r end;
            m_rep := match rep with Some x => Some x | None => rg_repeat r end |}.
Proof. intros. cbn. rewrite H. reflexivity. Qed.

(* The same for command refs and block refs (rounds 8-10 of the seeded changes went for exactly these: the target's REPEAT
   winning over the ref's, a block ref without ADDRESS_OFFSET placed at 0): the ref's own value where it gives one, the
   target's otherwise; a block ref leads to the TARGET's objects. *)
Theorem C04_command_ref_address : forall all c n target addr ao rep cm,
  find_object all target = Some (OCommand cm) ->
  method_of all (ORef c n (OvCommand target addr ao rep)) =
    Some {| m_name := meth_name n; m_kind := KCmd;
            m_addr := match addr with Some a => a | None => cm_address cm end;
            m_rep := match rep with Some x => Some x | None => cm_repeat cm end |}.
Proof. intros. cbn. rewrite H. reflexivity. Qed.

Theorem C04_block_ref_address : forall all c n target off rep bc bn toff trep objs,
  find_object all target = Some (OBlock bc bn toff trep objs) ->
  method_of all (ORef c n (OvBlock target off rep)) =
    Some {| m_name := meth_name n; m_kind := KBlock;
            m_addr := match off with Some a => a | None => toff end;
            m_rep := match rep with Some x => Some x | None => trep end |}.
Proof. intros. cbn. rewrite H. reflexivity. Qed.

Theorem C04_block_ref_leads_to_the_targets_objects : forall all c n target off rep bc bn toff trep objs,
  find_object all target = Some (OBlock bc bn toff trep objs) ->
  block_children all (ORef c n (OvBlock target off rep)) = Some objs.
Proof. intros. cbn. rewrite H. reflexivity. Qed.

(* read_all_registers visits exactly the readable registers of the block (refs with overridden access
   included), every repeat index 0..count-1, in declaration order. *)
Theorem C04_read_all_visits : forall it lv all objs,
  map fst (read_all_items it lv all objs) =
  flat_map (fun o => match method_of all o with
                     | Some m => match m_kind m with
                                 | KReg acc => if readable_acc acc then
                                     match m_rep m with
                                     | None => [show_step m None]
                                     | Some r => map (fun i => show_step m (Some (Z.of_nat i))) (seq 0 (Z.to_nat (r_count r)))
                                     end else []
                                 | _ => []
                                 end
                     | None => []
                     end) objs.
Proof.
  intros it lv all objs. unfold read_all_items. induction objs as [|o t IH]; [reflexivity|].
  cbn [flat_map]. rewrite map_app, IH. f_equal.
  destruct (method_of all o) as [m|]; [|reflexivity].
  destruct (m_kind m); try reflexivity. destruct (readable_acc acc); [|reflexivity].
  destruct (m_rep m); [|reflexivity]. rewrite map_map. reflexivity.
Qed.

(* The address read_all_registers REPORTS for a register is the address used on the bus for that read.
   Non-root block (since the repair of D2 in /repo): the callback receives
   (self.base_address + ADDR (+|-) IDX * |STRIDE|) as AT — literally the accessor's arithmetic on the same levels. *)
Theorem C04_read_all_reports_bus_address_nonroot : forall it l lv all objs,
  read_all_items it (l :: lv) all objs =
  flat_map (fun o => match method_of all o with
                     | Some m => match m_kind m with
                                 | KReg acc => if readable_acc acc then
                                     let item i := (show_step m i, show_outcome_Z (gen_addr_from Debug it 0 ((l :: lv) ++ [level_of m i]))) in
                                     match m_rep m with
                                     | None => [item None]
                                     | Some r => map (fun i => item (Some (Z.of_nat i))) (seq 0 (Z.to_nat (r_count r)))
                                     end else []
                                 | _ => []
                                 end
                     | None => []
                     end) objs.
Proof. reflexivity. Qed.

(* Root block: the callback receives the constant ADDR (+|-) IDX * |STRIDE|, which is what the accessor computes
   from base 0 whenever it does not panic. *)
Theorem C04_read_all_reports_bus_address_root : forall it m i v,
  0 < bits it -> in_range it i = true ->
  gen_addr_from Debug it 0 [level_of m (Some i)] = Ok v ->
  v = read_all_reported (m_addr m) (m_rep m) i.
Proof.
  intros it m i v Hb Hi H.
  assert (Hf : Forall (fun l => in_range it (l_index l) = true \/ l_rep l = None) [level_of m (Some i)])
    by (constructor; [left; exact Hi|constructor]).
  destruct (gen_addr_from_exact it _ 0 v Hb Hf H) as [-> _].
  unfold addr_sem, level_sem, read_all_reported, level_of. cbn [fold_right l_addr l_rep l_index].
  destruct (m_rep m); ring.
Qed.

(* Historical (D2, repaired): the block-relative value ADDR + i*STRIDE, which non-root blocks used to report,
   differs from the bus address as soon as the block's base is not 0. *)
Theorem C04_relative_report_differs_from_bus_historical :
  exists it base m i v,
    gen_addr_from Debug it base [level_of m (Some i)] = Ok v /\ v <> read_all_reported (m_addr m) (m_rep m) i.
Proof.
  exists {| signed := false; bits := 8 |}, 120,
         {| m_name := "inner"; m_kind := KReg RW; m_addr := 5; m_rep := Some {| r_count := 2; r_stride := 2 |} |}, 1, 127.
  split; [vm_compute; reflexivity|vm_compute; discriminate].
Qed.

(* Non-vacuity: blocks.md's example (offset 5, inner address 7 -> 12) and a signed one. *)
Example C04_examples :
  gen_addr Debug {| signed := false; bits := 8 |} {| signed := false; bits := 8 |}
    [{| l_addr := 5; l_rep := None; l_index := 0 |}; {| l_addr := 7; l_rep := None; l_index := 0 |}] = Ok 12 /\
  gen_addr Debug {| signed := true; bits := 16 |} {| signed := true; bits := 8 |}
    [{| l_addr := -100; l_rep := Some {| r_count := 3; r_stride := 40 |}; l_index := 2 |};
     {| l_addr := 10; l_rep := Some {| r_count := 4; r_stride := -3 |}; l_index := 3 |}] = Ok (-19) /\
  gen_addr Debug {| signed := false; bits := 8 |} {| signed := false; bits := 8 |}
    [{| l_addr := 5; l_rep := Some {| r_count := 2; r_stride := 1 |}; l_index := 2 |}] = Fail AssertFail.
Proof. vm_compute. repeat split. Qed.

Print Assumptions C04_address_chain_exact.
Print Assumptions C04_address_exact.
Print Assumptions C04_address_chain_release_mod.
Print Assumptions C04_address_exact_release.
Print Assumptions C04_index_guard.
Print Assumptions C04_index_guard_chain.
Print Assumptions C04_ref_address.
Print Assumptions C04_command_ref_address.
Print Assumptions C04_block_ref_address.
Print Assumptions C04_block_ref_leads_to_the_targets_objects.
Print Assumptions C04_read_all_visits.
Print Assumptions C04_read_all_reports_bus_address_nonroot.
Print Assumptions C04_read_all_reports_bus_address_root.
Print Assumptions C04_relative_report_differs_from_bus_historical.
