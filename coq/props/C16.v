(* C16 — all four input syntaxes yield the same driver. *)
From Coq Require Import ZArith List Bool String.
From DD Require Import Common Mir GenErr Front FrontProofs.
Import ListNotations.
Open Scope Z_scope.
