(* C16 — all four input syntaxes yield the same driver.

   Modelled (Front.v): the two LOWERINGS — dsl_hir::mir_transform (lower_dsl, on the HIR the syn parser delivers)
   and manifest::transform (lower_manifest, on the value tree shared by JSON / YAML / TOML) — and the renderers
   to_dsl / to_manifest from an abstract definition [adef], whose nodes carry the STRUCTURAL spelling choices
   (DSL item order, a..b / a..=b, `command X = a` / `command X`, variant as bare value or map, null / absent value,
   TOML's `{}` for null).  Text parsing (syn, serde_json, yaml-rust2, toml; integer radices, RW/ReadWrite, boundary-name
   case, cfg token spacing) and descriptions are NOT modelled: tools/checks/c16.py ties them on every run.
   [lf] is convert_case's Boundary::list_from, external to and shared by both front ends.
   [adef_ok d] = "expressible in all four syntaxes": integers in the common ranges (i64 addresses/strides, u32
   sizes/bit positions, u64 counts and reset integers, i64 enum values, byte arrays), no variant called `name` /
   `description`, no top-level object called `config`, valid boundary names, and no single-address non-bool field
   (the one documented front-end specific class, C16_nonbool_single_is_dsl_specific). *)
From Coq Require Import ZArith List Bool String.
From DD Require Import Common Mir GenErr Layout Front FrontProofs FrontProofsM.
Import ListNotations.
Open Scope Z_scope.

(* FULL statement (the defaults hypothesis of the design is gone since commit df2c08c): for every abstract
   definition and every spelling, the DSL front end and the manifest front end produce the SAME MIR, or both reject;
   when both reject, the error classes coincide and are one of missing-address/size, ref of a buffer, ref of a ref,
   forbidden item on a ref override. *)
Theorem C16_front_ends_agree : forall lf toml d,
  adef_ok d = true ->
  (forall m, lower_dsl (to_dsl lf d) = ROk m <-> lower_manifest lf (to_manifest toml d) = ROk m) /\
  (forall e1 e2, lower_dsl (to_dsl lf d) = RErr e1 -> lower_manifest lf (to_manifest toml d) = RErr e2 ->
                 err_class e1 = err_class e2 /\ In (e_kind (err_class e1)) front_end_classes).
Proof.
  intros lf toml d H. destruct (agree_unpack _ _ (front_ends_agree lf toml d H)) as [A B]. split; [exact A|].
  intros e1 e2 H1 H2. split; [exact (B e1 e2 H1 H2)|].
  exact (rejection_classes lf toml d e1 H (or_introl H1)).
Qed.

(* both front ends compute the meaning [spec_device] of the definition, which never looks at a spelling field:
   re-spelling a definition changes nothing *)
Theorem C16_both_implement_the_meaning : forall lf toml d,
  adef_ok d = true ->
  class_of (lower_dsl (to_dsl lf d)) = class_of (spec_device lf d) /\
  class_of (lower_manifest lf (to_manifest toml d)) = class_of (spec_device lf d).
Proof. intros lf toml d H. split; [exact (dsl_half lf d (adef_ok_objects d H))|exact (manifest_half lf toml d H)]. Qed.

(* the rest of the pipeline is one function of the MIR (generation/src/lib.rs transform_mir): equal MIR gives the
   identical output; a rejection gives the same decision and class *)
Theorem C16_same_decision_and_output : forall (T : Type) (transform_mir : device -> T) lf toml d,
  adef_ok d = true ->
  finish transform_mir (lower_dsl (to_dsl lf d)) = finish transform_mir (lower_manifest lf (to_manifest toml d)).
Proof. exact same_decision_and_output. Qed.

(* every global default reaches registers / fields / buffers / bit order in BOTH front ends (what D5 violated) *)
Theorem C16_defaults_applied : forall lf toml d m,
  adef_ok d = true ->
  (lower_dsl (to_dsl lf d) = ROk m \/ lower_manifest lf (to_manifest toml d) = ROk m) ->
  spec_device lf d = ROk m /\
  let c := a_config d in let g := d_config m in
  g_default_register_access g = or_default (ac_default_register_access c) RW /\
  g_default_field_access g = or_default (ac_default_field_access c) RW /\
  g_default_buffer_access g = or_default (ac_default_buffer_access c) RW /\
  g_default_bit_order g = or_default (ac_default_bit_order c) BiLSB0 /\
  g_default_byte_order g = ac_default_byte_order c /\
  (forall h r reg, spec_register g h r = ROk reg ->
     rg_access reg = or_default (ar_access r) (g_default_register_access g) /\
     rg_bit_order reg = or_default (ar_bit_order r) (g_default_bit_order g) /\
     rg_fields reg = map (spec_field g) (ar_fields r)) /\
  (forall h k cmd, spec_command g h k = ROk cmd ->
     cm_bit_order cmd = or_default (ak_bit_order k) (g_default_bit_order g) /\
     cm_in_fields cmd = map (spec_field g) (or_default (ak_fields_in k) []) /\
     cm_out_fields cmd = map (spec_field g) (or_default (ak_fields_out k) [])) /\
  (forall h b buf, spec_buffer g h b = ROk buf ->
     bf_access buf = or_default (ab_access b) (g_default_buffer_access g)) /\
  (forall f, f_access (spec_field g f) = or_default (af_access f) (g_default_field_access g)).
Proof.
  intros lf toml d m Hok H. pose proof (front_end_mir_is_spec lf toml d m Hok H) as Hs. split; [exact Hs|].
  unfold spec_device in Hs.
  destruct (mapR (spec_object (spec_config lf (a_config d))) (a_objects d)); cbn in Hs; [|discriminate].
  inversion Hs; subst. cbn [d_config]. exact (spec_applies_defaults lf (a_config d) _ eq_refl).
Qed.

(* not vacuous: the lowering as it was BEFORE the fix (records initialised with Default::default()) differs from the
   DSL on a definition with default_register_access = RO — while the current lowering agrees on it *)
Theorem C16_defaults_ignored_would_differ :
  adef_ok d5_witness = true /\
  (exists m1 m2, lower_dsl (to_dsl no_lf d5_witness) = ROk m1 /\
                 lower_manifest_nodefaults no_lf (to_manifest false d5_witness) = ROk m2 /\ m1 <> m2) /\
  lower_manifest no_lf (to_manifest false d5_witness) = lower_dsl (to_dsl no_lf d5_witness).
Proof. exact defaults_ignored_would_differ. Qed.

(* the lowering's find_map takes the FIRST item of a kind; an item appended after it is ignored.  Manifests cannot
   express this (a map has one value per key) — and the DSL PARSER refuses a repeated item ("duplicate item found",
   dsl_hir/mod.rs err_if_contains; tied by stream D of the check), so such lists never reach the lowering. *)
Theorem C16_dsl_first_item_wins :
  (forall (A B : Type) (p : A -> option B) l1 i l2 v,
     find_map p l1 = None -> p i = Some v -> find_map p (l1 ++ i :: l2) = Some v) /\
  (forall g attrs name items fields a a',
     find_map pick_r_access items = Some a ->
     dsl_register g attrs name (items ++ [RIAccess a']) fields = dsl_register g attrs name items fields /\
     (forall r, dsl_register g attrs name items fields = ROk r -> rg_access r = a)).
Proof. split; [intros; apply find_map_first_wins; assumption|exact dsl_duplicate_access_ignored]. Qed.

(* the one front-end specific class: a non-bool field with a single address is an error of the DSL lowering; the
   manifest lowering delivers the empty range start..start (rejected later by bit_ranges_validated, see the Example) *)
Theorem C16_nonbool_single_is_dsl_specific : forall toml g f,
  field_ok f = true -> field_single_nonbool f = true ->
  dsl_field g (field_to_dsl f) = RErr (mk_err "dsl_nonbool_single" [af_name f]) /\
  (exists mf, m_field (g_default_field_access g) (field_to_m toml f) = ROk mf /\
              f_start mf = f_end mf /\ is_bool_base (f_base mf) = false).
Proof. exact nonbool_single_field. Qed.

(* ---- non-vacuity ---- *)

Definition ex_head (n : string) : ahead := {| h_cfg := None; h_doc := false; h_name := n |}.
Definition ex_field (n : string) (b : base_type) (s : Z) (e : option Z) (conv : option (aconv * bool)) (incl : bool) : afield :=
  {| af_cfg := None; af_name := n; af_access := None; af_base := b; af_conv := conv; af_start := s; af_end := e;
     af_incl := incl |}.
Definition ex_enum : aconv :=
  ACEnum "En" [{| av_cfg := None; av_name := "Va"; av_value := EVUnspec; av_map_form := false; av_omit_value := false |};
               {| av_cfg := Some "foo"; av_name := "Vb"; av_value := EVSpec 3; av_map_form := false; av_omit_value := false |};
               {| av_cfg := None; av_name := "Vc"; av_value := EVDefault; av_map_form := true; av_omit_value := true |}].
Definition ex_reg (addr : option Z) (fs : list afield) (order : list nat) : aregister :=
  {| ar_access := None; ar_byte_order := Some BoBE; ar_bit_order := None; ar_address := addr; ar_size_bits := Some 16;
     ar_reset := Some (RArr [0; 1]); ar_repeat := Some {| r_count := 2; r_stride := -4 |};
     ar_allow_bit_overlap := Some true; ar_allow_address_overlap := None; ar_fields := fs; ar_order := order |}.
Definition ex_cmd : acommand :=
  {| ak_byte_order := None; ak_bit_order := None; ak_address := Some 7; ak_size_in := None; ak_size_out := None;
     ak_repeat := None; ak_allow_bit_overlap := None; ak_allow_address_overlap := None; ak_fields_in := None;
     ak_fields_out := None; ak_order := []; ak_basic := true; ak_bare := false |}.
Definition ex_config : aconfig :=
  {| ac_default_register_access := Some RO; ac_default_field_access := Some WO; ac_default_buffer_access := Some RO;
     ac_default_byte_order := Some BoLE; ac_default_bit_order := Some BiMSB0; ac_register_address_type := Some II16;
     ac_command_address_type := Some IU8; ac_buffer_address_type := Some IU32;
     ac_name_word_boundaries := Some (NwbArray ["Underscore"; "Hyphen"]); ac_defmt_feature := Some "defmt" |}.
Definition ex_objects (addr : option Z) (e : option Z) : list aobject :=
  [ABlock (ex_head "Bl") (Some 100) (Some {| r_count := 3; r_stride := 16 |}) [1; 0]%nat
     [ARegister (ex_head "Ra") (ex_reg addr [ex_field "alpha" BUint 0 e (Some (ex_enum, true)) true;
                                             ex_field "beta" BBool 9 None None false] [8; 7; 6; 5; 4; 3; 2; 1; 0]%nat);
      ABuffer (ex_head "Ba") {| ab_access := None; ab_address := Some 3 |}];
   ACommand (ex_head "Ca") ex_cmd;
   ARef {| h_cfg := Some "foo"; h_doc := true; h_name := "Rr" |}
        (ARegister (ex_head "Ra") {| ar_access := Some WO; ar_byte_order := None; ar_bit_order := None;
                                     ar_address := Some 50; ar_size_bits := None; ar_reset := Some (RInt 5);
                                     ar_repeat := None; ar_allow_bit_overlap := None;
                                     ar_allow_address_overlap := Some true; ar_fields := []; ar_order := [2; 1]%nat |})].
Definition ex_def (addr e : option Z) : adef := {| a_config := ex_config; a_objects := ex_objects addr e |}.

(* a nested, fully featured definition is well formed, accepted by both front ends with the same 3-object MIR in
   which the defaults arrived (register RO, field WO, buffer RO, MSB0), for JSON/YAML and for TOML spellings *)
Example C16_accepted_example :
  adef_ok (ex_def (Some 4) (Some 8)) = true /\
  lower_dsl (to_dsl no_lf (ex_def (Some 4) (Some 8))) = lower_manifest no_lf (to_manifest false (ex_def (Some 4) (Some 8))) /\
  lower_dsl (to_dsl no_lf (ex_def (Some 4) (Some 8))) = lower_manifest no_lf (to_manifest true (ex_def (Some 4) (Some 8))) /\
  match lower_dsl (to_dsl no_lf (ex_def (Some 4) (Some 8))) with
  | ROk {| d_objects := [OBlock _ _ 100 _ [ORegister r; OBuffer b]; OCommand _; ORef (Some _) _ (OvRegister _ (Some WO) _ true _ _)] |} =>
      rg_access r = RO /\ rg_bit_order r = BiMSB0 /\ bf_access b = RO /\
      map f_access (rg_fields r) = [WO; WO] /\ map f_end (rg_fields r) = [8; 9]
  | _ => False
  end.
Proof. vm_compute. repeat split; reflexivity. Qed.

(* a rejected one: the register lacks its address — both reject, different messages, same class *)
Example C16_rejected_example :
  adef_ok (ex_def None (Some 8)) = true /\
  lower_dsl (to_dsl no_lf (ex_def None (Some 8))) = RErr (mk_err "dsl_missing" ["Register"; "Ra"; "address"]) /\
  lower_manifest no_lf (to_manifest false (ex_def None (Some 8))) = RErr (mk_err "manifest_missing" ["Register"; "address"]) /\
  err_class (mk_err "dsl_missing" ["Register"; "Ra"; "address"]) = err_class (mk_err "manifest_missing" ["Register"; "address"]).
Proof. vm_compute. repeat split; reflexivity. Qed.

(* the DSL-specific class end to end: single address on a uint field — not adef_ok, the DSL lowering rejects, the
   manifest lowering accepts and the layout pass (Layout.v, C11) rejects the empty field *)
Example C16_nonbool_single_example :
  adef_ok (ex_def (Some 4) None) = false /\
  lower_dsl (to_dsl no_lf (ex_def (Some 4) None)) = RErr (mk_err "dsl_nonbool_single" ["alpha"]) /\
  match lower_manifest no_lf (to_manifest false (ex_def (Some 4) None)) with
  | ROk m => exists e, layout_check m = Some e /\ e_kind e = "field_empty"%string
  | RErr _ => False
  end.
Proof. vm_compute. repeat split; try reflexivity. eexists; split; reflexivity. Qed.

Print Assumptions C16_front_ends_agree.
Print Assumptions C16_both_implement_the_meaning.
Print Assumptions C16_same_decision_and_output.
Print Assumptions C16_defaults_applied.
Print Assumptions C16_defaults_ignored_would_differ.
Print Assumptions C16_dsl_first_item_wins.
Print Assumptions C16_nonbool_single_is_dsl_specific.
