(* C07 — Generated enum conversions are total, invertible and never undefined. *)
From Coq Require Import ZArith List Bool String.
From DD Require Import Common Mir GenErr Enum EnumProofs.
From DD Require Carrier Bits BitsSpec BitsRoundtrip RawBridge.
Import ListNotations.
Open Scope string_scope.
Open Scope Z_scope.

(* Converting a raw number: the (first) variant with that number; else the catch-all variant carrying the raw
   value; else the default variant (which is also what `Default::default()` returns); else — only for enums
   with neither — the error carrying the raw value and the enum's name.  Catch-all wins over default.
   ([listed e raw] = some non-catch-all variant of the emitted enum has the number raw.) *)
Theorem C07_from_num_precedence : forall e raw,
  (listed e raw ->
     exists v, In v (ee_variants e) /\ ev_catch_all v = false /\ ev_num v = raw /\ from_num e raw = CVal (VUnit v)) /\
  (~ listed e raw -> (exists c, In c (ee_variants e) /\ ev_catch_all c = true) ->
     exists c, In c (ee_variants e) /\ ev_catch_all c = true /\ from_num e raw = CVal (VCatch c raw)) /\
  (~ listed e raw -> (forall c, In c (ee_variants e) -> ev_catch_all c = false) ->
     (exists d, In d (ee_variants e) /\ ev_default d = true) ->
     exists d, In d (ee_variants e) /\ ev_default d = true /\ from_num e raw = CVal (VUnit d) /\
               enum_default e = Some (VUnit d)) /\
  (~ listed e raw -> (forall c, In c (ee_variants e) -> ev_catch_all c = false) ->
     (forall d, In d (ee_variants e) -> ev_default d = false) ->
     from_num e raw = CErr raw (ee_name e)).
Proof. exact from_num_precedence. Qed.

(* An error is produced only by an enum with neither fallback, only for an unlisted number, and its payload
   is exactly {source: raw, target: the enum's name}. *)
Theorem C07_error_payload : forall e raw s t,
  from_num e raw = CErr s t ->
  s = raw /\ t = ee_name e /\ ~ listed e raw /\
  (forall v, In v (ee_variants e) -> ev_catch_all v = false /\ ev_default v = false).
Proof. exact from_num_err_payload. Qed.

(* Round trip.  For an enum accepted by the analysis, cfg-free, outside the D12 class (such enums are accepted
   by the generator today but rejected by rustc: two equal discriminants), and the enum emitted for it:
   every unit variant converts to its number and back to itself; a catch-all value converts back to itself
   whenever its payload is not the number of a listed variant (a hand-built CatchAll(n) with n listed is not in
   the image of from_num). *)
Theorem C07_roundtrip : forall obj fld w e use_try ee,
  enum_check obj fld w e use_try = VOk ->
  (forall v, In v (e_variants e) -> v_cfg v = None) -> ~ d12_class (e_variants e) ->
  ee_variants ee = emit_variants (e_variants e) ->
  (forall v, In v (ee_variants ee) -> ev_catch_all v = false ->
     from_num ee (to_num (VUnit v)) = CVal (VUnit v)) /\
  (forall c p, In c (ee_variants ee) -> ev_catch_all c = true -> ~ listed ee p ->
     from_num ee (to_num (VCatch c p)) = CVal (VCatch c p)).
Proof. exact roundtrip. Qed.

(* The infallible getter.  Whenever the generator chooses `unsafe { raw.try_into().unwrap_unchecked() }` for a
   field f of an accepted device — which it does (rule of 6916a8d) for a non-`try` conversion whose type name is
   that of at least one generated enum and EVERY generated enum of that name is analysed Infallible{bits} with
   width(f) <= bits, be it the enum's own field or ANOTHER field naming the enum (reuse) — the conversion succeeds for every bit pattern p of the field: the getter never
   reaches the unchecked unwrap of an Err (undefined behaviour).
   Here all cfg-gated items are treated as present (the build in which every cfg predicate holds); the statement
   for EVERY build is C07_infallible_getter_total_any_build below.  Fields of base `uint`, and `int` fields
   narrower than their carrier, need no further hypothesis (the loads never sign-extend, so the raw value is
   the bit pattern).  For an `int` field that fills its carrier (8, 16, ... bits) the raw value is negative when
   the top bit is set; there the hypothesis is what rustc enforces on the emitted code (deny-by-default lint
   overflowing_literals): every discriminant literal fits the signed carrier. *)
Theorem C07_infallible_getter_total : forall d f name p,
  enum_values_check d = VOk ->
  conv_choice (collect_enums d) f = CMUnsafeInto name ->
  0 <= p < 2 ^ field_width f ->
  (f_base f = BInt -> field_width f = carrier_bits (field_width f) ->
   forall ee v, resolve (emitted_enums d) name = Some ee -> In v (ee_variants ee) ->
                ev_num v <= 2 ^ (field_width f - 1) - 1) ->
  exists x, getter d f p = Ok x.
Proof. exact infallible_getter_total. Qed.

(* ---------------- instances ---------------- *)

Definition var (n : string) (x : enum_value) : variant := {| v_cfg := None; v_name := n; v_value := x |}.
Definition en (n : string) (vs : list variant) : enum_def := {| e_cfg := None; e_name := n; e_variants := vs; e_style := None |}.
Definition fld (n : string) (b : base_type) (s e : Z) (c : option conversion) : field :=
  {| f_cfg := None; f_name := n; f_access := RW; f_base := b; f_conv := c; f_start := s; f_end := e |}.
Definition reg (n : string) (a : Z) (fs : list field) : object :=
  ORegister {| rg_cfg := None; rg_name := n; rg_access := RW; rg_byte_order := Some BoLE; rg_bit_order := BiLSB0;
               rg_allow_bit_overlap := false; rg_allow_address_overlap := false; rg_address := a;
               rg_size_bits := 16; rg_reset := None; rg_repeat := None; rg_fields := fs |}.
Definition cfg0 : config :=
  {| g_default_register_access := RW; g_default_field_access := RW; g_default_buffer_access := RW;
     g_default_byte_order := None; g_default_bit_order := BiLSB0; g_register_address_type := Some IU8;
     g_command_address_type := None; g_buffer_address_type := None; g_boundaries := []; g_defmt_feature := None |}.
Definition dev (objs : list object) : device := {| d_config := cfg0; d_objects := objs |}.

(* E = {A, B, C, D} on a 2-bit field (total by coverage, so only TryFrom is emitted); reused by name on a
   1-bit field (UnsafeInto: 1 <= 2), on an equal 2-bit field (UnsafeInto), on a 3-bit field (plain Into, which
   rustc then rejects because no From exists — never the unchecked unwrap), and with `try` on a 3-bit field. *)
Definition e4 := en "E" [var "A" EVUnspec; var "B" EVUnspec; var "C" EVUnspec; var "D" EVUnspec].
Definition f_own := fld "own" BUint 0 2 (Some (ConvEnum e4 false)).
Definition f_narrow := fld "narrow" BUint 2 3 (Some (ConvDirect "E" false)).
Definition f_equal := fld "equal" BUint 3 5 (Some (ConvDirect "E" false)).
Definition f_wide := fld "wide" BUint 5 8 (Some (ConvDirect "E" false)).
Definition f_try := fld "tried" BUint 8 11 (Some (ConvDirect "E" true)).
Definition d_reuse := dev [OBlock None "B" 0 None [reg "Ra" 0 [f_own]]; reg "Rb" 1 [f_narrow; f_equal; f_wide; f_try]].

Example C07_reuse_example :
  enum_values_check d_reuse = VOk /\
  conv_choice (collect_enums d_reuse) f_own = CMUnsafeInto "E" /\
  conv_choice (collect_enums d_reuse) f_narrow = CMUnsafeInto "E" /\
  conv_choice (collect_enums d_reuse) f_equal = CMUnsafeInto "E" /\
  conv_choice (collect_enums d_reuse) f_wide = CMInto "E" /\
  conv_choice (collect_enums d_reuse) f_try = CMTryInto "E" /\
  map (fun p => token_of_getter p (getter d_reuse f_equal p)) [0; 1; 2; 3] = [TUnit "A"; TUnit "B"; TUnit "C"; TUnit "D"] /\
  map (fun p => token_of_getter p (getter d_reuse f_narrow p)) [0; 1] = [TUnit "A"; TUnit "B"] /\
  map (fun p => token_of_getter p (getter d_reuse f_try p)) [3; 4; 7] = [TUnit "D"; TErrRaw "E"; TErrRaw "E"] /\
  getter d_reuse f_wide 5 = Fail NoFromImpl.
Proof. vm_compute. repeat split. Qed.

(* precedence: number listed -> that variant; catch-all before default; default only; neither -> error payload *)
Definition ee_of (vs : list variant) : eenum := transform_enum (en "E" vs) BUint 3.
Example C07_precedence_examples :
  let both := ee_of [var "A" (EVSpec 1); var "Dft" EVDefault; var "Rest" EVCatchAll] in
  let dflt := ee_of [var "A" (EVSpec 1); var "Dft" EVDefault] in
  let none := ee_of [var "A" (EVSpec 1); var "B" (EVSpec 5)] in
  map (fun r => token_of_conv r (from_num both r)) [1; 2; 3; 7] = [TUnit "A"; TUnit "Dft"; TCatchRaw "Rest"; TCatchRaw "Rest"] /\
  from_num both 0 = CVal (VCatch {| ev_name := "Rest"; ev_cfg := None; ev_num := 3; ev_default := false; ev_catch_all := true |} 0) /\
  map (fun r => token_of_conv r (from_num dflt r)) [0; 1; 2; 7] = [TUnit "Dft"; TUnit "A"; TUnit "Dft"; TUnit "Dft"] /\
  map (fun r => from_num none r) [0; 7] = [CErr 0 "E"; CErr 7 "E"] /\
  map (fun r => token_of_conv r (from_num none r)) [1; 5] = [TUnit "A"; TUnit "B"] /\
  ee_fallible both = false /\ ee_fallible dflt = false /\ ee_fallible none = true.
Proof. vm_compute. repeat split. Qed.

(* the hypotheses of C07_roundtrip are satisfiable (implicit + explicit numbering, default and catch-all) *)
Example C07_roundtrip_nonvacuous :
  let e := en "E" [var "A" (EVSpec 4); var "B" EVUnspec; var "Dft" EVDefault; var "Rest" EVCatchAll; var "Z" (EVSpec 0)] in
  enum_check "R" "f" 3 e false = VOk /\ (forall v, In v (e_variants e) -> v_cfg v = None) /\ ~ d12_class (e_variants e) /\
  show_roundtrip (transform_enum e BUint 3) = "A->A,B->B,Dft->Dft,Rest->-,Z->Z".
Proof.
  cbv zeta. split; [reflexivity|]. split; [|split; [|reflexivity]].
  - intros v Hv. cbn in Hv. repeat (destruct Hv as [<-|Hv]; [reflexivity|]). contradiction.
  - intros H. apply d12_class_reflect in H. vm_compute in H. discriminate.
Qed.

(* ... and the D12 hypothesis is needed: on {A = 1, B = 1} (accepted today) B converts back to A *)
Example C07_roundtrip_needs_distinct_numbers :
  let e := en "E" [var "A" (EVSpec 1); var "B" (EVSpec 1)] in
  enum_check "R" "f" 2 e true = VOk /\ show_roundtrip (transform_enum e BUint 2) = "A->A,B->A".
Proof. vm_compute. split; reflexivity. Qed.

(* `int` fields.  Narrower than the carrier: the raw value is the bit pattern, total like uint.  At full carrier
   width the analysis counts patterns 0..255 while the getter sees -128..127: an enum listing 0..255 is accepted
   and gets the unchecked getter, and in the mathematical reading of the literals pattern 255 (raw -1) has no
   arm.  So the literal guard of C07_infallible_getter_total cannot be dropped in the model.  This is not
   reachable undefined behaviour: rustc refuses the emitted code (`literal out of range for i8`, checked by
   ./check C07), and with that lint allowed the literals wrap and the match is total again. *)
Definition names256 : list variant :=
  map (fun i => var ("V" ++ show_Z (Z.of_nat i)) EVUnspec) (seq 0 256).
Definition f_int8 := fld "s" BInt 0 8 (Some (ConvEnum (en "S" names256) false)).
Definition d_int8 := dev [reg "Ra" 0 [f_int8]].
Definition f_int4 := fld "s" BInt 0 4 (Some (ConvEnum (en "S" (firstn 16 names256)) false)).
Definition d_int4 := dev [reg "Ra" 0 [f_int4]].

Theorem C07_int_full_width_guard_necessary :
  exists d f name p,
    enum_values_check d = VOk /\ conv_choice (collect_enums d) f = CMUnsafeInto name /\
    0 <= p < 2 ^ field_width f /\ f_base f = BInt /\ getter d f p = Fail UB_unwrap_unchecked.
Proof. exists d_int8, f_int8, "S", 255. vm_compute. repeat split; discriminate. Qed.

Example C07_int_examples :
  enum_values_check d_int4 = VOk /\ conv_choice (collect_enums d_int4) f_int4 = CMUnsafeInto "S" /\
  forallb (fun p => is_ok (getter d_int4 f_int4 p)) (map Z.of_nat (seq 0 16)) = true /\
  raw_of_pattern BInt 4 15 = 15 /\ raw_of_pattern BInt 8 255 = -1 /\ raw_of_pattern BInt 8 127 = 127 /\
  raw_of_pattern BUint 8 255 = 255 /\ carrier_bits 4 = 8 /\ carrier_bits 9 = 16 /\ carrier_bits 16 = 16.
Proof. vm_compute. repeat split. Qed.


(* ---------------- builds (cfg gates) ---------------- *)

(* FULL STATEMENT, every build (true since 6916a8d, the repair of D18).  [env] decides every cfg predicate; the
   build contains exactly the generated enums whose object and field are switched on; the conversion-method choice
   is made once, cfg-blind, over ALL generated enums of the name (collect_enums d).  If it is the unchecked
   conversion, the getter of f is defined for every bit pattern in EVERY build: whichever same-named enum the
   name resolves to in that build is one of the enums the rule quantified over.  No cfg_free hypothesis.
   The side condition is the one of C07_infallible_getter_total (rustc's literal check for an `int` field that
   fills its carrier), asked only of the enum present in that build.
   (When the build contains NO enum of that name the model's getter is [GPlain] — "a type the model knows
   nothing about", as for user types; such a build does not compile, so nothing runs.) *)
Theorem C07_infallible_getter_total_any_build : forall env d f name p,
  enum_values_check d = VOk ->
  conv_choice (collect_enums d) f = CMUnsafeInto name ->
  0 <= p < 2 ^ field_width f ->
  (f_base f = BInt -> field_width f = carrier_bits (field_width f) ->
   forall ee v, resolve (emitted_enums_env env d) name = Some ee -> In v (ee_variants ee) ->
                ev_num v <= 2 ^ (field_width f - 1) - 1) ->
  exists x, getter_env env d f p = Ok x.
Proof. exact infallible_getter_total_any_build. Qed.

(* the same under the verdict of the enum pass as it is now (it accepts less: C15_repaired_accepts_less) *)
Theorem C07_infallible_getter_total_any_build_current_pass : forall env d f name p,
  enum_values_check_repaired d = VOk ->
  conv_choice (collect_enums d) f = CMUnsafeInto name ->
  0 <= p < 2 ^ field_width f ->
  (f_base f = BInt -> field_width f = carrier_bits (field_width f) ->
   forall ee v, resolve (emitted_enums_env env d) name = Some ee -> In v (ee_variants ee) ->
                ev_num v <= 2 ^ (field_width f - 1) - 1) ->
  exists x, getter_env env d f p = Ok x.
Proof. exact infallible_getter_total_any_build_repaired. Qed.

(* Corollary (this was the strongest true statement before 6916a8d): when no object or field carrying a generated
   enum is cfg-gated, every build contains every enum and the infallible getter is total in every build. *)
Theorem C07_infallible_getter_total_partial : forall env d f name p,
  cfg_free d ->
  enum_values_check d = VOk ->
  conv_choice (collect_enums d) f = CMUnsafeInto name ->
  0 <= p < 2 ^ field_width f ->
  (f_base f = BInt -> field_width f = carrier_bits (field_width f) ->
   forall ee v, resolve (emitted_enums d) name = Some ee -> In v (ee_variants ee) ->
                ev_num v <= 2 ^ (field_width f - 1) - 1) ->
  exists x, getter_env env d f p = Ok x.
Proof. exact infallible_getter_total_cfg_free. Qed.

(* HISTORICAL — defect D18 (found by this check; see notes/C07-C15.md), repaired by 6916a8d.  names_unique keys
   generated enums on (name, cfg), so two enums of the same name under different cfgs are accepted; the
   conversion-method choice of before 6916a8d ([conv_choice_first_hit]) looked the reused name up by NAME ONLY and
   took the first hit.  Witness:
       #[cfg(feature = "a")]      register Ra { xx: uint as     enum En { Aa, Bb, Cc, Dd } = 0..2 }
       #[cfg(not(feature = "a"))] register Rb { yy: uint as try enum En { Aa }             = 0..2 }
                                  register Rc { zz: uint as En                              = 0..2 }
   zz got the unchecked getter because the FIRST En is Infallible{2}; in the build without feature "a" the
   only En is the one-variant TryFrom enum, and zz() on the bit pattern 1 unwrapped an Err unchecked.
   The statement below is about the OLD rule only; under the current rule it is C07_cfg_examples that holds. *)
Definition cfg_a : string := "feature = ""a""".
Definition cfg_not_a : string := "not(feature = ""a"")".
Definition regc (c : cfg) (n : string) (a : Z) (fs : list field) : object :=
  ORegister {| rg_cfg := c; rg_name := n; rg_access := RW; rg_byte_order := Some BoLE; rg_bit_order := BiLSB0;
               rg_allow_bit_overlap := false; rg_allow_address_overlap := false; rg_address := a;
               rg_size_bits := 8; rg_reset := None; rg_repeat := None; rg_fields := fs |}.
Definition f_zz := fld "zz" BUint 0 2 (Some (ConvDirect "En" false)).
Definition d_cfg := dev
  [ regc (Some cfg_a) "Ra" 0 [fld "xx" BUint 0 2 (Some (ConvEnum (en "En" [var "Aa" EVUnspec; var "Bb" EVUnspec; var "Cc" EVUnspec; var "Dd" EVUnspec]) false))];
    regc (Some cfg_not_a) "Rb" 1 [fld "yy" BUint 0 2 (Some (ConvEnum (en "En" [var "Aa" EVUnspec]) true))];
    regc None "Rc" 2 [f_zz] ].
Definition build_without_a : cfg_env := fun c => String.eqb c cfg_not_a.
Definition build_with_a : cfg_env := fun c => String.eqb c cfg_a.

Theorem C07_cfg_reuse_refuted :
  exists env d f name p,
    enum_values_check d = VOk /\ conv_choice_first_hit (collect_enums d) f = CMUnsafeInto name /\
    0 <= p < 2 ^ field_width f /\ f_base f = BUint /\
    getter_env_first_hit env d f p = Fail UB_unwrap_unchecked.
Proof. exists build_without_a, d_cfg, f_zz, "En", 1. vm_compute. repeat split; discriminate. Qed.

(* a cfg-gated family in which the unchecked conversion IS chosen (both same-named enums are Infallible{2}: one by
   coverage, one by a catch-all), and a narrower one (the second En is Infallible{1} only: plain Into) *)
Definition d_cfg_both := dev
  [ regc (Some cfg_a) "Ra" 0 [fld "xx" BUint 0 2 (Some (ConvEnum (en "En" [var "Aa" EVUnspec; var "Bb" EVUnspec; var "Cc" EVUnspec; var "Dd" EVUnspec]) false))];
    regc (Some cfg_not_a) "Rb" 1 [fld "yy" BUint 0 2 (Some (ConvEnum (en "En" [var "Aa" EVUnspec; var "Rest" EVCatchAll]) false))];
    regc None "Rc" 2 [f_zz] ].
Definition d_cfg_narrow := dev
  [ regc (Some cfg_a) "Ra" 0 [fld "xx" BUint 0 2 (Some (ConvEnum (en "En" [var "Aa" EVUnspec; var "Bb" EVUnspec; var "Cc" EVUnspec; var "Dd" EVUnspec]) false))];
    regc (Some cfg_not_a) "Rb" 1 [fld "yy" BUint 0 1 (Some (ConvEnum (en "En" [var "Aa" EVUnspec; var "Rest" EVCatchAll]) false))];
    regc None "Rc" 2 [f_zz] ].

Example C07_cfg_examples :
  cfg_free d_reuse /\
  (* the D18 witness is accepted by both models of the enum pass; it is not cfg-free *)
  enum_values_check d_cfg = VOk /\ enum_values_check_repaired d_cfg = VOk /\
  (* CURRENT rule: zz converts with plain Into (not every En is infallible) ... *)
  conv_choice (collect_enums d_cfg) f_zz = CMInto "En" /\
  (* ... so in the build without feature "a" the getter does not compile (the only En has no From) — never UB *)
  map (fun p => getter_env build_without_a d_cfg f_zz p) [0; 1; 2; 3] =
    [Fail NoFromImpl; Fail NoFromImpl; Fail NoFromImpl; Fail NoFromImpl] /\
  map (fun p => token_of_getter p (getter_env build_without_a d_cfg f_zz p)) [0; 1; 2; 3] = [TNoCompile; TNoCompile; TNoCompile; TNoCompile] /\
  (* (with feature "a" the only En is total by coverage, TryFrom only: Into does not compile there either) *)
  map (fun p => token_of_getter p (getter_env build_with_a d_cfg f_zz p)) [0; 1; 2; 3] = [TNoCompile; TNoCompile; TNoCompile; TNoCompile] /\
  (* OLD rule: unchecked conversion, fine with feature "a", UB on patterns 1..3 without *)
  conv_choice_first_hit (collect_enums d_cfg) f_zz = CMUnsafeInto "En" /\
  forallb (fun p => is_ok (getter_env_first_hit build_with_a d_cfg f_zz p)) [0; 1; 2; 3] = true /\
  map (fun p => token_of_getter p (getter_env_first_hit build_without_a d_cfg f_zz p)) [0; 1; 2; 3] = [TUnit "Aa"; TUB; TUB; TUB] /\
  (* hypotheses of C07_infallible_getter_total_any_build met on a cfg-GATED definition, in both builds *)
  enum_values_check d_cfg_both = VOk /\ conv_choice (collect_enums d_cfg_both) f_zz = CMUnsafeInto "En" /\
  map (fun p => token_of_getter p (getter_env build_with_a d_cfg_both f_zz p)) [0; 1; 2; 3] = [TUnit "Aa"; TUnit "Bb"; TUnit "Cc"; TUnit "Dd"] /\
  map (fun p => token_of_getter p (getter_env build_without_a d_cfg_both f_zz p)) [0; 1; 2; 3] = [TUnit "Aa"; TCatchRaw "Rest"; TCatchRaw "Rest"; TCatchRaw "Rest"] /\
  (* one same-named enum Infallible for a narrower width only: Into (it has From: fine without "a", no From with "a") *)
  conv_choice (collect_enums d_cfg_narrow) f_zz = CMInto "En" /\
  conv_choice_first_hit (collect_enums d_cfg_narrow) f_zz = CMUnsafeInto "En" /\
  map (fun p => token_of_getter p (getter_env build_without_a d_cfg_narrow f_zz p)) [0; 3] = [TUnit "Aa"; TCatchRaw "Rest"] /\
  map (fun p => token_of_getter p (getter_env build_with_a d_cfg_narrow f_zz p)) [0; 3] = [TNoCompile; TNoCompile].
Proof.
  split; [|vm_compute; repeat split].
  intros s Hs c Hc. vm_compute in Hs.
  destruct Hs as [<-|[]]. cbn in Hc. destruct Hc as [<-|[<-|[]]]; reflexivity.
Qed.

(* ---------------- tie to the bit operations (RawBridge.v) ----------------
   `raw_of_pattern` above is the enum model's account of what a getter hands to the conversion.  It is not an
   assumption: for every byte/bit order, every buffer and every in-bounds range, the model of `ops::load_*`
   (Bits.v, tied to device-driver/src/ops.rs by the exhaustive correspondence of C01) through the carrier the
   generator chooses (carrier_bits w wide, signed iff the base type is `int`) returns exactly
   raw_of_pattern base w p for the field's bit pattern p, and 0 <= p < 2^w — the range
   C07_infallible_getter_total quantifies over. *)
Theorem C07_loaded_raw_is_a_pattern : forall ptrw bo bito c data s e (b : base_type),
  BitsRoundtrip.guard ptrw c data s e ->
  bits (Carrier.cty_ity ptrw c) = carrier_bits (e - s) ->
  signed (Carrier.cty_ity ptrw c) = (match b with BInt => true | _ => false end) ->
  let p := BitsSpec.spec_load bo bito data s e in
  0 <= p < 2 ^ (e - s) /\
  Bits.load ptrw bo bito c data s e = Some (Ok (raw_of_pattern b (e - s) p)).
Proof. exact RawBridge.loaded_raw_is_pattern. Qed.

(* an i8 field filling its carrier reads 0xFF as -1; a 4-bit int field on the same carrier reads 0xF as 15 *)
Example C07_loaded_raw_instances :
  Bits.load 64 Bits.LE Bits.LSB0 Carrier.I8 [0xFF] 0 8 = Some (Ok (raw_of_pattern BInt 8 255)) /\
  raw_of_pattern BInt 8 255 = -1 /\
  Bits.load 64 Bits.LE Bits.LSB0 Carrier.I8 [0xFF] 0 4 = Some (Ok (raw_of_pattern BInt 4 15)) /\
  raw_of_pattern BInt 4 15 = 15 /\
  BitsRoundtrip.guard 64 Carrier.I8 [0xFF] 0 4 /\ bits (Carrier.cty_ity 64 Carrier.I8) = carrier_bits (4 - 0).
Proof.
  split; [vm_compute; reflexivity|]. split; [vm_compute; reflexivity|].
  split; [vm_compute; reflexivity|]. split; [vm_compute; reflexivity|].
  split; [apply BitsRoundtrip.guardb_sound; vm_compute; reflexivity|vm_compute; reflexivity].
Qed.

Print Assumptions C07_from_num_precedence.
Print Assumptions C07_error_payload.
Print Assumptions C07_roundtrip.
Print Assumptions C07_infallible_getter_total.
Print Assumptions C07_int_full_width_guard_necessary.
Print Assumptions C07_cfg_reuse_refuted.
Print Assumptions C07_infallible_getter_total_partial.
Print Assumptions C07_infallible_getter_total_any_build.
Print Assumptions C07_infallible_getter_total_any_build_current_pass.
Print Assumptions C07_loaded_raw_is_a_pattern.
