(* C14 — Name and reference validation accepts exactly resolvable, collision-free input. *)
From Coq Require Import ZArith List Bool String Ascii.
From DD Require Import Common Mir GenErr Case Names NamesProofs.
Import ListNotations.
Open Scope string_scope.

(* ---------------------------------------------------------------------------------------------
   1. Accept / reject.  name_ref_check = names_normalized ; names_unique ; refs_validated (the MIR
      passes that decide about names and references, composed as the pipeline composes them).
      For cfg-free definitions it rejects exactly when, with P / S the Pascal / snake normalisation
      under the definition's word boundaries (Case.v):
        two objects anywhere in the tree (pre-order list, any depths) have the same P(name)
      \/ two fields of one field set have the same S(name)
      \/ two variants of one generated enum have the same P(name)
      \/ two generated enums anywhere in the device have the same P(name)
      \/ some ref has no object OF THE OVERRIDE'S KIND whose P(name) equals P(target)
         (missing target, target of another kind, target that is a buffer or a ref)
      [the five NAMING reasons of the property text: C14_spec_reject_names]
      \/ some block ref r is a direct child of a block p and its target t instantiates p in zero or more steps,
         where a block instantiates its direct sub blocks and the targets of its direct block refs (names compared
         through P): the ref lies inside the block it refers to, directly or through sub blocks / other block
         refs [C14_spec_recursive_ref].  This last clause is a STRUCTURAL reason, not one of the naming reasons the
         property text lists: such a definition describes an infinitely deep device and was D11 (accepted, then
         stack overflow) until /repo df1ac90 made refs_validated end with ensure_no_recursive_block_refs.
      Identity in the code is (name, cfg) — note (ii) of DESIGN.md section 6 — hence "cfg-free". *)
Theorem C14_accept_iff : forall d, cfg_free d ->
  (name_ref_check d = false <-> C14_spec_reject_names d \/ C14_spec_recursive_ref d).
Proof. exact accept_iff. Qed.

(* HISTORICAL (refs_validated before /repo df1ac90): the naming reasons alone *)
Theorem C14_accept_iff_before_d11_repair : forall d, cfg_free d ->
  (name_ref_check_before_d11_repair d = false <-> C14_spec_reject_names d).
Proof. exact accept_iff_before_d11_repair. Qed.

(* the current validation only rejects more *)
Theorem C14_repair_only_rejects_more : forall d,
  name_ref_check d = true -> name_ref_check_before_d11_repair d = true.
Proof. exact name_ref_check_weaker. Qed.

(* ---------------------------------------------------------------------------------------------
   1b. ensure_no_recursive_block_refs (model: recursive_block_refs = a stack-based walk with fuel over the
       "instantiates" edges, one walk per block ref that has an enclosing block, first hit reported).
       recursive_block_ref dev is written from the description of the repair, without the worklist:
         exists a block ref r, direct child of a block p, target t, with  t instantiates* p. *)
(* the fuel of the walk (number of edges + 2) never runs out *)
Theorem C14_recursive_check_total : forall d, exists v, recursive_block_refs d = Ok v.
Proof. exact recursive_check_total. Qed.

(* rejects with ref_recursive iff the specification holds *)
Theorem C14_recursive_check_iff : forall d,
  (exists r t, recursive_block_refs d = Ok (Some (mk_err "ref_recursive" [r; t]))) <-> recursive_block_ref (d_objects d).
Proof. exact recursive_check_iff. Qed.

Theorem C14_recursive_check_accepts_iff : forall d,
  recursive_block_refs d = Ok None <-> ~ recursive_block_ref (d_objects d).
Proof. exact recursive_check_none. Qed.

(* the names in the message are those of a recursive site: ref r in block p with target t, t instantiates* p *)
Theorem C14_recursive_check_reports_a_site : forall d e, recursive_block_refs d = Ok (Some e) ->
  exists r p t, e = mk_err "ref_recursive" [r; t] /\ recursive_site (preorder_objects (d_objects d)) r p t.
Proof. exact recursive_check_some. Qed.

(* the specification on the tree the user wrote (names through P) = recursive_block_ref of the normalised tree *)
Theorem C14_recursive_spec_normalised : forall d,
  C14_spec_recursive_ref d <-> recursive_block_ref (d_objects (names_normalized d)).
Proof. exact spec_recursive_norm. Qed.

(* ---------------------------------------------------------------------------------------------
   2. Resolution.  search_object is a depth-first search returning the first match in pre-order;
      when names are unique it returns the object declared under the name, at any depth/position. *)
Theorem C14_search_is_first_preorder_match : forall name objs,
  search_object name objs = find (fun x => String.eqb (object_name x) name) (preorder_objects objs).
Proof. exact search_object_find. Qed.

Theorem C14_search_finds_declared : forall objs o,
  NoDup (map object_name (preorder_objects objs)) ->
  In o (preorder_objects objs) ->
  search_object (object_name o) objs = Some o.
Proof. exact search_finds_declared. Qed.

(* an accepted (cfg-free) definition: every ref resolves — through search_object, as the later passes
   and the lowering do it — to the object of the tree that carries the target's normalised name,
   and that object has the override's kind *)
Theorem C14_accepted_refs_resolve : forall d, cfg_free d -> name_ref_check d = true ->
  forall c n ov, In (ORef c n ov) (preorder_objects (d_objects (names_normalized d))) ->
  exists o, search_object (override_target ov) (d_objects (names_normalized d)) = Some o /\
            In o (preorder_objects (d_objects (names_normalized d))) /\
            object_kind o = override_kind ov /\ object_name o = override_target ov.
Proof. exact accepted_refs_resolve. Qed.

(* ---------------------------------------------------------------------------------------------
   3. Expansion of block refs (get_method / lower: lir_transform::get_method as it was before /repo 7e1bb11,
      re-entering collect_into_blocks for the target of a block ref; the LIR pass addresses_non_overlapping
      still expands blocks by name in this way) with fuel.  When every ref resolves, some fuel
      suffices iff the relation "block a contains, at any depth, a block ref to t" admits a rank
      that strictly decreases along it (= has no cycle); on a cycle NO fuel suffices.  The real code
      has no bound: this was D11.  Since /repo df1ac90 an ACCEPTED definition is acyclic
      (C14_accepted_is_acyclic), so its expansion terminates (C14_accepted_expansion_terminates); since
      7e1bb11 the lowering itself (get_method_accessor) does not expand block refs at all. *)
Theorem C14_lowering_terminates_iff_acyclic : forall dev,
  refs_resolve dev -> (lowering_terminates dev <-> acyclic dev).
Proof. exact lowering_terminates_iff_acyclic. Qed.

Theorem C14_accepted_lowering_iff_acyclic : forall d, cfg_free d -> name_ref_check d = true ->
  (lowering_terminates (d_objects (names_normalized d)) <-> acyclic (d_objects (names_normalized d))).
Proof. exact accepted_lowering_iff_acyclic. Qed.

Theorem C14_cycle_diverges : forall dev, refs_resolve dev -> cyclic dev ->
  forall fuel root, lower fuel root dev = Fail OutOfFuel.
Proof. exact cycle_diverges. Qed.

(* a rank exists iff there is no cycle (finite carrier: pigeonhole over the object names) *)
Theorem C14_acyclic_iff_no_cycle : forall dev, acyclic dev <-> ~ cyclic dev.
Proof. exact acyclic_iff_no_cycle. Qed.

(* a cycle of the nesting relation contains a recursive block ref in the sense of the repaired pass *)
Theorem C14_cycle_is_recursive_ref : forall dev, cyclic dev -> recursive_block_ref dev.
Proof. exact cyclic_is_recursive. Qed.

(* KEY (after the repair of D11): whatever the name / reference validation accepts is acyclic ... *)
Theorem C14_accepted_is_acyclic : forall d,
  name_ref_check d = true -> acyclic (d_objects (names_normalized d)).
Proof. exact accepted_is_acyclic. Qed.

(* ... hence the expansion of its block refs terminates: "every accepted definition can be lowered" *)
Theorem C14_accepted_expansion_terminates : forall d, cfg_free d -> name_ref_check d = true ->
  lowering_terminates (d_objects (names_normalized d)).
Proof. exact accepted_expansion_terminates. Qed.

Definition ex_cfg : config :=
  {| g_default_register_access := RW; g_default_field_access := RW; g_default_buffer_access := RW;
     g_default_byte_order := None; g_default_bit_order := BiLSB0; g_register_address_type := Some IU8;
     g_command_address_type := Some IU8; g_buffer_address_type := Some IU8;
     g_boundaries := ["Underscore"; "Hyphen"; "Space"; "LowerUpper"; "UpperDigit"; "DigitUpper"; "DigitLower";
                      "LowerDigit"; "Acronym"];
     g_defmt_feature := None |}.
Definition dev (objs : list object) : device := {| d_config := ex_cfg; d_objects := objs |}.

(* HISTORICAL — D11, about the validation as it was BEFORE /repo df1ac90 (name_ref_check_before_d11_repair):
   `block A { ref B = block A { const ADDRESS_OFFSET = 1; } }` passed every name / reference check and the
   device-name test, and its expansion exhausts every fuel.  This refuted "every accepted definition can be
   lowered" for the unrepaired generator.  For the current validation the statement is TRUE:
   C14_accepted_expansion_terminates; the witness is now rejected (C14_d11_witness_now_rejected). *)
Theorem C14_self_ref_refuted :
  exists d, cfg_free d /\ name_ref_check_before_d11_repair d = true /\ device_name_check "Dev" = None /\
            forall fuel root, lower fuel root (d_objects (names_normalized d)) = Fail OutOfFuel.
Proof.
  exists (dev d11_objects). split; [|split; [|split]].
  - unfold cfg_free. vm_compute. repeat constructor.
  - vm_compute. reflexivity.
  - vm_compute. reflexivity.
  - intros fuel root.
    change (d_objects (names_normalized (dev d11_objects))) with (map (norm_object (dev_boundaries (dev d11_objects))) d11_objects).
    replace (map (norm_object (dev_boundaries (dev d11_objects))) d11_objects) with d11_objects by (vm_compute; reflexivity).
    apply d11_lower_diverges.
Qed.

(* ---------------------------------------------------------------------------------------------
   4. Front-end rejections (they happen before a MIR exists; stated over the abstract shape of what is
      written after `ref X =` / under "override"): accepted iff the override names a block / register /
      command and carries nothing but overridable, non-layout properties. *)
Theorem C14_front_dsl_iff : forall ref_name s, front_dsl ref_name s = None <-> shape_ok_dsl s.
Proof. exact front_dsl_spec. Qed.

Theorem C14_front_manifest_iff : forall s, front_manifest s = None <-> shape_ok_manifest s.
Proof. exact front_manifest_spec. Qed.

(* ---------------------------------------------------------------------------------------------
   5. Naming (Case.v = ASCII model of convert_case 0.6). *)

(* the lenient PascalCase test accepts exactly the names equal to their own conversion *)
Theorem C14_device_name_check : forall n, device_name_check n = None <-> lenient_pascal n = n.
Proof. exact device_name_check_spec. Qed.

(* snake_case with the DEFAULT boundaries (accessor methods, new_as_<ref>) is idempotent, for every string *)
Theorem C14_snake_idempotent : forall s, to_snake_default (to_snake_default s) = to_snake_default s.
Proof. exact snake_default_idempotent. Qed.

(* PascalCase is NOT idempotent, not even with the default boundaries: aB -> AB -> Ab *)
Theorem C14_pascal_idempotent_refuted :
  exists s, to_pascal_default (to_pascal_default s) <> to_pascal_default s.
Proof. exists "aB". vm_compute. discriminate. Qed.

(* strongest general statement proved: under ANY boundaries a name without configured delimiter
   characters whose words (as split) are already capitalised is a fixed point *)
Theorem C14_pascal_idempotent_partial : forall bs s,
  Forall (fun c => any_one bs c = false) (la s) ->
  Forall (fun w => word_capital w = w) (split bs (la s)) ->
  to_pascal bs s = s.
Proof. exact pascal_fixed. Qed.

(* note (vi) of DESIGN.md: method names are snake_default(Pascal name); that map is not injective on
   normalised names, so two objects that names_unique keeps apart can get the same accessor name *)
Theorem C14_method_names_not_injective :
  exists a b, to_pascal_default a <> to_pascal_default b /\
              to_snake_default (to_pascal_default a) = to_snake_default (to_pascal_default b).
Proof. exists "aB1c", "ab1c". vm_compute. split; [discriminate|reflexivity]. Qed.

(* ---------------------------------------------------------------------------------------------
   Non-vacuity. *)
Definition reg (n : string) (fs : list field) : object :=
  ORegister {| rg_cfg := None; rg_name := n; rg_access := RW; rg_byte_order := None; rg_bit_order := BiLSB0;
               rg_allow_bit_overlap := false; rg_allow_address_overlap := false; rg_address := 0%Z;
               rg_size_bits := 8%Z; rg_reset := None; rg_repeat := None; rg_fields := fs |}.
Definition fld (n : string) (cv : option conversion) : field :=
  {| f_cfg := None; f_name := n; f_access := RW; f_base := BUint; f_conv := cv; f_start := 0%Z; f_end := 2%Z |}.
Definition enm (n : string) (vs : list string) : option conversion :=
  Some (ConvEnum {| e_cfg := None; e_name := n;
                    e_variants := map (fun v => {| v_cfg := None; v_name := v; v_value := EVUnspec |}) vs;
                    e_style := None |} true).
Definition blk (n : string) (objs : list object) : object := OBlock None n 0%Z None objs.
Definition rref (n t : string) : object := ORef None n (OvRegister t None (Some 9%Z) false None None).
Definition bref (n t : string) : object := ORef None n (OvBlock t (Some 100%Z) None).
Definition buf (n : string) : object := OBuffer {| bf_cfg := None; bf_name := n; bf_access := RW; bf_address := 3%Z |}.

(* accepted: a ref placed BEFORE and ABOVE its target, target two blocks deep, spelled differently *)
Example C14_accepts_deep_later_target :
  let d := dev [rref "alias" "MY-REG"; blk "outer" [blk "inner" [reg "my_reg" [fld "a_b" (enm "kind" ["on"; "off"])]]]] in
  cfg_free d /\ name_ref_check d = true /\
  c14_result_repaired "Dev" d = "ok:Dev(alias>MyReg,outer>Outer) Outer(inner>Inner) Inner(my_reg>MyReg)".
Proof. vm_compute. split; [repeat constructor|split; reflexivity]. Qed.

(* each rejection class of the theorem, produced by spellings that collide only after normalisation; the CURRENT
   pipeline (c14_result_repaired: refs_validated first and ending with the recursion check, block refs lowered to an
   accessor only) *)
Example C14_rejections :
  c14_result_repaired "Dev" (dev [reg "my_reg" []; blk "b" [blk "c" [buf "MyReg"]]]) = "error:dup_object:MyReg" /\
  c14_result_repaired "Dev" (dev [reg "r" []; rref "R" "r"]) = "error:dup_object:R" /\
  c14_result_repaired "Dev" (dev [reg "r" [fld "aB" None; fld "a_b" None]]) = "error:dup_field:R|a_b" /\
  c14_result_repaired "Dev" (dev [reg "r" [fld "a" (enm "e" ["x_y"; "xY"])]]) = "error:dup_variant:XY|E|R|a" /\
  c14_result_repaired "Dev" (dev [reg "r" [fld "a" (enm "my_e" ["x"])]; blk "b" [reg "q" [fld "a" (enm "MyE" ["x"])]]])
    = "error:dup_enum:MyE|Q|a" /\
  c14_result_repaired "Dev" (dev [reg "r" []; ORef None "x" (OvRegister "nope" None (Some 9%Z) false None None)])
    = "oneof:ref_unknown:Register|X|Nope" /\
  c14_result_repaired "Dev" (dev [buf "r"; ORef None "x" (OvRegister "r" None (Some 9%Z) false None None)])
    = "oneof:ref_unknown:Register|X|R" /\
  c14_result_repaired "Dev" (dev [reg "r" []; ORef None "x" (OvCommand "r" (Some 9%Z) false None)])
    = "oneof:ref_unknown:Command|X|R" /\
  c14_result_repaired "my_dev" (dev [reg "r" []]) = "error:device_name:MyDev" /\
  c14_result_repaired "Dev" (dev [reg "r" []; ORef None "x" (OvRegister "nope" None (Some 9%Z) false (Some (RInt 0%Z)) None)])
    = "oneof:ref_unknown:Register|X|Nope" /\
  (* recursive block refs: direct; through a second block ref; in a sub block of the target; three-cycle; the refs of a
     block are examined before the refs of its sub blocks (x is reported, y comes first in pre-order) *)
  c14_result_repaired "Dev" (dev [blk "A" [bref "B" "a"]]) = "error:ref_recursive:B|A" /\
  c14_result_repaired "Dev" (dev [blk "A" [bref "B" "C"]; blk "C" [bref "D" "A"]]) = "error:ref_recursive:B|C" /\
  c14_result_repaired "Dev" (dev [blk "A" [blk "S" [bref "B" "A"]]]) = "error:ref_recursive:B|A" /\
  c14_result_repaired "Dev" (dev [blk "A" [bref "x" "B"]; blk "B" [bref "y" "C"]; blk "C" [bref "z" "A"]])
    = "error:ref_recursive:X|B" /\
  c14_result_repaired "Dev" (dev [blk "A" [blk "S" [bref "y" "S"]; bref "x" "A"]]) = "error:ref_recursive:X|A" /\
  (* legal: ref to a sibling (the struct of C is emitted once: D9 repaired); diamond *)
  c14_result_repaired "Dev" (dev [blk "A" [bref "B" "C"]; blk "C" [reg "r" []]]) = "ok:Dev(a>A,c>C) A(b>C) C(r>R)" /\
  c14_result_repaired "Dev" (dev [blk "D" []; blk "B" [bref "x" "D"]; blk "C" [bref "y" "D"]; blk "A" [bref "p" "B"; bref "q" "C"]])
    = "ok:Dev(d>D,b>B,c>C,a>A) D() B(x>D) C(y>D) A(p>B,q>C)".
Proof. vm_compute. repeat split. Qed.

(* HISTORICAL result strings (c14_result: pass order and lowering of the unrepaired tree): the D14 panic, the D11
   divergence (direct and through a second block ref), the duplicate struct of D9 *)
Example C14_historical_results :
  c14_result "Dev" (dev [reg "r" []; ORef None "x" (OvRegister "nope" None (Some 9%Z) false (Some (RInt 0%Z)) None)])
    = "panic:reset_ref_existance" /\
  c14_result "Dev" (dev [blk "A" [bref "B" "A"]]) = "abort:unbounded_ref_lowering" /\
  c14_result "Dev" (dev [blk "A" [bref "B" "C"]; blk "C" [bref "D" "A"]]) = "abort:unbounded_ref_lowering" /\
  c14_result "Dev" (dev [blk "A" [bref "B" "C"]; blk "C" [reg "r" []]]) = "ok:Dev(a>A,c>C) A(b>C) C(r>R) C(r>R)".
Proof. vm_compute. repeat split. Qed.

(* the D11 witness is rejected by the current model with ref_recursive (ref B, target A) and lies in the reject
   class of C14_accept_iff through the structural clause only *)
Example C14_d11_witness_now_rejected :
  let d := dev d11_objects in
  cfg_free d /\ name_ref_check d = false /\ name_ref_check_before_d11_repair d = true /\
  recursive_block_refs (names_normalized d) = Ok (Some (mk_err "ref_recursive" ["B"; "A"])) /\
  c14_result_repaired "Dev" d = "error:ref_recursive:B|A" /\
  C14_spec_recursive_ref d /\ ~ C14_spec_reject_names d.
Proof.
  assert (Hf : cfg_free (dev d11_objects)) by (unfold cfg_free; vm_compute; repeat constructor).
  cbv zeta. split; [exact Hf|]. split; [vm_compute; reflexivity|]. split; [vm_compute; reflexivity|].
  split; [vm_compute; reflexivity|]. split; [vm_compute; reflexivity|]. split.
  - apply C14_recursive_spec_normalised. apply C14_recursive_check_iff. exists "B", "A". vm_compute. reflexivity.
  - intros H. apply (C14_accept_iff_before_d11_repair _ Hf) in H. vm_compute in H. discriminate.
Qed.

(* a legal chain of block refs — A; B { ref to A }; ref to B at the root — is accepted, is acyclic, and is lowered to
   accessors only *)
Example C14_legal_ref_chain_accepted :
  let d := dev [blk "A" [reg "r" []]; blk "B" [bref "x" "a"]; bref "y" "b"] in
  cfg_free d /\ name_ref_check d = true /\ recursive_block_refs (names_normalized d) = Ok None /\
  acyclic (d_objects (names_normalized d)) /\ lowering_terminates (d_objects (names_normalized d)) /\
  c14_result_repaired "Dev" d = "ok:Dev(a>A,b>B,y>B) A(r>R) B(x>A)".
Proof.
  assert (Hf : cfg_free (dev [blk "A" [reg "r" []]; blk "B" [bref "x" "a"]; bref "y" "b"]))
    by (unfold cfg_free; vm_compute; repeat constructor).
  assert (Hc : name_ref_check (dev [blk "A" [reg "r" []]; blk "B" [bref "x" "a"]; bref "y" "b"]) = true)
    by (vm_compute; reflexivity).
  cbv zeta. split; [exact Hf|]. split; [exact Hc|]. split; [vm_compute; reflexivity|].
  split; [exact (C14_accepted_is_acyclic _ Hc)|]. split; [exact (C14_accepted_expansion_terminates _ Hf Hc)|].
  vm_compute. reflexivity.
Qed.

(* the hypotheses of the lowering theorems are met by a real cycle / a real rank *)
Example C14_cycle_example : cyclic d11_objects /\ refs_resolve d11_objects.
Proof.
  split.
  - exists "A". apply np_one. exists None, 0%Z, None, [d11_ref]. split; [reflexivity|].
    exists d11_ref. split; [left; reflexivity|]. exists None, "B", (Some 1%Z), None. reflexivity.
  - intros c n ov [H|[H|[]]]; [discriminate|]. inversion H; subst. exists d11_block. split; reflexivity.
Qed.

(* Case.v on the examples of convert_case's own documentation and of note (vi) *)
Example C14_case_examples :
  show_boundaries lenient_boundaries = "Hyphen,Underscore,Space,LowerUpper,UpperDigit,LowerDigit,Acronym" /\
  show_words (split default_boundaries (la "ABc__d-e f9XYZab_")) = "A|Bc|d|e|f|9|XY|Zab" /\
  to_pascal_default "my_Reg2a" = "MyReg2A" /\ to_snake_default "MyReg2A" = "my_reg_2_a" /\
  to_pascal [BUnderscore] "my_Reg2a" = "MyReg2a" /\ to_snake_default "MyReg2a" = "my_reg_2_a" /\
  to_snake_default "SuperMario64Game" = "super_mario_64_game" /\
  to_snake [BDigitLower; BDigitUpper; BAcronym] "section8lesson2HTTPRequests" = "section8_lesson2_http_requests" /\
  c14_list_from "a8.Aa.aA" = "LowerUpper,UpperLower,LowerDigit" /\
  c14_list_from "AAa -_" = "Hyphen,Underscore,Space,Acronym" /\
  lenient_pascal "Foo1Bar" = "Foo1bar" /\ device_name_check "FooBar" = None /\ device_name_check "fooBar" <> None.
Proof. vm_compute. repeat split; discriminate. Qed.

(* the fixed-point lemma applies to the conventional PascalCase names *)
Example C14_pascal_fixed_example : to_pascal_default "RegB2Cd" = "RegB2Cd".
Proof. apply C14_pascal_idempotent_partial; vm_compute; repeat constructor. Qed.

Print Assumptions C14_accept_iff.
Print Assumptions C14_accept_iff_before_d11_repair.
Print Assumptions C14_repair_only_rejects_more.
Print Assumptions C14_recursive_check_total.
Print Assumptions C14_recursive_check_iff.
Print Assumptions C14_recursive_check_accepts_iff.
Print Assumptions C14_recursive_check_reports_a_site.
Print Assumptions C14_recursive_spec_normalised.
Print Assumptions C14_acyclic_iff_no_cycle.
Print Assumptions C14_cycle_is_recursive_ref.
Print Assumptions C14_accepted_is_acyclic.
Print Assumptions C14_accepted_expansion_terminates.
Print Assumptions C14_search_is_first_preorder_match.
Print Assumptions C14_search_finds_declared.
Print Assumptions C14_accepted_refs_resolve.
Print Assumptions C14_lowering_terminates_iff_acyclic.
Print Assumptions C14_accepted_lowering_iff_acyclic.
Print Assumptions C14_cycle_diverges.
Print Assumptions C14_self_ref_refuted.
Print Assumptions C14_front_dsl_iff.
Print Assumptions C14_front_manifest_iff.
Print Assumptions C14_device_name_check.
Print Assumptions C14_snake_idempotent.
Print Assumptions C14_pascal_idempotent_refuted.
Print Assumptions C14_pascal_idempotent_partial.
Print Assumptions C14_method_names_not_injective.

(* ---- whole pipeline: whatever the whole generator accepts passes the name and reference validation, and
   (cfg-free) is outside the property's reject class ---- *)
From DD Require Pipeline PipelineProofs.
Theorem C14_whole_pipeline_accept : forall fuel dev_name d0,
  Pipeline.pipeline_result fuel dev_name d0 = "ok"%string ->
  name_ref_check d0 = true /\ (cfg_free d0 -> ~ C14_spec_reject d0).
Proof.
  intros fuel dev_name d0 H. apply PipelineProofs.pipeline_result_ok_iff in H. split.
  - exact (PipelineProofs.pipeline_accept_name_ref _ _ _ H).
  - intros Hf. exact (PipelineProofs.pipeline_accept_not_c14_reject _ _ _ Hf H).
Qed.

Print Assumptions C14_whole_pipeline_accept.

(* The ORDER of the passes that Pipeline.v sequences (and in which the first error wins), TRANSLATED from the two
   `run_passes` functions of generation/src/{mir,lir}/passes/mod.rs on every build: names_normalized runs before names_unique (uniqueness is decided on the normalised names) and refs_validated before reset_values_converted (the repair of D14). *)
From DD Require GenPassOrder.
Theorem C14_pass_order_from_source :
  DDGen.PassOrder.mir_pass_order = GenPassOrder.expected_mir_pass_order /\
  DDGen.PassOrder.lir_pass_order = GenPassOrder.expected_lir_pass_order.
Proof. exact GenPassOrder.pass_order_as_modelled. Qed.
Print Assumptions C14_pass_order_from_source.
