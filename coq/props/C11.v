(* C11 — Field-layout validation accepts exactly the well-formed layouts. *)
From Coq Require Import ZArith List Bool String.
From DD Require Import Common Mir GenErr Layout LayoutProofs.
Import ListNotations.
Open Scope Z_scope.

(* The three layout passes (byte_order_specified, bool_fields_checked, bit_ranges_validated, in pipeline
   order, first error wins) accept a device iff every register / command field set in the tree — at any
   nesting depth — is well formed: every field non-empty and inside the declared size, bool fields
   exactly one bit without conversion, no two fields of a set overlapping unless overlap is allowed on
   the object, and a byte order known (object or global) whenever a set is larger than 8 bits.
   Both directions, for every device. *)
Theorem C11_accept_iff_wf : forall d, layout_check d = None <-> wf_layout d.
Proof. exact layout_accept_iff_wf. Qed.

(* A rejection carries the name of an object of the tree ("<name> (in)"/"(out)" for command sets). *)
Theorem C11_error_names_object : forall d e,
  layout_check d = Some e ->
  exists o, In o (preorder_objects (d_objects d)) /\
    (error_subject_of o (nth 0 (e_args e) ""%string) \/
     (e_kind e = "byte_order"%string /\ error_subject_of o (nth 1 (e_args e) ""%string))).
Proof. exact layout_error_names_object. Qed.

(* The pairwise overlap loop compares ALL pairs i<j (not just neighbours). *)
Theorem C11_overlap_all_pairs : forall fs obj,
  validate_overlap fs obj = None <-> pairwise raw_disjoint fs.
Proof. exact validate_overlap_spec. Qed.

Definition ex_field (n : string) (b : base_type) (s e : Z) : field :=
  {| f_cfg := None; f_name := n; f_access := RW; f_base := b; f_conv := None; f_start := s; f_end := e |}.
Definition ex_reg (size : Z) (bo : option byte_ord) (allow : bool) (fs : list field) : object :=
  ORegister {| rg_cfg := None; rg_name := "Reg"; rg_access := RW; rg_byte_order := bo; rg_bit_order := BiLSB0;
               rg_allow_bit_overlap := allow; rg_allow_address_overlap := false; rg_address := 0;
               rg_size_bits := size; rg_reset := None; rg_repeat := None; rg_fields := fs |}.
Definition ex_cfg : config :=
  {| g_default_register_access := RW; g_default_field_access := RW; g_default_buffer_access := RW;
     g_default_byte_order := None; g_default_bit_order := BiLSB0; g_register_address_type := Some IU8;
     g_command_address_type := None; g_buffer_address_type := None; g_boundaries := []; g_defmt_feature := None |}.

(* Non-vacuity: a well-formed nested layout is accepted; touching ranges are fine, a crossing pair, an
   empty range, one-past-the-size, a 2-bit bool and a missing byte order are each rejected. *)
Example C11_examples :
  let dev objs := {| d_config := ex_cfg; d_objects := objs |} in
  layout_check (dev [OBlock None "B" 0 None [ex_reg 16 (Some BoLE) false
                       [ex_field "a" BUint 0 8; ex_field "b" BBool 8 8; ex_field "c" BInt 9 16]]]) = None /\
  layout_check (dev [ex_reg 8 None false [ex_field "a" BUint 0 5; ex_field "b" BUint 4 8]]) <> None /\
  layout_check (dev [ex_reg 8 None true [ex_field "a" BUint 0 5; ex_field "b" BUint 4 8]]) = None /\
  layout_check (dev [ex_reg 8 None false [ex_field "a" BUint 3 3]]) <> None /\
  layout_check (dev [ex_reg 8 None false [ex_field "a" BUint 0 9]]) <> None /\
  layout_check (dev [ex_reg 8 None false [ex_field "a" BBool 0 2]]) <> None /\
  layout_check (dev [ex_reg 9 None false [ex_field "a" BUint 0 9]]) <> None.
Proof. vm_compute. repeat split; discriminate. Qed.

Print Assumptions C11_accept_iff_wf.
Print Assumptions C11_error_names_object.
Print Assumptions C11_overlap_all_pairs.

(* ---- whole pipeline (Pipeline.v: all passes sequenced in run_passes order; its printed verdict is what the
   pipeline phase of this check compares with the real generator on arbitrary definitions) ----
   Whatever the whole generator accepts has only well-formed field sets. *)
From DD Require Pipeline PipelineProofs Names.
Theorem C11_whole_pipeline_accept_implies_wf : forall fuel dev_name d0,
  Pipeline.pipeline_result fuel dev_name d0 = "ok"%string -> wf_layout (Names.names_normalized d0).
Proof.
  intros fuel dev_name d0 H. apply (PipelineProofs.pipeline_accept_wf_layout fuel dev_name).
  apply PipelineProofs.pipeline_result_ok_iff, H.
Qed.

(* the pipeline accepts exactly when every pass accepts (no pass is skipped or consulted twice with another input) *)
Theorem C11_whole_pipeline_accept_iff_all_passes : forall fuel dev_name d0,
  Pipeline.pipeline fuel dev_name d0 = Pipeline.PAccept <-> PipelineProofs.accepted_by_all fuel dev_name d0.
Proof. exact PipelineProofs.pipeline_accept_iff. Qed.

Print Assumptions C11_whole_pipeline_accept_implies_wf.
Print Assumptions C11_whole_pipeline_accept_iff_all_passes.

(* non-vacuity of the whole-pipeline statements: an accepted definition exists, and a layout defect is what the
   whole pipeline reports when nothing earlier is wrong *)
Example C11_whole_pipeline_somewhere :
  let dev objs := {| d_config := ex_cfg; d_objects := objs |} in
  Pipeline.pipeline_result 20 "Dev" (dev [ex_reg 16 (Some BoLE) false [ex_field "a" BUint 0 8; ex_field "b" BBool 8 8]]) = "ok"%string /\
  Pipeline.pipeline_result 20 "Dev" (dev [ex_reg 8 None false [ex_field "a" BUint 0 5; ex_field "b" BUint 4 8]])
    = "error:field_overlap:Reg|a|b"%string.
Proof. vm_compute. split; reflexivity. Qed.

(* The ORDER of the passes that Pipeline.v sequences (and in which the first error wins), TRANSLATED from the two
   `run_passes` functions of generation/src/{mir,lir}/passes/mod.rs on every build: the three layout passes run after enum_values_checked / refs_validated / reset_values_converted and before the address passes, so a definition with several defects is reported for the FIRST of them. *)
From DD Require GenPassOrder.
Theorem C11_pass_order_from_source :
  DDGen.PassOrder.mir_pass_order = GenPassOrder.expected_mir_pass_order /\
  DDGen.PassOrder.lir_pass_order = GenPassOrder.expected_lir_pass_order.
Proof. exact GenPassOrder.pass_order_as_modelled. Qed.
Print Assumptions C11_pass_order_from_source.
