(* C19 — Every accepted definition yields Rust that type-checks.
   PARTIAL BY NATURE: that rustc accepts the output is a statement about rustc's type system, trait
   resolution and the no_std prelude, none of which is modelled; that part is tied by the correspondence
   alone (cargo check of batches of accepted definitions, every diagnostic mapped to its definition).
   What the model carries: the item names the emitter produces per namespace, the references it writes
   (Debug impls call every field's getter) and the literals it places in typed positions. *)
From Coq Require Import ZArith List Bool String.
From DD Require Import Common Mir GenErr Layout FieldSetGen Emit EmitProofs.
From DD Require Addr AddrProofs.
Import ListNotations.
Open Scope string_scope.
Open Scope Z_scope.

Definition ex_cfg (rt : integer) : config :=
  {| g_default_register_access := RW; g_default_field_access := RW; g_default_buffer_access := RW;
     g_default_byte_order := Some BoLE; g_default_bit_order := BiLSB0; g_register_address_type := Some rt;
     g_command_address_type := None; g_buffer_address_type := None; g_boundaries := []; g_defmt_feature := None |}.
Definition ex_field (n : string) (a : access) (c : option conversion) : field :=
  {| f_cfg := None; f_name := n; f_access := a; f_base := BUint; f_conv := c; f_start := 0; f_end := 8 |}.
Definition ex_reg (n : string) (addr : Z) (acc : access) (rep : option repeat) (fs : list field) : object :=
  ORegister {| rg_cfg := None; rg_name := n; rg_access := acc; rg_byte_order := None; rg_bit_order := BiLSB0;
               rg_allow_bit_overlap := false; rg_allow_address_overlap := false; rg_address := addr;
               rg_size_bits := 8; rg_reset := None; rg_repeat := rep; rg_fields := fs |}.
Definition dev (rt : integer) (objs : list object) : device := {| d_config := ex_cfg rt; d_objects := objs |}.

(* Full statement — "every accepted definition satisfies wf_output" — is FALSE of the faithful model.
   Refutations, each a genuine defect reproduced against rustc by the check: *)

(* D7: a write-only field — the Debug impl calls the getter that was not generated (E0599). *)
Theorem C19_wo_field_refuted :
  wf_output "Dev" (dev IU8 [ex_reg "Ra" 0 RW None [ex_field "fa" WO None]]) = false.
Proof. vm_compute. reflexivity. Qed.

(* D8 (REPAIRED in /repo): a readable repeated register with a negative stride under an unsigned register address
   type used to emit `callback(30 + 1 * -2, ..)`, which needs `u8: Neg`.  Historical statement about the
   obligation the unrepaired emitter failed; the model of the emission no longer contains it. *)
Theorem C19_negative_stride_historical :
  read_all_strides_ok (dev IU8 [ex_reg "Ra" 30 RW (Some {| r_count := 3; r_stride := -2 |}) [ex_field "fa" RW None]]) = false /\
  wf_output "Dev" (dev IU8 [ex_reg "Ra" 30 RW (Some {| r_count := 3; r_stride := -2 |}) [ex_field "fa" RW None]]) = true.
Proof. vm_compute. split; reflexivity. Qed.

(* D9 (REPAIRED in /repo): any block ref used to make the generator emit the target's struct (and impls) a second time
   (E0428/E0119/E0592).  Historical statement about the emission before the repair; the model of the emission as it is
   now gives a block ref its accessor only, and the same definition meets every obligation. *)
Theorem C19_block_ref_historical :
  let d := dev IU8 [OBlock None "Ba" 0 None [ex_reg "Ra" 0 RW None [ex_field "fa" RW None]];
                    ORef None "Bb" (OvBlock "Ba" (Some 100) None)] in
  nodup_str ("Dev" :: block_structs_before_repair (tree_fuel d) (d_objects d) (d_objects d)) = false /\
  wf_output "Dev" d = true /\ failing_obligations "Dev" d = [].
Proof. vm_compute. repeat split; reflexivity. Qed.

(* D22 (REDUCED by /repo's repair 6e3a361, which sizes the internal address type for every literal, index and product of the
   address arithmetic): what is left is read_all_registers of the ROOT block, whose items `ADDR (+|-) IDX * |STRIDE|` are
   typed in the REGISTER address type (the root block's text is pinned by a snapshot test): (c) `u8; readable register @5
   repeat 1 x 1000` — the stride literal 1000 is out of range for u8; (d) `i8; readable register @-100 repeat 3 x 100` — the
   constant product `2 * 100` overflows i8 (deny-by-default lint arithmetic_overflow, raised when code is generated).
   Tag D22 = a type error (negative literal of an unsigned type; none left after the repair), D22L = the deny-by-default
   lints.  The two accessor-side witnesses of the unrepaired generator — (a) `u8; block Ba @10 { register Ra @-1 }`
   (`self.base_address + -1`: `u8: Neg`), (b) `i16; block @-30000 { register @40000 }` — now meet every obligation. *)
Theorem C19_address_literal_refuted :
  failing_obligations "Dev" (dev IU8 [ex_reg "Ra" 5 RW (Some {| r_count := 1; r_stride := 1000 |}) [ex_field "fa" RW None]]) = ["D22L"] /\
  failing_obligations "Dev" (dev II8 [ex_reg "Ra" (-100) RW (Some {| r_count := 3; r_stride := 100 |}) [ex_field "fa" RW None]]) = ["D22L"] /\
  failing_obligations "Dev" (dev IU8 [OBlock None "Ba" 10 None [ex_reg "Ra" (-1) RW None [ex_field "fa" RW None]]]) = [] /\
  failing_obligations "Dev" (dev II16 [OBlock None "Ba" (-30000) None [ex_reg "Ra" 40000 RW None [ex_field "fa" RW None]]]) = [] /\
  failing_obligations "Dev" (dev IU8 [OBlock None "Ba" 10 None [ex_reg "Ra" 1 RW None [ex_field "fa" RW None]]]) = [].
Proof. vm_compute. repeat split; reflexivity. Qed.

(* For every accepted definition the ACCESSOR side of the obligation holds (Addr's theorem about the repaired internal
   type): every address / offset literal, |stride|, last index and (last index) x |stride| of every lowered method lies in
   the internal address type. *)
Theorem C19_accessor_literals_fit : forall fx fl name d bls it,
  Addr.lower fx fl name (d_objects d) = Ok bls -> Addr.internal_type d = Ok it ->
  forall b m, In b bls -> In m (Addr.b_methods b) ->
    in_range it (Addr.m_address m) = true /\
    forall r, Addr.m_repeat m = Some r ->
      in_range it (Z.abs (r_stride r)) = true /\ in_range it (Z.max (r_count r - 1) 0) = true /\
      in_range it (Z.max (r_count r - 1) 0 * Z.abs (r_stride r)) = true.
Proof. exact AddrProofs.internal_type_covers_method_literals. Qed.

(* D12: two variants with the same number (accepted by enum_values_checked: see C15) — E0081. *)
Theorem C19_duplicate_discriminant_refuted :
  wf_output "Dev" (dev IU8 [ex_reg "Ra" 0 RW None
    [ex_field "fa" RW (Some (ConvEnum {| e_cfg := None; e_name := "En"; e_style := None;
        e_variants := [{| v_cfg := None; v_name := "Va"; v_value := EVSpec 1 |};
                       {| v_cfg := None; v_name := "Vb"; v_value := EVSpec 1 |}] |} true))]]) = false.
Proof. vm_compute. reflexivity. Qed.

(* D16: a negative variant number on a uint field passes the range test (it only looks upwards) and
   lands in an enum with an unsigned repr — E0600. *)
Theorem C19_negative_discriminant_refuted :
  wf_output "Dev" (dev IU8 [ex_reg "Ra" 0 RW None
    [ex_field "fa" RW (Some (ConvEnum {| e_cfg := None; e_name := "En"; e_style := None;
        e_variants := [{| v_cfg := None; v_name := "Va"; v_value := EVSpec (-1) |};
                       {| v_cfg := None; v_name := "Vb"; v_value := EVDefault |}] |} false))]]) = false.
Proof. vm_compute. reflexivity. Qed.

(* D17: on an `int` field as wide as its carrier, a variant number >= 2^(w-1) passes the range test (which
   compares with the UNSIGNED maximum 2^w - 1) but does not fit the enum's signed repr — "literal out of
   range for i16" (deny-by-default lint). *)
Theorem C19_signed_discriminant_refuted :
  wf_output "Dev" (dev IU8 [ex_reg "Ra" 0 RW None
    [{| f_cfg := None; f_name := "fa"; f_access := RW; f_base := BInt; f_start := 0; f_end := 8;
        f_conv := Some (ConvEnum {| e_cfg := None; e_name := "En"; e_style := None;
                     e_variants := [{| v_cfg := None; v_name := "Va"; v_value := EVUnspec |};
                                    {| v_cfg := None; v_name := "Vb"; v_value := EVSpec 255 |}] |} true) |}]]) = false.
Proof. vm_compute. reflexivity. Qed.

(* D20: an inline enum named like a block (or like the driver struct).  names_unique keeps object names and
   generated-enum names in separate sets — and C14 demands exactly that it accepts — but the block struct, the
   driver struct and the generated enums are all emitted at the top level of the output: E0428. *)
Theorem C19_enum_named_like_block_refuted :
  let en name := ConvEnum {| e_cfg := None; e_name := name; e_style := None;
                             e_variants := [{| v_cfg := None; v_name := "Va"; v_value := EVUnspec |};
                                            {| v_cfg := None; v_name := "Vb"; v_value := EVDefault |}] |} false in
  wf_output "Dev" (dev IU8 [OBlock None "Ba" 0 None [ex_reg "Ra" 0 RW None [ex_field "fa" RW (Some (en "Ba"))]]]) = false /\
  wf_output "Dev" (dev IU8 [ex_reg "Ra" 0 RW None [ex_field "fa" RW (Some (en "Dev"))]]) = false /\
  wf_output "Dev" (dev IU8 [OBlock None "Ba" 0 None [ex_reg "Ra" 0 RW None [ex_field "fa" RW (Some (en "En"))]]]) = true.
Proof. vm_compute. repeat split; reflexivity. Qed.

(* D20, the other namespaces: a register named like a command's field set; two objects of one block whose (distinct)
   Pascal names have the same snake accessor name; a field `set_a` next to a writable field `a`; a field named `new`;
   an object whose accessor would be called `interface`. *)
Theorem C19_namespace_collisions_refuted :
  let cmd := OCommand {| cm_cfg := None; cm_name := "Foo"; cm_address := 0; cm_byte_order := None; cm_bit_order := BiLSB0;
                         cm_allow_bit_overlap := false; cm_allow_address_overlap := false; cm_size_in := 8; cm_size_out := 0;
                         cm_repeat := None; cm_in_fields := [ex_field "fb" RW None]; cm_out_fields := [] |} in
  failing_obligations "Dev" (dev IU8 [ex_reg "FooFieldsIn" 0 RW None [ex_field "fa" RW None]; cmd]) = ["D20"] /\
  failing_obligations "Dev" (dev IU8 [ex_reg "AB1C" 0 RW None [ex_field "fa" RW None]; ex_reg "Ab1C" 1 RW None [ex_field "fa" RW None]]) = ["D20"] /\
  failing_obligations "Dev" (dev IU8 [ex_reg "Ra" 0 RW None [ex_field "a" RW None; ex_field "set_a" RW None]]) = ["D20"] /\
  failing_obligations "Dev" (dev IU8 [ex_reg "Ra" 0 RW None [ex_field "new" RW None]]) = ["D20"] /\
  failing_obligations "Dev" (dev IU8 [ex_reg "Interface" 0 RW None [ex_field "fa" RW None]]) = ["D20"] /\
  failing_obligations "Dev" (dev IU8 [ex_reg "Ra" 0 RW None [ex_field "a" RO None; ex_field "set_a" RW None]]) = [].
Proof. vm_compute. repeat split; reflexivity. Qed.

(* D21: a name that is a Rust keyword where the emitter writes it bare: a field `fn` (manifest), an object `match`
   (struct `Match`, accessor `match`), an object `self` (struct `Self`). *)
Theorem C19_keyword_identifier_refuted :
  failing_obligations "Dev" (dev IU8 [ex_reg "Ra" 0 RW None [ex_field "fn" RW None]]) = ["D21"] /\
  failing_obligations "Dev" (dev IU8 [ex_reg "Match" 0 RW None [ex_field "fa" RW None]]) = ["D21"] /\
  failing_obligations "Dev" (dev IU8 [ex_reg "Self" 0 RW None [ex_field "fa" RW None]]) = ["D21"] /\
  wf_output "Dev" (dev IU8 [ex_reg "Ra" 0 RW None [ex_field "fn" RW None]]) = false.
Proof. vm_compute. repeat split; reflexivity. Qed.

(* Strongest true statement: outside those classes — every field readable, enum numbers pairwise distinct and
   representable in the enum's repr type (non-negative below 2^carrier on uint/bool fields, within the signed range on
   int fields), every literal of the address arithmetic inside the type of its position — and with type names unique per
   namespace (driver name, blocks and generated enums share the top level; field sets live in `mod field_sets`), the
   obligations hold; in particular the block structs emitted are exactly the declared blocks, once each — block refs
   included, since the repair of D9. *)
Theorem C19_wf_output_partial : forall driver d,
  nodup_str (driver :: declared_blocks (tree_fuel d) (d_objects d) ++ map (fun x => e_name (fst (fst x))) (enums_of d)) = true ->
  nodup_str (field_set_type_names d) = true ->
  forallb (fun f => readable (f_access f)) (all_fields d) = true ->
  forallb enum_literals_ok (enums_of d) = true ->
  namespaces_ok driver d = true ->
  keyword_free driver d = true ->
  address_literals_ok driver d = true ->
  wf_output driver d = true.
Proof. exact wf_output_partial. Qed.

(* The class tags the check compares with rustc are exactly the conjuncts of wf_output beyond the name checks. *)
Theorem C19_no_failing_obligation_iff : forall driver d,
  (failing_obligations driver d = [] <->
   debug_refs_resolve d = true /\ forallb enum_literals_ok (enums_of d) = true /\
   namespaces_ok driver d = true /\ keyword_free driver d = true /\ address_literals_ok driver d = true).
Proof. exact no_failing_obligation_iff. Qed.

Theorem C19_block_structs_are_declared_blocks : forall fuel all objs,
  block_structs fuel all objs = declared_blocks fuel objs.
Proof. exact block_structs_declared. Qed.

(* Non-vacuity: a nested definition outside all classes satisfies every hypothesis and the conclusion. *)
Example C19_partial_inhabited :
  let d := dev II16 [OBlock None "Ba" 4 (Some {| r_count := 2; r_stride := 8 |})
                       [ex_reg "Ra" 1 RO (Some {| r_count := 2; r_stride := -1 |}) [ex_field "fa" RO None]];
                     ex_reg "Rb" 40 RW None [ex_field "fa" RW None]] in
  wf_output "Dev" d = true /\ failing_obligations "Dev" d = [].
Proof. vm_compute. split; reflexivity. Qed.

Print Assumptions C19_wo_field_refuted.
Print Assumptions C19_negative_stride_historical.
Print Assumptions C19_block_ref_historical.
Print Assumptions C19_address_literal_refuted.
Print Assumptions C19_accessor_literals_fit.
Print Assumptions C19_duplicate_discriminant_refuted.
Print Assumptions C19_negative_discriminant_refuted.
Print Assumptions C19_signed_discriminant_refuted.
Print Assumptions C19_enum_named_like_block_refuted.
Print Assumptions C19_namespace_collisions_refuted.
Print Assumptions C19_keyword_identifier_refuted.
Print Assumptions C19_no_failing_obligation_iff.
Print Assumptions C19_wf_output_partial.
Print Assumptions C19_block_structs_are_declared_blocks.
