(* C20 — Generation is deterministic; the CLI and the macro agree with the library.
   Property theorems only; models in theories/Determ.v, proofs in theories/DetermProofs.v.

   Reading guide.  `orders` is the hash-iteration oracle: for every hash container of
   refs_validated.rs / reset_values_converted.rs it may enumerate the container's entries in ANY
   permutation (`orders_ok`).  A real process picks one such enumeration through its RandomState;
   that the real process is an instance of the oracle, the file system, prettyplease and rustc's
   macro expansion are NOT statements of Coq — they are tied by the correspondence check
   (tools/checks/c20.py), see notes/C20.md. *)
From Coq Require Import List Bool String Ascii ZArith Permutation.
From DD Require Import Common Determ DetermProofs.
Import ListNotations.
Open Scope string_scope.
Open Scope list_scope.

(* ------------------------------------------------------------------------------------------ *)
(* Accepted inputs: if the hash-container passes accept a device under ONE enumeration order they
   accept it under EVERY order and hand on the same device (converted reset values included).
   `conv` is convert_reset_value (any function). *)
Theorem C20_accepted_output_order_independent :
  forall (conv : obj -> Z -> option Z) (o1 o2 : orders) (d : device),
    orders_ok o1 -> orders_ok o2 ->
    is_accept (hash_passes conv o1 d) = true ->
    hash_passes conv o2 d = hash_passes conv o1 d.
Proof. exact accepted_output_order_independent. Qed.

(* reset_values_converted on its own never observes the layout of its map, accepted or not
   (insert by key, remove by key, is_empty). *)
Theorem C20_reset_pass_order_independent :
  forall (conv : obj -> Z -> option Z) (o1 o2 : orders) (d : device),
    orders_ok o1 -> orders_ok o2 ->
    reset_values_converted conv o1 d = reset_values_converted conv o2 d.
Proof. exact reset_values_converted_indep. Qed.

(* The by-key operations used there answer the same on every layout of the same map. *)
Theorem C20_bykey_operations_layout_independent :
  forall (k : uid) (m m' : list (uid * Z)),
    NoDup (map fst m) -> Permutation m m' ->
    hm_get uid_eqb k m = hm_get uid_eqb k m' /\
    snd (hm_remove uid_eqb k m) = snd (hm_remove uid_eqb k m') /\
    Permutation (fst (hm_remove uid_eqb k m)) (fst (hm_remove uid_eqb k m')) /\
    (forall x s s', Permutation s s' -> hs_mem x s = hs_mem x s').
Proof. exact bykey_operations_layout_independent. Qed.

(* ------------------------------------------------------------------------------------------ *)
(* Rejected inputs: the full statement "the reported error does not depend on the order" is FALSE
   of the faithful model (defect D13).  Witness: two dangling register refs; identity order reports
   ref A / target X1, reversed order reports ref B / target X2. *)
(* witness: DetermProofs.d13_witness = [ref A = register X1; ref B = register X2], orders_id / orders_rev *)
Theorem C20_error_order_refuted :
  exists (d : device) (o1 o2 : orders),
    orders_ok o1 /\ orders_ok o2 /\
    List.length (candidate_errors d) = 2%nat /\
    hash_passes (fun _ v => Some v) o1 d = Reject (ERefUnknown KRegister "A" "X1") /\
    hash_passes (fun _ v => Some v) o2 d = Reject (ERefUnknown KRegister "B" "X2").
Proof. exact error_order_refuted. Qed.

(* ... and this is not an accident of the witness: WHENEVER the first failing kind has two or more
   dangling entries, two admissible orders (identity, reversed) report different errors. *)
Theorem C20_error_order_dependent_when_several :
  forall (conv : obj -> Z -> option Z) (d : device),
    is_accept (reset_values_converted conv orders_id d) = true ->
    (2 <= List.length (candidate_errors d))%nat ->
    orders_ok orders_id /\ orders_ok orders_rev /\
    hash_passes conv orders_id d <> hash_passes conv orders_rev d.
Proof. exact error_order_dependent_when_several_ok. Qed.

(* Strongest true statement, part 1: if the first failing kind (block refs, then register refs, then
   command refs — the order of the three loops) has at most one dangling entry, the outcome —
   accepted device, rejection with its error, or abort — is the same under every order. *)
Theorem C20_error_unique_when_single_partial :
  forall (conv : obj -> Z -> option Z) (o1 o2 : orders) (d : device),
    orders_ok o1 -> orders_ok o2 ->
    (List.length (candidate_errors d) <= 1)%nat ->
    hash_passes conv o1 d = hash_passes conv o2 d.
Proof. exact error_unique_when_single. Qed.

(* Strongest true statement, part 2: in every case two runs either agree completely or are both
   rejections naming (different) members of the candidate list — nothing else can vary. *)
Theorem C20_outcome_varies_only_within_candidates :
  forall (conv : obj -> Z -> option Z) (o1 o2 : orders) (d : device),
    orders_ok o1 -> orders_ok o2 ->
    hash_passes conv o1 d = hash_passes conv o2 d \/
    exists e1 e2, hash_passes conv o1 d = Reject e1 /\ hash_passes conv o2 d = Reject e2 /\
                  In e1 (candidate_errors d) /\ In e2 (candidate_errors d) /\ e1 <> e2.
Proof. exact outcome_order_characterised. Qed.

(* ------------------------------------------------------------------------------------------ *)
(* CLI.  fs = read_to_string, creatable = File::create succeeds, lib = transform_<parser> (None: no
   output at all — DSL text not tokenisable, or a panic inside the library), pretty = prettyplease.
   `is_error` is "the library reports an error"; the tool sees it as the compile_error! prefix of
   the pretty-printed text, which is the hypothesis (checked on every input by the correspondence:
   lib_runner decides is_error on the token stream, not on the text). *)
Theorem C20_cli_status :
  forall (T : Type) (fs : string -> option string) (creatable : string -> bool)
         (lib : parser -> string -> option T) (pretty : T -> string) (is_error : T -> bool),
    (forall t, is_error t = looks_like_compile_error (pretty t)) ->
    forall i : cli_in,
    let r := cli_run fs creatable lib pretty i in
    (exit_status (r_stop r) = 0%Z <->
       exists t s, library_output_for fs lib (ci_path i) = Some t /\ chosen_sink creatable i = Some s /\
                   is_error t = false) /\
    (forall t s, library_output_for fs lib (ci_path i) = Some t -> chosen_sink creatable i = Some s ->
                 r_writes r = [(s, pretty t)]) /\
    (forall t, library_output_for fs lib (ci_path i) = Some t -> is_error t = true ->
               exit_status (r_stop r) <> 0%Z) /\
    (library_output_for fs lib (ci_path i) = None \/ chosen_sink creatable i = None ->
       r_writes r = [] /\ exit_status (r_stop r) <> 0%Z).
Proof. exact @cli_status. Qed.

(* ------------------------------------------------------------------------------------------ *)
(* Dispatch.  (a) the extension table; (b) path resolution: absolute kept, relative joined to the
   crate root; (c) macro and CLI choose the same parser for the same (resolved) path, and when the
   macro expands to library output t the CLI writes exactly pretty(t); inline DSL goes to the DSL
   front end. *)
Theorem C20_dispatch_on_extension :
  (forall e p, parser_of_ext e = Some p <->
       (e = "json" /\ p = PJson) \/ (e = "yaml" /\ p = PYaml) \/ (e = "toml" /\ p = PToml) \/ (e = "dsl" /\ p = PDsl)) /\
  (forall root p, is_absolute p = true -> resolve root p = p) /\
  (forall root p, is_absolute p = false -> ends_with_slash root = false -> root <> "" ->
                  resolve root p = (root ++ "/" ++ p)%string) /\
  (forall (T : Type) (fs : string -> option string) (root : string) (lib : parser -> string -> option T),
     (forall path content e,
        fs (resolve root path) = Some content -> path_extension (resolve root path) = Some e ->
        macro_expand fs root lib (MManifest path) =
          match parser_of_ext e with
          | Some p => of_lib (lib p content)
          | None => MCompileError (MEUnknownExtension e)
          end /\
        library_output_for fs lib (resolve root path) =
          match parser_of_ext e with Some p => lib p content | None => None end) /\
     (forall path t, macro_expand fs root lib (MManifest path) = MExpand t <->
                     library_output_for fs lib (resolve root path) = Some t) /\
     (forall tokens t, macro_expand fs root lib (MInline tokens) = MExpand t <-> lib PDsl tokens = Some t) /\
     (forall creatable (pretty : T -> string) path out t s,
        macro_expand fs root lib (MManifest path) = MExpand t ->
        chosen_sink creatable {| ci_path := resolve root path; ci_out := out |} = Some s ->
        r_writes (cli_run fs creatable lib pretty {| ci_path := resolve root path; ci_out := out |})
          = [(s, pretty t)])).
Proof. exact dispatch_on_extension. Qed.

(* ------------------------------------------------------------------------------------------ *)
(* Non-vacuity *)

Definition reg (n : string) (r : option Z) : obj := {| o_depth := 0; o_name := n; o_cfg := ""; o_kind := ORegister r |}.
Definition rref (n t : string) (r : option Z) : obj := {| o_depth := 0; o_name := n; o_cfg := ""; o_kind := ORef KRegister t r |}.
Definition conv_demo (_ : obj) (v : Z) : option Z := if (v <? 256)%Z then Some (v + 1000)%Z else None.

(* refs.md's Foo / FooRef (both with reset values), plus a block, a command and a command ref: accepted
   under the identity and the reversed order, with the same converted device *)
Definition demo_ok : device :=
  [ reg "Foo" (Some 1%Z); rref "FooRef" "Foo" (Some 2%Z);
    {| o_depth := 0; o_name := "Blk"; o_cfg := ""; o_kind := OBlock |};
    {| o_depth := 1; o_name := "Cmd"; o_cfg := ""; o_kind := OCommand |};
    {| o_depth := 0; o_name := "CmdRef"; o_cfg := ""; o_kind := ORef KCommand "Cmd" None |};
    {| o_depth := 0; o_name := "Buf"; o_cfg := ""; o_kind := OBuffer |} ].

Example C20_demo_accepted :
  hash_passes conv_demo orders_id demo_ok = hash_passes conv_demo orders_rev demo_ok /\
  is_accept (hash_passes conv_demo orders_id demo_ok) = true /\
  map o_kind (match hash_passes conv_demo orders_id demo_ok with Accept d => d | _ => [] end)
    = [ORegister (Some 1001%Z); ORef KRegister "Foo" (Some 1002%Z); OBlock; OCommand; ORef KCommand "Cmd" None; OBuffer].
Proof. vm_compute. repeat split. Qed.

(* HashMap::insert overwrites: two refs to the same missing target are ONE entry carrying the LAST
   ref's name; one candidate, so the error is unique (hypothesis of _single_partial is satisfiable
   by a rejected device) *)
Example C20_demo_single_candidate :
  candidate_errors [rref "A" "X" None; rref "B" "X" None; reg "R" None] = [ERefUnknown KRegister "B" "X"] /\
  hash_passes conv_demo orders_rev [rref "A" "X" None; rref "B" "X" None; reg "R" None]
    = Reject (ERefUnknown KRegister "B" "X").
Proof. vm_compute. split; reflexivity. Qed.

(* the first failing KIND decides: one dangling block ref hides two dangling register refs *)
Example C20_demo_first_kind_wins :
  candidate_errors [rref "A" "X1" None; rref "B" "X2" None;
                    {| o_depth := 0; o_name := "C"; o_cfg := ""; o_kind := ORef KBlock "Nope" None |}]
    = [ERefUnknown KBlock "C" "Nope"].
Proof. vm_compute. reflexivity. Qed.

(* D13's four-ref reproduction: four candidates *)
Example C20_demo_d13_four :
  candidate_errors [rref "A" "X1" None; rref "B" "X2" None; rref "C" "X3" None; rref "D" "X4" None]
    = [ERefUnknown KRegister "A" "X1"; ERefUnknown KRegister "B" "X2";
       ERefUnknown KRegister "C" "X3"; ERefUnknown KRegister "D" "X4"].
Proof. vm_compute. reflexivity. Qed.

(* reset pass: conversion error is reported for the first offender in declaration order; since the repair
   of D14 (/repo 0a1d247: refs_validated runs first) a dangling register ref WITH a reset override is
   reported as a dangling ref instead of reaching the .expect of reset_values_converted — all
   independent of the order *)
Example C20_demo_reset_outcomes :
  hash_passes conv_demo orders_rev [reg "P" (Some 300%Z); reg "Q" (Some 400%Z)] = Reject (EResetConv "P") /\
  hash_passes conv_demo orders_rev [rref "A" "X1" (Some 5%Z)] = Reject (ERefUnknown KRegister "A" "X1") /\
  hash_passes conv_demo orders_id [reg "P" (Some 1%Z); reg "P" (Some 2%Z)] = Abort AssertFail.
Proof. vm_compute. repeat split. Qed.

(* paths *)
Example C20_demo_paths :
  map path_extension ["defs/a.json"; "/abs/b.yaml"; "c.tar.toml"; "noext"; ".json"; "d.JSON"; "dir.json/e"; "f.dsl/"; "g."; "../x.yml"]
    = [Some "json"; Some "yaml"; Some "toml"; None; None; Some "JSON"; None; Some "dsl"; Some ""; Some "yml"] /\
  map (fun e => parser_of_ext e) ["json"; "yaml"; "toml"; "dsl"; "yml"; "JSON"; ""]
    = [Some PJson; Some PYaml; Some PToml; Some PDsl; None; None; None] /\
  resolve "/crate/root" "defs/a.json" = "/crate/root/defs/a.json" /\
  resolve "/crate/root/" "defs/a.json" = "/crate/root/defs/a.json" /\
  resolve "/crate/root" "/abs/b.yaml" = "/abs/b.yaml".
Proof. vm_compute. repeat split. Qed.

(* CLI on a toy library: T = string, pretty = identity *)
Definition demo_fs (p : string) : option string :=
  if String.eqb p "ok.json" then Some "J" else if String.eqb p "bad.toml" then Some "T"
  else if String.eqb p "x.dsl" then Some "D" else if String.eqb p "y.txt" then Some "Y" else None.
Definition demo_lib (p : parser) (c : string) : option string :=
  match p with
  | PJson => Some ("pub struct Dev;" ++ c)%string
  | PToml => Some "::core::compile_error!(""boom"")"
  | PYaml => Some ("::core::compile_error!(""semi"");" ++ String (ascii_of_nat 10) EmptyString)%string
  | PDsl => None
  end.
Definition demo_cli (path : string) (out : option string) : cli_result :=
  cli_run demo_fs (fun f => negb (String.eqb f "/nodir/o.rs")) demo_lib (fun s => s) {| ci_path := path; ci_out := out |}.

Example C20_demo_cli :
  demo_cli "ok.json" None = {| r_writes := [(Stdout, "pub struct Dev;J")]; r_stop := Finished |} /\
  demo_cli "ok.json" (Some "o.rs") = {| r_writes := [(ToFile "o.rs", "pub struct Dev;J")]; r_stop := Finished |} /\
  demo_cli "ok.json" (Some "/nodir/o.rs") = {| r_writes := []; r_stop := PanicCannotCreate |} /\
  demo_cli "bad.toml" (Some "o.rs") = {| r_writes := [(ToFile "o.rs", "::core::compile_error!(""boom"")")]; r_stop := PanicStrip |} /\
  exit_status (r_stop (demo_cli "bad.toml" None)) = 101%Z /\
  r_stop (demo_cli "x.dsl" None) = PanicLibrary /\
  r_stop (demo_cli "y.txt" None) = PanicUnknownExtension /\
  r_stop (demo_cli "missing.json" None) = PanicUnreadable /\
  r_stop (demo_cli "noext" None) = PanicNoExtension.
Proof. vm_compute. repeat split. Qed.

(* the `Err` return (status 1) is reachable in the model only for a text ending in: quote, closing
   parenthesis, semicolon, newline *)
Example C20_demo_cli_err_return :
  let r := cli_run (fun _ => Some "") (fun _ => true) demo_lib (fun s => s) {| ci_path := "e.yaml"; ci_out := None |} in
  r_stop r = ReturnedErr /\ exit_status (r_stop r) = 1%Z.
Proof. vm_compute. split; reflexivity. Qed.

(* macro on the same toy library *)
Example C20_demo_macro :
  macro_expand demo_fs "" demo_lib (MManifest "ok.json") = MExpand "pub struct Dev;J" /\
  macro_expand (fun p => if String.eqb p "/root/ok.json" then Some "K" else None) "/root" demo_lib (MManifest "ok.json")
    = MExpand "pub struct Dev;K" /\
  macro_expand demo_fs "/root" demo_lib (MManifest "ok.json") = MCompileError (MECannotOpen "/root/ok.json") /\
  macro_expand demo_fs "" demo_lib (MManifest "y.txt") = MCompileError (MEUnknownExtension "txt") /\
  macro_expand demo_fs "" demo_lib (MInline "anything") = MCompileError MELibrary.
Proof. vm_compute. repeat split. Qed.

Print Assumptions C20_accepted_output_order_independent.
Print Assumptions C20_reset_pass_order_independent.
Print Assumptions C20_bykey_operations_layout_independent.
Print Assumptions C20_error_order_refuted.
Print Assumptions C20_error_order_dependent_when_several.
Print Assumptions C20_error_unique_when_single_partial.
Print Assumptions C20_outcome_varies_only_within_candidates.
Print Assumptions C20_cli_status.
Print Assumptions C20_dispatch_on_extension.
