(* C08 — Reset values reach the wire exactly as declared.
   Property theorems only; the model and the specification are in theories/Reset.v, proofs in ResetProofs.v.

   Vocabulary (Reset.v):
     convert_reset_value rv bit_order size ty name byte_order : outcome (result (list Z))
         the model of reset_values_converted::convert_reset_value; Fail = generator panic, Ok (RErr e) = compile_error!,
         Ok (ROk bytes) = the byte literals later emitted
     accepted r := exists out, r = Ok (ROk out)        rejected r := r is Ok (RErr e) with kind reset_len / reset_too_big
     spec_bytes rv bo size   what the property says a fresh field set holds: None -> zeros of ceil(size/8) bytes,
                             array -> verbatim, integer v -> bytes (v / 256^i) mod 256 for i < ceil(size/8), reversed for BE
     reg_bit bo bito bytes k := BitsSpec.setbit (bo_of bo) (bito_of bito) bytes k      -- exactly C01's numbering
     spec_reject             array: length <> ceil(size/8) \/ exists k in [size, 8*len) with reg_bit = true
                             integer v: 2^(8*ceil(size/8)) <= v \/ exists such k in the bytes spec_bytes produces
     pipeline_with rf d      byte_order_specified ; reset_values_converted ; refs_validated ; emission of the
                             constructors (rf = true: refs_validated first, the repaired order) *)
From Coq Require Import ZArith List Bool String Lia.
From DD Require Import Common Carrier Bits BitsSpec Mir GenErr Layout Reset ResetProofs.
From DD Require ResetWire Proto.
Import ListNotations.
Open Scope Z_scope.

(* ---------------------------------------------------------------- the conversion, for EVERY size 1..128 *)

(* On the property's whole domain — every size 1..128, both byte orders, both bit orders, integer (any u128) and
   array (any length, any bytes) form — the conversion accepts exactly the values the property does not want
   rejected, and rejects (with a compile error, not a panic) exactly the others. *)
Theorem C08_accept_iff : forall rv bito size ty name bo,
  1 <= size <= 128 -> rv_wf rv ->
  (accepted (convert_reset_value rv bito size ty name bo) <-> ~ spec_reject rv bo bito size) /\
  (rejected (convert_reset_value rv bito size ty name bo) <-> spec_reject rv bo bito size).
Proof. exact convert_accept_iff. Qed.

(* ... and it never panics there. *)
Theorem C08_never_panics : forall rv bito size ty name bo, 1 <= size <= 128 ->
  accepted (convert_reset_value rv bito size ty name bo) \/ rejected (convert_reset_value rv bito size ty name bo).
Proof. exact convert_total. Qed.

(* Whatever is accepted comes out as the property says (array verbatim; integer = little-endian bytes cut to
   ceil(size/8), reversed for BE registers), with exactly ceil(size/8) bytes, so the emitted literal fits [u8; N]. *)
Theorem C08_bytes : forall rv bito size ty name bo out, 0 <= size ->
  convert_reset_value rv bito size ty name bo = Ok (ROk out) ->
  out = spec_bytes (Some rv) bo size /\ Z.of_nat (List.length out) = byte_len size.
Proof. exact convert_bytes. Qed.

(* No accepted value has a bit at or above the register's size — bit k in C01's numbering for the register's own
   byte and bit order. *)
Theorem C08_no_bit_at_or_above_size : forall rv bito size ty name bo out,
  1 <= size <= 128 -> rv_wf rv ->
  convert_reset_value rv bito size ty name bo = Ok (ROk out) ->
  forall k, size <= k < 8 * Z.of_nat (List.length out) -> setbit (bo_of bo) (bito_of bito) out k = false.
Proof. exact convert_no_high_bit. Qed.

(* The out-of-range rule of the array form IS C01's numbering: an array of the right length is rejected iff some
   set-bit k with size <= k < 8*len is 1, where set-bit k is BitsSpec.setbit (phys_byte / phys_bit) for the
   register's byte and bit order; otherwise it is passed through verbatim. Any size >= 1. *)
Theorem C08_out_of_range_bit_uses_C01_numbering : forall arr bo bito size ty name,
  1 <= size -> Z.of_nat (List.length arr) = byte_len size ->
  (rejected (convert_reset_value (RArr arr) bito size ty name bo) <->
   exists k, size <= k < 8 * Z.of_nat (List.length arr) /\ setbit (bo_of bo) (bito_of bito) arr k = true) /\
  (convert_reset_value (RArr arr) bito size ty name bo = Ok (ROk arr) <->
   forall k, size <= k < 8 * Z.of_nat (List.length arr) -> setbit (bo_of bo) (bito_of bito) arr k = false).
Proof. exact array_reject_uses_setbit. Qed.

(* LSB0 registers: an integer is accepted iff it is below 2^size (for MSB0 the rule is C08_accept_iff's: the
   unused bits are the LOW bits of the last little-endian byte). *)
Theorem C08_int_lsb0_accept_iff : forall v size ty name bo, 1 <= size <= 128 -> 0 <= v < 2 ^ 128 ->
  accepted (convert_reset_value (RInt v) BiLSB0 size ty name bo) <-> v < 2 ^ size.
Proof. exact int_lsb0_accept_iff. Qed.

(* Outside the property's range: an integer reset value on a register wider than 128 bits panics the generator
   (slice of the 128-bit view) — this is why the guard size <= 128 above is needed, not a totalised default. *)
Theorem C08_int_over_128_panics : forall bito bo v size ty name, 128 < size ->
  convert_reset_value (RInt v) bito size ty name bo = Fail AssertFail.
Proof. exact convert_int_over_128. Qed.

(* ---------------------------------------------------------------- the device: constructors and accessors *)

(* Every register of an accepted definition (any nesting depth): its field set's new() holds the declared value
   converted as above — zeros when none is declared —, [u8; N] / new_zero() have N = ceil(size/8) = the number of
   literals in new(), its accessor hands `new` to RegisterOperation, and its declared value was acceptable.
   The byte order is the register's own, else the global default, else LE (sizes <= 8). *)
Theorem C08_new_constructor : forall rf d em,
  pipeline_with rf d = Ok (ROk em) -> forall r,
  In (ORegister r) (preorder_objects (d_objects d)) -> 0 < rg_size_bits r ->
  let bo := effective_byte_order (d_config d) (rg_byte_order r) in
  (exists cs, In cs (em_sets em) /\ cs_name cs = rg_name r /\ cs_size_bits cs = rg_size_bits r /\
              cs_size_bytes cs = byte_len (rg_size_bits r) /\
              cs_new cs = spec_bytes (rg_reset r) bo (rg_size_bits r) /\
              Z.of_nat (List.length (cs_new cs)) = cs_size_bytes cs) /\
  In {| ac_name := snake (rg_name r); ac_field_set := rg_name r; ac_reset_fn := "new" |} (em_accessors em) /\
  (forall rv, rg_reset r = Some rv ->
     accepted (convert_reset_value rv (rg_bit_order r) (rg_size_bits r) "register" (rg_name r) bo)).
Proof. exact register_constructors. Qed.

(* With unique object names (names_unique runs earlier), EVERY emitted constructor set with the register's name
   has these bytes. *)
Theorem C08_new_constructor_unique : forall rf d em,
  pipeline_with rf d = Ok (ROk em) -> forall r cs,
  NoDup (map object_name (preorder_objects (d_objects d))) ->
  In (ORegister r) (preorder_objects (d_objects d)) -> 0 < rg_size_bits r ->
  In cs (em_sets em) -> cs_name cs = rg_name r ->
  cs_new cs = spec_bytes (rg_reset r) (effective_byte_order (d_config d) (rg_byte_order r)) (rg_size_bits r) /\
  cs_size_bytes cs = byte_len (rg_size_bits r) /\ cs_size_bits cs = rg_size_bits r.
Proof. exact register_constructor_unique. Qed.

(* A ref that overrides the reset value (ref and target anywhere in the tree, target before or after the ref):
   the target's field set gets its own constructor new_as_<snake ref name>() holding the override converted with
   the TARGET's size, bit order and byte order; the ref's accessor hands exactly that constructor to
   RegisterOperation (so write() starts from the override); the target's own new() keeps the target's own value;
   and the override was acceptable. *)
Theorem C08_ref_override_own_constructor : forall rf d em,
  pipeline_with rf d = Ok (ROk em) -> forall c name target acc addr aao rv rep base,
  In (ORef c name (OvRegister target acc addr aao (Some rv) rep)) (preorder_objects (d_objects d)) ->
  search_object target (d_objects d) = Some (ORegister base) -> 0 < rg_size_bits base ->
  let bo := effective_byte_order (d_config d) (rg_byte_order base) in
  let size := rg_size_bits base in
  (exists cs, In cs (em_sets em) /\ cs_name cs = rg_name base /\
              In (new_as_name name, spec_bytes (Some rv) bo size) (cs_new_as cs) /\
              cs_new cs = spec_bytes (rg_reset base) bo size) /\
  In {| ac_name := snake name; ac_field_set := rg_name base; ac_reset_fn := new_as_name name |} (em_accessors em) /\
  accepted (convert_reset_value rv (rg_bit_order base) size "ref register" name bo).
Proof. exact ref_override_own_constructor. Qed.

(* A ref without reset override uses the target's new(). *)
Theorem C08_ref_without_override_uses_new : forall rf d em,
  pipeline_with rf d = Ok (ROk em) -> forall c name target acc addr aao rep base,
  In (ORef c name (OvRegister target acc addr aao None rep)) (preorder_objects (d_objects d)) ->
  search_object target (d_objects d) = Some (ORegister base) ->
  In {| ac_name := snake name; ac_field_set := rg_name base; ac_reset_fn := "new" |} (em_accessors em).
Proof. exact ref_without_override_uses_new. Qed.

(* A definition holding a register whose declared reset value must be rejected is not accepted. *)
Theorem C08_device_rejects_bad_reset : forall rf d r rv,
  In (ORegister r) (preorder_objects (d_objects d)) -> rg_reset r = Some rv ->
  1 <= rg_size_bits r <= 128 -> rv_wf rv ->
  spec_reject rv (effective_byte_order (d_config d) (rg_byte_order r)) (rg_bit_order r) (rg_size_bits r) ->
  forall em, pipeline_with rf d <> Ok (ROk em).
Proof. exact device_rejects_bad_reset. Qed.

(* search_object (transcribed recursion) = first object with that name in pre-order. *)
Theorem C08_search_object_first_in_preorder : forall name objs,
  search_object name objs = find (fun x => String.eqb (object_name x) name) (preorder_objects objs).
Proof. exact search_object_is_find. Qed.

(* ---------------------------------------------------------------- non-vacuity *)

(* book/src/registers.md: RESET_VALUE = 0x1234 on a 16-bit register is [0x34, 0x12] (LE) / [0x12, 0x34] (BE);
   the array form [52, 18] is taken verbatim; the repository's unit tests (0x423 on 10/11 bits, MSB0 0xF8 on 5 bits,
   [0x20,0xC4] BE MSB0 on 10/11 bits, 3 bytes for 32 bits). *)
Example C08_book_examples :
  convert_reset_value (RInt 0x1234) BiLSB0 16 "register" "Foo" BoLE = Ok (ROk [0x34; 0x12]) /\
  convert_reset_value (RInt 0x1234) BiLSB0 16 "register" "Foo" BoBE = Ok (ROk [0x12; 0x34]) /\
  convert_reset_value (RArr [52; 18]) BiLSB0 16 "register" "Foo" BoLE = Ok (ROk [52; 18]) /\
  convert_reset_value (RArr [52; 18]) BiMSB0 16 "register" "Foo" BoBE = Ok (ROk [52; 18]) /\
  convert_reset_value (RInt 0x423) BiLSB0 11 "register" "Reg" BoLE = Ok (ROk [0x23; 0x04]) /\
  rejected (convert_reset_value (RInt 0x423) BiLSB0 10 "register" "Reg" BoLE) /\
  convert_reset_value (RInt 0xF8) BiMSB0 5 "register" "Reg" BoLE = Ok (ROk [0xF8]) /\
  rejected (convert_reset_value (RInt 0x1F) BiMSB0 5 "register" "Reg" BoLE) /\
  convert_reset_value (RArr [0x20; 0xC4]) BiMSB0 11 "register" "Reg" BoBE = Ok (ROk [0x20; 0xC4]) /\
  rejected (convert_reset_value (RArr [0x20; 0xC4]) BiMSB0 10 "register" "Reg" BoBE) /\
  rejected (convert_reset_value (RArr [0; 0; 0]) BiLSB0 32 "register" "Reg" BoLE) /\
  convert_reset_value (RInt (2 ^ 128 - 1)) BiMSB0 128 "register" "Reg" BoBE = Ok (ROk (List.repeat 255 16)) /\
  rejected (convert_reset_value (RInt (2 ^ 127)) BiLSB0 127 "register" "Reg" BoBE).
Proof.
  vm_compute. repeat split; try reflexivity;
    (eexists; split; [reflexivity|]; first [left; reflexivity|right; reflexivity]).
Qed.

(* both sides of C08_accept_iff are inhabited: an out-of-range bit in C01's numbering (BE: the first byte is the
   high one; MSB0: bit 10 of [0x20,0xC4] BE is the 0x20 bit of the first byte), a wrong length, an integer that
   does not fit; and acceptable values *)
Example C08_spec_reject_inhabited :
  spec_reject (RArr [0x20; 0xC4]) BoBE BiMSB0 10 /\ ~ spec_reject (RArr [0x20; 0xC4]) BoBE BiMSB0 11 /\
  spec_reject (RArr [0; 0; 0]) BoLE BiLSB0 32 /\
  spec_reject (RInt 0x10000) BoBE BiLSB0 16 /\ ~ spec_reject (RInt 0x1234) BoBE BiLSB0 16 /\
  rv_wf (RInt 0x1234) /\ rv_wf (RArr [0x20; 0xC4]).
Proof.
  split; [right; exists 10; split; [cbn; lia|reflexivity]|].
  split; [apply (proj1 (C08_accept_iff (RArr [0x20; 0xC4]) BiMSB0 11 "register" "R" BoBE ltac:(lia)
                          ltac:(repeat constructor; lia))); eexists; reflexivity|].
  split; [left; cbn; lia|].
  split; [left; cbn; lia|].
  split; [apply (proj1 (C08_accept_iff (RInt 0x1234) BiLSB0 16 "register" "R" BoBE ltac:(lia) ltac:(cbn; lia)));
          eexists; reflexivity|].
  split; [cbn; lia|repeat constructor; lia].
Qed.

Definition ex_cfg : config :=
  {| g_default_register_access := RW; g_default_field_access := RW; g_default_buffer_access := RW;
     g_default_byte_order := None; g_default_bit_order := BiLSB0; g_register_address_type := Some IU8;
     g_command_address_type := None; g_buffer_address_type := None; g_boundaries := []; g_defmt_feature := None |}.
Definition ex_reg (name : string) (size : Z) (bo : option byte_ord) (rv : option reset_value) : object :=
  ORegister {| rg_cfg := None; rg_name := name; rg_access := RW; rg_byte_order := bo; rg_bit_order := BiLSB0;
               rg_allow_bit_overlap := false; rg_allow_address_overlap := false; rg_address := 0;
               rg_size_bits := size; rg_reset := rv; rg_repeat := None; rg_fields := [] |}.

(* book/src/refs.md shape: a ref nested in a block BEFORE its target, overriding the reset value of a BE register:
   Foo::new() = [0x12,0x34], Foo::new_as_foo_ref() = [0,5] (5 as a 16-bit BE register), accessor foo_ref uses it,
   a second ref without override uses new; a register without reset value gets zeros. *)
Example C08_device_example :
  let d := {| d_config := ex_cfg;
              d_objects := [OBlock None "Blk" 10 None
                               [ORef None "FooRef" (OvRegister "Foo" None (Some 5) false (Some (RInt 5)) None);
                                ORef None "FooPlain" (OvRegister "Foo" None (Some 6) false None None)];
                            ex_reg "Foo" 16 (Some BoBE) (Some (RInt 0x1234));
                            ex_reg "Bar" 12 (Some BoLE) None] |} in
  pipeline d = Ok (ROk {|
    em_sets := [ {| cs_name := "Foo"; cs_size_bits := 16; cs_size_bytes := 2; cs_new := [0x12; 0x34];
                    cs_new_as := [("new_as_foo_ref"%string, [0; 5])] |};
                 {| cs_name := "Bar"; cs_size_bits := 12; cs_size_bytes := 2; cs_new := [0; 0]; cs_new_as := [] |} ];
    em_accessors := [ {| ac_name := "foo_ref"; ac_field_set := "Foo"; ac_reset_fn := "new_as_foo_ref" |};
                      {| ac_name := "foo_plain"; ac_field_set := "Foo"; ac_reset_fn := "new" |};
                      {| ac_name := "foo"; ac_field_set := "Foo"; ac_reset_fn := "new" |};
                      {| ac_name := "bar"; ac_field_set := "Bar"; ac_reset_fn := "new" |} ] |}) /\
  pipeline_with true d = pipeline d /\
  search_object "Foo" (d_objects d) = Some (ex_reg "Foo" 16 (Some BoBE) (Some (RInt 0x1234))) /\
  NoDup (map object_name (preorder_objects (d_objects d))).
Proof.
  vm_compute. repeat split.
  repeat (constructor; [cbn; intuition discriminate|]). constructor.
Qed.

(* finding D14: a ref with a reset override whose target does not exist (or is not a register) panics the generator,
   because reset_values_converted runs before refs_validated; with the repaired order it is a proper error *)
Example C08_dangling_override_panics :
  let d := {| d_config := ex_cfg;
              d_objects := [ORef None "FooRef" (OvRegister "Nope" None (Some 5) false (Some (RInt 1)) None)] |} in
  pipeline_with false d = Fail AssertFail /\
  pipeline_with true d = Ok (RErr (mk_err "ref_unknown" ["Register"; "FooRef"; "Nope"]%string)).
Proof. vm_compute. split; reflexivity. Qed.

(* Composition with the register protocol (C05): the bytes `write(|_| ())` hands the interface are the declared
   reset value — one interface write, the declared size, ceil(size/8) bytes. *)
Theorem C08_write_sends_reset : forall rf d em r orc h a,
  pipeline_with rf d = Ok (GenErr.ROk em) ->
  In (ORegister r) (preorder_objects (d_objects d)) -> 0 < rg_size_bits r ->
  let bo := effective_byte_order (d_config d) (rg_byte_order r) in
  let wire := spec_bytes (rg_reset r) bo (rg_size_bits r) in
  exists cs resp,
    In cs (em_sets em) /\ cs_name cs = rg_name r /\ cs_new cs = wire /\
    In {| ac_name := snake (rg_name r); ac_field_set := rg_name r; ac_reset_fn := "new" |} (em_accessors em) /\
    Proto.run orc (Proto.reg_write a (rg_size_bits r) (cs_new cs) ResetWire.id_closure) h =
      ([(Proto.RegWrite a (rg_size_bits r) wire, resp)],
       Proto.Done (match Proto.r_res resp with Proto.ROk _ => Proto.ROk tt | Proto.RErr e => Proto.RErr e end)).
Proof. exact ResetWire.register_write_sends_reset. Qed.

(* A ref that overrides the reset value sends ITS value through its own constructor; the target keeps its own. *)
Theorem C08_ref_write_sends_override : forall rf d em c name target acc addr aao rv rep base orc h a,
  pipeline_with rf d = Ok (GenErr.ROk em) ->
  In (ORef c name (OvRegister target acc addr aao (Some rv) rep)) (preorder_objects (d_objects d)) ->
  search_object target (d_objects d) = Some (ORegister base) -> 0 < rg_size_bits base ->
  let bo := effective_byte_order (d_config d) (rg_byte_order base) in
  let size := rg_size_bits base in
  let wire := spec_bytes (Some rv) bo size in
  exists cs resp,
    In cs (em_sets em) /\ cs_name cs = rg_name base /\
    In (new_as_name name, wire) (cs_new_as cs) /\
    cs_new cs = spec_bytes (rg_reset base) bo size /\
    In {| ac_name := snake name; ac_field_set := rg_name base; ac_reset_fn := new_as_name name |} (em_accessors em) /\
    Proto.run orc (Proto.reg_write a size wire ResetWire.id_closure) h =
      ([(Proto.RegWrite a size wire, resp)],
       Proto.Done (match Proto.r_res resp with Proto.ROk _ => Proto.ROk tt | Proto.RErr e => Proto.RErr e end)).
Proof. exact ResetWire.ref_write_sends_override. Qed.

Print Assumptions C08_accept_iff.
Print Assumptions C08_never_panics.
Print Assumptions C08_bytes.
Print Assumptions C08_no_bit_at_or_above_size.
Print Assumptions C08_out_of_range_bit_uses_C01_numbering.
Print Assumptions C08_int_lsb0_accept_iff.
Print Assumptions C08_int_over_128_panics.
Print Assumptions C08_new_constructor.
Print Assumptions C08_new_constructor_unique.
Print Assumptions C08_ref_override_own_constructor.
Print Assumptions C08_ref_without_override_uses_new.
Print Assumptions C08_device_rejects_bad_reset.
Print Assumptions C08_search_object_first_in_preorder.
Print Assumptions C08_write_sends_reset.
Print Assumptions C08_ref_write_sends_override.

(* The ORDER of the passes that Pipeline.v sequences (and in which the first error wins), TRANSLATED from the two
   `run_passes` functions of generation/src/{mir,lir}/passes/mod.rs on every build: reset_values_converted runs after refs_validated (the repair of D14) and before bool_fields_checked / bit_ranges_validated. *)
From DD Require GenPassOrder.
Theorem C08_pass_order_from_source :
  DDGen.PassOrder.mir_pass_order = GenPassOrder.expected_mir_pass_order /\
  DDGen.PassOrder.lir_pass_order = GenPassOrder.expected_lir_pass_order.
Proof. exact GenPassOrder.pass_order_as_modelled. Qed.
Print Assumptions C08_pass_order_from_source.
