(* C08 — Reset values reach the wire exactly as declared. *)
From Coq Require Import ZArith List Bool String.
From DD Require Import Common Mir GenErr Reset ResetProofs.
