(* C01 — Field bits occupy the documented physical positions for every byte/bit order.
   Property theorems only; proofs live in theories/BitsProofs.v. *)
From Coq Require Import ZArith List Bool.
From DD Require Import Common Carrier Bits BitsSpec BitsProofs.
Import ListNotations.
Open Scope Z_scope.

(* Reading a field over [s,e): for every pointer width the DedupCast table provides, every
   byte order, bit order, carrier type, buffer and in-bounds range no wider than the
   carrier, the model of ops.rs returns the carrier-typed value whose bit j is set-bit
   field_pos(j) — LSB0: s+j; MSB0: the mirror image of s+j inside its byte chunk — read at
   the documented physical position (phys_byte / phys_bit).  No panic, no UB. *)
Theorem C01_load_layout : forall ptrw bo bito c data s e,
  In ptrw ptr_widths -> In c carriers -> bytes_ok data ->
  0 <= s -> s < e -> e <= 8 * Z.of_nat (length data) -> e - s <= bits (cty_ity ptrw c) ->
  load ptrw bo bito c data s e = Some (Ok (wrap (cty_ity ptrw c) (spec_load bo bito data s e))).
Proof. exact load_layout. Qed.

(* spec_load really is "sum over j of 2^j * setbit(field_pos j)" *)
Theorem C01_spec_load_bits : forall bo bito data s e j, 0 <= j -> s <= e ->
  Z.testbit (spec_load bo bito data s e) j = (j <? e - s) && setbit bo bito data (field_pos bito s e j).
Proof. exact spec_load_bits. Qed.

(* Writing a field: same quantifiers, any value v.  Afterwards every set-bit k inside the
   range holds value bit (mirror k - s) (i.e. value bit j sits at set-bit field_pos j), every
   set-bit outside the range is unchanged, the length is unchanged and all bytes stay bytes. *)
Theorem C01_store_layout : forall ptrw bo bito c v data s e,
  In ptrw ptr_widths -> In c carriers -> bytes_ok data ->
  0 <= s -> s < e -> e <= 8 * Z.of_nat (length data) -> e - s <= bits (cty_ity ptrw c) ->
  exists data', store ptrw bo bito c v s e data = Some (Ok data') /\ store_post bo bito v s e data data'.
Proof. exact store_layout. Qed.

(* field_pos and mirror are inverse descriptions of one bijection of [s,e) *)
Theorem C01_mirror_involution : forall bito s e k, 0 <= s -> s <= k < e ->
  mirror bito s e (mirror bito s e k) = k /\ s <= mirror bito s e k < e.
Proof. intros; split; [apply mirror_invol|apply mirror_range]; assumption. Qed.

(* The DedupCast table translated from ops.rs gives every carrier a unique, wide-enough,
   equally-signed working type on all three pointer widths. *)
Theorem C01_dedup_table_adequate :
  forallb (fun ptrw => forallb (dedup_adequate ptrw) carriers) ptr_widths = true.
Proof. exact dedup_table_adequate. Qed.

(* Non-vacuity: the eight tables of book/src/memory.md (bit 0 and bit 10 of a 2-byte array). *)
Example C01_memory_md_bit0 :
  map (fun '(bo, bito) => store 64 bo bito U8 1 0 1 [0; 0])
      [(LE, LSB0); (LE, MSB0); (BE, LSB0); (BE, MSB0)]
  = [Some (Ok [1; 0]); Some (Ok [128; 0]); Some (Ok [0; 1]); Some (Ok [0; 128])].
Proof. vm_compute. reflexivity. Qed.

Example C01_memory_md_bit10 :
  map (fun '(bo, bito) => store 64 bo bito U8 1 10 11 [0; 0])
      [(LE, LSB0); (LE, MSB0); (BE, LSB0); (BE, MSB0)]
  = [Some (Ok [0; 4]); Some (Ok [0; 32]); Some (Ok [4; 0]); Some (Ok [32; 0])].
Proof. vm_compute. reflexivity. Qed.

(* a 12-bit MSB0 field crossing a byte boundary: chunks keep natural significance, low chunk first *)
Example C01_msb0_crossing :
  load 64 LE MSB0 U16 [0x0A; 0xBC] 4 16 = Some (Ok 0xBCA) /\
  load 64 BE MSB0 I16 [0xBC; 0x0A] 4 16 = Some (Ok 0xBCA) /\
  load 64 LE LSB0 I16 [0xFF; 0xFF] 0 16 = Some (Ok (-1)).
Proof. vm_compute. repeat split. Qed.

Print Assumptions C01_load_layout.
Print Assumptions C01_spec_load_bits.
Print Assumptions C01_store_layout.
Print Assumptions C01_mirror_involution.
Print Assumptions C01_dedup_table_adequate.
