(* C06 — Generated field-set API implements exactly the declared layout and types.
   Model of the emission: theories/FieldSetGen.v (tied to the real token stream: every emitted
   field-set fact — name, [u8; N], SIZE_BITS, per accessor the ops function, carrier, byte-order type,
   literals, conversion form and return/argument type — is compared with the model on every run). *)
From Coq Require Import ZArith List Bool String.
From DD Require Import Common Carrier Bits BitsSpec BitsProofs BitsRoundtrip Mir GenErr Layout LayoutProofs FieldSetGen FieldSetGenProofs.
Import ListNotations.
Open Scope Z_scope.

(* The emitted field sets of an accepted device are exactly: per register one set with its name, per
   command `<Name>FieldsIn` / `<Name>FieldsOut` (sets of size 0 are not emitted), in declaration
   (pre-)order at any nesting depth, built from the declared fields with single-address bools widened
   to one bit, using the object's bit order and the effective byte order. *)
Theorem C06_emitted_sets_are_the_declared_ones : forall d l,
  emitted_field_sets d = Some l ->
  l = flat_map (fun o => object_field_set_facts (d_config d) (widen_object o)) (preorder_objects (d_objects d)).
Proof. exact emitted_sets_exact. Qed.

(* Effective byte order: object setting, else global default, else LE — and that last case is only
   reachable for sets of at most 8 bits, because larger ones without any byte order are rejected. *)
Theorem C06_effective_byte_order : forall g own,
  effective_byte_order g own =
    match own with Some b => b | None => match g_default_byte_order g with Some b => b | None => BoLE end end.
Proof. reflexivity. Qed.

Theorem C06_le_fallback_only_for_small_sets : forall d r,
  layout_check d = None -> In (ORegister r) (preorder_objects (d_objects d)) ->
  rg_byte_order r = None -> g_default_byte_order (d_config d) = None -> rg_size_bits r <= 8.
Proof.
  intros d r Hacc Hin Hn Hg. apply layout_accept_iff_wf in Hacc. unfold wf_layout in Hacc.
  rewrite Forall_forall in Hacc. specialize (Hacc _ Hin). cbn in Hacc. destruct Hacc as [_ Hbo].
  specialize (Hbo Hn Hg). inversion Hbo; assumption.
Qed.

(* The getter emitted for a declared field reads EXACTLY the declared bit range [start, end) through
   the documented physical positions (C01's spec_load) under those orders; no panic, no UB. *)
Theorem C06_getter_reads_declared_range : forall ptrw bo bi size f bytes,
  In ptrw ptr_widths -> size <> 0 -> field_ok size f -> 0 <= f_start f -> field_end f - f_start f <= 128 ->
  bytes_ok bytes -> Z.of_nat (List.length bytes) = div_ceil8 size ->
  exists c, cty_of (field_signed f) (field_cbits (widen f)) = Some c /\
    getter_call ptrw (getter_of bo bi (widen f)) bytes =
      Some (Ok (wrap (cty_ity ptrw c)
                  (spec_load (to_byte_order bo) (to_bit_order bi) bytes (f_start f) (field_end f)))).
Proof. exact getter_reads_declared_range. Qed.

(* The setter writes exactly that range and nothing else (C01's store_post). *)
Theorem C06_setter_writes_declared_range : forall ptrw bo bi size f v bytes,
  In ptrw ptr_widths -> size <> 0 -> field_ok size f -> 0 <= f_start f -> field_end f - f_start f <= 128 ->
  bytes_ok bytes -> Z.of_nat (List.length bytes) = div_ceil8 size ->
  exists bytes', setter_call ptrw (setter_of bo bi (widen f)) v bytes = Some (Ok bytes') /\
    store_post (to_byte_order bo) (to_bit_order bi) v (f_start f) (field_end f) bytes bytes'.
Proof. exact setter_writes_declared_range. Qed.

(* Carrier: the smallest of 8,16,32,64,128 bits that fits the width; signed iff the base type is int;
   bool travels in a u8. *)
Theorem C06_carrier_minimal : forall w, 0 < w <= 128 ->
  let b := carrier_bits w in
  w <= b /\ (b = 8 \/ b = 16 \/ b = 32 \/ b = 64 \/ b = 128) /\ (b = 8 \/ b / 2 < w).
Proof. exact carrier_bits_minimal. Qed.

Theorem C06_carrier_sign_and_bool : forall f,
  field_signed f = (match f_base f with BInt => true | _ => false end) /\
  (f_base f = BBool -> field_cbits f = 8 /\ field_signed f = false /\ conv_form_of f = CBool).
Proof. intros f. split; [reflexivity|]. intros H. unfold field_cbits, field_signed, conv_form_of. rewrite H. auto. Qed.

(* A field has a getter iff it is readable and a setter iff it is writable (also part of C17). *)
Theorem C06_getter_iff_readable : forall name bo bi size fs,
  size <> 0 ->
  (forall f, In f fs -> readable (f_access f) = true ->
     In (getter_of bo bi f) (flat_map fs_getters (field_set_facts name bo bi size fs))) /\
  (forall a, In a (flat_map fs_getters (field_set_facts name bo bi size fs)) ->
     exists f, In f fs /\ readable (f_access f) = true /\ a = getter_of bo bi f).
Proof.
  intros. split; [intros; apply readable_field_has_getter; assumption|apply emitted_getters_only_readable].
Qed.

Theorem C06_setter_iff_writable : forall name bo bi size fs,
  size <> 0 ->
  (forall f, In f fs -> writable (f_access f) = true ->
     In (setter_of bo bi f) (flat_map fs_setters (field_set_facts name bo bi size fs))) /\
  (forall a, In a (flat_map fs_setters (field_set_facts name bo bi size fs)) ->
     exists f, In f fs /\ writable (f_access f) = true /\ a = setter_of bo bi f).
Proof.
  intros. split; [intros; apply writable_field_has_setter; assumption|apply emitted_setters_only_writable].
Qed.

(* Conversion types are prefixed with `super::` exactly when they are relative paths (no leading `::`,
   first segment not `crate`), so that they resolve from the enclosing module. *)
Example C06_prefix_rule :
  prefixed "Ty" = "super::Ty"%string /\ prefixed "a::B" = "super::a::B"%string /\
  prefixed "crate::a::B" = "crate::a::B"%string /\ prefixed "::core::primitive::u8" = "::core::primitive::u8"%string /\
  prefixed "crate_x::T" = "super::crate_x::T"%string.
Proof. vm_compute. repeat split. Qed.

(* Non-vacuity: s2-lp's SYNT register of book/src/memory.md (BE, LSB0, 32 bits). *)
Example C06_s2lp :
  let f := {| f_cfg := None; f_name := "synt"; f_access := RW; f_base := BUint; f_conv := None; f_start := 0; f_end := 28 |} in
  field_ok 32 f /\
  getter_call 64 (getter_of BoBE BiLSB0 (widen f)) [0xA1; 0x23; 0x45; 0x67] = Some (Ok 0x1234567) /\
  a_cbits (getter_of BoBE BiLSB0 (widen f)) = 32.
Proof. vm_compute. repeat split; try discriminate; reflexivity. Qed.

(* "Converting a field set to and from its byte array is the identity on the bytes, the bitwise operators act on all
   underlying bits": the constant part of every emitted field set (`bits: [u8; N]`, the two `From` impls, BitAnd / BitOr /
   BitXor / Not looping over the N bytes) as modelled in FieldSetGen.v (fs_from_bytes .. fs_not), compared with the
   compiled field sets on random arrays by the L2 phase of the check (queries QId / QOps). *)
Theorem C06_bytes_roundtrip : forall bs, fs_to_bytes (fs_from_bytes bs) = bs.
Proof. exact fs_bytes_roundtrip. Qed.

Theorem C06_binops_act_on_all_bits : forall a b i j,
  List.length a = List.length b -> (i < List.length a)%nat ->
  Z.testbit (nth i (fs_and a b) 0) j = Z.testbit (nth i a 0) j && Z.testbit (nth i b 0) j /\
  Z.testbit (nth i (fs_or a b) 0) j = Z.testbit (nth i a 0) j || Z.testbit (nth i b 0) j /\
  Z.testbit (nth i (fs_xor a b) 0) j = xorb (Z.testbit (nth i a 0) j) (Z.testbit (nth i b 0) j) /\
  List.length (fs_and a b) = List.length a /\ List.length (fs_or a b) = List.length a /\
  List.length (fs_xor a b) = List.length a.
Proof. exact fs_binops_act_on_all_bits. Qed.

Theorem C06_not_acts_on_all_bits : forall a i j,
  Forall (fun x => 0 <= x < 256) a -> (i < List.length a)%nat -> 0 <= j < 8 ->
  Z.testbit (nth i (fs_not a) 0) j = negb (Z.testbit (nth i a 0) j) /\
  0 <= nth i (fs_not a) 0 < 256 /\ List.length (fs_not a) = List.length a.
Proof. exact fs_not_acts_on_all_bits. Qed.

Example C06_bitops_example :
  fs_and [12; 255] [10; 1] = [8; 1] /\ fs_or [12; 0] [10; 1] = [14; 1] /\ fs_xor [12; 255] [10; 1] = [6; 254] /\
  fs_not [0; 255; 165] = [255; 0; 90].
Proof. vm_compute. repeat split; reflexivity. Qed.

(* The ops function the emitter writes for an accessor, TRANSLATED from the two order tables of
   field_set_transform.rs (get_read_function / get_write_function) on every build: for each of load / store and each
   effective (byte order, bit order) there is exactly one arm, and it names `<load|store>_<lsb0|msb0>` with the
   byte-order marker `LE` / `BE` of the effective orders — the functions whose bit-level meaning C01 / C02 prove. *)
From DD Require GenOps.
Theorem C06_ops_choice_from_source : forall kind bo bi, In kind ["load"; "store"]%string ->
  GenOps.ops_lookup kind bo bi = [GenOps.spec_ops kind bo bi].
Proof. exact GenOps.ops_choice_spec. Qed.

(* The `super::` prefix of conversion type paths: the condition in get_super_token (field_set_transform.rs), TRANSLATED from the
   source on every build (coq/gen/SuperRule.v), is "no leading `::` and the first segment is not `crate`" — nothing else — and
   FieldSetGen.needs_super, which the accessor types of the model are built with, is that rule for every path. *)
From DD Require GenSuper.
From DDGen Require SuperRule.
Theorem C06_super_prefix_rule_from_source : forall ty,
  needs_super ty = GenSuper.rule_holds SuperRule.super_rule ty.
Proof. exact GenSuper.needs_super_from_source. Qed.


Print Assumptions C06_emitted_sets_are_the_declared_ones.
Print Assumptions C06_effective_byte_order.
Print Assumptions C06_le_fallback_only_for_small_sets.
Print Assumptions C06_getter_reads_declared_range.
Print Assumptions C06_setter_writes_declared_range.
Print Assumptions C06_carrier_minimal.
Print Assumptions C06_carrier_sign_and_bool.
Print Assumptions C06_getter_iff_readable.
Print Assumptions C06_setter_iff_writable.
Print Assumptions C06_ops_choice_from_source.
Print Assumptions C06_super_prefix_rule_from_source.
Print Assumptions C06_bytes_roundtrip.
Print Assumptions C06_binops_act_on_all_bits.
Print Assumptions C06_not_acts_on_all_bits.
