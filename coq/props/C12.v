(* C12 — Address-collision analysis is sound and complete.

   Model (coq/theories/Addr.v): [lower] = the LIR blocks/methods lir_transform produces (ref lowering with
   fuel), [claimed_methods] = get_block_claimed_addresses, [pairwise_check] = the i<j double loop,
   [overlap_pass] = run_pass.   Spec: [instances] (every object at every combination of its own index and
   the indices of its enclosing blocks, refs at their own address, block refs expanding their target),
   [collide], [collision].   The parameter [fx] selects the lowering as it stands ([false]: a ref's own
   allow_address_overlap is dropped, D10) or with D10 repaired ([true]). *)
From Coq Require Import ZArith List Bool String.
From DD Require Import Common Mir GenErr Addr AddrProofs.
Import ListNotations.
Open Scope Z_scope.

(* an entry of the pass's expansion and an instance of the spec describe the same thing: same kind, same
   printed name (block path with indices, own index), same absolute address, and the spec's effective flag
   (target flag OR the ref's own flag) is the carried flag — except, in the code as it stands, for a ref
   that sets the flag itself *)
Definition same_entry (fx : bool) (c : claimed) (i : instance) : Prop :=
  c_kind c = i_kind i /\ claimed_display c = instance_display i /\ c_address c = i_addr i /\
  (i_allow i = c_allow c \/ (fx = false /\ has_tag TOwnFlag i = true /\ i_allow i = true)).

(* The expansion list of the collision pass equals the spec's instance list, entry by entry and in order,
   for EVERY tree: block repeats, nesting, register/command refs and block refs included — whenever the
   lowering, the expansion and the spec enumeration terminate with the fuel given (they do not for a
   block ref inside its own target, D11), blocks with equal names have equal children (names_unique) and no
   block carries the device's name. *)
Theorem C12_claimed_eq_instances : forall fx dev_name objs f1 BL f2 ms cl f3 il,
  unique_blocks objs -> root_name_fresh dev_name objs ->
  lower fx f1 dev_name objs = Ok BL ->
  root_methods BL = Some ms -> claimed_methods f2 BL ms 0 [] = Ok cl ->
  instances f3 objs = Ok il ->
  Forall2 (same_entry fx) cl il.
Proof. exact claimed_eq_instances. Qed.

(* The i < j double loop rejects <-> some pair of claimed entries (at positions i < j, so an object can
   collide with itself through two of its instances) has the same address, the same kind and not both
   flags — under the flags CARRIED in the LIR. *)
Theorem C12_pairwise_complete : forall cl,
  pairwise_check cl <> None <->
  exists i j a b, (i < j)%nat /\ nth_error cl i = Some a /\ nth_error cl j = Some b /\ conflict a b = true.
Proof. exact pairwise_complete. Qed.

(* Hence: for definitions in which no ref sets allow_address_overlap itself (or with D10 repaired),
   rejected <-> two instances collide. *)
Theorem C12_reject_iff_collision_partial : forall fx dev_name objs f1 BL f2 r f3 il,
  unique_blocks objs -> root_name_fresh dev_name objs ->
  (fx = true \/ no_own_flag objs = true) ->
  lower fx f1 dev_name objs = Ok BL -> overlap_pass f2 BL = Ok r -> instances f3 objs = Ok il ->
  (r <> None <-> collision il).
Proof. exact reject_iff_collision. Qed.

(* D10: without that restriction the statement is false of the code as it stands.
   register X @1; register Y @2 allow; ref Z = register X { ADDRESS = 2; ALLOW_ADDRESS_OVERLAP = true }:
   Y and Z both allow the overlap, the spec sees no collision, the pass rejects. *)
Definition ex_reg (n : string) (a : Z) (allow : bool) (rep : option repeat) : object :=
  ORegister {| rg_cfg := None; rg_name := n; rg_access := RW; rg_byte_order := None; rg_bit_order := BiLSB0;
               rg_allow_bit_overlap := false; rg_allow_address_overlap := allow; rg_address := a;
               rg_size_bits := 8; rg_reset := None; rg_repeat := rep; rg_fields := [] |}.
Definition ex_buf (n : string) (a : Z) : object :=
  OBuffer {| bf_cfg := None; bf_name := n; bf_access := RW; bf_address := a |}.
Definition ex_cmd (n : string) (a : Z) (allow : bool) (rep : option repeat) : object :=
  OCommand {| cm_cfg := None; cm_name := n; cm_address := a; cm_byte_order := None; cm_bit_order := BiLSB0;
              cm_allow_bit_overlap := false; cm_allow_address_overlap := allow; cm_size_in := 0; cm_size_out := 0;
              cm_repeat := rep; cm_in_fields := []; cm_out_fields := [] |}.

Definition d10_objs : list object :=
  [ex_reg "X" 1 false None; ex_reg "Y" 2 true None;
   ORef None "Z" (OvRegister "X" None (Some 2) true None None)].

Theorem C12_ref_flag_dropped_refuted :
  exists objs BL il e,
    unique_blocks objs /\ root_name_fresh "Dev" objs /\
    lower false 10 "Dev" objs = Ok BL /\ overlap_pass 10 BL = Ok (Some e) /\
    instances 10 objs = Ok il /\ ~ collision il /\
    e = mk_err "address_overlap" ["Y"; "Z"; "2"]%string /\
    (* ... and with the ref's own flag carried (D10 repaired) the same definition is accepted *)
    (exists BL', lower true 10 "Dev" objs = Ok BL' /\ overlap_pass 10 BL' = Ok None).
Proof.
  exists d10_objs. eexists. eexists. eexists.
  split; [apply unique_blocks_of_NoDup; vm_compute; constructor|].
  split; [apply root_name_fresh_of_names; vm_compute; tauto|].
  split; [vm_compute; reflexivity|]. split; [vm_compute; reflexivity|]. split; [vm_compute; reflexivity|].
  split; [rewrite <- find_collision_complete; vm_compute; intros H; apply H; reflexivity|].
  split; [reflexivity|]. eexists. split; [vm_compute; reflexivity|vm_compute; reflexivity].
Qed.

(* Objects of different kinds never collide: in the pass ... *)
Theorem C12_kinds_never_collide : forall a b, c_kind a <> c_kind b -> conflict a b = false.
Proof. exact kinds_never_conflict. Qed.

(* ... and a rejection always concerns two instances of the same kind at the same absolute address; the
   error carries both printed names (block path with indices :: own name (index: k)) and that address. *)
Theorem C12_error_names_both : forall fx dev_name objs f1 BL f2 e f3 il,
  unique_blocks objs -> root_name_fresh dev_name objs ->
  lower fx f1 dev_name objs = Ok BL -> overlap_pass f2 BL = Ok (Some e) -> instances f3 objs = Ok il ->
  exists i j a b, (i < j)%nat /\ nth_error il i = Some a /\ nth_error il j = Some b /\
    i_kind a = i_kind b /\ i_addr a = i_addr b /\
    e = mk_err "address_overlap" [instance_display a; instance_display b; show_Z (i_addr a)].
Proof. exact error_names_both. Qed.

(* the reported pair is the FIRST conflicting pair in (i, j) order *)
Theorem C12_error_first_pair : forall cl e,
  pairwise_check cl = Some e ->
  exists i j a b, (i < j)%nat /\ nth_error cl i = Some a /\ nth_error cl j = Some b /\ conflict a b = true /\
    e = overlap_error a b /\
    (forall i' j' a' b', (i' < j')%nat -> nth_error cl i' = Some a' -> nth_error cl j' = Some b' ->
       (i' < i)%nat \/ (i' = i /\ (j' < j)%nat) -> conflict a' b' = false).
Proof. exact pairwise_error. Qed.

(* names_unique's guarantee implies the two structural hypotheses *)
Theorem C12_hypotheses_from_unique_names : forall dev_name objs,
  NoDup (block_names objs) -> ~ In dev_name (block_names objs) ->
  unique_blocks objs /\ root_name_fresh dev_name objs.
Proof. intros dev_name objs H1 H2. split; [exact (unique_blocks_of_NoDup objs H1)|exact (root_name_fresh_of_names dev_name objs H2)]. Qed.

(* The hypothesis root_name_fresh is necessary (D11b, found by this model): `block Dev { register X @1 }` in a
   device named Dev lowers to two blocks named "Dev"; the pass looks sub-blocks up BY NAME, first match, finds the
   root, and re-enters it for ever: no fuel suffices (the real generator does not return). *)
Theorem C12_block_named_as_device_refuted :
  lower false 5 "Dev" dev_named_block = Ok dev_named_blocks /\
  forall fuel, overlap_pass fuel dev_named_blocks = Fail OutOfFuel.
Proof. exact (conj dev_named_block_lowering block_named_as_device_never_terminates). Qed.

(* ---------------------------------------------------------------------------------------------- *)
(* Non-vacuity *)

(* blocks.md: "when the offset is 5 and a child specifies address 7, then the actual used address will be 12";
   refs.md: register Foo @3, ref Bar = register Foo { ADDRESS = 5 } *)
Example C12_book_examples :
  (exists i, instances 5 [OBlock None "Foo" 5 None [ex_buf "Bar" 7]] = Ok [i] /\ i_addr i = 12 /\
             instance_display i = "Foo (index: 0)::Bar"%string) /\
  (exists a b, instances 5 [ex_reg "Foo" 3 false None; ORef None "Bar" (OvRegister "Foo" None (Some 5) false None None)]
               = Ok [a; b] /\ i_addr a = 3 /\ i_addr b = 5 /\ i_name b = "Bar"%string /\ collide a b = false).
Proof. split; [eexists|eexists; eexists]; vm_compute; repeat split; reflexivity. Qed.

(* the unit test of the pass (deep_overlap_detected), from the MIR:
   block SecondBlock { offset 10, repeat 10 x 10 } { register Register1 @0 }, register Register0 @75 repeat 2 x 5 *)
Definition deep_objs : list object :=
  [OBlock None "SecondBlock" 10 (Some {| r_count := 10; r_stride := 10 |}) [ex_reg "Register1" 0 false None];
   ex_reg "Register0" 75 false (Some {| r_count := 2; r_stride := 5 |})].

Example C12_deep_overlap :
  exists BL, lower false 10 "Root" deep_objs = Ok BL /\
    overlap_pass 10 BL = Ok (Some (mk_err "address_overlap"
                                ["SecondBlock (index: 7)::Register1"; "Register0 (index: 1)"; "80"]%string)).
Proof. eexists. split; [vm_compute; reflexivity|vm_compute; reflexivity]. Qed.

(* a tree with nesting, a repeated block, a register ref, a command ref keeping its target's repeat, a block
   ref with its own offset and repeat, stride 0 self-collision allowed by the flag: all hypotheses of
   C12_claimed_eq_instances / C12_reject_iff_collision_partial hold, 20 instances, no collision, accepted *)
Definition big_objs : list object :=
  [OBlock None "Outer" 100 (Some {| r_count := 2; r_stride := 50 |})
     [ex_reg "Ra" 1 false None;
      OBlock None "Inner" 10 None [ex_cmd "Ca" 0 false (Some {| r_count := 2; r_stride := -1 |}); ex_buf "Ba" 3]];
   ex_reg "Rb" 7 true (Some {| r_count := 3; r_stride := 0 |});
   ORef None "Rc" (OvRegister "Ra" (Some RO) (Some 8) false None None);
   ORef None "Cb" (OvCommand "Ca" (Some 20) false None);
   ORef None "Blk" (OvBlock "Inner" (Some 400) (Some {| r_count := 2; r_stride := 4 |}))].

Example C12_hypotheses_satisfiable :
  unique_blocks big_objs /\ root_name_fresh "Dev" big_objs /\ no_own_flag big_objs = true /\
  exists BL il, lower false 10 "Dev" big_objs = Ok BL /\ overlap_pass 10 BL = Ok None /\
                instances 10 big_objs = Ok il /\ List.length il = 20%nat /\ find_collision il = None.
Proof.
  split; [apply unique_blocks_of_NoDup; vm_compute; repeat constructor; cbn; intuition discriminate|].
  split; [apply root_name_fresh_of_names; vm_compute; intuition discriminate|].
  split; [reflexivity|]. eexists. eexists.
  split; [vm_compute; reflexivity|]. split; [vm_compute; reflexivity|]. split; [vm_compute; reflexivity|].
  split; vm_compute; reflexivity.
Qed.

(* a collision through a block ref and a repeated block is found and named with both paths *)
Example C12_collision_through_block_ref :
  exists BL, lower false 10 "Dev" (big_objs ++ [ex_buf "Bz" 407]) = Ok BL /\
    overlap_pass 10 BL = Ok (Some (mk_err "address_overlap" ["Inner (index: 1)::Ba"; "Bz"; "407"]%string)).
Proof. eexists. split; [vm_compute; reflexivity|vm_compute; reflexivity]. Qed.

Print Assumptions C12_claimed_eq_instances.
Print Assumptions C12_pairwise_complete.
Print Assumptions C12_reject_iff_collision_partial.
Print Assumptions C12_ref_flag_dropped_refuted.
Print Assumptions C12_kinds_never_collide.
Print Assumptions C12_error_names_both.
Print Assumptions C12_error_first_pair.
Print Assumptions C12_hypotheses_from_unique_names.
Print Assumptions C12_block_named_as_device_refuted.

(* The ORDER of the passes, TRANSLATED from the two `run_passes` functions of generation/src/{mir,lir}/passes/mod.rs on every
   build: the collision pass runs on the lowered tree, after every MIR pass. *)
From DD Require GenPassOrder.
Theorem C12_pass_order_from_source :
  DDGen.PassOrder.mir_pass_order = GenPassOrder.expected_mir_pass_order /\
  DDGen.PassOrder.lir_pass_order = GenPassOrder.expected_lir_pass_order.
Proof. exact GenPassOrder.pass_order_as_modelled. Qed.
Print Assumptions C12_pass_order_from_source.
