(* C12 — address-collision analysis is sound and complete. *)
From Coq Require Import ZArith List Bool String.
From DD Require Import Common Mir GenErr Addr AddrProofs.
