(* C05 — Register read/write/modify follow the documented protocol, sync and async alike.
   Property theorems only; proofs live in theories/ProtoProofs.v, the model (a separate
   transcription of the blocking and of the async half of register.rs) in theories/Proto.v,
   the vocabulary (async_agrees, ...) in theories/ProtoSpec.v.

   Reading guide.  `orc` is the interface: an arbitrary function from everything that happened
   so far (`h`, a list of (call, answer) events) and the current call to an answer; an answer is
   Ok/Err(e) plus the bytes stored through a mutable slice.  `f` is the user closure: an arbitrary
   function from the register bytes it is shown to (bytes it stores, value it returns);
   `call_closure f reg` applies it to a fixed-size register.  `run orc p h` = (events caused, in
   order, each with the interface's answer; outcome).  A one-element event list therefore says
   "exactly one interface call, and none after an error".
   NOT covered here: the clause "the ref's own reset value for a ref that overrides it" (which
   constructor the generator passes as `reset`) — that is C05_ref_reset / C08, stated about the
   generator. *)
From Coq Require Import ZArith List Bool.
From DD Require Import Proto ProtoSpec ProtoCases ProtoProofs.
From DD Require Mir GenErr Layout Reset ResetProofs ResetWire.
From DD Require Carrier BitsSpec LayoutProofs FieldSetGen ModifyField.
Import ListNotations.

(* ceil(size/8): the register buffer of a `sz`-bit field set *)
Theorem C05_nbytes_ceil : forall sz, (0 <= sz)%Z ->
  (8 * Z.of_nat (nbytes sz) - 8 < sz <= 8 * Z.of_nat (nbytes sz))%Z.
Proof. exact nbytes_ceil. Qed.

(* write: the closure is shown the reset value; exactly one write_register(addr, SIZE_BITS, bytes)
   with the closure's output, ceil(size/8) bytes; result = closure's value, or the interface's
   error unchanged; no further call. *)
Theorem C05_write : forall (R : Type) orc h a sz reset (f : closure R),
  length reset = nbytes sz ->
  let data := fst (call_closure f reset) in
  let ret := snd (call_closure f reset) in
  let c := RegWrite a sz data in
  let r := orc h c in
  length data = nbytes sz /\
  run orc (reg_write a sz reset f) h =
    ([(c, r)], Done (match r_res r with ROk _ => ROk ret | RErr e => RErr e end)).
Proof. exact reg_write_spec. Qed.

(* write_with_zero: same, the closure is shown ceil(size/8) zero bytes *)
Theorem C05_write_with_zero : forall (R : Type) orc h a sz (f : closure R),
  let data := fst (call_closure f (zeros (nbytes sz))) in
  let ret := snd (call_closure f (zeros (nbytes sz))) in
  let c := RegWrite a sz data in
  let r := orc h c in
  length data = nbytes sz /\
  run orc (reg_write_with_zero a sz f) h =
    ([(c, r)], Done (match r_res r with ROk _ => ROk ret | RErr e => RErr e end)).
Proof. exact reg_write_with_zero_spec. Qed.

(* read: exactly one read_register(addr, SIZE_BITS, zeroed buffer of ceil(size/8) bytes); the
   result is that buffer with what the interface stored in it (exactly the interface's bytes when
   it stored a full-length value), or the interface's error unchanged. *)
Theorem C05_read : forall orc h a sz,
  let c := RegRead a sz (zeros (nbytes sz)) in
  let r := orc h c in
  let stored := overlay (r_data r) (zeros (nbytes sz)) in
  length stored = nbytes sz /\
  (length (r_data r) = nbytes sz -> stored = r_data r) /\
  run orc (reg_read a sz) h =
    ([(c, r)], Done (match r_res r with ROk _ => ROk stored | RErr e => RErr e end)).
Proof. exact reg_read_spec. Qed.

(* modify: one read as above; if it fails, its error is returned and NO write happens; otherwise
   the closure is shown the value read and exactly one write of its output goes to the same
   address with the same size; result = closure's value or the write's error unchanged. *)
Theorem C05_modify : forall (R : Type) orc h a sz (f : closure R),
  let c1 := RegRead a sz (zeros (nbytes sz)) in
  let r1 := orc h c1 in
  let reg := overlay (r_data r1) (zeros (nbytes sz)) in
  let data := fst (call_closure f reg) in
  let ret := snd (call_closure f reg) in
  let c2 := RegWrite a sz data in
  let r2 := orc (h ++ [(c1, r1)]) c2 in
  length data = nbytes sz /\
  run orc (reg_modify a sz f) h =
    match r_res r1 with
    | RErr e => ([(c1, r1)], Done (RErr e))
    | ROk _ => ([(c1, r1); (c2, r2)],
                Done (match r_res r2 with ROk _ => ROk ret | RErr e => RErr e end))
    end.
Proof. exact reg_modify_spec. Qed.

(* what `async_agrees` says, spelled out *)
Theorem C05_async_agrees_meaning : forall (R : Type) (ap : aprog R) (p : prog R),
  async_agrees ap p <->
  (forall orc h sched fuel, list_sum sched < fuel ->
     exec orc fuel ap sched h =
     (fst (run orc p h),
      S (list_sum (firstn (length (fst (run orc p h))) sched)),
      snd (run orc p h))).
Proof. intros; reflexivity. Qed.

(* the four *_async functions: for every interface, closure, history and every pattern of
   suspension (schedule), same events with the same arguments in the same order, same result as
   the blocking twin; the executor terminates; polls = 1 + Pendings of the awaits reached *)
Theorem C05_async_equiv : forall (R : Type) a sz reset (f : closure R),
  async_agrees (reg_write_async a sz reset f) (reg_write a sz reset f) /\
  async_agrees (reg_write_with_zero_async a sz f) (reg_write_with_zero a sz f) /\
  async_agrees (reg_read_async a sz) (reg_read a sz) /\
  async_agrees (reg_modify_async a sz f) (reg_modify a sz f).
Proof.
  intros; repeat apply conj;
    [apply reg_write_async_agrees|apply reg_write_with_zero_async_agrees|
     apply reg_read_async_agrees|apply reg_modify_async_agrees].
Qed.

(* whole operation sequences over {write, write_with_zero, read, modify}: async = blocking *)
Theorem C05_async_equiv_seq : forall orc sched a sz reset ops h,
  map drop_polls (exec_reg_seq orc sched a sz reset ops h) =
  map drop_polls (run_reg_seq orc a sz reset ops h).
Proof. exact reg_seq_async_equiv. Qed.

Local Open Scope Z_scope.

(* ---- non-vacuity: a 12-bit register at address 5 with reset value ab 0c.
   write(xor ff 01) succeeds; then modify: the read is answered Err(7) -> no write;
   then modify again: read stores 11 22, the closure overwrites the first byte with 99, the write
   fails with Err(9), returned unchanged. *)
Example C05_example_blocking :
  case_reg false
    [mkResp (ROk 0%nat) []; mkResp (RErr 7) [1; 2]; mkResp (ROk 0%nat) [0x11; 0x22]; mkResp (RErr 9) []] []
    5 12 [0xab; 0x0c]
    [(OpWrite, CkXor, [0xff; 0x01]); (OpModify, CkSet, [0x99]); (OpModify, CkSet, [0x99])]
  = [ ([(RegWrite 5 12 [0x54; 0x0d], mkResp (ROk 0%nat) [])], 0%nat, Done (ROk [0xab; 0x0c]));
      ([(RegRead 5 12 [0; 0], mkResp (RErr 7) [1; 2])], 0%nat, Done (RErr 7));
      ([(RegRead 5 12 [0; 0], mkResp (ROk 0%nat) [0x11; 0x22]);
        (RegWrite 5 12 [0x99; 0x22], mkResp (RErr 9) [])], 0%nat, Done (RErr 9)) ].
Proof. vm_compute. reflexivity. Qed.

(* the same sequence through the async functions; the futures answer Pending 2,1,0,3 times:
   same events and results, 3 / 2 / 4 polls *)
Example C05_example_async :
  case_reg true
    [mkResp (ROk 0%nat) []; mkResp (RErr 7) [1; 2]; mkResp (ROk 0%nat) [0x11; 0x22]; mkResp (RErr 9) []]
    [2; 1; 0; 3]%nat
    5 12 [0xab; 0x0c]
    [(OpWrite, CkXor, [0xff; 0x01]); (OpModify, CkSet, [0x99]); (OpModify, CkSet, [0x99])]
  = [ ([(RegWrite 5 12 [0x54; 0x0d], mkResp (ROk 0%nat) [])], 3%nat, Done (ROk [0xab; 0x0c]));
      ([(RegRead 5 12 [0; 0], mkResp (RErr 7) [1; 2])], 2%nat, Done (RErr 7));
      ([(RegRead 5 12 [0; 0], mkResp (ROk 0%nat) [0x11; 0x22]);
        (RegWrite 5 12 [0x99; 0x22], mkResp (RErr 9) [])], 4%nat, Done (RErr 9)) ].
Proof. vm_compute. reflexivity. Qed.

(* read stores at most ceil(9/8) = 2 bytes of what the interface offers; write_with_zero shows the
   closure zeros whatever the reset value is *)
Example C05_example_read_wz :
  case_reg false [mkResp (ROk 0%nat) [0x11; 0x22; 0x33]; mkResp (ROk 0%nat) []] []
    5 9 [0xab; 0x01] [(OpRead, CkSet, []); (OpWriteZero, CkXor, [0xf0])]
  = [ ([(RegRead 5 9 [0; 0], mkResp (ROk 0%nat) [0x11; 0x22; 0x33])], 0%nat, Done (ROk [0x11; 0x22]));
      ([(RegWrite 5 9 [0xf0; 0], mkResp (ROk 0%nat) [])], 0%nat, Done (ROk [0; 0])) ].
Proof. vm_compute. reflexivity. Qed.

(* the hypothesis of C05_write is satisfiable and its conclusion non-trivial *)
Example C05_example_hyp : length [0xab; 0x0c] = nbytes 12 /\ nbytes 1 = 1%nat /\ nbytes 9 = 2%nat /\ nbytes 128 = 16%nat.
Proof. vm_compute. repeat split. Qed.

(* The clause "the ref's own reset value for a ref that overrides it": composition with the generator model of
   C08 (Reset.v).  For an accepted definition, a register ref with a RESET_VALUE override gets the accessor
   constructor new_as_<ref>, whose bytes are the override's value; `write(|_| ())` through the ref performs exactly
   one interface write of those ceil(size/8) bytes with the target's declared size, and the target's own `new()`
   keeps the target's value. *)
Module RefReset.
  Import DD.Common DD.Mir DD.GenErr DD.Layout DD.Reset DD.ResetWire.
  Theorem C05_ref_reset : forall rf d em c name target acc addr aao rv rep base orc h a,
    pipeline_with rf d = Ok (GenErr.ROk em) ->
    In (ORef c name (OvRegister target acc addr aao (Some rv) rep)) (preorder_objects (d_objects d)) ->
    search_object target (d_objects d) = Some (ORegister base) -> 0 < rg_size_bits base ->
    let bo := effective_byte_order (d_config d) (rg_byte_order base) in
    let size := rg_size_bits base in
    let wire := spec_bytes (Some rv) bo size in
    exists cs resp,
      In cs (em_sets em) /\ cs_name cs = rg_name base /\
      In (new_as_name name, wire) (cs_new_as cs) /\
      cs_new cs = spec_bytes (rg_reset base) bo size /\
      In {| ac_name := snake name; ac_field_set := rg_name base; ac_reset_fn := new_as_name name |} (em_accessors em) /\
      Proto.run orc (Proto.reg_write a size wire id_closure) h =
        ([(Proto.RegWrite a size wire, resp)],
         Proto.Done (match Proto.r_res resp with Proto.ROk _ => Proto.ROk tt | Proto.RErr e => Proto.RErr e end)).
  Proof. exact ResetWire.ref_write_sends_override. Qed.
End RefReset.
Definition C05_ref_reset := RefReset.C05_ref_reset.

(* Composition with the generated field setters (C06) and the layout of the bit operations (C01/C02):
   `reg.modify(|r| r.set_x(v))` on a register of an accepted definition performs one read; if it fails, nothing is
   written; otherwise exactly one write to the same address with the same size, whose bytes are the bytes the
   device returned with the set-bits of x's declared range replaced by v's (store_post: every set-bit outside
   [start, end) exactly as the device returned it). *)
Module ModifyFieldC.
  Import Coq.Strings.String.
  Import Coq.Lists.List.
  Import DD.Common DD.Carrier DD.BitsSpec DD.Mir DD.Layout DD.LayoutProofs DD.FieldSetGen DD.ModifyField.
  Theorem C05_modify_sets_only_the_field : forall ptrw bo bi size f v orc h a,
    In ptrw ptr_widths -> (0 < size)%Z ->
    field_ok size f -> (0 <= f_start f)%Z -> (field_end f - f_start f <= 128)%Z ->
    let c1 := Proto.RegRead a size (Proto.zeros (Proto.nbytes size)) in
    let r1 := orc h c1 in
    let reg := Proto.overlay (Proto.r_data r1) (Proto.zeros (Proto.nbytes size)) in
    bytes_ok reg ->
    exists data,
      store_post (to_byte_order bo) (to_bit_order bi) v (f_start f) (field_end f) reg data /\
      Proto.run orc (Proto.reg_modify a size (field_setter_closure ptrw bo bi f v)) h =
        match Proto.r_res r1 with
        | Proto.RErr e => ([(c1, r1)], Proto.Done (Proto.RErr e))
        | Proto.ROk _ => let c2 := Proto.RegWrite a size data in
                   let r2 := orc (h ++ [(c1, r1)])%list c2 in
                   ([(c1, r1); (c2, r2)],
                    Proto.Done (match Proto.r_res r2 with Proto.ROk _ => Proto.ROk tt | Proto.RErr e => Proto.RErr e end))
        end.
  Proof. exact ModifyField.modify_sets_only_the_field. Qed.

  (* evaluated: device returns [0xA5; 0x5A] for a 16-bit LE/LSB0 register; modify sets the uint field [4,12)
     to 0xFF: one read, one write of [0xF5; 0x5F] *)
  Example C05_modify_field_example :
    let f := {| f_cfg := None; f_name := "x"%string; f_access := RW; f_base := BUint; f_conv := None;
                f_start := 4; f_end := 12 |} in
    let orc := fun (_ : list (Proto.call * Proto.resp)) (c : Proto.call) =>
                 match c with
                 | Proto.RegRead _ _ _ => Proto.mkResp (Proto.ROk 0%nat) [0xA5; 0x5A]%Z
                 | _ => Proto.mkResp (Proto.ROk 0%nat) []
                 end in
    Proto.run orc (Proto.reg_modify 7 16 (field_setter_closure 64 BoLE BiLSB0 f 0xFF)) [] =
      ([(Proto.RegRead 7 16 [0; 0]%Z, Proto.mkResp (Proto.ROk 0%nat) [0xA5; 0x5A]%Z);
        (Proto.RegWrite 7 16 [0xF5; 0x5F]%Z, Proto.mkResp (Proto.ROk 0%nat) [])],
       Proto.Done (Proto.ROk tt)).
  Proof. vm_compute. reflexivity. Qed.
  (* `reg.write(|r| r.set_x(v))`: exactly one write whose bytes are the reset value with only x's set-bits
     replaced (composition of C05_write with the emitted setter). *)
  Theorem C05_write_sets_only_the_field : forall ptrw bo bi size f v orc h a reset,
    In ptrw ptr_widths -> (0 < size)%Z ->
    field_ok size f -> (0 <= f_start f)%Z -> (field_end f - f_start f <= 128)%Z ->
    List.length reset = Proto.nbytes size -> bytes_ok reset ->
    exists data,
      store_post (to_byte_order bo) (to_bit_order bi) v (f_start f) (field_end f) reset data /\
      Proto.run orc (Proto.reg_write a size reset (field_setter_closure ptrw bo bi f v)) h =
        let c := Proto.RegWrite a size data in
        let r := orc h c in
        ([(c, r)], Proto.Done (match Proto.r_res r with Proto.ROk _ => Proto.ROk tt | Proto.RErr e => Proto.RErr e end)).
  Proof. exact ModifyField.write_sets_only_the_field. Qed.
End ModifyFieldC.
Definition C05_write_sets_only_the_field := ModifyFieldC.C05_write_sets_only_the_field.
Definition C05_modify_sets_only_the_field := ModifyFieldC.C05_modify_sets_only_the_field.

Print Assumptions C05_nbytes_ceil.
Print Assumptions C05_write.
Print Assumptions C05_write_with_zero.
Print Assumptions C05_read.
Print Assumptions C05_modify.
Print Assumptions C05_async_agrees_meaning.
Print Assumptions C05_async_equiv.
Print Assumptions C05_async_equiv_seq.
Print Assumptions C05_ref_reset.
Print Assumptions C05_modify_sets_only_the_field.
Print Assumptions C05_write_sets_only_the_field.
