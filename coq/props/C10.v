(* C10 — Buffer operations honour the embedded-io read/write contracts.
   Property theorems only; proofs in theories/ProtoProofs.v, model in theories/Proto.v (blocking
   half, async half and the four trait impls of buffer.rs, transcribed separately; the PROVIDED
   trait methods write_all / read_exact are transcribed from the embedded-io(-async) 0.6.1
   sources), vocabulary in theories/ProtoSpec.v: write_all_spec / read_exact_spec are the
   documented contracts as relations between the bytes still to transfer, the events and the
   outcome; `accepted e` is the count the interface reported, `offsets 0 t` the running sums,
   `wchunk` / `rchunk` the bytes a call got accepted / delivered.
   See props/C05.v for the reading guide (orc, h, run, exec, async_agrees).  A panic is the
   outcome `Stopped _`; `Stopped StopOutOfFuel` would mean the model's loop bound was too small. *)
From Coq Require Import ZArith List Bool.
From DD Require Import Proto ProtoSpec ProtoCases ProtoProofs.
Import ListNotations.

(* write / flush / read: one call with the buffer's address and the caller's slice, the
   interface's result returned as is; the caller's slice holds what the interface stored *)
Theorem C10_passthrough : forall orc h a buf,
  run orc (buf_write a buf) h =
    ([(BufWrite a buf, orc h (BufWrite a buf))], Done (r_res (orc h (BufWrite a buf)))) /\
  run orc (buf_flush a) h =
    ([(BufFlush a, orc h (BufFlush a))], Done (res_unit (orc h (BufFlush a)))) /\
  run orc (buf_read a buf) h =
    ([(BufRead a buf, orc h (BufRead a buf))],
     Done (r_res (orc h (BufRead a buf)), overlay (r_data (orc h (BufRead a buf))) buf)) /\
  length (overlay (r_data (orc h (BufRead a buf))) buf) = length buf.
Proof.
  intros; split; [reflexivity|split; [reflexivity|split; [reflexivity|apply overlay_length]]].
Qed.

(* write_all, for EVERY interface (also one that breaks the contract): the run satisfies the
   documented contract, with the answers the interface actually gave; it terminates *)
Theorem C10_write_all : forall orc h a buf,
  let t := fst (run orc (buf_write_all (length buf) a buf) h) in
  let o := snd (run orc (buf_write_all (length buf) a buf) h) in
  write_all_spec a buf t o /\ answered_by orc h t /\ o <> Stopped StopOutOfFuel.
Proof.
  intros orc h a buf; cbn zeta.
  pose proof (write_all_run orc a (length buf) buf h (le_n _)) as H.
  repeat split; [exact H|apply answered_by_run|exact (write_all_no_fuel _ _ _ _ H)].
Qed.

(* what the contract means.  (1) the calls are write(addr, &buf[k..]) with k the running sum of
   the accepted counts.  (2) an Err(e) answer is the last event and is returned unchanged; an
   Ok(0) answer is the last event and panics; an Ok(n) with n beyond the remainder panics (slice
   index).  (3) on Ok(()) every answer accepted at least one byte and the accepted chunks,
   concatenated, are exactly buf. *)
Theorem C10_write_all_meaning : forall a buf t o, write_all_spec a buf t o ->
  map fst t = map (fun k => BufWrite a (skipn k buf)) (offsets 0 t) /\
  (forall t1 c r t2, t = t1 ++ (c, r) :: t2 ->
    (forall e, r_res r = RErr e -> t2 = [] /\ o = Done (RErr e)) /\
    (r_res r = ROk 0 -> t2 = [] /\ o = Stopped StopWriteZero) /\
    (forall n d, r_res r = ROk n -> c = BufWrite a d -> length d < n ->
                 t2 = [] /\ o = Stopped StopSliceIndex)) /\
  (o = Done (ROk tt) ->
    concat (map wchunk t) = buf /\
    list_sum (map accepted t) = length buf /\
    Forall (fun e => 1 <= accepted e /\ exists n, r_res (snd e) = ROk n) t).
Proof.
  intros a buf t o H; split; [|split].
  - exact (write_all_calls _ _ _ _ H).
  - exact (write_all_first_bad _ _ _ _ H).
  - intros ->. exact (write_all_complete _ _ _ H).
Qed.

(* read_exact, for every interface *)
Theorem C10_read_exact : forall orc h a buf,
  let t := fst (run orc (buf_read_exact a buf) h) in
  let o := snd (run orc (buf_read_exact a buf) h) in
  read_exact_spec a [] buf t o /\ answered_by orc h t /\ o <> Stopped StopOutOfFuel.
Proof.
  intros orc h a buf; cbn zeta.
  pose proof (read_exact_run orc a (length buf) [] buf h (le_n _)) as H.
  repeat split; [exact H|apply answered_by_run|exact (read_exact_no_fuel _ _ _ _ _ H)].
Qed.

(* what that contract means.  (1) each call reads into a slice as long as the still unfilled
   remainder.  (2) an Err(e) answer is the last event and yields Other(e); an Ok(0) answer is the
   last event and yields UnexpectedEof.  (3) conversely UnexpectedEof only after an Ok(0) answer to
   a read into a non-empty remainder, Other(e) only after Err(e).  (4) the caller's slice keeps
   its length; on Ok(()) it is the delivered chunks left to right and their lengths sum to
   buf.len(). *)
Theorem C10_read_exact_meaning : forall a buf t o, read_exact_spec a [] buf t o ->
  Forall2 (reads_len a) (map fst t) (map (fun k => length buf - k) (offsets 0 t)) /\
  (forall t1 c r t2, t = t1 ++ (c, r) :: t2 ->
    (forall e, r_res r = RErr e -> t2 = [] /\ exists final, o = Done (RxErr (RxOther e), final)) /\
    (r_res r = ROk 0 -> t2 = [] /\ exists final, o = Done (RxErr RxUnexpectedEof, final))) /\
  (forall final,
    (o = Done (RxErr RxUnexpectedEof, final) ->
       exists t1 b r, t = t1 ++ [(BufRead a b, r)] /\ r_res r = ROk 0 /\ b <> []) /\
    (forall e, o = Done (RxErr (RxOther e), final) ->
       exists t1 b r, t = t1 ++ [(BufRead a b, r)] /\ r_res r = RErr e)) /\
  (forall x final, o = Done (x, final) ->
    length final = length buf /\
    (x = RxOk -> final = concat (map rchunk t) /\ list_sum (map accepted t) = length buf)).
Proof.
  intros a buf t o H; split; [|split; [|split]].
  - exact (read_exact_calls _ _ _ _ _ H).
  - exact (read_exact_first_bad _ _ _ _ _ H).
  - exact (read_exact_err_cause _ _ _ _ _ H).
  - intros x final Ho. destruct (read_exact_final _ _ _ _ _ H x final Ho) as (A & _ & B).
    split; [exact A|exact B].
Qed.

(* the *_async variants: same events, same outcome (including the panics) as the blocking ones
   under every pattern of suspension *)
Theorem C10_async_equiv : forall a buf,
  async_agrees (buf_write_async a buf) (buf_write a buf) /\
  async_agrees (buf_flush_async a) (buf_flush a) /\
  async_agrees (buf_read_async a buf) (buf_read a buf) /\
  async_agrees (buf_write_all_async (length buf) a buf) (buf_write_all (length buf) a buf) /\
  async_agrees (buf_read_exact_async a buf) (buf_read_exact a buf).
Proof.
  intros; repeat apply conj;
    [apply buf_write_async_agrees|apply buf_flush_async_agrees|apply buf_read_async_agrees|
     apply buf_write_all_async_agrees|apply buf_read_exact_async_agrees].
Qed.

(* the embedded-io (blocking) and embedded-io-async trait methods, required and provided,
   behave as the inherent blocking ones *)
Theorem C10_trait_equiv : forall a buf,
  sync_agrees (eio_write a buf) (buf_write a buf) /\
  sync_agrees (eio_flush a) (buf_flush a) /\
  sync_agrees (eio_read a buf) (buf_read a buf) /\
  sync_agrees (eio_write_all (length buf) a buf) (buf_write_all (length buf) a buf) /\
  sync_agrees (eio_read_exact a buf) (buf_read_exact a buf) /\
  async_agrees (eioa_write a buf) (buf_write a buf) /\
  async_agrees (eioa_flush a) (buf_flush a) /\
  async_agrees (eioa_read a buf) (buf_read a buf) /\
  async_agrees (eioa_write_all (length buf) a buf) (buf_write_all (length buf) a buf) /\
  async_agrees (eioa_read_exact a buf) (buf_read_exact a buf).
Proof.
  intros; repeat apply conj;
    [intros orc h; reflexivity|intros orc h; reflexivity|intros orc h; reflexivity|
     apply eio_write_all_agrees|apply eio_read_exact_agrees|apply eioa_write_agrees|
     apply eioa_flush_agrees|apply eioa_read_agrees|apply eioa_write_all_agrees|
     apply eioa_read_exact_agrees].
Qed.

Local Open Scope Z_scope.
Definition ok (n : nat) (d : bytes) := mkResp (ROk n) d.
Definition err (e : Z) (d : bytes) := mkResp (RErr e) d.

(* ---- non-vacuity: write_all of 5 bytes accepted as 2 + 1 + 2 *)
Example C10_example_write_all :
  case_buf EnSync BoWriteAll [ok 2 []; ok 1 []; ok 2 []] [] 9 [1; 2; 3; 4; 5]
  = ([(BufWrite 9 [1; 2; 3; 4; 5], ok 2 []); (BufWrite 9 [3; 4; 5], ok 1 []); (BufWrite 9 [4; 5], ok 2 [])],
     0%nat, Done (OutUnit (ROk tt))).
Proof. vm_compute. reflexivity. Qed.

(* error at the second call: returned unchanged, nothing after it; Ok(0): panic; n too large: panic.
   Through the async function, the async trait and the blocking trait alike. *)
Example C10_example_write_all_bad :
  case_buf EnAsync BoWriteAll [ok 2 []; err 4 []; ok 2 []] [1%nat; 2%nat] 9 [1; 2; 3; 4; 5]
    = ([(BufWrite 9 [1; 2; 3; 4; 5], ok 2 []); (BufWrite 9 [3; 4; 5], err 4 [])], 4%nat, Done (OutUnit (RErr 4))) /\
  case_buf EnTraitAsync BoWriteAll [ok 4 []; ok 0 []] [] 9 [1; 2; 3; 4; 5]
    = ([(BufWrite 9 [1; 2; 3; 4; 5], ok 4 []); (BufWrite 9 [5], ok 0 [])], 1%nat, Stopped StopWriteZero) /\
  case_buf EnTrait BoWriteAll [ok 6 []] [] 9 [1; 2; 3; 4; 5]
    = ([(BufWrite 9 [1; 2; 3; 4; 5], ok 6 [])], 0%nat, Stopped StopSliceIndex).
Proof. vm_compute. repeat split. Qed.

(* read_exact of 4 bytes delivered as 1 + 3; the first answer also scribbles beyond its count,
   which the next read overwrites *)
Example C10_example_read_exact :
  case_buf EnSync BoReadExact [ok 1 [0xa1; 0xee]; ok 3 [0xb1; 0xb2; 0xb3]] [] 9 [0; 0; 0; 0]
  = ([(BufRead 9 [0; 0; 0; 0], ok 1 [0xa1; 0xee]); (BufRead 9 [0xee; 0; 0], ok 3 [0xb1; 0xb2; 0xb3])],
     0%nat, Done (OutRx RxOk [0xa1; 0xb1; 0xb2; 0xb3])).
Proof. vm_compute. reflexivity. Qed.

Example C10_example_read_exact_bad :
  case_buf EnAsync BoReadExact [ok 1 [0xa1]; ok 0 []] [0%nat; 3%nat] 9 [7; 7; 7]
    = ([(BufRead 9 [7; 7; 7], ok 1 [0xa1]); (BufRead 9 [7; 7], ok 0 [])], 4%nat,
       Done (OutRx (RxErr RxUnexpectedEof) [0xa1; 7; 7])) /\
  case_buf EnTrait BoReadExact [err 5 [1; 2]] [] 9 [7; 7; 7]
    = ([(BufRead 9 [7; 7; 7], err 5 [1; 2])], 0%nat, Done (OutRx (RxErr (RxOther 5)) [1; 2; 7])).
Proof. vm_compute. repeat split. Qed.

(* pass-throughs, through the inherent, the async-trait and the async entry points *)
Example C10_example_passthrough :
  case_buf EnSync BoWrite [ok 1 []] [] 9 [1; 2]
    = ([(BufWrite 9 [1; 2], ok 1 [])], 0%nat, Done (OutCount (ROk 1%nat) [])) /\
  case_buf EnTraitAsync BoRead [ok 2 [0xa; 0xb; 0xc]] [1%nat] 9 [0; 0]
    = ([(BufRead 9 [0; 0], ok 2 [0xa; 0xb; 0xc])], 2%nat, Done (OutCount (ROk 2%nat) [0xa; 0xb])) /\
  case_buf EnAsync BoFlush [err 2 []] [] 9 []
    = ([(BufFlush 9, err 2 [])], 1%nat, Done (OutUnit (RErr 2))).
Proof. vm_compute. repeat split. Qed.

Print Assumptions C10_passthrough.
Print Assumptions C10_write_all.
Print Assumptions C10_write_all_meaning.
Print Assumptions C10_read_exact.
Print Assumptions C10_read_exact_meaning.
Print Assumptions C10_async_equiv.
Print Assumptions C10_trait_equiv.
