(* C17 — Access specifiers decide exactly which operations exist.
   Property theorems only; proofs live in theories/AccessProofs.v.

   The capability tables are TRANSLATED from /repo on every build (gen/Caps.v, gen/OpBounds.v,
   gen/FrontDefaults.v), so these theorems are re-proved against the current source.  The
   domain is finite (3 accesses x 24 operations x 5 markers); the proofs are a verified boolean
   decision procedure evaluated by the kernel (vm_compute) over the translated tables. *)
From Coq Require Import Bool List String.
From DD Require Import AccessTypes Access AccessProofs.
From DDGen Require Import Caps OpBounds FrontDefaults.
Import ListNotations.
Open Scope string_scope.

(* For every access in {RW, RO, WO} and every operation of the translated table: the operation's
   impl-block bounds are satisfied by the marker type emitted for that access  <->  the access
   includes reading if the operation reads and includes writing if it writes (modify: both).
   And the table contains exactly the operations the property names — none missing, none extra,
   none twice. *)
Theorem C17_ops_exist_iff :
  (forall a r, In r op_bounds ->
     (available a r = true <->
      ((needs_read (row_key r) = true -> includes_read a = true) /\
       (needs_write (row_key r) = true -> includes_write a = true))))
  /\ NoDup (map row_key op_bounds)
  /\ (forall op, In op (map row_key op_bounds) <-> In op expected_ops).
Proof. exact ops_exist_iff. Qed.

(* The same, by name: calling an operation the property names on an accessor of access [a]
   type-checks (exists and bounds hold) iff the property allows it. *)
Theorem C17_offered_iff_allowed : forall a op, In op expected_ops ->
  offered a op = spec_allowed a op.
Proof. exact offered_eq_spec. Qed.

(* A field has a getter iff it is readable and a setter iff it is writable
   (model of the filters in field_set_transform.rs). *)
Theorem C17_field_accessors_iff : forall a,
  (getter_emitted a = true <-> includes_read a = true) /\
  (setter_emitted a = true <-> includes_write a = true).
Proof. exact field_accessors_iff. Qed.

(* Effective access, DSL front end + ref lowering: own setting, ref override, else global
   default, else read-write — for registers, buffers and fields. *)
Theorem C17_effective_access : forall d own refov gdef,
  model_access FDsl d own refov gdef = effective_access own refov gdef.
Proof. exact effective_access_dsl. Qed.

(* Manifest front end (JSON / YAML / TOML).  Whether it reads default_*_access is translated from
   manifest/mod.rs.  Strongest true statement in either state of the source: the property's
   effective access is computed whenever the default is read, or plays no role. *)
Theorem C17_effective_access_manifest_partial : forall d own refov gdef,
  (reads_default FManifest d = true \/ gdef = None \/ own <> None \/ refov <> None) ->
  model_access FManifest d own refov gdef = effective_access own refov gdef.
Proof. exact effective_access_manifest_partial. Qed.

(* Defect D5, stated on the translated flag so that it follows the source: for every default the
   manifest lowering does not read, the full statement is refuted (witness: no own access, no ref
   override, global default RO -> the accessor is RW), and the behaviour is exactly "as if no
   global default had been given". *)
Theorem C17_effective_access_manifest_refuted : forall d,
  reads_default FManifest d = false ->
  exists own refov gdef, model_access FManifest d own refov gdef <> effective_access own refov gdef.
Proof. exact effective_access_manifest_refuted. Qed.

Theorem C17_manifest_ignored_default_behaviour : forall d own refov gdef,
  reads_default FManifest d = false ->
  model_access FManifest d own refov gdef = effective_access own refov None.
Proof. exact effective_access_manifest_ignores. Qed.

(* The probe oracle used by the check: for the DSL front end the model's verdict on a probe
   equals the property's verdict. *)
Theorem C17_probe_model_is_property_dsl : forall k own refov gdef n,
  In (k, n) expected_ops ->
  probe_model (POp FDsl k own refov gdef n) = probe_spec (POp FDsl k own refov gdef n).
Proof. exact probe_op_model_eq_spec_dsl. Qed.

Theorem C17_probe_field_model_is_property_dsl : forall own gdef,
  probe_model (PGet FDsl own gdef) = probe_spec (PGet FDsl own gdef) /\
  probe_model (PSet FDsl own gdef) = probe_spec (PSet FDsl own gdef).
Proof. exact probe_field_model_eq_spec_dsl. Qed.

(* ---- Non-vacuity ---- *)

(* the translated table is the 8 + 10 + 6 operations, and the three accesses really differ *)
Example C17_table_size : List.length op_bounds = 24 /\ List.length expected_ops = 24.
Proof. vm_compute. split; reflexivity. Qed.

Example C17_read_only_register :
  map (offered RO) [(Reg, "read"); (Reg, "write"); (Reg, "write_with_zero"); (Reg, "modify");
                    (Reg, "read_async"); (Reg, "write_async"); (Reg, "modify_async")]
  = [true; false; false; false; true; false; false].
Proof. vm_compute. reflexivity. Qed.

Example C17_write_only_buffer :
  map (offered WO) [(Buf, "write"); (Buf, "write_all"); (Buf, "flush"); (Buf, "read"); (Buf, "read_exact");
                    (Buf, "embedded_io::Write::write"); (Buf, "embedded_io::Read::read");
                    (Buf, "embedded_io_async::Write::flush"); (Buf, "embedded_io_async::Read::read")]
  = [true; true; true; false; false; true; false; true; false].
Proof. vm_compute. reflexivity. Qed.

Example C17_read_write_everything : forallb (offered RW) expected_ops = true.
Proof. vm_compute. reflexivity. Qed.

(* an operation the table does not contain is not offered on any access *)
Example C17_unknown_operation : map (fun a => offered a (Reg, "erase")) all_accesses = [false; false; false].
Proof. vm_compute. reflexivity. Qed.

(* the markers without capability impls (RC, CO) would satisfy no bound *)
Example C17_markers : map marker_reads all_markers = [false; true; true; false; false]
                   /\ map marker_writes all_markers = [true; false; true; false; false].
Proof. vm_compute. split; reflexivity. Qed.

(* refs.md / global-config.md: own setting beats the default, the ref override beats both *)
Example C17_effective_access_examples :
  effective_access None None None = RW /\
  effective_access None None (Some RO) = RO /\
  effective_access (Some WO) None (Some RO) = WO /\
  effective_access (Some WO) (Some RW) (Some RO) = RW /\
  effective_access None (Some WO) None = WO.
Proof. vm_compute. repeat split. Qed.

(* a lowering that does not read the global default turns `default RO, no own access` into RW,
   where the property demands RO (the D5 witness, independent of the current source) *)
Example C17_ignoring_lowering_witness :
  lir_ref_override (front_lower_gen false None (Some RO)) None = RW /\
  effective_access None None (Some RO) = RO /\
  spec_allowed RO (Reg, "write") = false /\ spec_allowed RW (Reg, "write") = true.
Proof. vm_compute. repeat split. Qed.

Example C17_field_examples :
  map getter_emitted all_accesses = [true; true; false] /\
  map setter_emitted all_accesses = [true; false; true].
Proof. vm_compute. split; reflexivity. Qed.

Print Assumptions C17_ops_exist_iff.
Print Assumptions C17_offered_iff_allowed.
Print Assumptions C17_field_accessors_iff.
Print Assumptions C17_effective_access.
Print Assumptions C17_effective_access_manifest_partial.
Print Assumptions C17_effective_access_manifest_refuted.
Print Assumptions C17_manifest_ignored_default_behaviour.
Print Assumptions C17_probe_model_is_property_dsl.
Print Assumptions C17_probe_field_model_is_property_dsl.
