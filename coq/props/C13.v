(* C13 — Accepted definitions never compute an address outside their address type.

   Model (coq/theories/Addr.v): [find_min_max_addresses] = the REPAIRED walk of generation/src/mir/passes/mod.rs
   (collect_min_max_addresses: every object of a list is visited with the interval [lo, hi] of the enclosing block
   instances; a ref counts with its target's address / repeat where it does not override them; the children of a block —
   the target's children for a block ref — are visited with the object's own interval; i128), [address_types_specified],
   [address_types_big_enough], [best_internal] (the bit-width formula of find_best_internal_address, u128), [gen_addr] =
   the emitted arithmetic `self.base_address + ADDR (+|-) index as IT * |STRIDE|` evaluated left to right in the internal
   type with overflow checks on, then `as AT`.
   Spec: [instances] / [i_addr] = addr_sem over every valid index tuple, [in_range].  [accepted] = every
   address-related check of the pipeline passes.

   The walk as it was before the repair of D3 / D3c / D4 / D4b / D4c is kept as [pre_mm_walk] .. [pre_accepted]
   (Addr.v section (d-pre)); only the HISTORICAL theorems below are about it. *)
From Coq Require Import ZArith List Bool String.
From DD Require Import Common Mir GenErr Addr AddrProofs.
Import ListNotations.
Open Scope Z_scope.

(* THE FULL STATEMENT

     forall fx fuel dev_name d fi l, accepted fx fuel dev_name d -> instances fi (d_objects d) = Ok l ->
     forall i, In i l ->
       exists t it, address_type_of (d_config d) (i_kind i) = Some t /\ internal_type_at fuel d = Ok it /\
         in_range (integer_ity t) (i_addr i) = true /\
         gen_addr true it (integer_ity t) (i_path i) = Ok (i_addr i)

   is proved as it stands: C13_accepted_no_overflow_full — EVERY instance of EVERY tree (repeated blocks, block refs, refs
   that keep their target's address or repeat included), no side condition.  Since the repair of D3b
   find_best_internal_address sizes the internal type not only for the addresses (the walk with `|_| true`) but also for
   every object's address / offset, |stride|, count-1 and (count-1)*|stride| ([object_it_values]); the former side condition
   [steps_product_ok] is now a theorem (C13_steps_product_ok_holds).  The defects D3, D3b, D3c, D4, D4b, D4c survive as
   HISTORICAL theorems about the functions as they were. *)

Definition ex_cfg (r c b : option integer) : config :=
  {| g_default_register_access := RW; g_default_field_access := RW; g_default_buffer_access := RW;
     g_default_byte_order := None; g_default_bit_order := BiLSB0; g_register_address_type := r;
     g_command_address_type := c; g_buffer_address_type := b; g_boundaries := []; g_defmt_feature := None |}.
Definition ex_reg (n : string) (a : Z) (rep : option repeat) : object :=
  ORegister {| rg_cfg := None; rg_name := n; rg_access := RW; rg_byte_order := None; rg_bit_order := BiLSB0;
               rg_allow_bit_overlap := false; rg_allow_address_overlap := false; rg_address := a;
               rg_size_bits := 8; rg_reset := None; rg_repeat := rep; rg_fields := [] |}.
Definition ex_buf (n : string) (a : Z) : object :=
  OBuffer {| bf_cfg := None; bf_name := n; bf_access := RW; bf_address := a |}.

Definition u8 : ity := integer_ity IU8.
Definition i8 : ity := integer_ity II8.
Definition u16 : ity := {| signed := false; bits := 16 |}.

(* ---------------------------------------------------------------------------------------------- *)
(* The theorems about the code as it is now *)

(* The min/max walk of a kind bounds every address an accessor of that kind can produce — any tree, any construct. *)
Theorem C13_walk_bounds_instances : forall fuel fi objs k mn mx l i,
  find_min_max_addresses fuel (filter_kind k) objs = Ok (mn, mx) ->
  instances fi objs = Ok l -> In i l -> i_kind i = k -> mn <= i_addr i <= mx.
Proof. exact walk_bounds_instances. Qed.

(* ... and it is exact: [points] lists what the walk of a filter is about (Addr.v: for every object the filter lets
   through, its address for every index tuple of the enclosing blocks / block refs and every own index — a count of 0
   counting like 1 — blocks with the base address of each block instance); the walk's (min, max) are the minimum and
   the maximum of 0 and those points: each of them is 0 or a point, and every point lies between them.  So a rejection
   always states an address that an accessor of that kind — or, the over-rejection DESIGN allows, a block instance —
   really has (or 0). *)
Theorem C13_walk_exact : forall fuel fp filter objs mn mx ps,
  find_min_max_addresses fuel filter objs = Ok (mn, mx) -> points fp filter objs = Ok ps ->
  (forall p, In p (0 :: ps) -> mn <= p <= mx) /\ In mn (0 :: ps) /\ In mx (0 :: ps).
Proof. exact walk_exact. Qed.

(* the address of every instance of a kind is one of the points of the kind's filter *)
Theorem C13_instances_are_points : forall fi fp objs l i ps,
  instances fi objs = Ok l -> In i l -> points fp (filter_kind (i_kind i)) objs = Ok ps -> In (i_addr i) ps.
Proof. exact instances_are_points. Qed.

(* C13, first half, for every instance of every accepted definition: the kind's address type exists and the address
   fits it.  No tag / class exclusions. *)
Theorem C13_accepted_all_fit : forall fx fuel dev_name d fi l,
  accepted fx fuel dev_name d -> instances fi (d_objects d) = Ok l ->
  forall i, In i l ->
    exists t, address_type_of (d_config d) (i_kind i) = Some t /\ in_range (integer_ity t) (i_addr i) = true.
Proof. exact c13_accepted_all_fit. Qed.

(* C13, second half: the internal type exists and contains every value on the way to every instance (base + ADDR and
   the block instance / object address of every step: [checkpoints]); and — internal type unsigned, or every step's
   (count-1)*|stride| within the internal type (the former D3b side condition, see C13_steps_product_ok_holds below) — the
   emitted arithmetic, overflow checks on, yields exactly the address.  Kept as the lemma the full theorem rests on. *)
Theorem C13_accepted_no_overflow : forall fx fuel dev_name d fi l,
  accepted fx fuel dev_name d -> instances fi (d_objects d) = Ok l ->
  forall i, In i l ->
    exists t it, address_type_of (d_config d) (i_kind i) = Some t /\ internal_type_at fuel d = Ok it /\
      in_range (integer_ity t) (i_addr i) = true /\
      Forall (fun z => in_range it z = true) (checkpoints 0 (i_path i)) /\
      ((signed it = false \/ steps_product_ok it (i_path i)) ->
       gen_addr true it (integer_ity t) (i_path i) = Ok (i_addr i)).
Proof. exact c13_accepted_no_overflow. Qed.

(* ... and the side condition always holds: for every step of every instance path (enclosing blocks / block refs and the
   object itself) (count-1)*|stride| fits the internal type *)
Theorem C13_steps_product_ok_holds : forall d fuel fi l i it,
  instances fi (d_objects d) = Ok l -> In i l -> internal_type_at fuel d = Ok it ->
  steps_product_ok it (i_path i).
Proof. exact steps_product_ok_holds. Qed.

(* C13 IN FULL *)
Theorem C13_accepted_no_overflow_full : forall fx fuel dev_name d fi l,
  accepted fx fuel dev_name d -> instances fi (d_objects d) = Ok l ->
  forall i, In i l ->
    exists t it, address_type_of (d_config d) (i_kind i) = Some t /\ internal_type_at fuel d = Ok it /\
      in_range (integer_ity t) (i_addr i) = true /\
      gen_addr true it (integer_ity t) (i_path i) = Ok (i_addr i).
Proof. exact c13_accepted_no_overflow_full. Qed.

(* the cast `index as IT` of every repeated step is exact as well (index <= count-1, which the internal type contains) *)
Theorem C13_index_casts_exact : forall d fuel fi l i it,
  instances fi (d_objects d) = Ok l -> In i l -> internal_type_at fuel d = Ok it ->
  Forall (fun s => match s_rep s with Some _ => wrap it (s_idx s) = s_idx s | None => True end) (i_path i).
Proof. exact index_casts_exact. Qed.

(* the literals the accessors write out in the internal type — the address / offset and |stride| of every method of
   every lowered block — are representable in it, and so are count-1 and (count-1)*|stride| (used by Emit.v / C19) *)
Theorem C13_internal_type_covers_method_literals : forall fx fl dev_name d bls it,
  lower fx fl dev_name (d_objects d) = Ok bls -> internal_type d = Ok it ->
  forall b m, In b bls -> In m (b_methods b) ->
    in_range it (m_address m) = true /\
    forall r, m_repeat m = Some r ->
      in_range it (Z.abs (r_stride r)) = true /\ in_range it (Z.max (r_count r - 1) 0) = true /\
      in_range it (Z.max (r_count r - 1) 0 * Z.abs (r_stride r)) = true.
Proof. exact internal_type_covers_method_literals. Qed.

(* D3b (repaired) — HISTORICAL: i8; register R @-100 repeat 3 x 100 is accepted; every final address (-100, 0, 100) fits;
   the internal type sized for the addresses only ([internal_type_walk_only_at]: find_best_internal_address before the
   repair) was i8, and r(2) computed 2i8 * 100: overflow. *)
Definition d3b : device :=
  {| d_config := ex_cfg (Some II8) None None;
     d_objects := [ex_reg "R" (-100) (Some {| r_count := 3; r_stride := 100 |})] |}.

Theorem C13_historical_D3b_signed_product :
  exists d l i, accepted false 10 "Dev" d /\
    instances 10 (d_objects d) = Ok l /\ forallb (fun j => in_range i8 (i_addr j)) l = true /\ In i l /\
    i_addr i = 100 /\ internal_type_walk_only_at 10 d = Ok i8 /\
    gen_addr true i8 i8 (i_path i) = Fail Overflow /\ gen_addr false i8 i8 (i_path i) = Ok 100 /\
    ~ steps_product_ok i8 (i_path i).
Proof.
  exists d3b. eexists. eexists.
  split; [vm_compute; reflexivity|]. split; [vm_compute; reflexivity|].
  split; [vm_compute; reflexivity|].
  split; [right; right; left; reflexivity|]. vm_compute. repeat split; try reflexivity.
  intros H. inversion H as [|? ? Hp _]; subst. apply Hp. reflexivity.
Qed.

(* now the internal type is i16 (200 = 2 * 100 has to fit) and r(0), r(1), r(2) compute -100, 0, 100 without overflow *)
Example C13_D3b_now_exact :
  accepted false 10 "Dev" d3b /\ internal_type_at 10 d3b = Ok {| signed := true; bits := 16 |} /\
  exists l, instances 10 (d_objects d3b) = Ok l /\
    map (fun i => gen_addr true {| signed := true; bits := 16 |} i8 (i_path i)) l = [Ok (-100); Ok 0; Ok 100].
Proof.
  split; [vm_compute; reflexivity|]. split; [vm_compute; reflexivity|].
  eexists. split; vm_compute; reflexivity.
Qed.

(* the same on a block step: i8; block Blk @-100 repeat 3 x 100 { register Inner @0 } *)
Example C13_D3b_block_now_exact :
  let d := {| d_config := ex_cfg (Some II8) None None;
              d_objects := [OBlock None "Blk" (-100) (Some {| r_count := 3; r_stride := 100 |}) [ex_reg "Inner" 0 None]] |} in
  accepted false 10 "Dev" d /\ internal_type_walk_only_at 10 d = Ok i8 /\
  internal_type_at 10 d = Ok {| signed := true; bits := 16 |} /\
  exists l, instances 10 (d_objects d) = Ok l /\
    map (fun i => gen_addr true i8 i8 (i_path i)) l = [Ok (-100); Ok 0; Fail Overflow] /\
    map (fun i => gen_addr true {| signed := true; bits := 16 |} i8 (i_path i)) l = [Ok (-100); Ok 0; Ok 100].
Proof.
  cbn zeta. split; [vm_compute; reflexivity|]. split; [vm_compute; reflexivity|]. split; [vm_compute; reflexivity|].
  eexists. split; [vm_compute; reflexivity|]. split; vm_compute; reflexivity.
Qed.

(* more fuel never changes the internal type: whenever [internal_type_at] returns for two fuels the results agree (so
   [internal_type], the one with the default fuel [walk_fuel] used by Emit.v, is the same type whenever it returns) *)
Theorem C13_internal_type_fuel_monotone : forall f f' d it,
  (f <= f')%nat -> internal_type_at f d = Ok it -> internal_type_at f' d = Ok it.
Proof. exact internal_type_at_fuel_le. Qed.

(* the walk's result contains 0 (it starts from (0, 0)) *)
Theorem C13_walk_contains_zero : forall fuel filter objs mn mx,
  find_min_max_addresses fuel filter objs = Ok (mn, mx) -> mn <= 0 <= mx.
Proof. exact walk_contains_zero. Qed.

(* the internal type chosen by the bit-width formula contains [min, max] (and is at least 8 bits wide) *)
Theorem C13_internal_type_covers : forall mn mx it,
  best_internal mn mx = Ok it -> mn <= 0 <= mx ->
  8 <= bits it /\ signed it = (mn <? 0) /\ forall z, mn <= z <= mx -> in_range it z = true.
Proof. exact best_internal_covers. Qed.

(* hence every instance address and every block instance base address lies in the internal type (any tree) *)
Theorem C13_internal_type_covers_instances : forall d fuel fi l i it,
  instances fi (d_objects d) = Ok l -> In i l -> internal_type_at fuel d = Ok it ->
  Forall (fun z => in_range it z = true) (checkpoints 0 (i_path i)).
Proof. exact internal_covers_checkpoints. Qed.

(* "rejected with an error stating the offending bound" *)
Theorem C13_error_states_bound : forall fuel d k e,
  big_enough_kind fuel d k = Ok (Some e) ->
  exists t mn mx, address_type_of (d_config d) k = Some t /\
    find_min_max_addresses fuel (filter_kind k) (d_objects d) = Ok (mn, mx) /\
    ((mn < integer_min t /\
      e = mk_err "address_too_low" [show_akind k; show_Z mn; show_integer t; show_Z (integer_min t)]) \/
     (integer_max t < mx /\
      e = mk_err "address_too_high" [show_akind k; show_Z mx; show_integer t; show_Z (integer_max t)])).
Proof. exact big_enough_error. Qed.

(* ... and a walk range that leaves the kind's address type is never accepted *)
Theorem C13_unfit_walk_range_rejected : forall fx fuel dev_name d k t mn mx,
  address_type_of (d_config d) k = Some t ->
  find_min_max_addresses fuel (filter_kind k) (d_objects d) = Ok (mn, mx) ->
  (mn < integer_min t \/ integer_max t < mx) -> ~ accepted fx fuel dev_name d.
Proof. exact walk_range_unfit_not_accepted. Qed.

(* A missing address type for a used object kind is rejected — in full: any register / command / buffer
   object anywhere in the tree (a ref's target is one) ... *)
Theorem C13_missing_type_rejected : forall fx fuel dev_name d o k,
  In o (preorder_objects (d_objects d)) -> object_kind o = Some k ->
  address_type_of (d_config d) k = None ->
  exists e, addr_check fx fuel dev_name d = Ok (Some e) /\ e_kind e = "no_address_type"%string.
Proof. exact missing_type_not_accepted. Qed.

(* ... in particular whenever the spec has an instance of that kind *)
Theorem C13_missing_type_rejected_instances : forall d fuel l i,
  instances fuel (d_objects d) = Ok l -> In i l -> address_types_specified d = None ->
  exists t, address_type_of (d_config d) (i_kind i) = Some t.
Proof. exact instance_type_specified. Qed.

(* ---------------------------------------------------------------------------------------------- *)
(* HISTORICAL: the witnesses of the repaired defects.  Each was ACCEPTED by the walk as it was before the repair
   ([pre_accepted], the pre-repair model: Addr.v section (d-pre)) although an instance did not fit; each is now REJECTED
   with the bound the real generator prints. *)

(* D3 (repaired): u8; block Blk { offset 0, repeat 3 x 100 } { register Inner @60 } was accepted; blk(2).inner() = 260:
   overflow panic with checks on, bus address 4 without. *)
Definition d3 : device :=
  {| d_config := ex_cfg (Some IU8) None None;
     d_objects := [OBlock None "Blk" 0 (Some {| r_count := 3; r_stride := 100 |}) [ex_reg "Inner" 60 None]] |}.

Theorem C13_historical_D3_repeated_block :
  exists d l i, pre_accepted false 10 "Dev" d /\ instances 10 (d_objects d) = Ok l /\ In i l /\
    c13_tags i = [TRepBlock] /\ i_kind i = KRegister /\ i_addr i = 260 /\ in_range u8 (i_addr i) = false /\
    pre_internal_type d = Ok u8 /\
    gen_addr true u8 u8 (i_path i) = Fail Overflow /\ gen_addr false u8 u8 (i_path i) = Ok 4.
Proof.
  exists d3. eexists. eexists.
  split; [vm_compute; reflexivity|]. split; [vm_compute; reflexivity|].
  split; [right; right; left; reflexivity|]. vm_compute. repeat split; reflexivity.
Qed.

Example C13_D3_now_rejected :
  addr_check false 10 "Dev" d3 = Ok (Some (mk_err "address_too_high" ["register"; "260"; "u8"; "255"]%string)).
Proof. vm_compute. reflexivity. Qed.

(* D4 (repaired): u8; block A { register Inner @10 }, ref B = block A { ADDRESS_OFFSET = 250 } was accepted; 260 does not fit *)
Definition d4 : device :=
  {| d_config := ex_cfg (Some IU8) None None;
     d_objects := [OBlock None "A" 0 None [ex_reg "Inner" 10 None]; ORef None "B" (OvBlock "A" (Some 250) None)] |}.

Theorem C13_historical_D4_block_ref :
  exists d l i, pre_accepted false 10 "Dev" d /\ instances 10 (d_objects d) = Ok l /\ In i l /\
    c13_tags i = [TBlockRef] /\ i_kind i = KRegister /\ i_addr i = 260 /\ in_range u8 (i_addr i) = false /\
    gen_addr true u8 u8 (i_path i) = Fail Overflow.
Proof.
  exists d4. eexists. eexists.
  split; [vm_compute; reflexivity|]. split; [vm_compute; reflexivity|].
  split; [right; left; reflexivity|]. vm_compute. repeat split; reflexivity.
Qed.

Example C13_D4_now_rejected :
  addr_check false 10 "Dev" d4 = Ok (Some (mk_err "address_too_high" ["register"; "260"; "u8"; "255"]%string)).
Proof. vm_compute. reflexivity. Qed.

(* D4b (repaired): u8; register X @10, block B { offset 250 } { ref Y = register X { Access = RO } } was accepted; b().y() = 260 *)
Definition d4b : device :=
  {| d_config := ex_cfg (Some IU8) None None;
     d_objects := [ex_reg "X" 10 None;
                   OBlock None "B" 250 None [ORef None "Y" (OvRegister "X" (Some RO) None false None None)]] |}.

Theorem C13_historical_D4b_ref_without_address :
  exists d l i, pre_accepted false 10 "Dev" d /\ instances 10 (d_objects d) = Ok l /\ In i l /\
    c13_tags i = [TRefNoAddr] /\ i_kind i = KRegister /\ i_addr i = 260 /\ in_range u8 (i_addr i) = false /\
    gen_addr true u8 u8 (i_path i) = Fail Overflow.
Proof.
  exists d4b. eexists. eexists.
  split; [vm_compute; reflexivity|]. split; [vm_compute; reflexivity|].
  split; [right; left; reflexivity|]. vm_compute. repeat split; reflexivity.
Qed.

(* the same with the ref's only override being ALLOW_ADDRESS_OVERLAP *)
Example C13_D4b_now_rejected :
  addr_check false 10 "Dev" d4b = Ok (Some (mk_err "address_too_high" ["register"; "260"; "u8"; "255"]%string)) /\
  addr_check true 10 "Dev"
    {| d_config := ex_cfg (Some IU8) None None;
       d_objects := [ex_reg "X" 10 None;
                     OBlock None "B" 250 None [ORef None "Y" (OvRegister "X" None None true None None)]] |}
  = Ok (Some (mk_err "address_too_high" ["register"; "260"; "u8"; "255"]%string)).
Proof. vm_compute. split; reflexivity. Qed.

(* D4c (repaired): u8; register X @0 repeat 3 x 10, ref Y = register X { ADDRESS = 250 } was accepted;
   the ref keeps its target's repeat: y(1) = 260, y(2) = 270 *)
Definition d4c : device :=
  {| d_config := ex_cfg (Some IU8) None None;
     d_objects := [ex_reg "X" 0 (Some {| r_count := 3; r_stride := 10 |});
                   ORef None "Y" (OvRegister "X" None (Some 250) false None None)] |}.

Theorem C13_historical_D4c_ref_keeps_repeat :
  exists d l i, pre_accepted false 10 "Dev" d /\ instances 10 (d_objects d) = Ok l /\ In i l /\
    c13_tags i = [TRefKeepsRepeat] /\ i_kind i = KRegister /\ i_addr i = 270 /\ in_range u8 (i_addr i) = false /\
    gen_addr true u8 u8 (i_path i) = Fail Overflow /\ gen_addr false u8 u8 (i_path i) = Ok 14.
Proof.
  exists d4c. eexists. eexists.
  split; [vm_compute; reflexivity|]. split; [vm_compute; reflexivity|].
  split; [do 5 right; left; reflexivity|]. vm_compute. repeat split; reflexivity.
Qed.

Example C13_D4c_now_rejected :
  addr_check false 10 "Dev" d4c = Ok (Some (mk_err "address_too_high" ["register"; "270"; "u8"; "255"]%string)).
Proof. vm_compute. reflexivity. Qed.

(* D3c (repaired): the old i64 / u64 arithmetic panicked on `buffer Lim = -2^63` (everything fits i64) and on
   i64; block B @(2^63-1) { register X @1 } (2^63 does not fit).  In i128 / u128 the first is accepted with internal
   type i128, the second rejected stating the bound. *)
Definition d3c_fits : device :=
  {| d_config := ex_cfg None None (Some II64); d_objects := [ex_buf "Lim" (-9223372036854775808)] |}.
Definition d3c_unfit : device :=
  {| d_config := ex_cfg (Some II64) None None;
     d_objects := [OBlock None "B" 9223372036854775807 None [ex_reg "X" 1 None]] |}.

Theorem C13_historical_D3c_i64_overflow :
  pre_addr_check false 10 "Dev" d3c_fits = Fail Overflow /\ pre_addr_check false 10 "Dev" d3c_unfit = Fail Overflow.
Proof. vm_compute. split; reflexivity. Qed.

Example C13_D3c_now_handled :
  addr_check false 10 "Dev" d3c_fits = Ok None /\
  internal_type_at 10 d3c_fits = Ok {| signed := true; bits := 128 |} /\
  addr_check false 10 "Dev" d3c_unfit
    = Ok (Some (mk_err "address_too_high" ["register"; "9223372036854775808"; "i64"; "9223372036854775807"]%string)).
Proof. vm_compute. repeat split; reflexivity. Qed.

(* ---------------------------------------------------------------------------------------------- *)
(* Non-vacuity *)

(* blocks.md's offset 5 + 7 = 12 and refs.md's Foo @3 / Bar @5 with u8 types: accepted, the emitted arithmetic
   yields 12 / 3 / 5 *)
Definition book : device :=
  {| d_config := ex_cfg (Some IU8) None (Some IU8);
     d_objects := [OBlock None "Foo" 5 None [ex_buf "Bar" 7];
                   ex_reg "Fooreg" 3 None; ORef None "Barref" (OvRegister "Fooreg" None (Some 5) false None None)] |}.

Example C13_book_examples :
  accepted false 10 "Dev" book /\ internal_type_at 10 book = Ok u8 /\
  exists l, instances 10 (d_objects book) = Ok l /\ map i_addr l = [12; 3; 5] /\
            map (fun i => gen_addr true u8 u8 (i_path i)) l = [Ok 12; Ok 3; Ok 5].
Proof.
  split; [vm_compute; reflexivity|]. split; [vm_compute; reflexivity|].
  eexists. split; [vm_compute; reflexivity|]. split; vm_compute; reflexivity.
Qed.

(* the hypotheses of C13_accepted_all_fit / C13_accepted_no_overflow are satisfiable by a tree with EVERY construct of
   the repaired classes: a repeated block (@60, 2 x 40) holding a repeated register (2 x 3) and a ref that keeps its
   target's address and repeat (@50, 2 x 3), a block ref with its own offset and repeat (2 x 100) onto that block:
   accepted with u8 / internal type u8, 18 instances, the highest at 2 + 100 + 50 + 3 = 155 ... *)
Definition all_constructs (top : Z) : device :=
  {| d_config := ex_cfg (Some IU8) None None;
     d_objects := [ex_reg "X" 50 (Some {| r_count := 2; r_stride := 3 |});
                   OBlock None "Blk" 60 (Some {| r_count := 2; r_stride := 40 |})
                     [ex_reg "Inner" 1 (Some {| r_count := 2; r_stride := 3 |});
                      ORef None "Y" (OvRegister "X" (Some RO) None false None None)];
                   ORef None "Far" (OvBlock "Blk" (Some top) (Some {| r_count := 2; r_stride := 100 |}))] |}.

Example C13_all_constructs_accepted :
  accepted false 10 "Dev" (all_constructs 2) /\ internal_type_at 10 (all_constructs 2) = Ok u8 /\
  find_min_max_addresses 10 (filter_kind KRegister) (d_objects (all_constructs 2)) = Ok (0, 155) /\
  exists l, instances 10 (d_objects (all_constructs 2)) = Ok l /\ List.length l = 18%nat /\
            forallb (fun i => in_range u8 (i_addr i)) l = true /\ existsb (fun i => i_addr i =? 155) l = true /\
            forallb (fun i => match gen_addr true u8 u8 (i_path i) with Ok a => a =? i_addr i | Fail _ => false end) l = true.
Proof.
  split; [vm_compute; reflexivity|]. split; [vm_compute; reflexivity|]. split; [vm_compute; reflexivity|].
  eexists. split; [vm_compute; reflexivity|]. vm_compute. repeat split; reflexivity.
Qed.

(* its points for the register filter: the 18 instance addresses and the block instance bases 60 and 100 (a block ref
   itself is not let through by the kind filters: only what stands below it) *)
Example C13_all_constructs_points :
  points 10 (filter_kind KRegister) (d_objects (all_constructs 2))
  = Ok [50; 53; 60; 100; 61; 64; 110; 113; 101; 104; 150; 153; 3; 6; 52; 55; 103; 106; 152; 155].
Proof. vm_compute. reflexivity. Qed.

(* ... and with the block ref at 103 the highest instance is 256: rejected stating exactly that; at 102 (255) accepted *)
Example C13_all_constructs_rejected :
  addr_check false 10 "Dev" (all_constructs 103)
    = Ok (Some (mk_err "address_too_high" ["register"; "256"; "u8"; "255"]%string)) /\
  addr_check false 10 "Dev" (all_constructs 102) = Ok None.
Proof. vm_compute. split; reflexivity. Qed.

(* boundaries: u8 register @250 repeat 2 x 5 (255) accepted; x 6 (256) rejected stating the bound; a negative
   stride reaching -1 rejected; i8 nested offsets -100 + -28 = -128 accepted, -129 rejected; a register
   without a register address type rejected *)
Example C13_boundaries :
  let dev t objs := {| d_config := ex_cfg t None None; d_objects := objs |} in
  addr_check false 10 "Dev" (dev (Some IU8) [ex_reg "R" 250 (Some {| r_count := 2; r_stride := 5 |})]) = Ok None /\
  addr_check false 10 "Dev" (dev (Some IU8) [ex_reg "R" 250 (Some {| r_count := 2; r_stride := 6 |})])
    = Ok (Some (mk_err "address_too_high" ["register"; "256"; "u8"; "255"]%string)) /\
  addr_check false 10 "Dev" (dev (Some IU8) [ex_reg "R" 3 (Some {| r_count := 3; r_stride := -2 |})])
    = Ok (Some (mk_err "address_too_low" ["register"; "-1"; "u8"; "0"]%string)) /\
  addr_check false 10 "Dev" (dev (Some II8) [OBlock None "B" (-100) None [ex_reg "R" (-28) None]]) = Ok None /\
  addr_check false 10 "Dev" (dev (Some II8) [OBlock None "B" (-100) None [ex_reg "R" (-29) None]])
    = Ok (Some (mk_err "address_too_low" ["register"; "-129"; "i8"; "-128"]%string)) /\
  addr_check false 10 "Dev" (dev None [OBlock None "B" 0 None [ex_reg "R" 1 None]])
    = Ok (Some (mk_err "no_address_type" ["register"]%string)).
Proof. vm_compute. repeat split; reflexivity. Qed.

Print Assumptions C13_walk_bounds_instances.
Print Assumptions C13_walk_exact.
Print Assumptions C13_instances_are_points.
Print Assumptions C13_accepted_all_fit.
Print Assumptions C13_accepted_no_overflow.
Print Assumptions C13_steps_product_ok_holds.
Print Assumptions C13_accepted_no_overflow_full.
Print Assumptions C13_index_casts_exact.
Print Assumptions C13_internal_type_covers_method_literals.
Print Assumptions C13_historical_D3b_signed_product.
Print Assumptions C13_internal_type_fuel_monotone.
Print Assumptions C13_walk_contains_zero.
Print Assumptions C13_internal_type_covers.
Print Assumptions C13_internal_type_covers_instances.
Print Assumptions C13_error_states_bound.
Print Assumptions C13_unfit_walk_range_rejected.
Print Assumptions C13_missing_type_rejected.
Print Assumptions C13_missing_type_rejected_instances.
Print Assumptions C13_historical_D3_repeated_block.
Print Assumptions C13_historical_D4_block_ref.
Print Assumptions C13_historical_D4b_ref_without_address.
Print Assumptions C13_historical_D4c_ref_keeps_repeat.
Print Assumptions C13_historical_D3c_i64_overflow.

(* ---- whole pipeline: a definition the whole generator accepts is [accepted] in the sense used above (after name
   normalisation), so C13_accepted_all_fit / C13_accepted_no_overflow apply to it ---- *)
From DD Require Pipeline PipelineProofs Names.
Theorem C13_whole_pipeline_accept : forall fuel dev_name d0,
  Pipeline.pipeline_result fuel dev_name d0 = "ok"%string -> accepted true fuel dev_name (Names.names_normalized d0).
Proof.
  intros fuel dev_name d0 H. apply PipelineProofs.pipeline_result_ok_iff in H.
  exact (PipelineProofs.ab_addr _ _ _ (PipelineProofs.pipeline_accept_inv _ _ _ H)).
Qed.

Print Assumptions C13_whole_pipeline_accept.

(* The bounds the fit check compares with (Integer::min_value / max_value), TRANSLATED from generation/src/mir/mod.rs on
   every build, are the MIN / MAX of exactly the Rust integer type the address type names: the model's
   [integer_min] / [integer_max] (through [integer_ity]) are the code's for all seven address types. *)
From DD Require GenIntegers.
Theorem C13_address_type_bounds_from_source : forall i,
  exists smin bmin smax bmax,
    In (GenIntegers.integer_variant i, (smin, bmin), (smax, bmax)) DDGen.IntegerRows.integer_rows /\
    integer_min i = ity_min {| signed := smin; bits := bmin |} /\
    integer_max i = ity_max {| signed := smax; bits := bmax |}.
Proof. exact GenIntegers.integer_bounds_from_source. Qed.
Print Assumptions C13_address_type_bounds_from_source.

(* The ORDER of the passes, TRANSLATED from the two `run_passes` functions of generation/src/{mir,lir}/passes/mod.rs on every
   build: address_types_specified and address_types_big_enough run LAST, after names_normalized (ref targets are resolved by name) and refs_validated. *)
From DD Require GenPassOrder.
Theorem C13_pass_order_from_source :
  DDGen.PassOrder.mir_pass_order = GenPassOrder.expected_mir_pass_order /\
  DDGen.PassOrder.lir_pass_order = GenPassOrder.expected_lir_pass_order.
Proof. exact GenPassOrder.pass_order_as_modelled. Qed.
Print Assumptions C13_pass_order_from_source.
