(* C13 — accepted definitions never compute an address outside their address type. *)
From Coq Require Import ZArith List Bool String.
From DD Require Import Common Mir GenErr Addr AddrProofs.
