(* C13 — Accepted definitions never compute an address outside their address type.

   Model (coq/theories/Addr.v): [find_min_max_addresses] with its address_offsets stack / last_depth discipline
   ([mm_walk]), [address_types_specified], [address_types_big_enough], [best_internal] (the bit-width formula of
   find_best_internal_address), [gen_addr] = the emitted arithmetic `self.base_address + ADDR (+|-) index as IT *
   |STRIDE|` evaluated left to right in the internal type with overflow checks on, then `as AT`.
   Spec: [instances] / [i_addr] = addr_sem over every valid index tuple, [in_range].  [accepted] = every
   address-related check of the pipeline passes. *)
From Coq Require Import ZArith List Bool String.
From DD Require Import Common Mir GenErr Addr AddrProofs.
Import ListNotations.
Open Scope Z_scope.

(* THE FULL STATEMENT (false of the faithful model, see the five refutations below):

   Theorem C13_full : forall fuel dev_name d l,
     accepted false fuel dev_name d -> instances fuel (d_objects d) = Ok l ->
     forall i, In i l ->
       exists t it, address_type_of (d_config d) (i_kind i) = Some t /\ internal_type d = Ok it /\
         in_range (integer_ity t) (i_addr i) = true /\
         gen_addr true it (integer_ity t) (i_path i) = Ok (i_addr i).

   What is proved instead: the statement for every UNTAGGED instance of ANY tree (C13_untagged_partial) — an
   instance is tagged when it sits under a repeated block (D3), is reached through a block ref (D4), is a
   register/command ref that keeps its target's address (D4b) or its repeated target's repeat (D4c) — hence for
   every instance of a tree without those constructs (C13_partial); the no-overflow half under the side
   condition "internal type unsigned, or the object's own (count-1)*|stride| fits the internal type" (D3b).
   Missing: nothing else; each excluded class is refuted by a witness accepted by the real generator. *)

Definition ex_cfg (r c b : option integer) : config :=
  {| g_default_register_access := RW; g_default_field_access := RW; g_default_buffer_access := RW;
     g_default_byte_order := None; g_default_bit_order := BiLSB0; g_register_address_type := r;
     g_command_address_type := c; g_buffer_address_type := b; g_boundaries := []; g_defmt_feature := None |}.
Definition ex_reg (n : string) (a : Z) (rep : option repeat) : object :=
  ORegister {| rg_cfg := None; rg_name := n; rg_access := RW; rg_byte_order := None; rg_bit_order := BiLSB0;
               rg_allow_bit_overlap := false; rg_allow_address_overlap := false; rg_address := a;
               rg_size_bits := 8; rg_reset := None; rg_repeat := rep; rg_fields := [] |}.
Definition ex_buf (n : string) (a : Z) : object :=
  OBuffer {| bf_cfg := None; bf_name := n; bf_access := RW; bf_address := a |}.
Definition u8 : ity := integer_ity IU8.
Definition i8 : ity := integer_ity II8.

(* D3: u8; block Blk { offset 0, repeat 3 x 100 } { register Inner @60 } is accepted; blk(2).inner() = 260:
   overflow panic with checks on, bus address 4 without. *)
Definition d3 : device :=
  {| d_config := ex_cfg (Some IU8) None None;
     d_objects := [OBlock None "Blk" 0 (Some {| r_count := 3; r_stride := 100 |}) [ex_reg "Inner" 60 None]] |}.

Theorem C13_repeated_block_refuted :
  exists d l i, accepted false 10 "Dev" d /\ instances 10 (d_objects d) = Ok l /\ In i l /\
    c13_tags i = [TRepBlock] /\ i_kind i = KRegister /\ i_addr i = 260 /\ in_range u8 (i_addr i) = false /\
    internal_type d = Ok u8 /\
    gen_addr true u8 u8 (i_path i) = Fail Overflow /\ gen_addr false u8 u8 (i_path i) = Ok 4.
Proof.
  exists d3. eexists. eexists.
  split; [vm_compute; reflexivity|]. split; [vm_compute; reflexivity|].
  split; [right; right; left; reflexivity|]. vm_compute. repeat split; reflexivity.
Qed.

(* D4: u8; block A { register Inner @10 }, ref B = block A { ADDRESS_OFFSET = 250 } is accepted; 260 does not fit *)
Definition d4 : device :=
  {| d_config := ex_cfg (Some IU8) None None;
     d_objects := [OBlock None "A" 0 None [ex_reg "Inner" 10 None]; ORef None "B" (OvBlock "A" (Some 250) None)] |}.

Theorem C13_block_ref_refuted :
  exists d l i, accepted false 10 "Dev" d /\ instances 10 (d_objects d) = Ok l /\ In i l /\
    c13_tags i = [TBlockRef] /\ i_kind i = KRegister /\ i_addr i = 260 /\ in_range u8 (i_addr i) = false /\
    gen_addr true u8 u8 (i_path i) = Fail Overflow.
Proof.
  exists d4. eexists. eexists.
  split; [vm_compute; reflexivity|]. split; [vm_compute; reflexivity|].
  split; [right; left; reflexivity|]. vm_compute. repeat split; reflexivity.
Qed.

(* D4b: u8; register X @10, block B { offset 250 } { ref Y = register X { Access = RO } } is accepted; b().y() = 260 *)
Definition d4b : device :=
  {| d_config := ex_cfg (Some IU8) None None;
     d_objects := [ex_reg "X" 10 None;
                   OBlock None "B" 250 None [ORef None "Y" (OvRegister "X" (Some RO) None false None None)]] |}.

Theorem C13_ref_without_address_refuted :
  exists d l i, accepted false 10 "Dev" d /\ instances 10 (d_objects d) = Ok l /\ In i l /\
    c13_tags i = [TRefNoAddr] /\ i_kind i = KRegister /\ i_addr i = 260 /\ in_range u8 (i_addr i) = false /\
    gen_addr true u8 u8 (i_path i) = Fail Overflow.
Proof.
  exists d4b. eexists. eexists.
  split; [vm_compute; reflexivity|]. split; [vm_compute; reflexivity|].
  split; [right; left; reflexivity|]. vm_compute. repeat split; reflexivity.
Qed.

(* D4c (found by this model): u8; register X @0 repeat 3 x 10, ref Y = register X { ADDRESS = 250 } is accepted;
   the ref keeps its target's repeat: y(1) = 260, y(2) = 270 *)
Definition d4c : device :=
  {| d_config := ex_cfg (Some IU8) None None;
     d_objects := [ex_reg "X" 0 (Some {| r_count := 3; r_stride := 10 |});
                   ORef None "Y" (OvRegister "X" None (Some 250) false None None)] |}.

Theorem C13_ref_keeps_repeat_refuted :
  exists d l i, accepted false 10 "Dev" d /\ instances 10 (d_objects d) = Ok l /\ In i l /\
    c13_tags i = [TRefKeepsRepeat] /\ i_kind i = KRegister /\ i_addr i = 270 /\ in_range u8 (i_addr i) = false /\
    gen_addr true u8 u8 (i_path i) = Fail Overflow /\ gen_addr false u8 u8 (i_path i) = Ok 14.
Proof.
  exists d4c. eexists. eexists.
  split; [vm_compute; reflexivity|]. split; [vm_compute; reflexivity|].
  split; [do 5 right; left; reflexivity|]. vm_compute. repeat split; reflexivity.
Qed.

(* D3b: i8; register R @-100 repeat 3 x 100 is accepted and in the class of C13_partial; every final address
   (-100, 0, 100) fits, the internal type is i8, and r(2) computes 2i8 * 100: overflow. *)
Definition d3b : device :=
  {| d_config := ex_cfg (Some II8) None None;
     d_objects := [ex_reg "R" (-100) (Some {| r_count := 3; r_stride := 100 |})] |}.

Theorem C13_signed_product_refuted :
  exists d l i, accepted false 10 "Dev" d /\ simple_tree (d_objects d) = true /\
    instances 10 (d_objects d) = Ok l /\ forallb (fun j => in_range i8 (i_addr j)) l = true /\ In i l /\
    untagged i = true /\ i_addr i = 100 /\ internal_type d = Ok i8 /\
    gen_addr true i8 i8 (i_path i) = Fail Overflow /\ gen_addr false i8 i8 (i_path i) = Ok 100 /\
    ~ last_step_product_ok i8 (i_path i).
Proof.
  exists d3b. eexists. eexists.
  split; [vm_compute; reflexivity|]. split; [vm_compute; reflexivity|]. split; [vm_compute; reflexivity|].
  split; [vm_compute; reflexivity|].
  split; [right; right; left; reflexivity|]. vm_compute. repeat split; try reflexivity. intros H; apply H; reflexivity.
Qed.

(* C13 for every untagged instance of ANY accepted tree: the kind's address type exists, the address fits
   it, and — internal type unsigned or the object's own (count-1)*|stride| within the internal type — the
   emitted arithmetic, overflow checks on, yields exactly that address. *)
Theorem C13_untagged_partial : forall fx fuel dev_name d l,
  accepted fx fuel dev_name d -> instances fuel (d_objects d) = Ok l ->
  forall i, In i l -> untagged i = true ->
    exists t it, address_type_of (d_config d) (i_kind i) = Some t /\ internal_type d = Ok it /\
      in_range (integer_ity t) (i_addr i) = true /\
      ((signed it = false \/ last_step_product_ok it (i_path i)) ->
       gen_addr true it (integer_ity t) (i_path i) = Ok (i_addr i)).
Proof. exact c13_untagged. Qed.

(* Trees without repeated blocks, without block refs, whose register/command refs override the address (and
   the repeat, when the target is repeated): the min/max walk of each kind bounds every reachable address of
   that kind, hence accepted ==> every address fits; plus the no-intermediate-overflow statement. *)
Theorem C13_partial : forall fx fuel dev_name d l,
  simple_tree (d_objects d) = true -> accepted fx fuel dev_name d ->
  instances fuel (d_objects d) = Ok l ->
  forall i, In i l ->
    fst (find_min_max_addresses (filter_kind (i_kind i)) (d_objects d)) <= i_addr i
      <= snd (find_min_max_addresses (filter_kind (i_kind i)) (d_objects d)) /\
    exists t it, address_type_of (d_config d) (i_kind i) = Some t /\ internal_type d = Ok it /\
      in_range (integer_ity t) (i_addr i) = true /\
      ((signed it = false \/ last_step_product_ok it (i_path i)) ->
       gen_addr true it (integer_ity t) (i_path i) = Ok (i_addr i)).
Proof. exact c13_partial. Qed.

(* the stack walk (address_offsets / last_depth) computes what the natural recursion over the tree computes *)
Theorem C13_walk_is_structural : forall filter objs,
  filter_blocks filter -> find_min_max_addresses filter objs = mm_struct_list filter 0 objs (0, 0).
Proof. exact walk_struct. Qed.

(* the internal type chosen by the bit-width formula contains [min, max] (and is at least 8 bits wide) *)
Theorem C13_internal_type_covers : forall mn mx it,
  best_internal mn mx = Ok it -> mn <= 0 <= mx ->
  8 <= bits it /\ signed it = (mn <? 0) /\ forall z, mn <= z <= mx -> in_range it z = true.
Proof. exact best_internal_covers. Qed.

(* "rejected with an error stating the offending bound" *)
Theorem C13_error_states_bound : forall d k e,
  big_enough_kind d k = Some e ->
  exists t, address_type_of (d_config d) k = Some t /\
    let mn := fst (find_min_max_addresses (filter_kind k) (d_objects d)) in
    let mx := snd (find_min_max_addresses (filter_kind k) (d_objects d)) in
    (mn < integer_min t /\
     e = mk_err "address_too_low" [show_akind k; show_Z mn; show_integer t; show_Z (integer_min t)]) \/
    (integer_max t < mx /\
     e = mk_err "address_too_high" [show_akind k; show_Z mx; show_integer t; show_Z (integer_max t)]).
Proof. exact big_enough_error. Qed.

(* A missing address type for a used object kind is rejected — in full: any register / command / buffer
   object anywhere in the tree (a ref's target is one) ... *)
Theorem C13_missing_type_rejected : forall fx fuel dev_name d o k,
  In o (preorder_objects (d_objects d)) -> object_kind o = Some k ->
  address_type_of (d_config d) k = None ->
  exists e, addr_check fx fuel dev_name d = Ok (Some e) /\ e_kind e = "no_address_type"%string.
Proof. exact missing_type_not_accepted. Qed.

(* ... in particular whenever the spec has an instance of that kind *)
Theorem C13_missing_type_rejected_instances : forall d fuel l i,
  instances fuel (d_objects d) = Ok l -> In i l -> address_types_specified d = None ->
  exists t, address_type_of (d_config d) (i_kind i) = Some t.
Proof. exact instance_type_specified. Qed.

(* ---------------------------------------------------------------------------------------------- *)
(* Non-vacuity *)

(* blocks.md's offset 5 + 7 = 12 and refs.md's Foo @3 / Bar @5 with u8 types: accepted, in the class of
   C13_partial, the emitted arithmetic yields 12 / 3 / 5 *)
Definition book : device :=
  {| d_config := ex_cfg (Some IU8) None (Some IU8);
     d_objects := [OBlock None "Foo" 5 None [ex_buf "Bar" 7];
                   ex_reg "Fooreg" 3 None; ORef None "Barref" (OvRegister "Fooreg" None (Some 5) false None None)] |}.

Example C13_book_examples :
  accepted false 10 "Dev" book /\ simple_tree (d_objects book) = true /\ internal_type book = Ok u8 /\
  exists l, instances 10 (d_objects book) = Ok l /\ map i_addr l = [12; 3; 5] /\
            map (fun i => gen_addr true u8 u8 (i_path i)) l = [Ok 12; Ok 3; Ok 5].
Proof.
  split; [vm_compute; reflexivity|]. split; [reflexivity|]. split; [vm_compute; reflexivity|].
  eexists. split; [vm_compute; reflexivity|]. split; vm_compute; reflexivity.
Qed.

(* boundaries: u8 register @250 repeat 2 x 5 (255) accepted; x 6 (256) rejected stating the bound; a negative
   stride reaching -1 rejected; i8 nested offsets -100 + -28 = -128 accepted, -129 rejected; a register
   without a register address type rejected *)
Example C13_boundaries :
  let dev t objs := {| d_config := ex_cfg t None None; d_objects := objs |} in
  addr_check false 10 "Dev" (dev (Some IU8) [ex_reg "R" 250 (Some {| r_count := 2; r_stride := 5 |})]) = Ok None /\
  addr_check false 10 "Dev" (dev (Some IU8) [ex_reg "R" 250 (Some {| r_count := 2; r_stride := 6 |})])
    = Ok (Some (mk_err "address_too_high" ["register"; "256"; "u8"; "255"]%string)) /\
  addr_check false 10 "Dev" (dev (Some IU8) [ex_reg "R" 3 (Some {| r_count := 3; r_stride := -2 |})])
    = Ok (Some (mk_err "address_too_low" ["register"; "-1"; "u8"; "0"]%string)) /\
  addr_check false 10 "Dev" (dev (Some II8) [OBlock None "B" (-100) None [ex_reg "R" (-28) None]]) = Ok None /\
  addr_check false 10 "Dev" (dev (Some II8) [OBlock None "B" (-100) None [ex_reg "R" (-29) None]])
    = Ok (Some (mk_err "address_too_low" ["register"; "-129"; "i8"; "-128"]%string)) /\
  addr_check false 10 "Dev" (dev None [OBlock None "B" 0 None [ex_reg "R" 1 None]])
    = Ok (Some (mk_err "no_address_type" ["register"]%string)).
Proof. vm_compute. repeat split; reflexivity. Qed.

Print Assumptions C13_repeated_block_refuted.
Print Assumptions C13_block_ref_refuted.
Print Assumptions C13_ref_without_address_refuted.
Print Assumptions C13_ref_keeps_repeat_refuted.
Print Assumptions C13_signed_product_refuted.
Print Assumptions C13_untagged_partial.
Print Assumptions C13_partial.
Print Assumptions C13_walk_is_structural.
Print Assumptions C13_internal_type_covers.
Print Assumptions C13_error_states_bound.
Print Assumptions C13_missing_type_rejected.
Print Assumptions C13_missing_type_rejected_instances.

(* ---- whole pipeline: a definition the whole generator accepts is [accepted] in the sense used above (after name
   normalisation), so C13_untagged_partial / C13_partial apply to it ---- *)
From DD Require Pipeline PipelineProofs Names.
Theorem C13_whole_pipeline_accept : forall fuel dev_name d0,
  Pipeline.pipeline_result fuel dev_name d0 = "ok"%string -> accepted true fuel dev_name (Names.names_normalized d0).
Proof.
  intros fuel dev_name d0 H. apply PipelineProofs.pipeline_result_ok_iff in H.
  exact (PipelineProofs.ab_addr _ _ _ (PipelineProofs.pipeline_accept_inv _ _ _ H)).
Qed.

Print Assumptions C13_whole_pipeline_accept.

(* The bounds the fit check compares with (Integer::min_value / max_value), TRANSLATED from generation/src/mir/mod.rs on
   every build, are the MIN / MAX of exactly the Rust integer type the address type names: the model's
   [integer_min] / [integer_max] (through [integer_ity]) are the code's for all seven address types. *)
From DD Require GenIntegers.
Theorem C13_address_type_bounds_from_source : forall i,
  exists smin bmin smax bmax,
    In (GenIntegers.integer_variant i, (smin, bmin), (smax, bmax)) DDGen.IntegerRows.integer_rows /\
    integer_min i = ity_min {| signed := smin; bits := bmin |} /\
    integer_max i = ity_max {| signed := smax; bits := bmax |}.
Proof. exact GenIntegers.integer_bounds_from_source. Qed.
Print Assumptions C13_address_type_bounds_from_source.
