(* C02 — Field store/load round-trips and never disturbs bits outside the field. *)
From Coq Require Import String ZArith List Bool Lia.
From DD Require Import Common Carrier Bits BitsSpec BitsProofs BitsRoundtrip BitsAlgebra.
From DD Require Import Mir Layout LayoutProofs FieldSetGen FieldSetLaws.
Import ListNotations.
Open Scope Z_scope.

(* guard = the quantifier of the property: pointer width with a DedupCast table row, any of the ten
   carriers, any buffer, any in-bounds range no wider than the carrier. *)

(* Every set-bit outside [s,e) is left exactly as it was; length and byte-ness preserved. *)
Theorem C02_isolation : forall ptrw bo bito c v data s e,
  guard ptrw c data s e ->
  exists data', store ptrw bo bito c v s e data = Some (Ok data') /\
    length data' = length data /\ bytes_ok data' /\
    forall k, 0 <= k < 8 * Z.of_nat (length data) -> ~ (s <= k < e) ->
      setbit bo bito data' k = setbit bo bito data k.
Proof. exact store_isolation. Qed.

(* Reading depends only on the bits inside the range. *)
Theorem C02_load_local : forall ptrw bo bito c d1 d2 s e,
  guard ptrw c d1 s e -> bytes_ok d2 -> length d2 = length d1 ->
  (forall k, s <= k < e -> setbit bo bito d1 k = setbit bo bito d2 k) ->
  load ptrw bo bito c d1 s e = load ptrw bo bito c d2 s e.
Proof. exact load_local. Qed.

(* Unsigned carriers: read-after-write returns the value reduced to the field's width. *)
Theorem C02_roundtrip_unsigned : forall ptrw bo bito c v data s e,
  guard ptrw c data s e -> signed (cty_ity ptrw c) = false ->
  exists data', store ptrw bo bito c v s e data = Some (Ok data') /\
    load ptrw bo bito c data' s e = Some (Ok (v mod 2 ^ (e - s))).
Proof. exact roundtrip_unsigned. Qed.

(* Signed carriers, field as wide as the carrier: exact for every representable value. *)
Theorem C02_roundtrip_signed_full : forall ptrw bo bito c v data s e,
  guard ptrw c data s e -> signed (cty_ity ptrw c) = true -> e - s = bits (cty_ity ptrw c) ->
  in_range (cty_ity ptrw c) v = true ->
  exists data', store ptrw bo bito c v s e data = Some (Ok data') /\
    load ptrw bo bito c data' s e = Some (Ok v).
Proof. exact roundtrip_signed_full. Qed.

(* PARTIAL (known finding D1): for a field NARROWER than its carrier the load returns the unsigned
   reading v mod 2^w of the w stored bits — for signed fields this is the two's-complement reading
   only when bit w-1 of v is clear.  The full statement of the property ("as a two's-complement number
   for signed fields") is refuted below. *)
Theorem C02_roundtrip_signed_narrow_partial : forall ptrw bo bito c v data s e,
  guard ptrw c data s e -> e - s < bits (cty_ity ptrw c) ->
  exists data', store ptrw bo bito c v s e data = Some (Ok data') /\
    load ptrw bo bito c data' s e = Some (Ok (v mod 2 ^ (e - s))).
Proof. exact roundtrip_signed_narrow. Qed.

Theorem C02_signed_narrow_agrees_when_top_bit_clear : forall w v,
  0 < w -> v mod 2 ^ w < 2 ^ (w - 1) -> signed_of w v = v mod 2 ^ w.
Proof. exact signed_of_small. Qed.

(* The witness of D1: i8 carrier, LE, LSB0, bits [0,4), store -1, read back 15 (two's complement: -1). *)
Theorem C02_signed_narrow_refuted :
  exists ptrw bo bito c v data s e,
    guard ptrw c data s e /\ signed (cty_ity ptrw c) = true /\
    (exists data', store ptrw bo bito c v s e data = Some (Ok data') /\
       load ptrw bo bito c data' s e = Some (Ok 15)) /\ signed_of (e - s) v = -1.
Proof.
  exists 64, LE, LSB0, I8, (-1), [0], 0, 4. split; [apply guardb_sound; vm_compute; reflexivity|].
  split; [reflexivity|]. split; [|reflexivity]. exists [15]. split; vm_compute; reflexivity.
Qed.

(* Any sequence of setter calls on fields disjoint from A leaves what A reads unchanged. *)
Theorem C02_setter_sequences : forall ptrw bo bito c s e sts data,
  guard ptrw c data s e ->
  Forall (setter_ok ptrw (length data)) sts -> Forall (disjoint_from s e) sts ->
  exists data', fold_left (apply_setter ptrw bo bito) sts (Some data) = Some data' /\
    length data' = length data /\ bytes_ok data' /\
    load ptrw bo bito c data' s e = load ptrw bo bito c data s e.
Proof. intros. apply setter_sequence_preserves; assumption. Qed.

(* ... and without disjointness the read value may change (so the hypothesis is not idle). *)
Example C02_overlap_changes :
  load 64 LE LSB0 U8 [0xFF] 0 4 = Some (Ok 15) /\
  (match store 64 LE LSB0 U8 0 2 6 [0xFF] with Some (Ok d) => load 64 LE LSB0 U8 d 0 4 | _ => None end) = Some (Ok 3).
Proof. vm_compute. split; reflexivity. Qed.

Example C02_guard_inhabited : guard 64 I16 [0xAB; 0xCD; 0xEF] 3 17.
Proof. apply guardb_sound. vm_compute. reflexivity. Qed.

(* ---- algebraic laws of the field operations (BitsAlgebra.v) ---- *)

(* A field set is determined by its set-bits: isolation and locality, which speak about set-bits,
   therefore speak about every byte of the buffer. *)
Theorem C02_bytes_determined_by_setbits : forall bo bito d1 d2,
  bytes_ok d1 -> bytes_ok d2 -> length d2 = length d1 ->
  (forall k, 0 <= k < 8 * Z.of_nat (length d1) -> setbit bo bito d2 k = setbit bo bito d1 k) ->
  d2 = d1.
Proof. exact data_ext. Qed.

(* Writing back the value just read leaves the whole buffer exactly as it was (a `modify` whose
   closure changes nothing is a no-op on every byte) — for every carrier, signed ones included. *)
Theorem C02_store_of_loaded_is_identity : forall ptrw bo bito c data s e x,
  guard ptrw c data s e ->
  load ptrw bo bito c data s e = Some (Ok x) ->
  store ptrw bo bito c x s e data = Some (Ok data).
Proof. exact store_loaded_identity. Qed.

(* The last store into a field wins: nothing of an earlier value of the same field survives. *)
Theorem C02_last_store_wins : forall ptrw bo bito c v1 v2 data s e,
  guard ptrw c data s e ->
  exists d1 d2, store ptrw bo bito c v1 s e data = Some (Ok d1) /\
    store ptrw bo bito c v2 s e d1 = Some (Ok d2) /\
    store ptrw bo bito c v2 s e data = Some (Ok d2).
Proof. exact store_store. Qed.

(* Setting A then B gives byte for byte the same buffer as setting B then A when the definition does
   not let them overlap. *)
Theorem C02_disjoint_stores_commute : forall ptrw bo bito ca cb va vb data sa ea sb eb,
  guard ptrw ca data sa ea -> guard ptrw cb data sb eb -> ea <= sb \/ eb <= sa ->
  exists dab,
    (exists da, store ptrw bo bito ca va sa ea data = Some (Ok da) /\
                store ptrw bo bito cb vb sb eb da = Some (Ok dab)) /\
    (exists db, store ptrw bo bito cb vb sb eb data = Some (Ok db) /\
                store ptrw bo bito ca va sa ea db = Some (Ok dab)).
Proof. exact store_commute. Qed.

(* ... and overlapping stores need not commute (the hypothesis is not idle). *)
Example C02_overlapping_stores_do_not_commute :
  (match store 64 LE LSB0 U8 0 0 4 [0xFF] with Some (Ok d) => store 64 LE LSB0 U8 15 2 6 d | _ => None end) = Some (Ok [0xFC]) /\
  (match store 64 LE LSB0 U8 15 2 6 [0xFF] with Some (Ok d) => store 64 LE LSB0 U8 0 0 4 d | _ => None end) = Some (Ok [0xF0]).
Proof. vm_compute. split; reflexivity. Qed.

(* Set A, then any sequence of setter calls on fields disjoint from A, then read A: the value
   written, reduced to the field's width (unsigned carriers, and signed carriers wider than the
   field — the reading D1 documents). *)
Theorem C02_write_others_read : forall ptrw bo bito c v s e sts data,
  guard ptrw c data s e -> e - s < bits (cty_ity ptrw c) \/ signed (cty_ity ptrw c) = false ->
  Forall (setter_ok ptrw (length data)) sts -> Forall (disjoint_from s e) sts ->
  exists d1 d2, store ptrw bo bito c v s e data = Some (Ok d1) /\
    fold_left (apply_setter ptrw bo bito) sts (Some d1) = Some d2 /\
    load ptrw bo bito c d2 s e = Some (Ok (v mod 2 ^ (e - s))).
Proof. exact write_others_read. Qed.

Example C02_write_others_read_inhabited :
  fold_left (apply_setter 64 BE MSB0)
    [{| st_c := U8; st_s := 0; st_e := 3; st_v := 5 |}; {| st_c := U16; st_s := 17; st_e := 24; st_v := 0x55 |}]
    (match store 64 BE MSB0 I16 (-3) 3 17 [0xAB; 0xCD; 0xEF] with Some (Ok d) => Some d | _ => None end)
  = Some [0xD5; 0xFF; 0xBD] /\
  load 64 BE MSB0 I16 [0xD5; 0xFF; 0xBD] 3 17 = Some (Ok ((-3) mod 2 ^ 14)).
Proof. vm_compute. split; reflexivity. Qed.

(* ---- the quantifier's last clause at the level of GENERATED accessors (FieldSetLaws.v) ----
   "setting field A then field B never changes what A reads unless the definition lets them overlap":
   for every field set the layout validation accepts (set_ok = C11_accept_iff_wf's well-formedness) without
   AllowBitOverlap, every two different positions of its field list, both orders, every value and every
   prior content of the set's byte array, the emitted setter of g (FieldSetGen.setter_of: carrier, range and
   ops function as lir_transform / field_set_transform emit them, compared with the real token stream by C06)
   leaves what the emitted getter of f returns unchanged. *)
Theorem C02_generated_fields_independent : forall ptrw bo bi size fs i j f g v bytes,
  In ptrw ptr_widths -> size <> 0 -> set_ok fs size false ->
  nth_error fs i = Some f -> nth_error fs j = Some g -> i <> j ->
  0 <= f_start f -> field_end f - f_start f <= 128 -> 0 <= f_start g -> field_end g - f_start g <= 128 ->
  bytes_ok bytes -> Z.of_nat (List.length bytes) = div_ceil8 size ->
  exists bytes', setter_call ptrw (setter_of bo bi (widen g)) v bytes = Some (Ok bytes') /\
    List.length bytes' = List.length bytes /\ bytes_ok bytes' /\
    getter_call ptrw (getter_of bo bi (widen f)) bytes' = getter_call ptrw (getter_of bo bi (widen f)) bytes.
Proof. exact accepted_set_fields_independent. Qed.

Definition c02_fld (n : String.string) (b : base_type) (s e : Z) : field :=
  {| f_cfg := None; f_name := n; f_access := RW; f_base := b; f_conv := None; f_start := s; f_end := e |}.

(* hypotheses inhabited: a 16-bit set with a uint [0,4), an int [4,12) and a bare-index bool at 15;
   and the conclusion evaluated on it (BE, MSB0). *)
Example C02_generated_fields_independent_inhabited :
  let fs := [c02_fld "a"%string BUint 0 4; c02_fld "b"%string BInt 4 12; c02_fld "c"%string BBool 15 15] in
  set_ok fs 16 false /\
  (match setter_call 64 (setter_of BoBE BiMSB0 (widen (c02_fld "b"%string BInt 4 12))) (-2) [0xA5; 0x5A] with
   | Some (Ok d) => getter_call 64 (getter_of BoBE BiMSB0 (widen (c02_fld "a"%string BUint 0 4))) d
   | _ => None end)
  = getter_call 64 (getter_of BoBE BiMSB0 (widen (c02_fld "a"%string BUint 0 4))) [0xA5; 0x5A].
Proof.
  cbv zeta. split; [|vm_compute; reflexivity].
  split.
  - repeat constructor; cbn; try lia; try discriminate; intros H; try discriminate H; try (split; [lia|reflexivity]).
  - intros _. cbn [pairwise]. unfold fields_disjoint, field_end. cbn.
    repeat split; try (repeat constructor); cbn; lia.
Qed.

(* set_x(v) then x() on one emitted field: the carrier reading of v reduced to the field's width.  For `uint`
   fields and for `int` fields that fill their carrier this is the property's read-back; for an `int` field
   narrower than its carrier it is the UNSIGNED reading (D1) — the witness below is D1 at the generated level. *)
Theorem C02_generated_set_then_get : forall ptrw bo bi size f v bytes,
  In ptrw ptr_widths -> size <> 0 ->
  field_ok size f -> 0 <= f_start f -> field_end f - f_start f <= 128 ->
  bytes_ok bytes -> Z.of_nat (List.length bytes) = div_ceil8 size ->
  exists c bytes', cty_of (field_signed f) (field_cbits (widen f)) = Some c /\
    setter_call ptrw (setter_of bo bi (widen f)) v bytes = Some (Ok bytes') /\
    getter_call ptrw (getter_of bo bi (widen f)) bytes' =
      Some (Ok (wrap (cty_ity ptrw c) (v mod 2 ^ (field_end f - f_start f)))).
Proof. exact generated_set_then_get. Qed.

Example C02_generated_set_then_get_D1 :
  (match setter_call 64 (setter_of BoLE BiLSB0 (widen (c02_fld "a"%string BInt 0 4))) (-1) [0] with
   | Some (Ok d) => getter_call 64 (getter_of BoLE BiLSB0 (widen (c02_fld "a"%string BInt 0 4))) d
   | _ => None end) = Some (Ok 15) /\
  (match setter_call 64 (setter_of BoLE BiLSB0 (widen (c02_fld "b"%string BInt 0 8))) (-1) [0] with
   | Some (Ok d) => getter_call 64 (getter_of BoLE BiLSB0 (widen (c02_fld "b"%string BInt 0 8))) d
   | _ => None end) = Some (Ok (-1)).
Proof. vm_compute. split; reflexivity. Qed.

Print Assumptions C02_isolation.
Print Assumptions C02_load_local.
Print Assumptions C02_roundtrip_unsigned.
Print Assumptions C02_roundtrip_signed_full.
Print Assumptions C02_roundtrip_signed_narrow_partial.
Print Assumptions C02_signed_narrow_agrees_when_top_bit_clear.
Print Assumptions C02_signed_narrow_refuted.
Print Assumptions C02_setter_sequences.
Print Assumptions C02_bytes_determined_by_setbits.
Print Assumptions C02_store_of_loaded_is_identity.
Print Assumptions C02_last_store_wins.
Print Assumptions C02_disjoint_stores_commute.
Print Assumptions C02_write_others_read.
Print Assumptions C02_generated_fields_independent.
Print Assumptions C02_generated_set_then_get.
