(* C02 — Field store/load round-trips and never disturbs bits outside the field. *)
From Coq Require Import ZArith List Bool.
From DD Require Import Common Carrier Bits BitsSpec BitsProofs BitsRoundtrip.
Import ListNotations.
Open Scope Z_scope.

(* guard = the quantifier of the property: pointer width with a DedupCast table row, any of the ten
   carriers, any buffer, any in-bounds range no wider than the carrier. *)

(* Every set-bit outside [s,e) is left exactly as it was; length and byte-ness preserved. *)
Theorem C02_isolation : forall ptrw bo bito c v data s e,
  guard ptrw c data s e ->
  exists data', store ptrw bo bito c v s e data = Some (Ok data') /\
    length data' = length data /\ bytes_ok data' /\
    forall k, 0 <= k < 8 * Z.of_nat (length data) -> ~ (s <= k < e) ->
      setbit bo bito data' k = setbit bo bito data k.
Proof. exact store_isolation. Qed.

(* Reading depends only on the bits inside the range. *)
Theorem C02_load_local : forall ptrw bo bito c d1 d2 s e,
  guard ptrw c d1 s e -> bytes_ok d2 -> length d2 = length d1 ->
  (forall k, s <= k < e -> setbit bo bito d1 k = setbit bo bito d2 k) ->
  load ptrw bo bito c d1 s e = load ptrw bo bito c d2 s e.
Proof. exact load_local. Qed.

(* Unsigned carriers: read-after-write returns the value reduced to the field's width. *)
Theorem C02_roundtrip_unsigned : forall ptrw bo bito c v data s e,
  guard ptrw c data s e -> signed (cty_ity ptrw c) = false ->
  exists data', store ptrw bo bito c v s e data = Some (Ok data') /\
    load ptrw bo bito c data' s e = Some (Ok (v mod 2 ^ (e - s))).
Proof. exact roundtrip_unsigned. Qed.

(* Signed carriers, field as wide as the carrier: exact for every representable value. *)
Theorem C02_roundtrip_signed_full : forall ptrw bo bito c v data s e,
  guard ptrw c data s e -> signed (cty_ity ptrw c) = true -> e - s = bits (cty_ity ptrw c) ->
  in_range (cty_ity ptrw c) v = true ->
  exists data', store ptrw bo bito c v s e data = Some (Ok data') /\
    load ptrw bo bito c data' s e = Some (Ok v).
Proof. exact roundtrip_signed_full. Qed.

(* PARTIAL (known finding D1): for a field NARROWER than its carrier the load returns the unsigned
   reading v mod 2^w of the w stored bits — for signed fields this is the two's-complement reading
   only when bit w-1 of v is clear.  The full statement of the property ("as a two's-complement number
   for signed fields") is refuted below. *)
Theorem C02_roundtrip_signed_narrow_partial : forall ptrw bo bito c v data s e,
  guard ptrw c data s e -> e - s < bits (cty_ity ptrw c) ->
  exists data', store ptrw bo bito c v s e data = Some (Ok data') /\
    load ptrw bo bito c data' s e = Some (Ok (v mod 2 ^ (e - s))).
Proof. exact roundtrip_signed_narrow. Qed.

Theorem C02_signed_narrow_agrees_when_top_bit_clear : forall w v,
  0 < w -> v mod 2 ^ w < 2 ^ (w - 1) -> signed_of w v = v mod 2 ^ w.
Proof. exact signed_of_small. Qed.

(* The witness of D1: i8 carrier, LE, LSB0, bits [0,4), store -1, read back 15 (two's complement: -1). *)
Theorem C02_signed_narrow_refuted :
  exists ptrw bo bito c v data s e,
    guard ptrw c data s e /\ signed (cty_ity ptrw c) = true /\
    (exists data', store ptrw bo bito c v s e data = Some (Ok data') /\
       load ptrw bo bito c data' s e = Some (Ok 15)) /\ signed_of (e - s) v = -1.
Proof.
  exists 64, LE, LSB0, I8, (-1), [0], 0, 4. split; [apply guardb_sound; vm_compute; reflexivity|].
  split; [reflexivity|]. split; [|reflexivity]. exists [15]. split; vm_compute; reflexivity.
Qed.

(* Any sequence of setter calls on fields disjoint from A leaves what A reads unchanged. *)
Theorem C02_setter_sequences : forall ptrw bo bito c s e sts data,
  guard ptrw c data s e ->
  Forall (setter_ok ptrw (length data)) sts -> Forall (disjoint_from s e) sts ->
  exists data', fold_left (apply_setter ptrw bo bito) sts (Some data) = Some data' /\
    length data' = length data /\ bytes_ok data' /\
    load ptrw bo bito c data' s e = load ptrw bo bito c data s e.
Proof. intros. apply setter_sequence_preserves; assumption. Qed.

(* ... and without disjointness the read value may change (so the hypothesis is not idle). *)
Example C02_overlap_changes :
  load 64 LE LSB0 U8 [0xFF] 0 4 = Some (Ok 15) /\
  (match store 64 LE LSB0 U8 0 2 6 [0xFF] with Some (Ok d) => load 64 LE LSB0 U8 d 0 4 | _ => None end) = Some (Ok 3).
Proof. vm_compute. split; reflexivity. Qed.

Example C02_guard_inhabited : guard 64 I16 [0xAB; 0xCD; 0xEF] 3 17.
Proof. apply guardb_sound. vm_compute. reflexivity. Qed.

Print Assumptions C02_isolation.
Print Assumptions C02_load_local.
Print Assumptions C02_roundtrip_unsigned.
Print Assumptions C02_roundtrip_signed_full.
Print Assumptions C02_roundtrip_signed_narrow_partial.
Print Assumptions C02_signed_narrow_agrees_when_top_bit_clear.
Print Assumptions C02_signed_narrow_refuted.
Print Assumptions C02_setter_sequences.
