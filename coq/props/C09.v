(* C09 — Command dispatch transfers exactly the declared input and output.
   Property theorems only; proofs in theories/ProtoProofs.v, model in theories/Proto.v (the four
   blocking and the four async dispatch bodies of command.rs, transcribed separately).
   See props/C05.v for the reading guide (orc, h, run, exec, async_agrees).
   `f` is the user closure `FnOnce(&mut InFieldSet)`: an arbitrary function from the bytes it is
   shown to the bytes it stores; `call_cmd_closure f z` applies it to a fixed-size field set.
   The generator clause (which of the four bodies a generated accessor runs: `()` exactly for an
   empty field list; a ref takes its target's field sets) is CmdShape.v, tied to the real generator by
   the C09 check's generator phase: C09_unit_iff_no_fields, C09_generated_dispatch. *)
From Coq Require Import ZArith List Bool.
From DD Require Import Proto ProtoSpec ProtoCases ProtoProofs.
Import ListNotations.

(* no input, no output: exactly one dispatch_command(addr, 0, [], 0, []); the interface's result
   (Ok or its error) is returned unchanged *)
Theorem C09_dispatch_none : forall orc h a,
  let c := CmdDispatch a 0 [] 0 [] in
  let r := orc h c in
  run orc (cmd_dispatch_none a) h = ([(c, r)], Done (res_unit r)).
Proof. exact cmd_none_spec. Qed.

(* input only: one call; the input is what the closure made of an all-zero field set,
   ceil(size_in/8) bytes, with the declared size; output side is (0, []) *)
Theorem C09_dispatch_in : forall orc h a szi f,
  let input := call_cmd_closure f (zeros (nbytes szi)) in
  let c := CmdDispatch a szi input 0 [] in
  let r := orc h c in
  length input = nbytes szi /\
  run orc (cmd_dispatch_in a szi f) h = ([(c, r)], Done (res_unit r)).
Proof. exact cmd_in_spec. Qed.

(* output only: one call with input side (0, []) and a zeroed output buffer of ceil(size_out/8)
   bytes with the declared size; the value returned is that buffer with what the interface
   stored in it (exactly the interface's bytes for a full-length store); error unchanged *)
Theorem C09_dispatch_out : forall orc h a szo,
  let c := CmdDispatch a 0 [] szo (zeros (nbytes szo)) in
  let r := orc h c in
  let stored := overlay (r_data r) (zeros (nbytes szo)) in
  length stored = nbytes szo /\
  (length (r_data r) = nbytes szo -> stored = r_data r) /\
  run orc (cmd_dispatch_out a szo) h =
    ([(c, r)], Done (match r_res r with ROk _ => ROk stored | RErr e => RErr e end)).
Proof. exact cmd_out_spec. Qed.

(* input and output *)
Theorem C09_dispatch_inout : forall orc h a szi szo f,
  let input := call_cmd_closure f (zeros (nbytes szi)) in
  let c := CmdDispatch a szi input szo (zeros (nbytes szo)) in
  let r := orc h c in
  let stored := overlay (r_data r) (zeros (nbytes szo)) in
  length input = nbytes szi /\
  length stored = nbytes szo /\
  (length (r_data r) = nbytes szo -> stored = r_data r) /\
  run orc (cmd_dispatch_inout a szi szo f) h =
    ([(c, r)], Done (match r_res r with ROk _ => ROk stored | RErr e => RErr e end)).
Proof. exact cmd_inout_spec. Qed.

(* dispatch_async, all four shapes: same single call, same arguments, same result as the
   blocking dispatch for every interface, closure, history and pattern of suspension *)
Theorem C09_async_equiv : forall a szi szo f,
  async_agrees (cmd_dispatch_none_async a) (cmd_dispatch_none a) /\
  async_agrees (cmd_dispatch_in_async a szi f) (cmd_dispatch_in a szi f) /\
  async_agrees (cmd_dispatch_out_async a szo) (cmd_dispatch_out a szo) /\
  async_agrees (cmd_dispatch_inout_async a szi szo f) (cmd_dispatch_inout a szi szo f).
Proof.
  intros; repeat apply conj;
    [apply cmd_none_async_agrees|apply cmd_in_async_agrees|
     apply cmd_out_async_agrees|apply cmd_inout_async_agrees].
Qed.

Local Open Scope Z_scope.

(* ---- non-vacuity: command at address 7, 12-bit input, 24-bit output.  The closure sets the
   input to 0a 0b; the interface stores de ad be into the output buffer. *)
Example C09_example_inout :
  case_cmd false [mkResp (ROk 0%nat) [0xde; 0xad; 0xbe]] [] ShInOut 7 12 24 CkSet [0x0a; 0x0b]
  = ([(CmdDispatch 7 12 [0x0a; 0x0b] 24 [0; 0; 0], mkResp (ROk 0%nat) [0xde; 0xad; 0xbe])],
     0%nat, Done (ROk [0xde; 0xad; 0xbe])).
Proof. vm_compute. reflexivity. Qed.

(* async, interface answers Err(3) after two Pendings: one call, error unchanged, 3 polls *)
Example C09_example_async_err :
  case_cmd true [mkResp (RErr 3) [0xde]] [2%nat] ShInOut 7 12 24 CkXor [0xff]
  = ([(CmdDispatch 7 12 [0xff; 0] 24 [0; 0; 0], mkResp (RErr 3) [0xde])], 3%nat, Done (RErr 3)).
Proof. vm_compute. reflexivity. Qed.

Example C09_example_none_in_out :
  case_cmd false [mkResp (ROk 0%nat) []] [] ShNone 1 0 0 CkSet []
    = ([(CmdDispatch 1 0 [] 0 [], mkResp (ROk 0%nat) [])], 0%nat, Done (ROk [])) /\
  case_cmd true [mkResp (ROk 0%nat) []] [1%nat] ShIn 2 9 0 CkSet [1; 2; 3]
    = ([(CmdDispatch 2 9 [1; 2] 0 [], mkResp (ROk 0%nat) [])], 2%nat, Done (ROk [])) /\
  case_cmd false [mkResp (ROk 0%nat) [5]] [] ShOut 3 0 16 CkSet []
    = ([(CmdDispatch 3 0 [] 16 [0; 0], mkResp (ROk 0%nat) [5])], 0%nat, Done (ROk [5; 0])).
Proof. vm_compute. repeat split. Qed.

(* ---- generator clause ---- *)
From Coq Require Import String.
From DD Require Import Mir Reset CmdShape CmdShapeProofs.

(* the accessor's type parameter is `()` exactly when the command declares no fields in that direction
   (NOT when its declared size is 0 or absent) *)
Theorem C09_unit_iff_no_fields : forall n c,
  (sh_fs_in (shape_of n c) = None <-> cm_in_fields c = []) /\
  (sh_fs_out (shape_of n c) = None <-> cm_out_fields c = []).
Proof. intros n c; split; [apply unit_in_iff_no_fields|apply unit_out_iff_no_fields]. Qed.

(* a generated command accessor (for any command of any MIR, any interface, history, address and closure)
   makes exactly ONE dispatch_command call; a direction with fields transfers the declared size and
   ceil(size/8) bytes (the input: what the closure made of an all-zero field set; the output buffer:
   zeroed), a direction without fields transfers size 0 and an empty slice *)
Theorem C09_generated_dispatch : forall orc h a c f n,
  let s := shape_of n c in
  let input := if is_nil (cm_in_fields c) then [] else Proto.call_cmd_closure f (Proto.zeros (Proto.nbytes (cm_size_in c))) in
  let call := Proto.CmdDispatch a (sh_tx_in s) input (sh_tx_out s) (Proto.zeros (Proto.nbytes (sh_tx_out s))) in
  List.length input = Proto.nbytes (sh_tx_in s) /\
  generated_dispatch_calls orc h a c f = [(call, orc h call)].
Proof. exact generated_dispatch_one_call. Qed.

Theorem C09_transferred_sizes : forall n c,
  (cm_in_fields c = [] -> sh_tx_in (shape_of n c) = 0%Z) /\
  (cm_in_fields c <> [] -> sh_tx_in (shape_of n c) = cm_size_in c) /\
  (cm_out_fields c = [] -> sh_tx_out (shape_of n c) = 0%Z) /\
  (cm_out_fields c <> [] -> sh_tx_out (shape_of n c) = cm_size_out c).
Proof. exact transferred_sizes. Qed.

(* a ref to a command hands out its TARGET's field sets *)
Theorem C09_ref_takes_target_shape : forall all cf n target addr aao rep c,
  search_object target all = Some (OCommand c) ->
  shape_of_object all (ORef cf n (OvCommand target addr aao rep)) = Some (shape_of n c) /\
  sh_fs_in (shape_of n c) = sh_fs_in (shape_of (cm_name c) c) /\
  sh_fs_out (shape_of n c) = sh_fs_out (shape_of (cm_name c) c) /\
  sh_tx_in (shape_of n c) = sh_tx_in (shape_of (cm_name c) c) /\
  sh_tx_out (shape_of n c) = sh_tx_out (shape_of (cm_name c) c).
Proof. exact ref_shape_is_targets. Qed.

(* non-vacuity: a command that declares SIZE_BITS_IN = 8 but no input fields, and 16 output bits with a field *)
Example C09_example_size_without_fields :
  let c := {| cm_cfg := None; cm_name := "Flush"; cm_address := 3%Z; cm_byte_order := None; cm_bit_order := BiLSB0;
              cm_allow_bit_overlap := false; cm_allow_address_overlap := false; cm_size_in := 8%Z; cm_size_out := 16%Z;
              cm_repeat := None; cm_in_fields := [];
              cm_out_fields := [ {| f_cfg := None; f_name := "val"; f_access := RW; f_base := BUint; f_conv := None; f_start := 0%Z; f_end := 16%Z |} ] |} in
  show_shape (shape_of "Flush" c) = "flush:():FlushFieldsOut:0:16"%string.
Proof. vm_compute. reflexivity. Qed.

Print Assumptions C09_dispatch_none.
Print Assumptions C09_unit_iff_no_fields.
Print Assumptions C09_generated_dispatch.
Print Assumptions C09_transferred_sizes.
Print Assumptions C09_ref_takes_target_shape.
Print Assumptions C09_dispatch_in.
Print Assumptions C09_dispatch_out.
Print Assumptions C09_dispatch_inout.
Print Assumptions C09_async_equiv.
