(* C03 — Generated accessors never touch memory outside their field set.
   Ops half: given in-bounds arguments the bit operations return normally — in the model every
   get_unchecked outside the slice, every usize underflow and every over-wide shift is a [Fail], so
   [Ok] means none occurred — and a store changes no byte other than those the range covers. *)
From Coq Require Import ZArith List Bool.
From DD Require Import Common Carrier Bits BitsSpec BitsProofs BitsRoundtrip Mir GenErr Layout LayoutProofs FieldSetGen FieldSetGenProofs FieldSetLaws.
Import ListNotations.
Open Scope Z_scope.

Theorem C03_ops_safe_load : forall ptrw bo bito c data s e,
  guard ptrw c data s e -> exists v, load ptrw bo bito c data s e = Some (Ok v).
Proof.
  intros ptrw bo bito c data s e (Hp & Hc & Hd & Hs & Hse & He & Hw).
  eexists. apply load_layout; assumption.
Qed.

Theorem C03_ops_safe_store : forall ptrw bo bito c v data s e,
  guard ptrw c data s e ->
  exists data', store ptrw bo bito c v s e data = Some (Ok data') /\ length data' = length data.
Proof.
  intros ptrw bo bito c v data s e G.
  destruct (store_footprint ptrw bo bito c v data s e G) as (d & H1 & H2 & _). eauto.
Qed.

(* Bytes whose index is not the physical byte of some bit of [s,e) are identical afterwards. *)
Theorem C03_store_footprint : forall ptrw bo bito c v data s e,
  guard ptrw c data s e ->
  exists data', store ptrw bo bito c v s e data = Some (Ok data') /\ length data' = length data /\
    forall idx, (idx < length data)%nat ->
      (forall k, s <= k < e -> phys_byte bo (Z.of_nat (length data)) k <> Z.of_nat idx) ->
      nth idx data' 0 = nth idx data 0.
Proof. exact store_footprint. Qed.

(* The guard matters: one bit past the end is undefined behaviour in the model (and a debug_assert
   panic / out-of-bounds get_unchecked in the code), a field wider than the carrier a shift overflow. *)
Example C03_out_of_bounds_is_UB :
  load 64 LE LSB0 U8 [0; 0] 12 17 = Some (Fail OOB) /\
  store 64 BE MSB0 U8 1 16 17 [0; 0] = Some (Fail Underflow) /\
  load 16 LE LSB0 U8 [0; 0; 0] 0 24 = Some (Fail ShiftOvf).
Proof. vm_compute. repeat split. Qed.

(* ---- Generator half ----
   For every device the layout passes accept, every accessor the generator emits (model of
   lir_transform::transform_field_set + field_set_transform; the facts are compared with the call sites
   of the REAL token stream on every run) addresses a range with
   0 <= start < end <= declared size <= 8 x byte length, and — for widths up to 128 bits, the widest
   carrier that exists — a width no larger than its carrier, which is one of 8..128 bits. *)
Theorem C03_accepted_accessors_in_bounds : forall d l,
  device_nonneg d -> emitted_field_sets d = Some l ->
  forall fsf a, In fsf l -> In a (fs_getters fsf ++ fs_setters fsf) -> accessor_in_bounds fsf a.
Proof. exact accepted_accessors_in_bounds. Qed.

(* ... hence the unchecked bit operation such an accessor calls on the set's own byte array returns
   normally (no out-of-slice access: C03_ops_safe) with exactly the documented value. *)
Theorem C03_generated_getters_safe : forall ptrw fsf a bytes,
  In ptrw ptr_widths -> accessor_in_bounds fsf a -> a_end a - a_start a <= 128 ->
  bytes_ok bytes -> Z.of_nat (List.length bytes) = fs_size_bytes fsf ->
  exists c, cty_of (a_signed a) (a_cbits a) = Some c /\
    getter_call ptrw a bytes =
      Some (Ok (wrap (cty_ity ptrw c)
                  (spec_load (to_byte_order (a_byte_order a)) (to_bit_order (a_bit_order a)) bytes (a_start a) (a_end a)))).
Proof. exact generated_getter_safe_and_exact. Qed.

Theorem C03_generated_setters_safe : forall ptrw fsf a v bytes,
  In ptrw ptr_widths -> accessor_in_bounds fsf a -> a_end a - a_start a <= 128 ->
  bytes_ok bytes -> Z.of_nat (List.length bytes) = fs_size_bytes fsf ->
  exists bytes', setter_call ptrw a v bytes = Some (Ok bytes') /\
    store_post (to_byte_order (a_byte_order a)) (to_bit_order (a_bit_order a)) v (a_start a) (a_end a) bytes bytes'.
Proof. exact generated_setter_safe_and_exact. Qed.

(* Fields wider than 128 bits get the non-existent carrier u256/i256: not a memory-safety matter (the
   output does not compile) — stated, not hidden. *)
(* ... and the emitted setter writes no byte of the set's array outside the bytes its declared range covers
   (C03_store_footprint composed with C03_accepted_accessors_in_bounds: the second sentence of the property
   for the call sites the generator actually emits). *)
Theorem C03_generated_setter_footprint : forall ptrw fsf a v bytes,
  In ptrw ptr_widths -> accessor_in_bounds fsf a -> a_end a - a_start a <= 128 ->
  bytes_ok bytes -> Z.of_nat (List.length bytes) = fs_size_bytes fsf ->
  exists bytes', setter_call ptrw a v bytes = Some (Ok bytes') /\ List.length bytes' = List.length bytes /\
    forall idx, (idx < List.length bytes)%nat ->
      (forall k, a_start a <= k < a_end a ->
         phys_byte (to_byte_order (a_byte_order a)) (Z.of_nat (List.length bytes)) k <> Z.of_nat idx) ->
      nth idx bytes' 0 = nth idx bytes 0.
Proof. exact generated_setter_footprint. Qed.

Example C03_wide_field_carrier : carrier_bits 129 = 256 /\ cty_of false 256 = None.
Proof. vm_compute. split; reflexivity. Qed.

Print Assumptions C03_ops_safe_load.
Print Assumptions C03_ops_safe_store.
Print Assumptions C03_store_footprint.
Print Assumptions C03_accepted_accessors_in_bounds.
Print Assumptions C03_generated_getters_safe.
Print Assumptions C03_generated_setters_safe.
Print Assumptions C03_generated_setter_footprint.
