(* C03 — Generated accessors never touch memory outside their field set.
   Ops half: given in-bounds arguments the bit operations return normally — in the model every
   get_unchecked outside the slice, every usize underflow and every over-wide shift is a [Fail], so
   [Ok] means none occurred — and a store changes no byte other than those the range covers. *)
From Coq Require Import ZArith List Bool.
From DD Require Import Common Carrier Bits BitsSpec BitsProofs BitsRoundtrip.
Import ListNotations.
Open Scope Z_scope.

Theorem C03_ops_safe_load : forall ptrw bo bito c data s e,
  guard ptrw c data s e -> exists v, load ptrw bo bito c data s e = Some (Ok v).
Proof.
  intros ptrw bo bito c data s e (Hp & Hc & Hd & Hs & Hse & He & Hw).
  eexists. apply load_layout; assumption.
Qed.

Theorem C03_ops_safe_store : forall ptrw bo bito c v data s e,
  guard ptrw c data s e ->
  exists data', store ptrw bo bito c v s e data = Some (Ok data') /\ length data' = length data.
Proof.
  intros ptrw bo bito c v data s e G.
  destruct (store_footprint ptrw bo bito c v data s e G) as (d & H1 & H2 & _). eauto.
Qed.

(* Bytes whose index is not the physical byte of some bit of [s,e) are identical afterwards. *)
Theorem C03_store_footprint : forall ptrw bo bito c v data s e,
  guard ptrw c data s e ->
  exists data', store ptrw bo bito c v s e data = Some (Ok data') /\ length data' = length data /\
    forall idx, (idx < length data)%nat ->
      (forall k, s <= k < e -> phys_byte bo (Z.of_nat (length data)) k <> Z.of_nat idx) ->
      nth idx data' 0 = nth idx data 0.
Proof. exact store_footprint. Qed.

(* The guard matters: one bit past the end is undefined behaviour in the model (and a debug_assert
   panic / out-of-bounds get_unchecked in the code), a field wider than the carrier a shift overflow. *)
Example C03_out_of_bounds_is_UB :
  load 64 LE LSB0 U8 [0; 0] 12 17 = Some (Fail OOB) /\
  store 64 BE MSB0 U8 1 16 17 [0; 0] = Some (Fail Underflow) /\
  load 16 LE LSB0 U8 [0; 0; 0] 0 24 = Some (Fail ShiftOvf).
Proof. vm_compute. repeat split. Qed.

Print Assumptions C03_ops_safe_load.
Print Assumptions C03_ops_safe_store.
Print Assumptions C03_store_footprint.
