(* C18 — Conditional-compilation gates equal the conjunction of own and enclosing cfgs.

   Model (theories/Cfg.v): propagate_cfg = the pass as written (cfg_stack / current_depth, pop ONCE),
   propagate_cfg_fixed = the corrected pass (`while depth < current_depth { pop; current_depth -= 1 }`),
   cfg_combine = Cfg::combine, items_code / items_fixed = every emitted item with the predicate attached to it.
   Spec: spec_items / spec_gates = structural recursion on the tree, atoms(item) = own atoms U atoms of all
   enclosing blocks.  same_set = equality of atom sets; item_sets_* = the sorted duplicate-free lists the
   correspondence check prints and compares.

   The full statement is FALSE of the pass as written (D6): _refuted + _partial.  It is proved for the
   corrected pass for all trees (_fixed); after the `fix:` commit in /repo the check evaluates
   items_fixed against the implementation and C18_gates_are_conjunctions_fixed is the headline. *)
From Coq Require Import ZArith List Bool String.
From DD Require Import Common Mir Cfg CfgProofs.
Import ListNotations.
Open Scope string_scope.

(* D6.  `#[cfg(a)] block A { #[cfg(b)] block B { R1 } }, R2`: two block levels end before R2, the pass pops
   one, R2 (no cfg anywhere on its path) is gated by `a`. *)
Theorem C18_multi_level_exit_refuted :
  ~ single_exits (preorder (d_objects d6_witness)) /\
  exists gs its,
    propagate_cfg (d_objects d6_witness) = Ok gs /\
    ~ Forall2 gate_agrees gs (spec_gates (d_objects d6_witness)) /\
    items_code d6_witness = Ok its /\
    ~ items_agree its (spec_items d6_witness) /\
    In (mk_item "method:R2" (Some (Atom "a")) (Some (Atom "a"))) its /\
    In (mk_item "method:R2" (@nil string) (@nil string)) (spec_items d6_witness).
Proof. exact d6_refuted. Qed.

(* The strongest true statement about the pass as written: for every tree in which no object follows the
   end of two or more nested blocks at once (single_exits: between consecutive pre-order entries at most one
   level ends, an empty block counting as a level), every emitted item carries exactly its own atoms and
   those of all enclosing blocks — and the pass coincides with the corrected pass. *)
Theorem C18_partial : forall d, single_exits (preorder (d_objects d)) ->
  exists its,
    items_code d = Ok its /\
    items_fixed d = Ok its /\
    items_agree its (spec_items d) /\
    map item_sets_model its = map item_sets_spec (spec_items d).
Proof. exact gates_partial. Qed.

(* The corrected walk gives every object of EVERY tree the set own U ancestors. *)
Theorem C18_fixed_walk_correct : forall objs, exists gs,
  propagate_cfg_fixed objs = Ok gs /\ Forall2 gate_agrees gs (spec_gates objs).
Proof. exact fixed_walk_correct. Qed.

(* Full statement, all trees, corrected pass + attachment: accessor methods, block structs and impls, field
   sets, FieldSetValue variants, read_all items and the enums generated from fields carry the conjunction of
   precisely the object's own and enclosing predicates (enums additionally the field's); getters, setters and
   enum variants carry only their own and are compiled in exactly under own AND enclosing (it_eff). *)
Theorem C18_gates_are_conjunctions_fixed : forall d, exists its,
  items_fixed d = Ok its /\
  items_agree its (spec_items d) /\
  map item_sets_model its = map item_sets_spec (spec_items d).
Proof. exact gates_are_conjunctions_fixed. Qed.

(* Cfg::combine: flattening gives the union; equal values are not repeated; None is the identity; distinct
   values nest as all(self, other). *)
Theorem C18_combine_atoms : forall a b,
  same_set (atoms_x (cfg_combine a b)) (atoms_x a ++ atoms_x b) /\
  atom_set (cfg_combine a b) = canon (atoms_x a ++ atoms_x b) /\
  cfg_combine a a = a /\ cfg_combine None a = a /\ cfg_combine a None = a /\
  (forall v1 v2, v1 <> v2 -> cfg_combine (Some v1) (Some v2) = Some (All v1 v2)).
Proof. exact combine_atoms_full. Qed.

(* Items with no cfg anywhere on their path are unconditional (no attribute at all): for the corrected pass
   on every tree, for the pass as written on trees without multi-level exits (false beyond: D6). *)
Theorem C18_no_cfg_unconditional : forall d its,
  items_fixed d = Ok its \/ (single_exits (preorder (d_objects d)) /\ items_code d = Ok its) ->
  forall m s, In (m, s) (List.combine its (spec_items d)) ->
    (it_attr s = [] -> it_attr m = None) /\ (it_eff s = [] -> it_eff m = None).
Proof. exact no_cfg_unconditional. Qed.

(* `cfg_stack.last().unwrap()` is never reached with an empty stack, on any tree, by either pass. *)
Theorem C18_never_panics : forall objs,
  (exists gs, propagate_cfg objs = Ok gs /\ List.length gs = List.length (preorder objs)) /\
  (exists gs, propagate_cfg_fixed objs = Ok gs /\ List.length gs = List.length (preorder objs)).
Proof. exact never_panics. Qed.

(* No gate tests a predicate nobody wrote: every atom of the predicate under which any emitted item is
   compiled in (it_eff: own attribute AND the attribute of the item it is nested in) is the own cfg of some
   object of the tree (at any depth), of some field of a register / command, or of some variant of an inline
   enum of such a field (written_atoms).  Corrected pass, every tree.  The same holds for the attribute
   alone (C18_attr_atoms_are_written). *)
Theorem C18_gate_atoms_are_written : forall d its, items_fixed d = Ok its ->
  forall it a, In it its -> In a (atoms_x (it_eff it)) -> In a (written_atoms d).
Proof. exact gate_atoms_are_written. Qed.

Theorem C18_attr_atoms_are_written : forall d its, items_fixed d = Ok its ->
  forall it a, In it its -> In a (atoms_x (it_attr it)) -> In a (written_atoms d).
Proof. exact attr_atoms_are_written. Qed.

(* ---- non-vacuity ---- *)

(* C18_partial's hypothesis holds for a non-trivial tree (two nested cfg'd blocks with a repeated atom, a
   sibling after the inner block, cfg'd register / field / inline enum / variant, objects after the outer
   block), and there the pass as written produces exactly the spec's sets. *)
Example C18_partial_nonvacuous :
  single_exitsb (preorder (d_objects ex_single)) = true /\
  (match items_code ex_single with Ok its => map item_sets_model its | Fail _ => [] end)
  = map item_sets_spec (spec_items ex_single) /\
  In ("enum:E", ["a"; "c"; "d"], ["a"; "c"; "d"]) (map item_sets_spec (spec_items ex_single)) /\
  In ("variant:E.V", ["e"], ["a"; "c"; "d"; "e"]) (map item_sets_spec (spec_items ex_single)) /\
  In ("getter:R1.x", ["d"], ["a"; "c"; "d"]) (map item_sets_spec (spec_items ex_single)) /\
  In ("method:R2", ["a"], ["a"]) (map item_sets_spec (spec_items ex_single)) /\
  In ("method:R4", [], []) (map item_sets_spec (spec_items ex_single)).
Proof. vm_compute. repeat split; tauto. Qed.

(* Three levels left at once, then more objects and a block: the corrected pass still meets the spec, the
   pass as written does not (R2, D, R3, R4 all polluted). *)
Example C18_fixed_nonvacuous :
  single_exitsb (preorder (d_objects ex_deep)) = false /\
  (match items_fixed ex_deep with Ok its => map item_sets_model its | Fail _ => [] end)
  = map item_sets_spec (spec_items ex_deep) /\
  (match items_code ex_deep with Ok its => map item_sets_model its | Fail _ => [] end)
  <> map item_sets_spec (spec_items ex_deep) /\
  propagate_cfg (d_objects ex_deep)
  = Ok [Some (Atom "a"); Some (All (Atom "b") (Atom "a")); Some (All (Atom "c") (All (Atom "b") (Atom "a")));
        Some (All (Atom "d") (All (Atom "c") (All (Atom "b") (Atom "a"))));
        Some (All (Atom "b") (Atom "a"));
        Some (All (Atom "e") (All (Atom "b") (Atom "a")));
        Some (All (Atom "e") (All (Atom "b") (Atom "a")));
        Some (All (Atom "f") (All (Atom "b") (Atom "a")))] /\
  propagate_cfg_fixed (d_objects ex_deep)
  = Ok [Some (Atom "a"); Some (All (Atom "b") (Atom "a")); Some (All (Atom "c") (All (Atom "b") (Atom "a")));
        Some (All (Atom "d") (All (Atom "c") (All (Atom "b") (Atom "a"))));
        None; Some (Atom "e"); Some (Atom "e"); Some (Atom "f")].
Proof. vm_compute. repeat split; try reflexivity. discriminate. Qed.

(* An EMPTY inner block also ends two levels at once although the entry depths only drop by one. *)
Example C18_empty_block_exit :
  single_exitsb (preorder (d_objects d6_witness_empty)) = false /\
  propagate_cfg (d_objects d6_witness_empty) = Ok [Some (Atom "a"); Some (All (Atom "b") (Atom "a")); Some (Atom "a")] /\
  propagate_cfg_fixed (d_objects d6_witness_empty) = Ok [Some (Atom "a"); Some (All (Atom "b") (Atom "a")); None].
Proof. vm_compute. repeat split. Qed.

(* C18_gate_atoms_are_written is not vacuous: on ex_single (two nested cfg'd blocks, cfg'd register / field /
   variant) the corrected pass succeeds, the variant of the inline enum is compiled in under e, d, c, a, each
   of them written, and conversely every written atom is tested by some gate (the bound is tight there). *)
Example C18_gate_atoms_nonvacuous :
  written_atoms ex_single = ["a"; "a"; "c"; "d"; "e"; "f"] /\
  match items_fixed ex_single with
  | Ok its =>
    In ("variant:E.V", ["e"; "d"; "c"; "a"]) (map (fun it => (it_key it, atoms_x (it_eff it))) its) /\
    canon (flat_map (fun it => atoms_x (it_eff it)) its) = canon (written_atoms ex_single)
  | Fail _ => False
  end.
Proof. vm_compute. repeat split; tauto. Qed.

Example C18_combine_examples :
  cfg_combine (Some (Atom "x")) (Some (Atom "y")) = Some (All (Atom "x") (Atom "y")) /\
  cfg_combine (Some (Atom "x")) (Some (Atom "x")) = Some (Atom "x") /\
  render (All (Atom "x") (All (Atom "y") (Atom "z"))) = "all(x, all(y, z))" /\
  atom_set (cfg_combine (Some (Atom "z")) (Some (All (Atom "y") (Atom "z")))) = ["y"; "z"].
Proof. vm_compute. repeat split. Qed.

Print Assumptions C18_multi_level_exit_refuted.
Print Assumptions C18_partial.
Print Assumptions C18_fixed_walk_correct.
Print Assumptions C18_gates_are_conjunctions_fixed.
Print Assumptions C18_combine_atoms.
Print Assumptions C18_no_cfg_unconditional.
Print Assumptions C18_never_panics.
Print Assumptions C18_gate_atoms_are_written.
Print Assumptions C18_attr_atoms_are_written.
