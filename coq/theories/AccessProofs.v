(* AccessProofs.v — proofs for C17 (statements are repeated in full in props/C17.v).

   The domain is finite: 3 accesses x the rows of the translated table gen/OpBounds.v (24 on
   the unchanged tree) x the 5 markers of gen/Caps.v.  [ops_check] is a boolean decision
   procedure for the whole statement; [ops_check_sound] proves, for an ARBITRARY table, that the
   procedure answering [true] implies the statement; the property theorem is then obtained by
   running the procedure on the translated table inside the kernel (vm_compute).  Any source
   edit that changes a translated row or capability (an extra `impl WriteCapability for RO {}`,
   `modify` moved to the read-only block, an operation deleted or added) makes the evaluation
   return [false] and this file stops compiling. *)
From Coq Require Import Bool List String.
From DD Require Import AccessTypes Access.
From DDGen Require Import Caps OpBounds FrontDefaults.
Import ListNotations.
Open Scope string_scope.

(* ---------- small generic facts ---------- *)

Lemma opkey_eqb_true : forall a b, opkey_eqb a b = true <-> a = b.
Proof.
  intros a b. unfold opkey_eqb. destruct (opkey_eq_dec a b); split; intro H; try reflexivity;
    try assumption; try discriminate; contradiction.
Qed.

Lemma mem_key_In : forall k l, mem_key k l = true <-> In k l.
Proof.
  intros k l. unfold mem_key. rewrite existsb_exists. split.
  - intros [x [Hin Heq]]. apply opkey_eqb_true in Heq. subst. assumption.
  - intro Hin. exists k. split; [assumption | apply opkey_eqb_true; reflexivity].
Qed.

Fixpoint nodup_keys (l : list opkey) : bool :=
  match l with
  | [] => true
  | x :: t => negb (mem_key x t) && nodup_keys t
  end.

Lemma nodup_keys_NoDup : forall l, nodup_keys l = true -> NoDup l.
Proof.
  induction l as [|x t IH]; intro H.
  - constructor.
  - cbn [nodup_keys] in H. apply andb_true_iff in H. destruct H as [Hx Ht].
    constructor.
    + intro Hin. apply mem_key_In in Hin. rewrite Hin in Hx. discriminate.
    + apply IH. assumption.
Qed.

Lemma implb_true_iff : forall a b, implb a b = true <-> (a = true -> b = true).
Proof. intros [] []; cbn; split; auto; intro H; try reflexivity; symmetry; apply H; reflexivity. Qed.

Lemma spec_allowed_iff : forall a op,
  spec_allowed a op = true <->
  ((needs_read op = true -> includes_read a = true) /\ (needs_write op = true -> includes_write a = true)).
Proof.
  intros a op. unfold spec_allowed. rewrite andb_true_iff, !implb_true_iff. reflexivity.
Qed.

(* ---------- the decision procedure and its soundness, for any table ---------- *)

Definition ops_row_ok (a : access) (r : oprow) : bool :=
  Bool.eqb (available a r) (spec_allowed a (row_key r)).

Definition ops_check (tbl : list oprow) : bool :=
  forallb (fun a => forallb (ops_row_ok a) tbl) all_accesses
  && nodup_keys (map row_key tbl)
  && forallb (fun k => mem_key k expected_ops) (map row_key tbl)
  && forallb (fun k => mem_key k (map row_key tbl)) expected_ops.

Definition ops_statement (tbl : list oprow) : Prop :=
  (forall a r, In r tbl ->
     (available a r = true <->
      ((needs_read (row_key r) = true -> includes_read a = true) /\
       (needs_write (row_key r) = true -> includes_write a = true))))
  /\ NoDup (map row_key tbl)
  /\ (forall op, In op (map row_key tbl) <-> In op expected_ops).

Lemma all_accesses_complete : forall a, In a all_accesses.
Proof. intros []; cbn; auto. Qed.

Lemma ops_check_sound : forall tbl, ops_check tbl = true -> ops_statement tbl.
Proof.
  intros tbl H. unfold ops_check in H.
  apply andb_true_iff in H. destruct H as [H Hsup].
  apply andb_true_iff in H. destruct H as [H Hsub].
  apply andb_true_iff in H. destruct H as [Hrows Hnodup].
  split; [| split].
  - intros a r Hin.
    rewrite forallb_forall in Hrows. specialize (Hrows a (all_accesses_complete a)).
    rewrite forallb_forall in Hrows. specialize (Hrows r Hin).
    unfold ops_row_ok in Hrows. apply eqb_prop in Hrows. rewrite Hrows.
    apply spec_allowed_iff.
  - apply nodup_keys_NoDup. assumption.
  - intro op. split; intro Hin.
    + rewrite forallb_forall in Hsub. apply mem_key_In. apply Hsub. assumption.
    + rewrite forallb_forall in Hsup. apply mem_key_In. apply Hsup. assumption.
Qed.

(* ---------- C17_ops_exist_iff: run the procedure on the translated tables ---------- *)

Lemma ops_check_translated : ops_check op_bounds = true.
Proof. vm_compute. reflexivity. Qed.

Lemma ops_exist_iff : ops_statement op_bounds.
Proof. apply ops_check_sound. exact ops_check_translated. Qed.

(* calling by name: for every operation the property names, on every access *)
Lemma lookup_op_In : forall op r, lookup_op op = Some r -> In r op_bounds /\ row_key r = op.
Proof.
  intros op r H. unfold lookup_op in H. apply find_some in H. destruct H as [Hin Heq].
  apply opkey_eqb_true in Heq. auto.
Qed.

Lemma lookup_op_expected : forall op, In op expected_ops -> exists r, lookup_op op = Some r.
Proof.
  intros op Hin. destruct ops_exist_iff as [_ [_ Hset]]. apply Hset in Hin.
  apply in_map_iff in Hin. destruct Hin as [r [Hk Hr]].
  destruct (lookup_op op) as [r'|] eqn:E; [eauto|].
  unfold lookup_op in E. pose proof (find_none _ _ E r Hr) as Hn. cbn beta in Hn.
  rewrite Hk in Hn. assert (opkey_eqb op op = true) by (apply opkey_eqb_true; reflexivity).
  rewrite H in Hn. discriminate.
Qed.

Lemma offered_eq_spec : forall a op, In op expected_ops -> offered a op = spec_allowed a op.
Proof.
  intros a op Hin. unfold offered. destruct (lookup_op_expected op Hin) as [r Hr]. rewrite Hr.
  apply lookup_op_In in Hr. destruct Hr as [Hrin Hk].
  destruct ops_exist_iff as [Hrows _]. specialize (Hrows a r Hrin). rewrite Hk in Hrows.
  rewrite <- spec_allowed_iff in Hrows.
  destruct (available a r), (spec_allowed a op); try reflexivity.
  - symmetry. apply Hrows. reflexivity.
  - apply Hrows. reflexivity.
Qed.

(* ---------- fields ---------- *)

Lemma field_accessors_iff : forall a,
  (getter_emitted a = true <-> includes_read a = true) /\
  (setter_emitted a = true <-> includes_write a = true).
Proof. intros []; vm_compute; split; split; auto. Qed.

(* ---------- effective access ---------- *)

Lemma lir_front_gen_effective : forall own refov gdef,
  lir_ref_override (front_lower_gen true own gdef) refov = effective_access own refov gdef.
Proof. intros [o|] [r|] [g|]; reflexivity. Qed.

Lemma lir_front_gen_ignoring : forall own refov gdef,
  lir_ref_override (front_lower_gen false own gdef) refov = effective_access own refov None.
Proof. intros [o|] [r|] [g|]; reflexivity. Qed.

Lemma dsl_reads_defaults : forall d, reads_default FDsl d = true.
Proof. intros []; vm_compute; reflexivity. Qed.

Lemma effective_access_dsl : forall d own refov gdef,
  model_access FDsl d own refov gdef = effective_access own refov gdef.
Proof.
  intros. unfold model_access, front_lower. rewrite dsl_reads_defaults. apply lir_front_gen_effective.
Qed.

Lemma effective_access_manifest_partial : forall d own refov gdef,
  (reads_default FManifest d = true \/ gdef = None \/ own <> None \/ refov <> None) ->
  model_access FManifest d own refov gdef = effective_access own refov gdef.
Proof.
  intros d own refov gdef H. unfold model_access, front_lower.
  destruct (reads_default FManifest d) eqn:E.
  - apply lir_front_gen_effective.
  - rewrite lir_front_gen_ignoring.
    destruct H as [H | [H | [H | H]]].
    + discriminate.
    + subst. reflexivity.
    + destruct own; [destruct refov; reflexivity | contradiction].
    + destruct refov; [reflexivity | contradiction].
Qed.

Lemma effective_access_manifest_ignores : forall d own refov gdef,
  reads_default FManifest d = false ->
  model_access FManifest d own refov gdef = effective_access own refov None.
Proof.
  intros d own refov gdef H. unfold model_access, front_lower. rewrite H. apply lir_front_gen_ignoring.
Qed.

Lemma effective_access_manifest_refuted : forall d,
  reads_default FManifest d = false ->
  exists own refov gdef, model_access FManifest d own refov gdef <> effective_access own refov gdef.
Proof.
  intros d H. exists None, None, (Some RO).
  rewrite effective_access_manifest_ignores by assumption. cbn. discriminate.
Qed.

(* ---------- model of a probe = property, for the DSL front end ---------- *)

Lemma probe_op_model_eq_spec_dsl : forall k own refov gdef n,
  In (k, n) expected_ops ->
  probe_model (POp FDsl k own refov gdef n) = probe_spec (POp FDsl k own refov gdef n).
Proof.
  intros k own refov gdef n Hin. cbn [probe_model probe_spec]. rewrite effective_access_dsl.
  apply offered_eq_spec. assumption.
Qed.

Lemma probe_field_model_eq_spec_dsl : forall own gdef,
  probe_model (PGet FDsl own gdef) = probe_spec (PGet FDsl own gdef) /\
  probe_model (PSet FDsl own gdef) = probe_spec (PSet FDsl own gdef).
Proof.
  intros own gdef. cbn [probe_model probe_spec]. unfold front_lower. rewrite dsl_reads_defaults.
  destruct own as [[]|], gdef as [[]|]; split; reflexivity.
Qed.
