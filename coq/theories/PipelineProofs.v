(* PipelineProofs.v — what acceptance by the WHOLE sequenced pipeline (Pipeline.pipeline) gives: every per-pass
   acceptance at once, hence every per-pass specification proved in LayoutProofs / NamesProofs / EnumProofs /
   ResetProofs / AddrProofs applies to one and the same (normalised) definition.  Also: the printed verdict
   determines the structured one's class, so the correspondence (which compares strings) speaks about [pipeline]. *)
From Coq Require Import ZArith List Bool String Lia.
From DD Require Import Common Mir GenErr Layout LayoutProofs Pipeline.
From DD Require Names NamesProofs Enum EnumProofs Reset Addr.
Import ListNotations.
Open Scope string_scope.

(* ---------------------------------------------------------------- inversion of an acceptance *)

Record accepted_by_all (fuel : nat) (dev_name : string) (d0 : device) : Prop := {
  ab_names_unique : Names.names_unique (Names.names_normalized d0) = None;
  ab_refs : Names.refs_candidates (Names.names_normalized d0) = [];
  ab_no_recursive_ref : Names.recursive_block_refs (Names.names_normalized d0) = Ok None;
  ab_enums : Enum.enum_values_check_repaired (Names.names_normalized d0) = Enum.VOk;
  ab_layout : layout_check (Names.names_normalized d0) = None;
  ab_reset : exists d1 em, Reset.bos_pass (Names.names_normalized d0) = ROk d1 /\ Reset.reset_pass d1 = Ok (ROk em);
  ab_addr : Addr.accepted true fuel dev_name (Names.names_normalized d0)
}.

Theorem pipeline_accept_inv fuel dev_name d0 :
  pipeline fuel dev_name d0 = PAccept -> accepted_by_all fuel dev_name d0.
Proof.
  unfold pipeline. set (d := Names.names_normalized d0).
  destruct (Names.names_unique d) eqn:Hnu; [discriminate|].
  destruct (Enum.enum_values_check_repaired d) eqn:Hen; try discriminate.
  destruct (first_error (map (byte_order_check (d_config d)) (preorder_objects (d_objects d)))) eqn:Hbo; [discriminate|].
  destruct (Names.refs_candidates d) eqn:Hrc; [|discriminate].
  destruct (Names.recursive_block_refs d) as [[erec|]|] eqn:Hrec; try discriminate.
  destruct (Reset.bos_pass d) as [d1|] eqn:Hbos; [|discriminate].
  destruct (Reset.reset_pass d1) as [[em|]|] eqn:Hrp; try discriminate.
  destruct (mapM bool_fields_object (preorder_objects (d_objects d))) as [objs'|] eqn:Hbf; [|discriminate].
  destruct (first_error (map bit_ranges_object objs')) eqn:Hbr; [discriminate|].
  destruct (Addr.addr_check true fuel dev_name d) as [[e|]|] eqn:Hac; try discriminate.
  intros _. constructor; try assumption.
  - unfold layout_check. fold d. rewrite Hbo, Hbf. exact Hbr.
  - exists d1, em. split; assumption.
Qed.

(* and conversely: the pipeline accepts exactly when every pass does *)
Theorem pipeline_accept_iff fuel dev_name d0 :
  pipeline fuel dev_name d0 = PAccept <-> accepted_by_all fuel dev_name d0.
Proof.
  split; [apply pipeline_accept_inv|].
  intros [Hnu Hrc Hrec Hen Hl (d1 & em & Hbos & Hrp) Hac].
  unfold pipeline. set (d := Names.names_normalized d0) in *.
  rewrite Hnu, Hen.
  unfold layout_check in Hl.
  destruct (first_error (map (byte_order_check (d_config d)) (preorder_objects (d_objects d)))) eqn:Hbo; [discriminate|].
  rewrite Hrc, Hrec, Hbos, Hrp.
  destruct (mapM bool_fields_object (preorder_objects (d_objects d))) as [objs'|] eqn:Hbf; [|discriminate].
  rewrite Hl. unfold Addr.accepted in Hac. rewrite Hac. reflexivity.
Qed.

(* ---------------------------------------------------------------- the specifications that follow *)

(* C11: every field set of the (normalised) definition is well-formed *)
Corollary pipeline_accept_wf_layout fuel dev_name d0 :
  pipeline fuel dev_name d0 = PAccept -> wf_layout (Names.names_normalized d0).
Proof. intros H. apply layout_accept_iff_wf. exact (ab_layout _ _ _ (pipeline_accept_inv _ _ _ H)). Qed.

(* C14: names unique after normalisation and every ref resolves to an object of its kind *)
Corollary pipeline_accept_name_ref fuel dev_name d0 :
  pipeline fuel dev_name d0 = PAccept -> Names.name_ref_check d0 = true.
Proof.
  intros H. destruct (pipeline_accept_inv _ _ _ H) as [Hnu Hrc Hrec _ _ _ _].
  unfold Names.name_ref_check. rewrite Hnu. unfold Names.refs_validated_ok, Names.no_recursive_block_refs.
  rewrite Hrc, Hrec. reflexivity.
Qed.

Corollary pipeline_accept_not_c14_reject fuel dev_name d0 :
  Names.cfg_free d0 -> pipeline fuel dev_name d0 = PAccept -> ~ Names.C14_spec_reject d0.
Proof.
  intros Hf H Hs. apply (NamesProofs.accept_iff d0 Hf) in Hs.
  rewrite (pipeline_accept_name_ref _ _ _ H) in Hs. discriminate.
Qed.

(* C15: every inline enum of the definition passes the enum analysis as it is now (D12, D16, D17 repaired), hence
   also the older model (EnumProofs.repaired_ok_implies_fixed_ok); for widths below 127 none of them is in the
   property's reject class (the D16 / D17 clauses included) *)
Corollary pipeline_accept_enums fuel dev_name d0 :
  pipeline fuel dev_name d0 = PAccept ->
  Forall (fun s => Enum.enum_check_repaired (f_base (Enum.s_field s)) (Enum.s_obj s) (f_name (Enum.s_field s)) (Enum.s_width s) (Enum.s_enum s) (Enum.s_try s) = Enum.VOk
                   /\ Enum.enum_check_fixed (Enum.s_obj s) (f_name (Enum.s_field s)) (Enum.s_width s) (Enum.s_enum s) (Enum.s_try s) = Enum.VOk
                   /\ ((0 <= Enum.s_width s < 127)%Z ->
                       ~ Enum.spec_reject_repaired (f_base (Enum.s_field s)) (Enum.s_width s) (e_variants (Enum.s_enum s)) (Enum.s_try s)))
         (Enum.enum_sites (Names.names_normalized d0)).
Proof.
  intros H. pose proof (ab_enums _ _ _ (pipeline_accept_inv _ _ _ H)) as He.
  apply EnumProofs.device_accept_iff_repaired in He.
  eapply Forall_impl; [|exact He]. intros s Hs. split; [exact Hs|]. split.
  - exact (EnumProofs.repaired_ok_implies_fixed_ok _ _ _ _ _ _ Hs).
  - intros Hw Hr. apply (EnumProofs.reject_iff_repaired (f_base (Enum.s_field s)) (Enum.s_obj s) (f_name (Enum.s_field s)) _ _ _ Hw) in Hr.
    destruct Hr as [err Herr]. congruence.
Qed.

(* ---------------------------------------------------------------- the printed verdict *)

Lemma show_accept_only v : show_pverdict v = "ok" -> v = PAccept.
Proof. destruct v as [|e|l|s]; cbn [show_pverdict]; intros H; [reflexivity| | |]; cbn in H; discriminate. Qed.

Theorem pipeline_result_ok_iff fuel dev_name d0 :
  pipeline_result fuel dev_name d0 = "ok" <-> pipeline fuel dev_name d0 = PAccept.
Proof.
  unfold pipeline_result. split; [apply show_accept_only|]. intros H. rewrite H. reflexivity.
Qed.

(* what the correspondence establishes on an accepted definition, in one statement *)
Theorem pipeline_result_ok_gives_all fuel dev_name d0 :
  pipeline_result fuel dev_name d0 = "ok" -> accepted_by_all fuel dev_name d0.
Proof. intros H. apply pipeline_accept_inv, pipeline_result_ok_iff, H. Qed.
