(* Layout.v — model of the three field-layout passes in pipeline order:
   byte_order_specified, bool_fields_checked, bit_ranges_validated
   (generation/src/mir/passes/*.rs), and the well-formedness spec written from property C11 and
   book/src/field-sets.md.  Definitions only.

   The passes visit objects in pre-order (recurse_objects_mut) and stop at the first error; they
   only mutate leaf objects' fields / byte order, never the tree shape, so each pass is modelled over
   the pre-order object list. *)
From Coq Require Import ZArith List Bool String.
From DD Require Import Common Mir GenErr.
Import ListNotations.
Open Scope string_scope.
Open Scope Z_scope.

(* ---------------- byte_order_specified ---------------- *)

Definition byte_order_check (g : config) (o : object) : option gen_error :=
  match g_default_byte_order g with
  | Some _ => None
  | None =>
    match o with
    | ORegister r =>
      match rg_byte_order r with
      | None => if 8 <? rg_size_bits r then Some (mk_err "byte_order" ["register"; rg_name r]) else None
      | Some _ => None
      end
    | OCommand c =>
      match cm_byte_order c with
      | None => if (8 <? cm_size_in c) || (8 <? cm_size_out c)
                then Some (mk_err "byte_order" ["command"; cm_name c]) else None
      | Some _ => None
      end
    | _ => None
    end
  end.

(* the byte order the pass leaves on the object (used by later models) *)
Definition effective_byte_order (g : config) (own : option byte_ord) : byte_ord :=
  match own with
  | Some b => b
  | None => match g_default_byte_order g with Some b => b | None => BoLE end
  end.

(* ---------------- bool_fields_checked ---------------- *)

(* Range<u32>::count() *)
Definition range_count (s e : Z) : Z := if s <? e then e - s else 0.

Definition is_bool (b : base_type) : bool := match b with BBool => true | _ => false end.

Definition bool_field (obj : string) (f : field) : result field :=
  if is_bool (f_base f) then
    let f' := if f_start f =? f_end f
              then {| f_cfg := f_cfg f; f_name := f_name f; f_access := f_access f; f_base := f_base f;
                      f_conv := f_conv f; f_start := f_start f; f_end := f_end f + 1 |}
              else f in
    if negb (range_count (f_start f') (f_end f') =? 1) then RErr (mk_err "bool_size" [obj; f_name f])
    else match f_conv f' with
         | Some _ => RErr (mk_err "bool_conv" [obj; f_name f])
         | None => ROk f'
         end
  else ROk f.

Definition bool_fields_object (o : object) : result object :=
  match o with
  | ORegister r =>
    rbind (mapM (bool_field (rg_name r)) (rg_fields r)) (fun fs =>
    ROk (ORegister {| rg_cfg := rg_cfg r; rg_name := rg_name r; rg_access := rg_access r;
                      rg_byte_order := rg_byte_order r; rg_bit_order := rg_bit_order r;
                      rg_allow_bit_overlap := rg_allow_bit_overlap r;
                      rg_allow_address_overlap := rg_allow_address_overlap r;
                      rg_address := rg_address r; rg_size_bits := rg_size_bits r; rg_reset := rg_reset r;
                      rg_repeat := rg_repeat r; rg_fields := fs |}))
  | OCommand c =>
    rbind (mapM (bool_field (cm_name c)) (cm_in_fields c)) (fun fi =>
    rbind (mapM (bool_field (cm_name c)) (cm_out_fields c)) (fun fo =>
    ROk (OCommand {| cm_cfg := cm_cfg c; cm_name := cm_name c; cm_address := cm_address c;
                     cm_byte_order := cm_byte_order c; cm_bit_order := cm_bit_order c;
                     cm_allow_bit_overlap := cm_allow_bit_overlap c;
                     cm_allow_address_overlap := cm_allow_address_overlap c;
                     cm_size_in := cm_size_in c; cm_size_out := cm_size_out c; cm_repeat := cm_repeat c;
                     cm_in_fields := fi; cm_out_fields := fo |})))
  | _ => ROk o
  end.

(* ---------------- bit_ranges_validated ---------------- *)

Fixpoint validate_len (fs : list field) (size : Z) (obj : string) : option gen_error :=
  match fs with
  | [] => None
  | f :: t =>
    if negb (f_end f <=? size) then Some (mk_err "field_exceeds" [obj; f_name f])
    else if negb (0 <? range_count (f_start f) (f_end f)) then Some (mk_err "field_empty" [obj; f_name f])
    else validate_len t size obj
  end.

Definition ranges_overlap (l r : field) : bool := (f_start l <? f_end r) && (f_start r <? f_end l).

Fixpoint overlap_with (f : field) (rest : list field) (obj : string) : option gen_error :=
  match rest with
  | [] => None
  | g :: t => if ranges_overlap f g then Some (mk_err "field_overlap" [obj; f_name f; f_name g])
              else overlap_with f t obj
  end.

Fixpoint validate_overlap (fs : list field) (obj : string) : option gen_error :=
  match fs with
  | [] => None
  | f :: t => match overlap_with f t obj with Some e => Some e | None => validate_overlap t obj end
  end.

Definition validate_set (fs : list field) (size : Z) (allow : bool) (obj : string) : option gen_error :=
  match validate_len fs size obj with
  | Some e => Some e
  | None => if allow then None else validate_overlap fs obj
  end.

Definition bit_ranges_object (o : object) : option gen_error :=
  match o with
  | ORegister r => validate_set (rg_fields r) (rg_size_bits r) (rg_allow_bit_overlap r) (rg_name r)
  | OCommand c =>
    match validate_set (cm_in_fields c) (cm_size_in c) (cm_allow_bit_overlap c) (cm_name c ++ " (in)")%string with
    | Some e => Some e
    | None => validate_set (cm_out_fields c) (cm_size_out c) (cm_allow_bit_overlap c) (cm_name c ++ " (out)")%string
    end
  | _ => None
  end.

(* ---------------- the three passes in pipeline order ---------------- *)

Definition layout_check (d : device) : option gen_error :=
  let objs := preorder_objects (d_objects d) in
  match first_error (map (byte_order_check (d_config d)) objs) with
  | Some e => Some e
  | None =>
    match mapM bool_fields_object objs with
    | RErr e => Some e
    | ROk objs' => first_error (map bit_ranges_object objs')
    end
  end.

(* ---------------- specification (from the property text) ---------------- *)

(* A single-address bool field (start = end in the MIR) denotes the one bit at that address. *)
Definition field_end (f : field) : Z :=
  if is_bool (f_base f) && (f_start f =? f_end f) then f_end f + 1 else f_end f.

Definition field_ok (size : Z) (f : field) : Prop :=
  f_start f < field_end f /\ field_end f <= size /\
  (f_base f = BBool -> field_end f - f_start f = 1 /\ f_conv f = None).

Definition fields_disjoint (f g : field) : Prop :=
  ~ (f_start f < field_end g /\ f_start g < field_end f).

Fixpoint pairwise {A} (R : A -> A -> Prop) (l : list A) : Prop :=
  match l with
  | [] => True
  | a :: t => Forall (R a) t /\ pairwise R t
  end.

Definition set_ok (fs : list field) (size : Z) (allow : bool) : Prop :=
  Forall (field_ok size) fs /\ (allow = false -> pairwise fields_disjoint fs).

Definition byte_order_known (g : config) (own : option byte_ord) (sizes : list Z) : Prop :=
  own = None -> g_default_byte_order g = None -> Forall (fun s => s <= 8) sizes.

Definition object_layout_ok (g : config) (o : object) : Prop :=
  match o with
  | ORegister r =>
    set_ok (rg_fields r) (rg_size_bits r) (rg_allow_bit_overlap r) /\
    byte_order_known g (rg_byte_order r) [rg_size_bits r]
  | OCommand c =>
    set_ok (cm_in_fields c) (cm_size_in c) (cm_allow_bit_overlap c) /\
    set_ok (cm_out_fields c) (cm_size_out c) (cm_allow_bit_overlap c) /\
    byte_order_known g (cm_byte_order c) [cm_size_in c; cm_size_out c]
  | _ => True
  end.

Definition wf_layout (d : device) : Prop :=
  Forall (object_layout_ok (d_config d)) (preorder_objects (d_objects d)).

(* result string for the correspondence check *)
Definition layout_result (d : device) : string := show_result_unit (layout_check d).
