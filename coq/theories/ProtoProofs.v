(* ProtoProofs.v — proofs about Proto.v (register / command / buffer protocol layers). *)
From Coq Require Import ZArith List Bool Lia Arith.
From DD Require Import Proto ProtoSpec ProtoCases.
Import ListNotations.

(* ================================================================ lists *)

Lemma length_zeros : forall n, length (zeros n) = n.
Proof. intros; apply repeat_length. Qed.

Lemma overlay_length : forall s d, length (overlay s d) = length d.
Proof.
  intros; unfold overlay. rewrite app_length, firstn_length, skipn_length. lia.
Qed.

Lemma overlay_same_length : forall s d, length s = length d -> overlay s d = s.
Proof.
  intros s d H; unfold overlay. rewrite <- H, firstn_all, H, skipn_all. apply app_nil_r.
Qed.

Lemma overlay_nil_l : forall d, overlay [] d = d.
Proof. intros; unfold overlay; cbn. now rewrite firstn_nil. Qed.

Lemma firstn_plus : forall A (l : list A) a b, firstn (a + b) l = firstn a l ++ firstn b (skipn a l).
Proof.
  induction l as [|x l IH]; intros a b.
  - now rewrite !firstn_nil, skipn_nil, firstn_nil.
  - destruct a; cbn; [reflexivity|]. now rewrite IH.
Qed.

Lemma skipn_plus : forall A (l : list A) a b, skipn (a + b) l = skipn b (skipn a l).
Proof.
  induction l as [|x l IH]; intros a b.
  - now rewrite !skipn_nil.
  - destruct a; cbn; [reflexivity|]. apply IH.
Qed.

Lemma list_sum_firstn_le : forall l n, list_sum (firstn n l) <= list_sum l.
Proof.
  unfold list_sum. induction l as [|x l IH]; intros [|n]; cbn; try lia. specialize (IH n). lia.
Qed.

Lemma firstn_S_hd_tl : forall (sc : list nat) n,
  list_sum (firstn (S n) sc) = hd 0 sc + list_sum (firstn n (tl sc)).
Proof. intros [|x sc] n; cbn; [now rewrite firstn_nil|reflexivity]. Qed.

Lemma skipn_S_tl : forall A (sc : list A) n, skipn (S n) sc = skipn n (tl sc).
Proof. intros A [|x sc] n; cbn; [now rewrite skipn_nil|reflexivity]. Qed.

(* ================================================================ blocking programs *)

Lemma run_pbind : forall S R orc (p : prog S) (k : S -> prog R) h,
  run orc (pbind p k) h =
  match run orc p h with
  | (t, Done s) => let '(t', o) := run orc (k s) (h ++ t) in (t ++ t', o)
  | (t, Stopped st) => (t, Stopped st)
  end.
Proof.
  intros S R orc p k; induction p as [s|st|c k' IH]; intros h; cbn.
  - rewrite app_nil_r. destruct (run orc (k s) h); reflexivity.
  - reflexivity.
  - rewrite IH.
    destruct (run orc (k' (orc h c)) (h ++ [(c, orc h c)])) as [t [s|st]]; [|reflexivity].
    rewrite <- app_assoc; cbn.
    destruct (run orc (k s) (h ++ (c, orc h c) :: t)); reflexivity.
Qed.

Lemma answered_by_run : forall R orc (p : prog R) h, answered_by orc h (fst (run orc p h)).
Proof.
  intros R orc p; induction p as [r|s|c k IH]; intros h; cbn; auto.
  specialize (IH (orc h c) (h ++ [(c, orc h c)])).
  destruct (run orc (k (orc h c)) (h ++ [(c, orc h c)])); cbn in *. auto.
Qed.

(* ================================================================ async programs *)

(* forgetting suspension: the blocking program an async program denotes *)
Fixpoint erase {R : Type} (p : aprog R) : prog R :=
  match p with
  | ARet r => Ret r
  | AStop s => Stop s
  | ACall c k => Call c (fun r => erase (k r))
  | AWait _ r k => erase (k r)
  | ABind sub k => pbind (erase sub) (fun s => erase (k s))
  end.

(* a program as written in the source: no leaf future is in flight yet *)
Fixpoint nowait {R : Type} (p : aprog R) : Prop :=
  match p with
  | ARet _ => True
  | AStop _ => True
  | ACall _ k => forall r, nowait (k r)
  | AWait _ _ _ => False
  | ABind sub k => nowait sub /\ forall s, nowait (k s)
  end.

(* big-step reading of the executor: events, unconsumed schedule, number of Pendings, outcome *)
Fixpoint arun {R : Type} (orc : oracle) (p : aprog R) (sc : list nat) (h : list event)
  : list event * list nat * nat * pout R :=
  match p with
  | ARet r => ([], sc, 0, Done r)
  | AStop s => ([], sc, 0, Stopped s)
  | ACall c k =>
      let r := orc h c in
      let '(t, sc', n, o) := arun orc (k r) (tl sc) (h ++ [(c, r)]) in
      ((c, r) :: t, sc', hd 0 sc + n, o)
  | AWait m r k =>
      let '(t, sc', n, o) := arun orc (k r) sc h in (t, sc', m + n, o)
  | ABind sub k =>
      match arun orc sub sc h with
      | (t, sc', n, Done s) =>
          let '(t', sc'', n', o) := arun orc (k s) sc' (h ++ t) in (t ++ t', sc'', n + n', o)
      | (t, sc', n, Stopped st) => (t, sc', n, Stopped st)
      end
  end.

Lemma poll_arun : forall R orc (p : aprog R) sc h,
  match poll orc p sc h with
  | ((t0, sc0), Rdy o) => arun orc p sc h = (t0, sc0, 0, o)
  | ((t0, sc0), Pend p') =>
      exists t1 sc1 n1 o, arun orc p' sc0 (h ++ t0) = (t1, sc1, n1, o) /\
                          arun orc p sc h = (t0 ++ t1, sc1, S n1, o)
  end.
Proof.
  intros R orc p; induction p as [R r|R s|R c k IH|R m r k IH|R S sub IHsub k IHk]; intros sc h.
  - reflexivity.
  - reflexivity.
  - cbn. destruct (hd 0 sc) as [|m] eqn:Hhd.
    + specialize (IH (orc h c) (tl sc) (h ++ [(c, orc h c)])).
      destruct (poll orc (k (orc h c)) (tl sc) (h ++ [(c, orc h c)])) as [[t0 sc0] [p'|o]].
      * destruct IH as (t1 & sc1 & n1 & o & H1 & H2).
        exists t1, sc1, n1, o. split.
        -- rewrite <- app_assoc in H1. exact H1.
        -- rewrite H2. reflexivity.
      * rewrite IH. reflexivity.
    + destruct (arun orc (k (orc h c)) (tl sc) (h ++ [(c, orc h c)])) as [[[t1 sc1] n1] o] eqn:E.
      exists t1, sc1, (m + n1), o. split.
      * cbn. rewrite E. reflexivity.
      * reflexivity.
  - destruct m as [|m].
    + cbn. specialize (IH r sc h).
      destruct (poll orc (k r) sc h) as [[t0 sc0] [p'|o]].
      * destruct IH as (t1 & sc1 & n1 & o & H1 & H2).
        exists t1, sc1, n1, o. split; [exact H1|]. rewrite H2. reflexivity.
      * rewrite IH. reflexivity.
    + cbn. rewrite app_nil_r.
      destruct (arun orc (k r) sc h) as [[[t1 sc1] n1] o].
      exists t1, sc1, (m + n1), o. split; reflexivity.
  - cbn. specialize (IHsub sc h).
    destruct (poll orc sub sc h) as [[t0 sc0] [sub'|[s|st]]].
    + destruct IHsub as (t1 & sc1 & n1 & o & H1 & H2).
      cbn. rewrite H1, H2.
      destruct o as [s|st].
      * destruct (arun orc (k s) sc1 ((h ++ t0) ++ t1)) as [[[t2 sc2] n2] o2] eqn:E.
        exists (t1 ++ t2), sc2, (n1 + n2), o2. split.
        -- reflexivity.
        -- rewrite <- app_assoc in E. rewrite E. rewrite app_assoc. reflexivity.
      * exists t1, sc1, n1, (Stopped st). split; reflexivity.
    + rewrite IHsub. specialize (IHk s sc0 (h ++ t0)).
      destruct (poll orc (k s) sc0 (h ++ t0)) as [[t1 sc1] [p'|o]].
      * destruct IHk as (t2 & sc2 & n2 & o & H1 & H2).
        exists t2, sc2, n2, o. split.
        -- rewrite app_assoc. exact H1.
        -- rewrite H2. rewrite app_assoc. reflexivity.
      * rewrite IHk. reflexivity.
    + rewrite IHsub. reflexivity.
Qed.

Lemma exec_arun : forall R orc fuel (p : aprog R) sc h t sc' n o,
  arun orc p sc h = (t, sc', n, o) -> n < fuel -> exec orc fuel p sc h = (t, S n, o).
Proof.
  intros R orc fuel; induction fuel as [|fuel IH]; intros p sc h t sc' n o Ha Hn; [lia|].
  cbn. pose proof (poll_arun R orc p sc h) as Hp.
  destruct (poll orc p sc h) as [[t0 sc0] [p'|o']].
  - destruct Hp as (t1 & sc1 & n1 & o1 & H1 & H2).
    rewrite Ha in H2. inversion H2; subst.
    rewrite (IH p' sc0 (h ++ t0) t1 sc1 n1 o1 H1) by lia. reflexivity.
  - rewrite Ha in Hp. inversion Hp; subst. reflexivity.
Qed.

Lemma arun_erase : forall R orc (p : aprog R) sc h, nowait p ->
  arun orc p sc h =
  (fst (run orc (erase p) h),
   skipn (length (fst (run orc (erase p) h))) sc,
   list_sum (firstn (length (fst (run orc (erase p) h))) sc),
   snd (run orc (erase p) h)).
Proof.
  intros R orc p; induction p as [R r|R s|R c k IH|R m r k IH|R S sub IHsub k IHk]; intros sc h Hn.
  - reflexivity.
  - reflexivity.
  - cbn in Hn. cbn [arun erase run].
    rewrite (IH (orc h c) (tl sc) (h ++ [(c, orc h c)]) (Hn _)).
    destruct (run orc (erase (k (orc h c))) (h ++ [(c, orc h c)])) as [t o]; cbn [fst snd length].
    rewrite firstn_S_hd_tl, skipn_S_tl. reflexivity.
  - destruct Hn.
  - destruct Hn as [Hs Hk]. cbn [arun erase].
    rewrite (IHsub sc h Hs), run_pbind.
    destruct (run orc (erase sub) h) as [t [s|st]]; cbn [fst snd]; [|reflexivity].
    rewrite (IHk s _ (h ++ t) (Hk s)).
    destruct (run orc (erase (k s)) (h ++ t)) as [t' o]; cbn [fst snd].
    rewrite app_length, firstn_plus, skipn_plus, list_sum_app. reflexivity.
Qed.

(* an async source program run by the executor = its erasure run directly; it was polled once
   plus once per Pending of the awaits it reached; any fuel above the schedule's sum suffices *)
Lemma exec_erase : forall R orc (p : aprog R) sc h fuel, nowait p -> list_sum sc < fuel ->
  exec orc fuel p sc h =
  (fst (run orc (erase p) h),
   S (list_sum (firstn (length (fst (run orc (erase p) h))) sc)),
   snd (run orc (erase p) h)).
Proof.
  intros R orc p sc h fuel Hn Hf.
  apply exec_arun with (sc' := skipn (length (fst (run orc (erase p) h))) sc).
  - apply arun_erase; assumption.
  - pose proof (list_sum_firstn_le sc (length (fst (run orc (erase p) h)))). lia.
Qed.

Lemma async_agrees_intro : forall R (ap : aprog R) (p : prog R),
  nowait ap -> sync_agrees (erase ap) p -> async_agrees ap p.
Proof.
  intros R ap p Hn He orc h sched fuel Hf.
  rewrite (exec_erase R orc ap sched h fuel Hn Hf), (He orc h). reflexivity.
Qed.

Lemma exec_fuel_suffices : forall R (ap : aprog R) (p : prog R) orc h sched,
  async_agrees ap p -> snd (exec orc (exec_fuel sched) ap sched h) = snd (run orc p h).
Proof.
  intros R ap p orc h sched H. unfold exec_fuel. rewrite (H orc h sched); [reflexivity|lia].
Qed.

(* ================================================================ sizes and closures *)

Lemma nbytes_ceil : forall sz, (0 <= sz)%Z ->
  (8 * Z.of_nat (nbytes sz) - 8 < sz <= 8 * Z.of_nat (nbytes sz))%Z.
Proof.
  intros sz H. unfold nbytes. rewrite Z2Nat.id by (apply Z.div_pos; lia).
  pose proof (Z.div_mod (sz + 7) 8 ltac:(lia)). pose proof (Z.mod_pos_bound (sz + 7) 8 ltac:(lia)). lia.
Qed.

Lemma call_closure_length : forall R (f : closure R) reg,
  length (fst (call_closure f reg)) = length reg.
Proof.
  intros; unfold call_closure. destruct (f reg) as [b r]; cbn. apply overlay_length.
Qed.

Lemma call_cmd_closure_length : forall f reg, length (call_cmd_closure f reg) = length reg.
Proof. intros; apply overlay_length. Qed.

(* ================================================================ register.rs *)

Lemma reg_write_spec : forall R orc h a sz reset (f : closure R),
  length reset = nbytes sz ->
  let data := fst (call_closure f reset) in
  let ret := snd (call_closure f reset) in
  let c := RegWrite a sz data in
  let r := orc h c in
  length data = nbytes sz /\
  run orc (reg_write a sz reset f) h =
    ([(c, r)], Done (match r_res r with ROk _ => ROk ret | RErr e => RErr e end)).
Proof.
  intros R orc h a sz reset f Hl; cbn zeta. split.
  - rewrite call_closure_length; exact Hl.
  - unfold reg_write. destruct (call_closure f reset) as [data ret]; cbn.
    destruct (r_res (orc h (RegWrite a sz data))); reflexivity.
Qed.

Lemma reg_write_with_zero_spec : forall R orc h a sz (f : closure R),
  let data := fst (call_closure f (zeros (nbytes sz))) in
  let ret := snd (call_closure f (zeros (nbytes sz))) in
  let c := RegWrite a sz data in
  let r := orc h c in
  length data = nbytes sz /\
  run orc (reg_write_with_zero a sz f) h =
    ([(c, r)], Done (match r_res r with ROk _ => ROk ret | RErr e => RErr e end)).
Proof.
  intros R orc h a sz f; cbn zeta. split.
  - rewrite call_closure_length; apply length_zeros.
  - unfold reg_write_with_zero. destruct (call_closure f (zeros (nbytes sz))) as [data ret]; cbn.
    destruct (r_res (orc h (RegWrite a sz data))); reflexivity.
Qed.

Lemma reg_read_spec : forall orc h a sz,
  let c := RegRead a sz (zeros (nbytes sz)) in
  let r := orc h c in
  let stored := overlay (r_data r) (zeros (nbytes sz)) in
  length stored = nbytes sz /\
  (length (r_data r) = nbytes sz -> stored = r_data r) /\
  run orc (reg_read a sz) h =
    ([(c, r)], Done (match r_res r with ROk _ => ROk stored | RErr e => RErr e end)).
Proof.
  intros orc h a sz; cbn zeta. split; [|split].
  - rewrite overlay_length; apply length_zeros.
  - intros Hl. apply overlay_same_length. now rewrite length_zeros.
  - unfold reg_read; cbn. destruct (r_res (orc h (RegRead a sz (zeros (nbytes sz))))); reflexivity.
Qed.

Lemma reg_modify_spec : forall R orc h a sz (f : closure R),
  let c1 := RegRead a sz (zeros (nbytes sz)) in
  let r1 := orc h c1 in
  let reg := overlay (r_data r1) (zeros (nbytes sz)) in
  let data := fst (call_closure f reg) in
  let ret := snd (call_closure f reg) in
  let c2 := RegWrite a sz data in
  let r2 := orc (h ++ [(c1, r1)]) c2 in
  length data = nbytes sz /\
  run orc (reg_modify a sz f) h =
    match r_res r1 with
    | RErr e => ([(c1, r1)], Done (RErr e))
    | ROk _ => ([(c1, r1); (c2, r2)],
                Done (match r_res r2 with ROk _ => ROk ret | RErr e => RErr e end))
    end.
Proof.
  intros R orc h a sz f; cbn zeta. split.
  - rewrite call_closure_length, overlay_length; apply length_zeros.
  - unfold reg_modify, reg_read; cbn.
    destruct (r_res (orc h (RegRead a sz (zeros (nbytes sz))))) as [n|e]; cbn; [|reflexivity].
    destruct (call_closure f _) as [data ret]; cbn.
    destruct (r_res (orc _ (RegWrite a sz data))); reflexivity.
Qed.

Ltac nowait_tac :=
  cbn; repeat match goal with
  | |- forall _, _ => intro
  | |- _ /\ _ => split
  | |- True => exact I
  | |- context [let '(_, _) := ?x in _] => destruct x; cbn
  | |- context [match r_res ?r with _ => _ end] => destruct (r_res r); cbn
  | |- context [match ?r with ROk _ => _ | RErr _ => _ end] => destruct r; cbn
  end.

Ltac run_agree_tac :=
  intros ? ?; cbn;
  repeat match goal with
  | |- ?x = ?x => reflexivity
  | |- context [let '(_, _) := call_closure ?f ?x in _] => destruct (call_closure f x); cbn
  | |- context [match r_res ?r with _ => _ end] => destruct (r_res r); cbn
  end.

Lemma reg_write_async_agrees : forall R a sz reset (f : closure R),
  async_agrees (reg_write_async a sz reset f) (reg_write a sz reset f).
Proof.
  intros; apply async_agrees_intro; unfold reg_write_async, reg_write.
  - nowait_tac.
  - run_agree_tac.
Qed.

Lemma reg_write_with_zero_async_agrees : forall R a sz (f : closure R),
  async_agrees (reg_write_with_zero_async a sz f) (reg_write_with_zero a sz f).
Proof.
  intros; apply async_agrees_intro; unfold reg_write_with_zero_async, reg_write_with_zero.
  - nowait_tac.
  - run_agree_tac.
Qed.

Lemma reg_read_async_agrees : forall a sz, async_agrees (reg_read_async a sz) (reg_read a sz).
Proof.
  intros; apply async_agrees_intro; unfold reg_read_async, reg_read.
  - nowait_tac.
  - run_agree_tac.
Qed.

Lemma reg_modify_async_agrees : forall R a sz (f : closure R),
  async_agrees (reg_modify_async a sz f) (reg_modify a sz f).
Proof.
  intros; apply async_agrees_intro; unfold reg_modify_async, reg_modify, reg_read_async, reg_read.
  - nowait_tac.
  - run_agree_tac.
Qed.

(* ================================================================ command.rs *)

Lemma cmd_none_spec : forall orc h a,
  let c := CmdDispatch a 0 [] 0 [] in
  let r := orc h c in
  run orc (cmd_dispatch_none a) h = ([(c, r)], Done (res_unit r)).
Proof. reflexivity. Qed.

Lemma cmd_in_spec : forall orc h a szi f,
  let input := call_cmd_closure f (zeros (nbytes szi)) in
  let c := CmdDispatch a szi input 0 [] in
  let r := orc h c in
  length input = nbytes szi /\
  run orc (cmd_dispatch_in a szi f) h = ([(c, r)], Done (res_unit r)).
Proof.
  intros orc h a szi f; cbn zeta; split; [|reflexivity].
  rewrite call_cmd_closure_length; apply length_zeros.
Qed.

Lemma cmd_out_spec : forall orc h a szo,
  let c := CmdDispatch a 0 [] szo (zeros (nbytes szo)) in
  let r := orc h c in
  let stored := overlay (r_data r) (zeros (nbytes szo)) in
  length stored = nbytes szo /\
  (length (r_data r) = nbytes szo -> stored = r_data r) /\
  run orc (cmd_dispatch_out a szo) h =
    ([(c, r)], Done (match r_res r with ROk _ => ROk stored | RErr e => RErr e end)).
Proof.
  intros orc h a szo; cbn zeta. split; [|split].
  - rewrite overlay_length; apply length_zeros.
  - intros Hl. apply overlay_same_length. now rewrite length_zeros.
  - unfold cmd_dispatch_out; cbn.
    destruct (r_res (orc h (CmdDispatch a 0 [] szo (zeros (nbytes szo))))); reflexivity.
Qed.

Lemma cmd_inout_spec : forall orc h a szi szo f,
  let input := call_cmd_closure f (zeros (nbytes szi)) in
  let c := CmdDispatch a szi input szo (zeros (nbytes szo)) in
  let r := orc h c in
  let stored := overlay (r_data r) (zeros (nbytes szo)) in
  length input = nbytes szi /\
  length stored = nbytes szo /\
  (length (r_data r) = nbytes szo -> stored = r_data r) /\
  run orc (cmd_dispatch_inout a szi szo f) h =
    ([(c, r)], Done (match r_res r with ROk _ => ROk stored | RErr e => RErr e end)).
Proof.
  intros orc h a szi szo f; cbn zeta. split; [|split; [|split]].
  - rewrite call_cmd_closure_length; apply length_zeros.
  - rewrite overlay_length; apply length_zeros.
  - intros Hl. apply overlay_same_length. now rewrite length_zeros.
  - unfold cmd_dispatch_inout; cbn.
    destruct (r_res (orc h _)); reflexivity.
Qed.

Lemma cmd_none_async_agrees : forall a, async_agrees (cmd_dispatch_none_async a) (cmd_dispatch_none a).
Proof.
  intros; apply async_agrees_intro; unfold cmd_dispatch_none_async, cmd_dispatch_none.
  - nowait_tac.
  - run_agree_tac.
Qed.

Lemma cmd_in_async_agrees : forall a szi f,
  async_agrees (cmd_dispatch_in_async a szi f) (cmd_dispatch_in a szi f).
Proof.
  intros; apply async_agrees_intro; unfold cmd_dispatch_in_async, cmd_dispatch_in.
  - nowait_tac.
  - run_agree_tac.
Qed.

Lemma cmd_out_async_agrees : forall a szo,
  async_agrees (cmd_dispatch_out_async a szo) (cmd_dispatch_out a szo).
Proof.
  intros; apply async_agrees_intro; unfold cmd_dispatch_out_async, cmd_dispatch_out.
  - nowait_tac.
  - run_agree_tac.
Qed.

Lemma cmd_inout_async_agrees : forall a szi szo f,
  async_agrees (cmd_dispatch_inout_async a szi szo f) (cmd_dispatch_inout a szi szo f).
Proof.
  intros; apply async_agrees_intro; unfold cmd_dispatch_inout_async, cmd_dispatch_inout.
  - nowait_tac.
  - run_agree_tac.
Qed.

(* ================================================================ buffer.rs: pass-throughs *)

Lemma buf_write_spec : forall orc h a buf,
  let c := BufWrite a buf in let r := orc h c in
  run orc (buf_write a buf) h = ([(c, r)], Done (r_res r)).
Proof. reflexivity. Qed.

Lemma buf_flush_spec : forall orc h a,
  let c := BufFlush a in let r := orc h c in
  run orc (buf_flush a) h = ([(c, r)], Done (res_unit r)).
Proof. reflexivity. Qed.

Lemma buf_read_spec : forall orc h a buf,
  let c := BufRead a buf in let r := orc h c in
  run orc (buf_read a buf) h = ([(c, r)], Done (r_res r, overlay (r_data r) buf)) /\
  length (overlay (r_data r) buf) = length buf.
Proof. intros; cbn zeta; split; [reflexivity|apply overlay_length]. Qed.

(* ================================================================ buffer.rs: write_all *)

Lemma buf_write_all_unfold : forall fuel a buf, buf <> [] ->
  buf_write_all (S fuel) a buf =
  pbind (buf_write a buf) (fun w =>
    match w with
    | ROk O => Stop StopWriteZero
    | ROk n => if Nat.ltb (length buf) n then Stop StopSliceIndex
               else buf_write_all fuel a (skipn n buf)
    | RErr e => Ret (RErr e)
    end).
Proof. intros fuel a [|x l] H; [congruence|reflexivity]. Qed.

Lemma write_all_run : forall orc a fuel buf h, length buf <= fuel ->
  write_all_spec a buf (fst (run orc (buf_write_all fuel a buf) h))
                       (snd (run orc (buf_write_all fuel a buf) h)).
Proof.
  intros orc a fuel; induction fuel as [|fuel IH]; intros buf h Hl.
  - destruct buf; [|cbn in Hl; lia]. cbn. constructor.
  - destruct (list_eq_dec Z.eq_dec buf []) as [->|Hne]; [cbn; constructor|].
    rewrite buf_write_all_unfold by assumption. unfold buf_write; cbn [pbind run].
    set (r := orc h (BufWrite a buf)).
    destruct (r_res r) as [[|n]|e] eqn:Hr.
    + cbn. now apply WA_zero.
    + destruct (Nat.ltb (length buf) (S n)) eqn:Hlt.
      * cbn. apply Nat.ltb_lt in Hlt. now apply WA_over with (n := S n).
      * apply Nat.ltb_ge in Hlt.
        assert (Hl' : length (skipn (S n) buf) <= fuel) by (rewrite skipn_length; lia).
        specialize (IH (skipn (S n) buf) (h ++ [(BufWrite a buf, r)]) Hl').
        destruct (run orc (buf_write_all fuel a (skipn (S n) buf)) (h ++ [(BufWrite a buf, r)])) as [t o].
        cbn in *. apply WA_step with (n := S n); auto; lia.
    + cbn. now apply WA_err.
Qed.

Lemma accepted_ok : forall c r n, r_res r = ROk n -> accepted (c, r) = n.
Proof. intros c r n H; unfold accepted; cbn; now rewrite H. Qed.

Lemma offsets_shift : forall t k j, offsets (k + j) t = map (Nat.add k) (offsets j t).
Proof.
  induction t as [|e t IH]; intros k j; cbn; [reflexivity|].
  f_equal. rewrite <- Nat.add_assoc. apply IH.
Qed.

(* every call is write(addr, &buf[k..]) with k the running sum of the accepted counts *)
Lemma write_all_calls : forall a buf t o, write_all_spec a buf t o ->
  map fst t = map (fun k => BufWrite a (skipn k buf)) (offsets 0 t).
Proof.
  induction 1; cbn; try reflexivity.
  f_equal. rewrite (accepted_ok _ _ _ H0).
  replace n with (n + 0) at 1 by lia. rewrite offsets_shift, map_map, IHwrite_all_spec.
  apply map_ext; intros k. now rewrite skipn_plus.
Qed.

(* success: every answer was an in-contract Ok, and the accepted chunks, concatenated, are buf *)
Lemma write_all_complete : forall a buf t, write_all_spec a buf t (Done (ROk tt)) ->
  concat (map wchunk t) = buf /\
  list_sum (map accepted t) = length buf /\
  Forall (fun e => 1 <= accepted e /\ exists n, r_res (snd e) = ROk n) t.
Proof.
  intros a buf t H; remember (Done (ROk tt)) as o eqn:Ho.
  induction H; try discriminate.
  - repeat split; constructor.
  - destruct (IHwrite_all_spec Ho) as (H3 & H4 & H5).
    cbn [map concat list_sum fold_right]. unfold wchunk at 1; cbn [fst].
    rewrite (accepted_ok _ _ _ H0). repeat split.
    + rewrite H3. apply firstn_skipn.
    + unfold list_sum in H4. rewrite H4, skipn_length. lia.
    + constructor; [|exact H5]. rewrite (accepted_ok _ _ _ H0); cbn. split; [lia|eauto].
Qed.

Lemma single_split : forall A (x y : A) t1 t2, [x] = t1 ++ y :: t2 -> t1 = [] /\ t2 = [] /\ x = y.
Proof.
  intros A x y [|z t1] t2 H; cbn in H.
  - inversion H; auto.
  - inversion H. destruct t1; discriminate.
Qed.

(* an Err / Ok(0) / oversized answer is the last event and decides the outcome; in particular
   nothing is sent after the first error *)
Ltac bad_tac :=
  repeat match goal with
  | |- _ /\ _ => split
  | |- forall _, _ => intro
  end;
  repeat match goal with
  | H1 : r_res ?r = _, H2 : r_res ?r = _ |- _ => rewrite H1 in H2; inversion H2; subst; clear H2
  | H : BufWrite _ _ = BufWrite _ _ |- _ => inversion H; subst; clear H
  | H : BufRead _ _ = BufRead _ _ |- _ => inversion H; subst; clear H
  end;
  try reflexivity; try congruence; try lia; eauto.

Lemma write_all_first_bad : forall a buf t o, write_all_spec a buf t o ->
  forall t1 c r t2, t = t1 ++ (c, r) :: t2 ->
    (forall e, r_res r = RErr e -> t2 = [] /\ o = Done (RErr e)) /\
    (r_res r = ROk 0 -> t2 = [] /\ o = Stopped StopWriteZero) /\
    (forall n d, r_res r = ROk n -> c = BufWrite a d -> length d < n ->
                 t2 = [] /\ o = Stopped StopSliceIndex).
Proof.
  induction 1; intros t1 c0 r0 t2 Ht.
  - destruct t1; discriminate.
  - apply single_split in Ht; destruct Ht as (-> & -> & Heq); inversion Heq; subst. bad_tac.
  - apply single_split in Ht; destruct Ht as (-> & -> & Heq); inversion Heq; subst. bad_tac.
  - apply single_split in Ht; destruct Ht as (-> & -> & Heq); inversion Heq; subst. bad_tac.
  - destruct t1 as [|x t1]; cbn in Ht; inversion Ht; subst.
    + bad_tac.
    + exact (IHwrite_all_spec t1 c0 r0 t2 eq_refl).
Qed.

Lemma write_all_no_fuel : forall a buf t o, write_all_spec a buf t o -> o <> Stopped StopOutOfFuel.
Proof. induction 1; try discriminate; assumption. Qed.

(* ================================================================ buffer.rs: read_exact *)

Lemma buf_read_exact_loop_unfold : forall fuel a filled buf, buf <> [] ->
  buf_read_exact_loop (S fuel) a filled buf =
  pbind (buf_read a buf) (fun rb =>
    let '(res, buf) := rb in
    match res with
    | ROk O => Ret (rx_after_loop buf, filled ++ buf)
    | ROk n => if Nat.ltb (length buf) n then Stop StopSliceIndex
               else buf_read_exact_loop fuel a (filled ++ firstn n buf) (skipn n buf)
    | RErr e => Ret (RxErr (RxOther e), filled ++ buf)
    end).
Proof. intros fuel a filled [|x l] H; [congruence|reflexivity]. Qed.

Lemma rx_after_loop_nonempty : forall b, b <> [] -> rx_after_loop b = RxErr RxUnexpectedEof.
Proof. intros [|x l] H; [congruence|reflexivity]. Qed.

Lemma overlay_nonempty : forall s d, d <> [] -> overlay s d <> [].
Proof.
  intros s d H E. apply (f_equal (@length _)) in E. rewrite overlay_length in E.
  destruct d; [congruence|discriminate].
Qed.

Lemma read_exact_run : forall orc a fuel filled buf h, length buf <= fuel ->
  read_exact_spec a filled buf (fst (run orc (buf_read_exact_loop fuel a filled buf) h))
                               (snd (run orc (buf_read_exact_loop fuel a filled buf) h)).
Proof.
  intros orc a fuel; induction fuel as [|fuel IH]; intros filled buf h Hl.
  - destruct buf; [|cbn in Hl; lia]. cbn. rewrite app_nil_r. constructor.
  - destruct (list_eq_dec Z.eq_dec buf []) as [->|Hne]; [cbn; rewrite app_nil_r; constructor|].
    rewrite buf_read_exact_loop_unfold by assumption. unfold buf_read; cbn [pbind run].
    set (r := orc h (BufRead a buf)).
    destruct (r_res r) as [[|n]|e] eqn:Hr.
    + cbn. rewrite rx_after_loop_nonempty by now apply overlay_nonempty. now apply RX_eof.
    + rewrite overlay_length.
      destruct (Nat.ltb (length buf) (S n)) eqn:Hlt.
      * cbn. apply Nat.ltb_lt in Hlt. now apply RX_over with (n := S n).
      * apply Nat.ltb_ge in Hlt.
        assert (Hl' : length (skipn (S n) (overlay (r_data r) buf)) <= fuel)
          by (rewrite skipn_length, overlay_length; lia).
        specialize (IH (filled ++ firstn (S n) (overlay (r_data r) buf))
                       (skipn (S n) (overlay (r_data r) buf)) (h ++ [(BufRead a buf, r)]) Hl').
        destruct (run orc (buf_read_exact_loop fuel a _ _) (h ++ [(BufRead a buf, r)])) as [t o].
        cbn in *. apply RX_step with (n := S n); auto; lia.
    + cbn. now apply RX_err.
Qed.

(* each call reads into a slice as long as the still unfilled remainder *)
Lemma read_exact_calls : forall a filled buf t o, read_exact_spec a filled buf t o ->
  Forall2 (reads_len a) (map fst t) (map (fun k => length buf - k) (offsets 0 t)).
Proof.
  induction 1; cbn; try (constructor; [|constructor]; exists buf; split; [reflexivity|lia]).
  - constructor.
  - constructor; [exists buf; split; [reflexivity|lia]|].
    rewrite (accepted_ok _ _ _ H0).
    replace n with (n + 0) at 1 by lia. rewrite offsets_shift, map_map.
    rewrite skipn_length, overlay_length in IHread_exact_spec.
    rewrite (map_ext _ (fun k => length buf - n - k)); [exact IHread_exact_spec|]. intros k; cbn. lia.
Qed.

(* the caller's slice keeps its length; on success it holds the delivered chunks left to right *)
Lemma read_exact_final : forall a filled buf t o, read_exact_spec a filled buf t o ->
  forall x final, o = Done (x, final) ->
    length final = length filled + length buf /\
    firstn (length filled) final = filled /\
    (x = RxOk -> final = filled ++ concat (map rchunk t) /\
                 list_sum (map accepted t) = length buf).
Proof.
  induction 1; intros x final Ho; try (inversion Ho; subst; fail); [inversion Ho; subst ..|subst o].
  - cbn. rewrite app_nil_r. repeat split; try lia. apply firstn_all.
  - rewrite app_length, overlay_length. repeat split; try discriminate.
    rewrite firstn_app, Nat.sub_diag, firstn_all; cbn. apply app_nil_r.
  - rewrite app_length, overlay_length. repeat split; try discriminate.
    rewrite firstn_app, Nat.sub_diag, firstn_all; cbn. apply app_nil_r.
  - destruct (IHread_exact_spec x final eq_refl) as (H3 & H4 & H5).
    rewrite app_length, firstn_length, skipn_length, overlay_length in H3.
    split; [lia|]. split.
    + rewrite app_length in H4.
      apply (f_equal (firstn (length filled))) in H4.
      rewrite firstn_firstn in H4. rewrite Nat.min_l in H4 by lia.
      rewrite H4. rewrite firstn_app, Nat.sub_diag, firstn_all; cbn. apply app_nil_r.
    + intros Hx. destruct (H5 Hx) as [H6 H7]. cbn [map concat list_sum fold_right].
      unfold rchunk at 1; cbn [fst snd]. rewrite (accepted_ok _ _ _ H0). split.
      * rewrite H6. now rewrite <- app_assoc.
      * unfold list_sum in H7. rewrite H7, skipn_length, overlay_length. lia.
Qed.

Lemma read_exact_first_bad : forall a filled buf t o, read_exact_spec a filled buf t o ->
  forall t1 c r t2, t = t1 ++ (c, r) :: t2 ->
    (forall e, r_res r = RErr e -> t2 = [] /\ exists final, o = Done (RxErr (RxOther e), final)) /\
    (r_res r = ROk 0 -> t2 = [] /\ exists final, o = Done (RxErr RxUnexpectedEof, final)).
Proof.
  induction 1; intros t1 c0 r0 t2 Ht.
  - destruct t1; discriminate.
  - apply single_split in Ht; destruct Ht as (-> & -> & Heq); inversion Heq; subst. bad_tac.
  - apply single_split in Ht; destruct Ht as (-> & -> & Heq); inversion Heq; subst. bad_tac.
  - apply single_split in Ht; destruct Ht as (-> & -> & Heq); inversion Heq; subst. bad_tac.
  - destruct t1 as [|x t1]; cbn in Ht; inversion Ht; subst.
    + bad_tac.
    + exact (IHread_exact_spec t1 c0 r0 t2 eq_refl).
Qed.

(* UnexpectedEof only because a read returned 0 while bytes were still missing; Other(e) only
   because the interface answered Err(e) *)
Lemma read_exact_err_cause : forall a filled buf t o, read_exact_spec a filled buf t o ->
  forall final,
    (o = Done (RxErr RxUnexpectedEof, final) ->
       exists t1 b r, t = t1 ++ [(BufRead a b, r)] /\ r_res r = ROk 0 /\ b <> []) /\
    (forall e, o = Done (RxErr (RxOther e), final) ->
       exists t1 b r, t = t1 ++ [(BufRead a b, r)] /\ r_res r = RErr e).
Proof.
  induction 1; intros final; split; intros; try discriminate.
  - exists [], buf, r. auto.
  - inversion H1; subst. exists [], buf, r. auto.
  - destruct (IHread_exact_spec final) as [IH1 _]. destruct (IH1 H3) as (t1 & b & r1 & -> & H5 & H6).
    exists ((BufRead a buf, r) :: t1), b, r1. auto.
  - destruct (IHread_exact_spec final) as [_ IH2]. destruct (IH2 e H3) as (t1 & b & r1 & -> & H5).
    exists ((BufRead a buf, r) :: t1), b, r1. auto.
Qed.

Lemma read_exact_no_fuel : forall a filled buf t o, read_exact_spec a filled buf t o ->
  o <> Stopped StopOutOfFuel.
Proof. induction 1; try discriminate; assumption. Qed.

(* ================================================================ buffer.rs: async twins and trait impls *)

Lemma buf_write_async_agrees : forall a buf, async_agrees (buf_write_async a buf) (buf_write a buf).
Proof. intros; apply async_agrees_intro; [nowait_tac|run_agree_tac]. Qed.

Lemma buf_flush_async_agrees : forall a, async_agrees (buf_flush_async a) (buf_flush a).
Proof. intros; apply async_agrees_intro; [nowait_tac|run_agree_tac]. Qed.

Lemma buf_read_async_agrees : forall a buf, async_agrees (buf_read_async a buf) (buf_read a buf).
Proof. intros; apply async_agrees_intro; [nowait_tac|run_agree_tac]. Qed.

Lemma eioa_write_agrees : forall a buf, async_agrees (eioa_write a buf) (buf_write a buf).
Proof. intros; apply async_agrees_intro; [nowait_tac|run_agree_tac]. Qed.

Lemma eioa_flush_agrees : forall a, async_agrees (eioa_flush a) (buf_flush a).
Proof. intros; apply async_agrees_intro; [nowait_tac|run_agree_tac]. Qed.

Lemma eioa_read_agrees : forall a buf, async_agrees (eioa_read a buf) (buf_read a buf).
Proof. intros; apply async_agrees_intro; [nowait_tac|run_agree_tac]. Qed.

Ltac loop_nowait_tac IH :=
  cbn; repeat match goal with
  | |- True => exact I
  | |- _ /\ _ => split
  | |- forall _ : resp, _ => intro
  | |- forall _ : result _, _ => intros [[|?]|?]; cbn
  | |- forall _ : (result _ * bytes)%type, _ => intros [[[|?]|?] ?]; cbn
  | |- context [if ?b then _ else _] => destruct b; cbn
  | |- _ => apply IH
  end.

Ltac loop_agree_tac IH :=
  cbn;
  repeat match goal with
  | |- ?x = ?x => reflexivity
  | |- context [match r_res ?r with _ => _ end] => destruct (r_res r) as [[|?]|?]; cbn
  | |- context [if ?b then _ else _] => destruct b; cbn
  | |- _ => rewrite IH
  end.

Lemma buf_write_all_async_nowait : forall fuel a buf, nowait (buf_write_all_async fuel a buf).
Proof. induction fuel as [|fuel IH]; intros a [|x l]; loop_nowait_tac IH. Qed.

Lemma eioa_write_all_nowait : forall fuel a buf, nowait (eioa_write_all fuel a buf).
Proof. induction fuel as [|fuel IH]; intros a [|x l]; loop_nowait_tac IH. Qed.

Lemma buf_read_exact_loop_async_nowait : forall fuel a filled buf,
  nowait (buf_read_exact_loop_async fuel a filled buf).
Proof. induction fuel as [|fuel IH]; intros a filled [|x l]; loop_nowait_tac IH. Qed.

Lemma eioa_read_exact_loop_nowait : forall fuel a filled buf,
  nowait (eioa_read_exact_loop fuel a filled buf).
Proof. induction fuel as [|fuel IH]; intros a filled [|x l]; loop_nowait_tac IH. Qed.

Lemma buf_write_all_async_erase : forall fuel a buf,
  sync_agrees (erase (buf_write_all_async fuel a buf)) (buf_write_all fuel a buf).
Proof. induction fuel as [|fuel IH]; intros a [|x l] orc h; loop_agree_tac IH. Qed.

Lemma eioa_write_all_erase : forall fuel a buf,
  sync_agrees (erase (eioa_write_all fuel a buf)) (buf_write_all fuel a buf).
Proof. induction fuel as [|fuel IH]; intros a [|x l] orc h; loop_agree_tac IH. Qed.

Lemma eio_write_all_agrees : forall fuel a buf,
  sync_agrees (eio_write_all fuel a buf) (buf_write_all fuel a buf).
Proof. induction fuel as [|fuel IH]; intros a [|x l] orc h; loop_agree_tac IH. Qed.

Lemma buf_read_exact_loop_async_erase : forall fuel a filled buf,
  sync_agrees (erase (buf_read_exact_loop_async fuel a filled buf)) (buf_read_exact_loop fuel a filled buf).
Proof. induction fuel as [|fuel IH]; intros a filled [|x l] orc h; loop_agree_tac IH. Qed.

Lemma eioa_read_exact_loop_erase : forall fuel a filled buf,
  sync_agrees (erase (eioa_read_exact_loop fuel a filled buf)) (buf_read_exact_loop fuel a filled buf).
Proof. induction fuel as [|fuel IH]; intros a filled [|x l] orc h; loop_agree_tac IH. Qed.

Lemma eio_read_exact_loop_agrees : forall fuel a filled buf,
  sync_agrees (eio_read_exact_loop fuel a filled buf) (buf_read_exact_loop fuel a filled buf).
Proof. induction fuel as [|fuel IH]; intros a filled [|x l] orc h; loop_agree_tac IH. Qed.

Lemma buf_write_all_async_agrees : forall fuel a buf,
  async_agrees (buf_write_all_async fuel a buf) (buf_write_all fuel a buf).
Proof.
  intros; apply async_agrees_intro; [apply buf_write_all_async_nowait|apply buf_write_all_async_erase].
Qed.

Lemma eioa_write_all_agrees : forall fuel a buf,
  async_agrees (eioa_write_all fuel a buf) (buf_write_all fuel a buf).
Proof.
  intros; apply async_agrees_intro; [apply eioa_write_all_nowait|apply eioa_write_all_erase].
Qed.

Lemma buf_read_exact_async_agrees : forall a buf,
  async_agrees (buf_read_exact_async a buf) (buf_read_exact a buf).
Proof.
  intros; apply async_agrees_intro;
    [apply buf_read_exact_loop_async_nowait|apply buf_read_exact_loop_async_erase].
Qed.

Lemma eioa_read_exact_agrees : forall a buf,
  async_agrees (eioa_read_exact a buf) (buf_read_exact a buf).
Proof.
  intros; apply async_agrees_intro;
    [apply eioa_read_exact_loop_nowait|apply eioa_read_exact_loop_erase].
Qed.

Lemma eio_read_exact_agrees : forall a buf, sync_agrees (eio_read_exact a buf) (buf_read_exact a buf).
Proof. intros; apply eio_read_exact_loop_agrees. Qed.

(* ================================================================ operation sequences *)

Lemma reg_aprog_agrees : forall a sz reset op k pat,
  async_agrees (reg_aprog a sz reset op k pat) (reg_prog a sz reset op k pat).
Proof.
  intros a sz reset [] k pat; unfold reg_aprog, reg_prog.
  - apply reg_write_async_agrees.
  - apply reg_write_with_zero_async_agrees.
  - apply reg_read_async_agrees.
  - apply reg_modify_async_agrees.
Qed.

Definition drop_polls {R : Type} (x : list event * nat * pout R) : list event * pout R :=
  (fst (fst x), snd x).

(* a whole sequence of *_async operations, each run to completion under an arbitrary schedule,
   causes the events and returns the results of the blocking sequence *)
Lemma reg_seq_async_equiv : forall orc sched a sz reset ops h,
  map drop_polls (exec_reg_seq orc sched a sz reset ops h) =
  map drop_polls (run_reg_seq orc a sz reset ops h).
Proof.
  intros orc sched a sz reset ops; induction ops as [|[[op k] pat] rest IH]; intros h; [reflexivity|].
  cbn [exec_reg_seq run_reg_seq].
  rewrite (reg_aprog_agrees a sz reset op k pat orc h (skipn (length h) sched)
             (exec_fuel (skipn (length h) sched))) by (unfold exec_fuel; lia).
  destruct (run orc (reg_prog a sz reset op k pat) h) as [t o]; cbn [fst snd map].
  rewrite IH. reflexivity.
Qed.
