(* Addr.v — address semantics of the generator (C04 / C12 / C13).  Definitions only.

   MODEL (transcribed from /repo/generation/src):
     search_object                         mir/passes/mod.rs
     get_method / collect_into_blocks      mir/lir_transform.rs      (the LIR method lists, ref lowering WITH FUEL)
     get_block_claimed_addresses, run_pass lir/passes/addresses_non_overlapping.rs
     find_min_max_addresses / collect_min_max_addresses   mir/passes/mod.rs   (the repaired walk: refs followed, all repeats,
                                           i128; the walk before the repair is kept as [pre_mm_walk] etc., section (d-pre))
     address_types_specified, address_types_big_enough, find_best_internal_address
     gen_addr                              lir/token_transform/block_transform.rs (the emitted arithmetic)
   SPEC (written from properties C04/C12/C13 and book/src/{blocks,refs}.md, independently of the code):
     addr_sem, instances, collision, reach, fits.

   Names.  The collision pass prints `name.to_case(Pascal)` of the LIR identifiers, which are
   `to_case(Snake)` of the (already normalised, PascalCase) MIR names.  For names that are fixed points of
   that round trip (letters-only PascalCase, CONVENTIONS.md) this is the identity; the model prints MIR names.
   Numbers.  The generator computes in i64 (collision pass) / i128, u128 (min/max walk, internal type); the model
   computes in Z and records separately ([chk128], the guards of [walk_one], [best_internal]) where the real arithmetic
   would overflow (a panic of the generator in a build with overflow checks). *)
From Coq Require Import ZArith List Bool String Ascii.
From DD Require Import Common Mir GenErr.
Import ListNotations.
Open Scope string_scope.
Open Scope Z_scope.

(* ------------------------------------------------------------------------------------------------ *)
(** * Small utilities *)

(* first [Some] of [f] over a list, left to right *)
Definition find_some {A B} (f : A -> option B) : list A -> option B :=
  fix go l := match l with
              | [] => None
              | a :: t => match f a with Some b => Some b | None => go t end
              end.

(* 0, 1, .., n-1 as Z (empty for n <= 0) *)
Definition zrange (n : Z) : list Z := map Z.of_nat (seq 0 (Z.to_nat n)).

Definition zsum (l : list Z) : Z := fold_right Z.add 0 l.

(* sequence a list of outcomes of lists and concatenate (first failure, left to right, wins) *)
Fixpoint ocat {A} (l : list (outcome (list A))) : outcome (list A) :=
  match l with
  | [] => Ok []
  | x :: t => match x with
              | Fail k => Fail k
              | Ok a => match ocat t with Fail k => Fail k | Ok b => Ok (a ++ b)%list end
              end
  end.

Definition i64 : ity := {| signed := true; bits := 64 |}.
Definition in_i64 (z : Z) : bool := in_range i64 z.
Definition i128 : ity := {| signed := true; bits := 128 |}.
Definition in_i128 (z : Z) : bool := in_range i128 z.

Inductive akind := KRegister | KCommand | KBuffer.

Definition akind_eqb (a b : akind) : bool :=
  match a, b with
  | KRegister, KRegister | KCommand, KCommand | KBuffer, KBuffer => true
  | _, _ => false
  end.

Definition show_akind (k : akind) : string :=
  match k with KRegister => "register" | KCommand => "command" | KBuffer => "buffer" end.

(* Repeat { count: 1, stride: 0 } default used by both passes *)
Definition rep_count (r : option repeat) : Z := match r with Some r => r_count r | None => 1 end.
Definition rep_stride (r : option repeat) : Z := match r with Some r => r_stride r | None => 0 end.
Definition rep_is (r : option repeat) : bool := match r with Some _ => true | None => false end.

(* ------------------------------------------------------------------------------------------------ *)
(** * (a) search_object: DFS, first match (the object itself before its children) *)

Fixpoint search_obj (name : string) (o : object) : option object :=
  if String.eqb (object_name o) name then Some o
  else match o with
       | OBlock _ _ _ _ objs => find_some (search_obj name) objs
       | _ => None
       end.

Definition search_object (name : string) (objs : list object) : option object :=
  find_some (search_obj name) objs.

(* ------------------------------------------------------------------------------------------------ *)
(** * (b) The LIR blocks and methods as lir_transform produces them *)

Inductive mkind := MLeaf (k : akind) | MBlock (name : string).

Record lmethod := {
  m_name : string;              (* method name (the ref's name for a lowered ref) *)
  m_kind : mkind;
  m_address : Z;                (* the address literal *)
  m_repeat : option repeat;     (* BlockMethodKind::Normal / Repeated *)
  m_allow : bool }.             (* allow_address_overlap AS CARRIED: false for blocks and buffers *)

Record lblock := { b_name : string; b_root : bool; b_methods : list lmethod }.

Definition or_else {A} (o : option A) (d : A) : A := match o with Some a => a | None => d end.
Definition or_else_opt {A} (o : option A) (d : option A) : option A := match o with Some a => Some a | None => d end.

(* get_method's ref branch: clone the target, apply the overrides.  The ref's own
   allow_address_overlap is NOT applied (D10); cfg is replaced by the ref's.
   [fx] = false is the code as it stands; [fx] = true is the code with D10 repaired (the ref's own flag
   OR-ed into the clone) — the checks select it from KNOWN_FINDINGS.jsonl so that they follow a `fix:` commit. *)
Definition apply_override (fx : bool) (c : cfg) (ov : override) (tgt : object) : option object :=
  match ov, tgt with
  | OvBlock _ off rep, OBlock _ n toff trep objs =>
      Some (OBlock c n (or_else off toff) (or_else_opt rep trep) objs)
  | OvRegister _ acc addr own reset rep, ORegister r =>
      Some (ORegister {| rg_cfg := c; rg_name := rg_name r; rg_access := or_else acc (rg_access r);
                         rg_byte_order := rg_byte_order r; rg_bit_order := rg_bit_order r;
                         rg_allow_bit_overlap := rg_allow_bit_overlap r;
                         rg_allow_address_overlap := rg_allow_address_overlap r || (fx && own);
                         rg_address := or_else addr (rg_address r); rg_size_bits := rg_size_bits r;
                         rg_reset := or_else_opt reset (rg_reset r);
                         rg_repeat := or_else_opt rep (rg_repeat r); rg_fields := rg_fields r |})
  | OvCommand _ addr own rep, OCommand cm =>
      Some (OCommand {| cm_cfg := c; cm_name := cm_name cm; cm_address := or_else addr (cm_address cm);
                        cm_byte_order := cm_byte_order cm; cm_bit_order := cm_bit_order cm;
                        cm_allow_bit_overlap := cm_allow_bit_overlap cm;
                        cm_allow_address_overlap := cm_allow_address_overlap cm || (fx && own);
                        cm_size_in := cm_size_in cm; cm_size_out := cm_size_out cm;
                        cm_repeat := or_else_opt rep (cm_repeat cm);
                        cm_in_fields := cm_in_fields cm; cm_out_fields := cm_out_fields cm |})
  | _, _ => None     (* `.expect("All refs are validated in a mir pass")` *)
  end.

Definition set_method_name (m : lmethod) (n : string) : lmethod :=
  {| m_name := n; m_kind := m_kind m; m_address := m_address m; m_repeat := m_repeat m; m_allow := m_allow m |}.

(* the loop of collect_into_blocks: methods in object order, generated sub-blocks appended in order *)
Definition lower_list (gm : object -> outcome (lmethod * list lblock)) : list object -> outcome (list lmethod * list lblock) :=
  fix go l := match l with
              | [] => Ok ([], [])
              | o :: t => match gm o with
                          | Fail k => Fail k
                          | Ok (m, bl) => match go t with
                                          | Fail k => Fail k
                                          | Ok (ms, bls) => Ok (m :: ms, (bl ++ bls)%list)
                                          end
                          end
              end.

(* get_method.  The recursion of the real code is not structural (a ref re-enters with the CLONED
   target; a block ref nested in its own target never terminates, D11): fuel, with exhaustion a
   distinct failure.  One unit of fuel per block level / per ref hop. *)
Fixpoint get_method (fx : bool) (fuel : nat) (dev : list object) (o : object) {struct fuel} : outcome (lmethod * list lblock) :=
  match fuel with
  | O => Fail OutOfFuel
  | S f =>
    match o with
    | OBlock _ name off rep objs =>
        match lower_list (get_method fx f dev) objs with
        | Fail k => Fail k
        | Ok (ms, bls) =>
            Ok ({| m_name := name; m_kind := MBlock name; m_address := off; m_repeat := rep; m_allow := false |},
                {| b_name := name; b_root := false; b_methods := ms |} :: bls)
        end
    | ORegister r =>
        Ok ({| m_name := rg_name r; m_kind := MLeaf KRegister; m_address := rg_address r;
               m_repeat := rg_repeat r; m_allow := rg_allow_address_overlap r |}, [])
    | OCommand c =>
        Ok ({| m_name := cm_name c; m_kind := MLeaf KCommand; m_address := cm_address c;
               m_repeat := cm_repeat c; m_allow := cm_allow_address_overlap c |}, [])
    | OBuffer b =>
        Ok ({| m_name := bf_name b; m_kind := MLeaf KBuffer; m_address := bf_address b;
               m_repeat := None; m_allow := false |}, [])
    | ORef c name ov =>
        match search_object (override_target ov) dev with
        | None => Fail AssertFail
        | Some tgt =>
            match apply_override fx c ov tgt with
            | None => Fail AssertFail
            | Some (OBlock _ bname off rep _) =>
                (* since /repo's repair of D9 a block ref only gets its accessor (own offset and repeat, the
                   target's struct); the target block is collected where it is declared, not a second time *)
                Ok ({| m_name := name; m_kind := MBlock bname; m_address := off; m_repeat := rep; m_allow := false |}, [])
            | Some o' =>
                match get_method fx f dev o' with
                | Fail k => Fail k
                | Ok (m, bls) => Ok (set_method_name m name, bls)
                end
            end
        end
    end
  end.

(* transform(): the root block (named after the driver, methods of the device objects) first, then
   every generated block in generation order *)
Definition lower (fx : bool) (fuel : nat) (dev_name : string) (objs : list object) : outcome (list lblock) :=
  match lower_list (get_method fx fuel objs) objs with
  | Fail k => Fail k
  | Ok (ms, bls) => Ok ({| b_name := dev_name; b_root := true; b_methods := ms |} :: bls)
  end.

(* fuel that is enough for every tree without block refs (depth + ref hop), used by the checks: tree size + 2;
   with block refs the expansion can be deeper, the checks add the number of refs times the size *)
Definition objects_size (objs : list object) : nat := fold_right (fun o acc => object_size o + acc)%nat O objs.

(* ------------------------------------------------------------------------------------------------ *)
(** * (c) addresses_non_overlapping *)

Record claimed := {
  c_name : string;              (* name stack joined with "::" *)
  c_index : option Z;           (* repeat.then_some(i) *)
  c_address : Z;
  c_allow : bool;
  c_kind : akind }.

Definition index_suffix (i : Z) : string := " (index: " ++ show_Z i ++ ")".

Definition find_block (name : string) (blocks : list lblock) : option lblock :=
  find (fun b => String.eqb (b_name b) name) blocks.

(* i128 arithmetic of the real pass (i64 before the repair of D3c): a value outside i128 is an overflow panic; not
   reachable with i64 addresses / strides and u64 counts unless products near 2^127 are nested *)
Definition chk128 {A} (z : Z) (x : outcome A) : outcome A := if in_i128 z then x else Fail Overflow.

(* get_block_claimed_addresses(device, block, current_address_offset, name_stack); the recursion goes
   through a lookup BY NAME among all blocks (first match), so it is not structural: fuel. *)
Fixpoint claimed_methods (fuel : nat) (blocks : list lblock) (ms : list lmethod) (off : Z) (stack : list string)
  {struct fuel} : outcome (list claimed) :=
  match fuel with
  | O => Fail OutOfFuel
  | S f =>
    ocat (map (fun m =>
      let off' := off + m_address m in
      let count := rep_count (m_repeat m) in
      let stride := rep_stride (m_repeat m) in
      chk128 off'
      match m_kind m with
      | MBlock name =>
          match find_block name blocks with
          | None => Fail AssertFail
          | Some sb =>
              ocat (map (fun i => chk128 (i * stride) (chk128 (off' + i * stride)
                                    (claimed_methods f blocks (b_methods sb) (off' + i * stride)
                                       (stack ++ [(name ++ index_suffix i)%string])%list))) (zrange count))
          end
      | MLeaf k =>
          ocat (map (fun i => chk128 (i * stride) (chk128 (off' + i * stride)
                        (Ok [{| c_name := String.concat "::" (stack ++ [m_name m])%list;
                                c_index := if rep_is (m_repeat m) then Some i else None;
                                c_address := off' + i * stride;
                                c_allow := m_allow m;
                                c_kind := k |}]))) (zrange count))
      end) ms)
  end.

Definition claimed_display (c : claimed) : string :=
  match c_index c with Some i => c_name c ++ index_suffix i | None => c_name c end.

(* the test inside the double loop *)
Definition conflict (a b : claimed) : bool :=
  (c_address a =? c_address b) && akind_eqb (c_kind a) (c_kind b) && negb (c_allow a && c_allow b).

Definition overlap_error (a b : claimed) : gen_error :=
  mk_err "address_overlap" [claimed_display a; claimed_display b; show_Z (c_address a)].

(* inner loop: claimed_addresses.get(i + 1..) *)
Fixpoint first_conflict (a : claimed) (rest : list claimed) : option gen_error :=
  match rest with
  | [] => None
  | b :: t => if conflict a b then Some (overlap_error a b) else first_conflict a t
  end.

(* outer loop *)
Fixpoint pairwise_check (l : list claimed) : option gen_error :=
  match l with
  | [] => None
  | a :: t => match first_conflict a t with Some e => Some e | None => pairwise_check t end
  end.

Definition root_methods (blocks : list lblock) : option (list lmethod) :=
  match find (fun b => b_root b) blocks with Some b => Some (b_methods b) | None => None end.

(* run_pass of addresses_non_overlapping on the lowered device *)
Definition overlap_pass (fuel : nat) (blocks : list lblock) : outcome (option gen_error) :=
  match root_methods blocks with
  | None => Fail AssertFail
  | Some ms => match claimed_methods fuel blocks ms 0 [] with
               | Fail k => Fail k
               | Ok cl => Ok (pairwise_check cl)
               end
  end.

(* ------------------------------------------------------------------------------------------------ *)
(** * (d) find_min_max_addresses (the REPAIRED walk: refs followed to their targets, every repeat of the object
      and of the blocks around it, i128); the passes using it; the emitted arithmetic.
      The walk as it was before the repair (address_offsets stack, i64) is kept in section (d-pre) below. *)

(* the four filters *)
Definition filter_all (_ : object) : bool := true.
Definition filter_kind (k : akind) (o : object) : bool :=
  match o, k with
  | OBlock _ _ _ _ _, _ => true
  | ORegister _, KRegister => true
  | ORef _ _ (OvRegister _ _ _ _ _ _), KRegister => true
  | OCommand _, KCommand => true
  | ORef _ _ (OvCommand _ _ _ _), KCommand => true
  | OBuffer _, KBuffer => true
  | _, _ => false
  end.

(* `search_object(ref_object.object_override.name(), device_objects)` for a ref, None for everything else *)
Definition ref_target (dev : list object) (o : object) : option object :=
  match o with
  | ORef _ _ ov => search_object (override_target ov) dev
  | _ => None
  end.

(* `object.address().or_else(|| ref_target.and_then(|target| target.address()))`, the same for repeat() *)
Definition eff_address (o : object) (tgt : option object) : option Z :=
  match object_address o with
  | Some a => Some a
  | None => match tgt with Some t => object_address t | None => None end
  end.
Definition eff_repeat (o : object) (tgt : option object) : option repeat :=
  match object_repeat o with
  | Some r => Some r
  | None => match tgt with Some t => object_repeat t | None => None end
  end.

(* the objects visited below an object: a block's own, a block ref's target's *)
Definition walk_children (o : object) (tgt : option object) : option (list object) :=
  match o, tgt with
  | OBlock _ _ _ _ objs, _ => Some objs
  | ORef _ _ _, Some (OBlock _ _ _ _ objs) => Some objs
  | _, _ => None
  end.

Definition widen (acc : Z * Z) (mn mx : Z) : Z * Z := (Z.min (fst acc) mn, Z.max (snd acc) mx).

(* the body of the `for object in objects` loop of collect_min_max_addresses; [lo, hi] = (min_block_address,
   max_block_address), [acc] = min_max_addresses_found, [rec] = the recursive call.  Every intermediate value of the
   real i128 arithmetic is guarded: [Fail Overflow] = a panic of a generator built with overflow checks (not reachable
   with i64 addresses / strides and u64 counts unless products near 2^127 are nested). *)
Definition walk_one (rec : list object -> Z -> Z -> Z * Z -> outcome (Z * Z))
           (dev : list object) (filter : object -> bool) (lo hi : Z) (o : object) (acc : Z * Z) : outcome (Z * Z) :=
  let tgt := ref_target dev o in
  match eff_address o tgt with
  | None => Ok acc                                                    (* `continue` *)
  | Some a =>
      let rep := eff_repeat o tgt in
      let last := Z.max (rep_count rep - 1) 0 * rep_stride rep in     (* count.saturating_sub(1) as i128 * stride as i128 *)
      let mn := lo + a + Z.min last 0 in
      let mx := hi + a + Z.max last 0 in
      if negb (in_i128 last && in_i128 (lo + a) && in_i128 mn && in_i128 (hi + a) && in_i128 mx) then Fail Overflow
      else
        let acc1 := if filter o then widen acc mn mx else acc in
        match walk_children o tgt with
        | None => Ok acc1
        | Some ch => rec ch mn mx acc1
        end
  end.

(* the loop: first failure wins *)
Definition walk_list (one : object -> Z * Z -> outcome (Z * Z)) : list object -> Z * Z -> outcome (Z * Z) :=
  fix go l acc := match l with
                  | [] => Ok acc
                  | o :: t => match one o acc with Fail k => Fail k | Ok a => go t a end
                  end.

(* collect_min_max_addresses.  The recursion of the real code goes through search_object for a block ref (a block ref
   nested in its own target never returns): fuel, one unit per block level / block-ref hop, like [instances_objs]. *)
Fixpoint walk_objs (fuel : nat) (dev : list object) (filter : object -> bool) (objs : list object) (lo hi : Z)
         (acc : Z * Z) {struct fuel} : outcome (Z * Z) :=
  match fuel with
  | O => Fail OutOfFuel
  | S f => walk_list (walk_one (walk_objs f dev filter) dev filter lo hi) objs acc
  end.

Definition find_min_max_addresses (fuel : nat) (filter : object -> bool) (objs : list object) : outcome (Z * Z) :=
  walk_objs fuel objs filter objs 0 0 (0, 0).

Definition address_type_of (g : config) (k : akind) : option integer :=
  match k with
  | KRegister => g_register_address_type g
  | KCommand => g_command_address_type g
  | KBuffer => g_buffer_address_type g
  end.

(* address_types_specified: first object (pre-order) of a kind whose address type is missing *)
Definition specified_check (g : config) (o : object) : option gen_error :=
  match o with
  | ORegister _ => match g_register_address_type g with None => Some (mk_err "no_address_type" ["register"]) | _ => None end
  | OCommand _ => match g_command_address_type g with None => Some (mk_err "no_address_type" ["command"]) | _ => None end
  | OBuffer _ => match g_buffer_address_type g with None => Some (mk_err "no_address_type" ["buffer"]) | _ => None end
  | _ => None
  end.

Definition address_types_specified (d : device) : option gen_error :=
  first_error (map (specified_check (d_config d)) (preorder_objects (d_objects d))).

(* the two `ensure!`s of one kind: low bound before high bound *)
Definition range_error (k : akind) (t : integer) (mn mx : Z) : option gen_error :=
  if negb (integer_min t <=? mn)
  then Some (mk_err "address_too_low" [show_akind k; show_Z mn; show_integer t; show_Z (integer_min t)])
  else if negb (mx <=? integer_max t)
  then Some (mk_err "address_too_high" [show_akind k; show_Z mx; show_integer t; show_Z (integer_max t)])
  else None.

Definition big_enough_kind (fuel : nat) (d : device) (k : akind) : outcome (option gen_error) :=
  match address_type_of (d_config d) k with
  | None => Ok None
  | Some t =>
      match find_min_max_addresses fuel (filter_kind k) (d_objects d) with
      | Fail f => Fail f
      | Ok (mn, mx) => Ok (range_error k t mn mx)
      end
  end.

(* address_types_big_enough: register, command, buffer one after the other; the first error (or failure) wins *)
Fixpoint big_enough_seq (fuel : nat) (d : device) (ks : list akind) : outcome (option gen_error) :=
  match ks with
  | [] => Ok None
  | k :: t =>
      match big_enough_kind fuel d k with
      | Fail f => Fail f
      | Ok (Some e) => Ok (Some e)
      | Ok None => big_enough_seq fuel d t
      end
  end.

Definition address_types_big_enough (fuel : nat) (d : device) : outcome (option gen_error) :=
  big_enough_seq fuel d [KRegister; KCommand; KBuffer].

(* u64/u128::next_power_of_two / ilog2 on mathematical integers *)
Definition next_power_of_two (z : Z) : Z := if z <=? 1 then 1 else 2 ^ Z.log2_up z.

(* find_best_internal_address on i128 / u128.  [Fail Overflow]: `(..).add(1).next_power_of_two()` overflows u128
   (only for min = -2^127; not reachable from i64 addresses). *)
Definition best_internal (mn mx : Z) : outcome ity :=
  let needs_signed := mn <? 0 in
  let m := Z.max (Z.abs mn) (Z.abs mx) + 1 in
  if 2 ^ 127 <? m then Fail Overflow
  else
    let needs_bits :=
      Z.max (next_power_of_two (Z.log2 (next_power_of_two m) + (if needs_signed then 1 else 0))) 8 in
    Ok {| signed := needs_signed; bits := needs_bits |}.

(* find_best_internal_address as it was between the repair of the walk and the repair of D3b: sized for the walk with
   `|_| true` only.  HISTORICAL (C13_historical_D3b_signed_product). *)
Definition internal_type_walk_only_at (fuel : nat) (d : device) : outcome ity :=
  match find_min_max_addresses fuel filter_all (d_objects d) with
  | Fail f => Fail f
  | Ok (mn, mx) => best_internal mn mx
  end.

(* what is written out / calculated in the internal type for one object besides the addresses: its (effective) address
   or offset, |stride|, the last index count-1 (saturating) and last index * |stride| (i128; the product of a u64 and
   the magnitude of an i64 always fits).  A ref uses its own address()/repeat(), else its target's, like the walk. *)
Definition object_it_values (dev : list object) (o : object) : list Z :=
  let tgt := ref_target dev o in
  (match eff_address o tgt with Some a => [a] | None => [] end ++
   match eff_repeat o tgt with
   | Some r => [Z.abs (r_stride r); Z.max (r_count r - 1) 0; Z.max (r_count r - 1) 0 * Z.abs (r_stride r)]
   | None => []
   end)%list.

Definition widen_values (mm : Z * Z) (vs : list Z) : Z * Z :=
  fold_left (fun acc v => (Z.min (fst acc) v, Z.max (snd acc) v)) vs mm.

(* the (min, max) the bit formula is applied to: the walk's, widened by the values of EVERY object of the tree
   (recurse_objects: pre-order) *)
Definition internal_range_at (fuel : nat) (d : device) : outcome (Z * Z) :=
  match find_min_max_addresses fuel filter_all (d_objects d) with
  | Fail f => Fail f
  | Ok mm => Ok (widen_values mm (flat_map (object_it_values (d_objects d)) (preorder_objects (d_objects d))))
  end.

Definition internal_type_at (fuel : nat) (d : device) : outcome ity :=
  match internal_range_at fuel d with
  | Fail f => Fail f
  | Ok (mn, mx) => best_internal mn mx
  end.

(* fuel that is enough for the walk of every tree whose block refs are not nested in their own targets (every chain of
   block levels / block-ref hops enters each block's object list at most once) *)
Definition walk_fuel (objs : list object) : nat := S (S (objects_size objs)).

(* the internal type of a device, for users that have no fuel of their own (Emit.v) *)
Definition internal_type (d : device) : outcome ity := internal_type_at (walk_fuel (d_objects d)) d.
Definition internal_type_walk_only (d : device) : outcome ity := internal_type_walk_only_at (walk_fuel (d_objects d)) d.

(* ------------------------------------------------------------------------------------------------ *)
(** * (d-pre) HISTORICAL: find_min_max_addresses and its users as they were BEFORE the repair of D3 / D3c / D4 / D4b /
      D4c (the address_offsets stack / last_depth discipline, i64 / u64 arithmetic).  Only the historical theorems
      of props/C13.v (the five witnesses that used to be accepted) refer to these definitions. *)

Record pre_mm_state := {
  pre_mm_min : Z; pre_mm_max : Z;
  pre_mm_last_depth : nat;
  pre_mm_offsets : list Z;          (* address_offsets WITHOUT its initial 0; head = top of the stack *)
  pre_mm_ok : bool }.               (* false once an intermediate value left i64 (overflow panic in the old pass) *)

Definition pre_mm_init : pre_mm_state :=
  {| pre_mm_min := 0; pre_mm_max := 0; pre_mm_last_depth := O; pre_mm_offsets := []; pre_mm_ok := true |}.

(* while depth < last_depth { address_offsets.pop(); last_depth -= 1; } *)
Fixpoint pre_mm_pop (n : nat) (st : pre_mm_state) : pre_mm_state :=
  match n with
  | O => st
  | S n' => pre_mm_pop n' {| pre_mm_min := pre_mm_min st; pre_mm_max := pre_mm_max st;
                             pre_mm_last_depth := pred (pre_mm_last_depth st);
                             pre_mm_offsets := tl (pre_mm_offsets st); pre_mm_ok := pre_mm_ok st |}
  end.

(* every partial sum of address_offsets.iter().sum::<i64>() (bottom of the stack first) stays in i64 *)
Fixpoint prefix_sums_ok (acc : Z) (l : list Z) : bool :=
  match l with
  | [] => true
  | x :: t => in_i64 (acc + x) && prefix_sums_ok (acc + x) t
  end.

Definition pre_mm_step (filter : object -> bool) (st : pre_mm_state) (od : object * nat) : pre_mm_state :=
  let (o, depth) := od in
  let st1 := pre_mm_pop (pre_mm_last_depth st - depth)%nat st in
  if negb (filter o) then st1
  else
    let st2 :=
      match object_address o with
      | None => st1
      | Some address =>
          let count := rep_count (object_repeat o) in
          let stride := rep_stride (object_repeat o) in
          let total := zsum (pre_mm_offsets st1) in
          let count_0 := total + address in
          let prod := Z.max (count - 1) 0 * stride in        (* count.saturating_sub(1) as i64 * stride *)
          let count_max := count_0 + prod in
          {| pre_mm_min := Z.min (Z.min (pre_mm_min st1) count_0) count_max;
             pre_mm_max := Z.max (Z.max (pre_mm_max st1) count_0) count_max;
             pre_mm_last_depth := pre_mm_last_depth st1; pre_mm_offsets := pre_mm_offsets st1;
             pre_mm_ok := pre_mm_ok st1 && prefix_sums_ok 0 (rev (pre_mm_offsets st1)) && in_i64 count_0 && in_i64 prod
                      && in_i64 count_max |}
      end in
    match o with
    | OBlock _ _ off _ _ =>
        {| pre_mm_min := pre_mm_min st2; pre_mm_max := pre_mm_max st2; pre_mm_last_depth := S (pre_mm_last_depth st2);
           pre_mm_offsets := off :: pre_mm_offsets st2; pre_mm_ok := pre_mm_ok st2 |}
    | _ => st2
    end.

Definition pre_mm_walk (filter : object -> bool) (objs : list object) : pre_mm_state :=
  fold_left (pre_mm_step filter) (preorder objs) pre_mm_init.

Definition pre_find_min_max_addresses (filter : object -> bool) (objs : list object) : Z * Z :=
  let st := pre_mm_walk filter objs in (pre_mm_min st, pre_mm_max st).

Definition pre_big_enough_kind (d : device) (k : akind) : option gen_error :=
  match address_type_of (d_config d) k with
  | None => None
  | Some t => let (mn, mx) := pre_find_min_max_addresses (filter_kind k) (d_objects d) in range_error k t mn mx
  end.

(* The old pass computed in i64 with overflow checks and handled register, command, buffer one after the
   other: an error of an earlier kind came before a panic of a later kind's walk. *)
Fixpoint pre_big_enough_seq (d : device) (ks : list akind) : outcome (option gen_error) :=
  match ks with
  | [] => Ok None
  | k :: t =>
      match address_type_of (d_config d) k with
      | None => pre_big_enough_seq d t
      | Some _ =>
          if negb (pre_mm_ok (pre_mm_walk (filter_kind k) (d_objects d))) then Fail Overflow
          else match pre_big_enough_kind d k with
               | Some e => Ok (Some e)
               | None => pre_big_enough_seq d t
               end
      end
  end.

Definition pre_address_types_big_enough_i64 (d : device) : outcome (option gen_error) :=
  pre_big_enough_seq d [KRegister; KCommand; KBuffer].

(* the old find_best_internal_address on u64.  [Fail Overflow]: `(..).add(1).next_power_of_two()` overflowed u64. *)
Definition pre_best_internal (mn mx : Z) : outcome ity :=
  let needs_signed := mn <? 0 in
  let m := Z.max (Z.abs mn) (Z.abs mx) + 1 in
  if 2 ^ 63 <? m then Fail Overflow
  else
    let needs_bits :=
      Z.max (next_power_of_two (Z.log2 (next_power_of_two m) + (if needs_signed then 1 else 0))) 8 in
    Ok {| signed := needs_signed; bits := needs_bits |}.

Definition pre_internal_type (d : device) : outcome ity :=
  let (mn, mx) := pre_find_min_max_addresses filter_all (d_objects d) in pre_best_internal mn mx.

(* One step of the emitted address arithmetic = one accessor call:
   `self.base_address + ADDR (+|-) index as IT * |STRIDE|`, `assert!(index < count)` first. *)
Record step := { s_addr : Z; s_rep : option repeat; s_idx : Z }.

(* one machine operation in type [it]: debug = overflow checks on *)
Definition arith (debug : bool) (it : ity) (z : Z) : outcome Z :=
  if in_range it z then Ok z else if debug then Fail Overflow else Ok (wrap it z).

Definition step_eval (debug : bool) (it : ity) (base : Z) (s : step) : outcome Z :=
  match s_rep s with
  | None => arith debug it (base + s_addr s)
  | Some r =>
      if negb ((0 <=? s_idx s) && (s_idx s <? r_count r)) then Fail AssertFail
      else
        do t1 <- arith debug it (base + s_addr s);
        let i := wrap it (s_idx s) in                                   (* index as IT *)
        do p <- arith debug it (i * Z.abs (r_stride r));
        arith debug it (if r_stride r <? 0 then t1 - p else t1 + p)
  end.

Fixpoint steps_eval (debug : bool) (it : ity) (base : Z) (l : list step) : outcome Z :=
  match l with
  | [] => Ok base
  | s :: t => do b <- step_eval debug it base s; steps_eval debug it b t
  end.

(* the value handed to the interface: root base 0, block accessors outermost first, the leaf accessor
   last, then `as AT` *)
Definition gen_addr (debug : bool) (it at_ : ity) (path : list step) : outcome Z :=
  do a <- steps_eval debug it 0 path; Ok (wrap at_ a).

(* ------------------------------------------------------------------------------------------------ *)
(** * (e) SPECIFICATION *)

(* the property's formula: sum(block offset + block index * block stride) + address + index * stride *)
Definition step_sem (s : step) : Z := s_addr s + s_idx s * rep_stride (s_rep s).
Definition addr_sem (path : list step) : Z := zsum (map step_sem path).

(* every value the emitted code computes from exact operands on the way down a path: base + ADDR and the step's
   result (= the address of the block instance / of the object itself), for every step *)
Fixpoint checkpoints (base : Z) (path : list step) : list Z :=
  match path with
  | [] => []
  | s :: t => (base + s_addr s) :: (base + step_sem s) :: checkpoints (base + step_sem s) t
  end.

(* the (former) D3b side condition: for every repeated step (enclosing block or the object itself) the largest product
   `index as IT * |STRIDE|` is representable in the internal type *)
Definition step_product_ok (it : ity) (s : step) : Prop :=
  match s_rep s with
  | Some r => (r_count r - 1) * Z.abs (r_stride r) <= ity_max it
  | None => True
  end.
Definition steps_product_ok (it : ity) (path : list step) : Prop := Forall (step_product_ok it) path.
Definition step_product_okb (it : ity) (s : step) : bool :=
  match s_rep s with
  | Some r => (r_count r - 1) * Z.abs (r_stride r) <=? ity_max it
  | None => true
  end.
(* the class of the repaired defect D3b: signed internal type and a step whose largest product does not fit it *)
Definition d3b_class (it : ity) (path : list step) : bool := signed it && negb (forallb (step_product_okb it) path).

(* why an instance is outside the class covered by C13_partial / C12_reject_iff_collision_partial *)
Inductive tag :=
| TRepBlock        (* an enclosing block (or block ref) is repeated            — D3  *)
| TBlockRef        (* reached through a block ref                               — D4  *)
| TRefNoAddr       (* a register/command ref that keeps its target's address    — D4b *)
| TRefKeepsRepeat  (* a register/command ref that keeps its target's repeat     — D4c *)
| TOwnFlag.        (* a ref that sets allow_address_overlap itself              — D10 *)

Definition tag_eqb (a b : tag) : bool :=
  match a, b with
  | TRepBlock, TRepBlock | TBlockRef, TBlockRef | TRefNoAddr, TRefNoAddr
  | TRefKeepsRepeat, TRefKeepsRepeat | TOwnFlag, TOwnFlag => true
  | _, _ => false
  end.

Record instance := {
  i_kind : akind;
  i_blocks : list (string * Z);   (* enclosing block instances, outermost first: (block name, index) *)
  i_name : string;                (* the object's own name (the ref's name for a ref) *)
  i_index : option Z;             (* own repeat index, None when the object is not repeated *)
  i_path : list step;             (* enclosing blocks outermost first, then the object itself *)
  i_allow : bool;                 (* effective flag: target's flag OR the ref's own flag *)
  i_tags : list tag }.

Definition i_addr (i : instance) : Z := addr_sem (i_path i).

(* a leaf object seen through refs.md's "a ref is a copy of another object where parts are overridden" *)
Record leaf := { lf_kind : akind; lf_name : string; lf_addr : Z; lf_rep : option repeat; lf_allow : bool;
                 lf_tags : list tag }.

Definition leaf_instances (blocks : list (string * Z)) (path : list step) (tags : list tag) (l : leaf) : list instance :=
  map (fun i => {| i_kind := lf_kind l; i_blocks := blocks; i_name := lf_name l;
                   i_index := if rep_is (lf_rep l) then Some i else None;
                   i_path := (path ++ [{| s_addr := lf_addr l; s_rep := lf_rep l; s_idx := i |}])%list;
                   i_allow := lf_allow l; i_tags := (tags ++ lf_tags l)%list |})
      (zrange (rep_count (lf_rep l))).

Definition opt_tag (b : bool) (t : tag) : list tag := if b then [t] else [].
Definition is_none {A} (o : option A) : bool := match o with None => true | Some _ => false end.

(* Every instance below a list of objects.  A block ref expands ITS TARGET's children at the ref's
   offset / repeat (falling back to the target's), which is not structural: fuel (one unit per block
   level).  The block name recorded for a block ref is its target's (the generated struct's) name. *)
Fixpoint instances_objs (fuel : nat) (dev : list object) (objs : list object)
         (blocks : list (string * Z)) (path : list step) (tags : list tag) {struct fuel} : outcome (list instance) :=
  match fuel with
  | O => Fail OutOfFuel
  | S f =>
    let block_instances (name : string) (off : Z) (rep : option repeat) (children : list object) (tags' : list tag) :=
      ocat (map (fun i => instances_objs f dev children (blocks ++ [(name, i)])%list
                            (path ++ [{| s_addr := off; s_rep := rep; s_idx := i |}])%list
                            (tags' ++ opt_tag (rep_is rep) TRepBlock)%list)
                (zrange (rep_count rep))) in
    ocat (map (fun o =>
      match o with
      | ORegister r =>
          Ok (leaf_instances blocks path tags
                {| lf_kind := KRegister; lf_name := rg_name r; lf_addr := rg_address r; lf_rep := rg_repeat r;
                   lf_allow := rg_allow_address_overlap r; lf_tags := [] |})
      | OCommand c =>
          Ok (leaf_instances blocks path tags
                {| lf_kind := KCommand; lf_name := cm_name c; lf_addr := cm_address c; lf_rep := cm_repeat c;
                   lf_allow := cm_allow_address_overlap c; lf_tags := [] |})
      | OBuffer b =>
          Ok (leaf_instances blocks path tags
                {| lf_kind := KBuffer; lf_name := bf_name b; lf_addr := bf_address b; lf_rep := None;
                   lf_allow := false; lf_tags := [] |})
      | OBlock _ name off rep children => block_instances name off rep children tags
      | ORef _ name (OvRegister tgt _ addr allow _ rep) =>
          match search_object tgt dev with
          | Some (ORegister r) =>
              Ok (leaf_instances blocks path tags
                    {| lf_kind := KRegister; lf_name := name; lf_addr := or_else addr (rg_address r);
                       lf_rep := or_else_opt rep (rg_repeat r);
                       lf_allow := rg_allow_address_overlap r || allow;
                       lf_tags := (opt_tag (is_none addr) TRefNoAddr
                                  ++ opt_tag (is_none rep && rep_is (rg_repeat r)) TRefKeepsRepeat
                                  ++ opt_tag allow TOwnFlag)%list |})
          | _ => Fail AssertFail
          end
      | ORef _ name (OvCommand tgt addr allow rep) =>
          match search_object tgt dev with
          | Some (OCommand c) =>
              Ok (leaf_instances blocks path tags
                    {| lf_kind := KCommand; lf_name := name; lf_addr := or_else addr (cm_address c);
                       lf_rep := or_else_opt rep (cm_repeat c);
                       lf_allow := cm_allow_address_overlap c || allow;
                       lf_tags := (opt_tag (is_none addr) TRefNoAddr
                                  ++ opt_tag (is_none rep && rep_is (cm_repeat c)) TRefKeepsRepeat
                                  ++ opt_tag allow TOwnFlag)%list |})
          | _ => Fail AssertFail
          end
      | ORef _ _ (OvBlock tgt off rep) =>
          match search_object tgt dev with
          | Some (OBlock _ tname toff trep children) =>
              block_instances tname (or_else off toff) (or_else_opt rep trep) children (tags ++ [TBlockRef])%list
          | _ => Fail AssertFail
          end
      end) objs)
  end.

Definition instances (fuel : nat) (objs : list object) : outcome (list instance) :=
  instances_objs fuel objs objs [] [] [].

(* What the min/max walk of a filter is ABOUT, as a list: below a list of objects standing at [base], for every object
   with an (effective) address, every address base + ADDR + k * stride over its (effective) repeat — a count of 0
   counting like 1, its index-0 address — listed if the filter lets the object through; and, for a block or a block
   ref, everything below its children (its target's children) standing at each of those addresses.  For [filter_kind k]
   these are the addresses of all instances of kind k and the base addresses of all block instances. *)
Fixpoint points_objs (fuel : nat) (dev : list object) (filter : object -> bool) (objs : list object) (base : Z)
         {struct fuel} : outcome (list Z) :=
  match fuel with
  | O => Fail OutOfFuel
  | S f =>
    ocat (map (fun o =>
      let tgt := ref_target dev o in
      match eff_address o tgt with
      | None => Ok []
      | Some a =>
          let rep := eff_repeat o tgt in
          let own := map (fun k => base + a + k * rep_stride rep) (zrange (Z.max (rep_count rep) 1)) in
          let listed := if filter o then own else [] in
          match walk_children o tgt with
          | None => Ok listed
          | Some ch => match ocat (map (points_objs f dev filter ch) own) with
                       | Fail k => Fail k
                       | Ok below => Ok (listed ++ below)%list
                       end
          end
      end) objs)
  end.

Definition points (fuel : nat) (filter : object -> bool) (objs : list object) : outcome (list Z) :=
  points_objs fuel objs filter objs 0.

(* two instances collide: same kind, same absolute address, not both allowing overlap.  "Distinct" is
   positional: instances are the entries of the instance list at two different positions. *)
Definition collide (a b : instance) : bool :=
  akind_eqb (i_kind a) (i_kind b) && (i_addr a =? i_addr b) && negb (i_allow a && i_allow b).

Definition collision (l : list instance) : Prop :=
  exists i j a b, (i < j)%nat /\ nth_error l i = Some a /\ nth_error l j = Some b /\ collide a b = true.

(* executable form of [collision]: first colliding pair in (i, j) lexicographic order *)
Fixpoint first_collide (a : instance) (rest : list instance) : option (instance * instance) :=
  match rest with
  | [] => None
  | b :: t => if collide a b then Some (a, b) else first_collide a t
  end.
Fixpoint find_collision (l : list instance) : option (instance * instance) :=
  match l with
  | [] => None
  | a :: t => match first_collide a t with Some p => Some p | None => find_collision t end
  end.

(* the addresses reachable for a kind: every valid index tuple *)
Definition reach (k : akind) (l : list instance) : list Z :=
  map i_addr (filter (fun i => akind_eqb (i_kind i) k) l).

Definition fits (t : ity) (addrs : list Z) : bool := forallb (in_range t) addrs.

(* how the collision pass (and the user) would name an instance *)
Definition instance_display (i : instance) : string :=
  String.concat "::" (map (fun bi => (fst bi ++ index_suffix (snd bi))%string) (i_blocks i) ++ [i_name i])%list
  ++ match i_index i with Some k => index_suffix k | None => "" end.

(* what a claimed address and an instance have in common *)
Definition claimed_view (c : claimed) : akind * string * Z * bool := (c_kind c, claimed_display c, c_address c, c_allow c).
Definition instance_view (i : instance) : akind * string * Z * bool := (i_kind i, instance_display i, i_addr i, i_allow i).
(* the same without the flag: this part agrees even for refs that set their own flag *)
Definition claimed_view3 (c : claimed) : akind * string * Z := (c_kind c, claimed_display c, c_address c).
Definition instance_view3 (i : instance) : akind * string * Z := (i_kind i, instance_display i, i_addr i).

(* classes of definitions *)
Definition has_tag (t : tag) (i : instance) : bool := existsb (tag_eqb t) (i_tags i).

(* structural predicates on the MIR tree used in the partial theorems *)
Definition obj_no_block_repeat (o : object) : bool :=
  match o with OBlock _ _ _ (Some _) _ => false | _ => true end.
Definition obj_no_block_ref (o : object) : bool :=
  match o with ORef _ _ (OvBlock _ _ _) => false | _ => true end.
Definition obj_ref_overrides_address (o : object) : bool :=
  match o with
  | ORef _ _ (OvRegister _ _ None _ _ _) | ORef _ _ (OvCommand _ None _ _) => false
  | _ => true
  end.
(* a register/command ref either overrides the repeat or its target is not repeated *)
Definition obj_ref_repeat_known (dev : list object) (o : object) : bool :=
  match o with
  | ORef _ _ (OvRegister tgt _ _ _ _ None) | ORef _ _ (OvCommand tgt _ _ None) =>
      match search_object tgt dev with
      | Some t => is_none (object_repeat t)
      | None => false
      end
  | _ => true
  end.
Definition obj_ref_no_own_flag (o : object) : bool :=
  match o with
  | ORef _ _ (OvRegister _ _ _ true _ _) | ORef _ _ (OvCommand _ _ true _) => false
  | _ => true
  end.

Definition simple_tree (objs : list object) : bool :=
  forallb (fun o => obj_no_block_repeat o && obj_no_block_ref o && obj_ref_overrides_address o
                    && obj_ref_repeat_known objs o) (preorder_objects objs).

Definition no_own_flag (objs : list object) : bool := forallb obj_ref_no_own_flag (preorder_objects objs).

(* ------------------------------------------------------------------------------------------------ *)
(** * The address part of the pipeline, and the strings the correspondence checks compare *)

Definition show_outcome_kind (k : failkind) : string :=
  match k with
  | OOB => "oob" | ShiftOvf => "shift" | Underflow => "underflow" | Overflow => "overflow"
  | AssertFail => "assert" | OutOfFuel => "fuel"
  end.

(* address_types_specified, address_types_big_enough, lir_transform (lowering + internal type),
   addresses_non_overlapping; first error wins; [Fail] where the real generator would panic
   (or never return, for fuel) *)
Definition addr_check (fx : bool) (fuel : nat) (dev_name : string) (d : device) : outcome (option gen_error) :=
  match address_types_specified d with
  | Some e => Ok (Some e)
  | None =>
    match address_types_big_enough fuel d with
    | Fail k => Fail k
    | Ok (Some e) => Ok (Some e)
    | Ok None =>
      match lower fx fuel dev_name (d_objects d) with
      | Fail k => Fail k
      | Ok blocks =>
        match internal_type_at fuel d with
        | Fail k => Fail k
        | Ok _ => overlap_pass fuel blocks
        end
      end
    end
  end.

(* the definition passes every address-related check *)
Definition accepted (fx : bool) (fuel : nat) (dev_name : string) (d : device) : Prop := addr_check fx fuel dev_name d = Ok None.

(* HISTORICAL: the same with the walk as it was before the repair (section (d-pre)) *)
Definition pre_addr_check (fx : bool) (fuel : nat) (dev_name : string) (d : device) : outcome (option gen_error) :=
  match address_types_specified d with
  | Some e => Ok (Some e)
  | None =>
    match pre_address_types_big_enough_i64 d with
    | Fail k => Fail k
    | Ok (Some e) => Ok (Some e)
    | Ok None =>
      match lower fx fuel dev_name (d_objects d) with
      | Fail k => Fail k
      | Ok blocks =>
        if negb (pre_mm_ok (pre_mm_walk filter_all (d_objects d))) then Fail Overflow
        else
        match pre_internal_type d with
        | Fail k => Fail k
        | Ok _ => overlap_pass fuel blocks
        end
      end
    end
  end.

Definition pre_accepted (fx : bool) (fuel : nat) (dev_name : string) (d : device) : Prop :=
  pre_addr_check fx fuel dev_name d = Ok None.

Definition addr_pipeline (fx : bool) (fuel : nat) (dev_name : string) (d : device) : string :=
  match addr_check fx fuel dev_name d with
  | Fail k => "panic:" ++ show_outcome_kind k
  | Ok r => show_result_unit r
  end.

(* names of the block objects of a tree; names_unique guarantees they are pairwise distinct *)
Definition block_name_of (o : object) : list string :=
  match o with OBlock _ n _ _ _ => [n] | _ => [] end.
Definition block_names (objs : list object) : list string := flat_map block_name_of (preorder_objects objs).

Definition show_ity (t : ity) : string := (if signed t then "i" else "u") ++ show_Z (bits t).

Definition show_tag (t : tag) : string :=
  match t with
  | TRepBlock => "D3" | TBlockRef => "D4" | TRefNoAddr => "D4b" | TRefKeepsRepeat => "D4c" | TOwnFlag => "D10"
  end.

Definition show_tags (l : list tag) : string := String.concat "+" (map show_tag l).

(* C12 spec verdict: "none" or "collision:<name a>|<name b>|<address>|<tags of both>" *)
Definition c12_spec (fuel : nat) (d : device) : string :=
  match instances fuel (d_objects d) with
  | Fail k => "fail:" ++ show_outcome_kind k
  | Ok l =>
    match find_collision l with
    | None => "none"
    | Some (a, b) => "collision:" ++ instance_display a ++ "|" ++ instance_display b ++ "|" ++ show_Z (i_addr a)
                     ++ "|" ++ show_tags (i_tags a ++ i_tags b)%list
    end
  end.

Definition any_own_flag (l : list instance) : bool := existsb (has_tag TOwnFlag) l.

(* model ## spec ## whether some ref sets its own flag *)
Definition c12_result (fx : bool) (fuel : nat) (dev_name : string) (d : device) : string :=
  addr_pipeline fx fuel dev_name d ++ " ## " ++ c12_spec fuel d ++ " ## " ++
  match instances fuel (d_objects d) with
  | Ok l => show_bool (any_own_flag l)
  | Fail _ => "-"
  end.

(* the tags that matter for C13 (TOwnFlag is about C12 only) *)
Definition c13_tags (i : instance) : list tag := filter (fun t => negb (tag_eqb t TOwnFlag)) (i_tags i).
Definition untagged (i : instance) : bool := match c13_tags i with [] => true | _ => false end.

(* C13 spec verdict per kind: an instance whose address does not fit the kind's address type — the first
   UNTAGGED one if there is one (outside every known class), else the first:
   "unfit:<kind>|<name>|<address>|<tags>"; "missing:<kind>" when instances of a kind exist without an
   address type; else nothing *)
Definition c13_spec_kind (g : config) (l : list instance) (k : akind) : option string :=
  let mine := filter (fun i => akind_eqb (i_kind i) k) l in
  match mine, address_type_of g k with
  | [], _ => None
  | _ :: _, None => Some ("missing:" ++ show_akind k)
  | _ :: _, Some t =>
      let unfit := filter (fun i => negb (in_range (integer_ity t) (i_addr i))) mine in
      match or_else_opt (find untagged unfit) (hd_error unfit) with
      | Some i => Some ("unfit:" ++ show_akind k ++ "|" ++ instance_display i ++ "|" ++ show_Z (i_addr i) ++ "|"
                        ++ show_tags (c13_tags i))
      | None => None
      end
  end.

Definition c13_spec (fuel : nat) (d : device) : string :=
  match instances fuel (d_objects d) with
  | Fail k => "fail:" ++ show_outcome_kind k
  | Ok l =>
    match flat_map (fun k => match c13_spec_kind (d_config d) l k with Some s => [s] | None => [] end)
                   [KRegister; KCommand; KBuffer] with
    | [] => "fits"
    | vs => String.concat ";" vs
    end
  end.

(* model ## spec ## internal type *)
Definition c13_result (fx : bool) (fuel : nat) (dev_name : string) (d : device) : string :=
  addr_pipeline fx fuel dev_name d ++ " ## " ++ c13_spec fuel d ++ " ## " ++
  match internal_type_at fuel d with Ok t => show_ity t | Fail _ => "-" end.

(* L2: for every instance of an accepted definition whose index tuple is extreme (every index 0 or count-1):
   "<kind>|<accessor path a.b(i).c(j)>|<addr_sem>|<debug outcome>|<release value>|<D3b or nothing>" — the check calls
   the compiled accessor path and compares the recorded bus address; the last field says whether the path is in the
   class of the repaired defect D3b (signed internal type, a step product beyond its maximum): never, since the internal
   type covers every product (AddrProofs.steps_product_ok_holds); kept so that the check can say so *)
Definition show_outcome_Z (o : outcome Z) : string :=
  match o with Ok z => show_Z z | Fail k => "panic:" ++ show_outcome_kind k end.

Definition step_extreme (s : step) : bool :=
  match s_rep s with
  | None => true
  | Some r => (s_idx s =? 0) || (s_idx s =? r_count r - 1)
  end.

Definition show_step_index (s : step) : string :=
  match s_rep s with None => "-" | Some _ => show_Z (s_idx s) end.

Definition l2_line (g : config) (it : ity) (i : instance) : string :=
  let at_ := match address_type_of g (i_kind i) with Some t => integer_ity t | None => it end in
  show_akind (i_kind i) ++ "|" ++
  String.concat "." (map fst (i_blocks i) ++ [i_name i])%list ++ "|" ++
  String.concat "." (map show_step_index (i_path i)) ++ "|" ++
  show_Z (i_addr i) ++ "|" ++
  show_outcome_Z (gen_addr true it at_ (i_path i)) ++ "|" ++
  show_outcome_Z (gen_addr false it at_ (i_path i)) ++ "|" ++
  (if d3b_class it (i_path i) then "D3b" else "").

Definition c13_l2 (fuel : nat) (d : device) : string :=
  match instances fuel (d_objects d), internal_type_at fuel d with
  | Ok l, Ok it =>
      String.concat ";" (map (l2_line (d_config d) it) (filter (fun i => forallb step_extreme (i_path i)) l))
  | _, _ => "fail"
  end.
