(* BitsRoundtrip.v — consequences of the layout theorems: isolation, locality, round trip,
   setter sequences, store footprint (C02, C03 ops half). *)
From Coq Require Import ZArith List Bool Lia ZifyBool.
From DD Require Import Common Carrier Bits BitsSpec BitsProofs.
Import ListNotations.
Open Scope Z_scope.
Ltac Zify.zify_post_hook ::= Z.div_mod_to_equations.

Definition guard (ptrw : Z) (c : cty) (data : list Z) (s e : Z) : Prop :=
  In ptrw ptr_widths /\ In c carriers /\ bytes_ok data /\
  0 <= s /\ s < e /\ e <= 8 * Z.of_nat (length data) /\ e - s <= bits (cty_ity ptrw c).

(* ---------- locality of load ---------- *)

Lemma spec_load_local bo bito d1 d2 s e :
  0 <= s -> s <= e ->
  (forall k, s <= k < e -> setbit bo bito d1 k = setbit bo bito d2 k) ->
  spec_load bo bito d1 s e = spec_load bo bito d2 s e.
Proof.
  intros Hs Hse H. apply Z.bits_inj'. intros j Hj. rewrite !spec_load_bits by lia.
  destruct (Z.ltb_spec j (e - s)); [|reflexivity]. cbn [andb].
  apply H. unfold field_pos. apply mirror_range; lia.
Qed.

Theorem load_local ptrw bo bito c d1 d2 s e :
  guard ptrw c d1 s e -> bytes_ok d2 -> length d2 = length d1 ->
  (forall k, s <= k < e -> setbit bo bito d1 k = setbit bo bito d2 k) ->
  load ptrw bo bito c d1 s e = load ptrw bo bito c d2 s e.
Proof.
  intros (Hp & Hc & Hd & Hs & Hse & He & Hw) Hd2 Hlen H.
  rewrite (load_layout ptrw bo bito c d1 s e) by assumption.
  rewrite (load_layout ptrw bo bito c d2 s e) by (try assumption; rewrite Hlen; assumption).
  rewrite (spec_load_local bo bito d1 d2 s e) by (try assumption; lia). reflexivity.
Qed.

(* ---------- round trip ---------- *)

Lemma spec_load_after_store bo bito v s e data data' :
  0 <= s -> s < e -> e <= 8 * Z.of_nat (length data) ->
  store_post bo bito v s e data data' ->
  spec_load bo bito data' s e = v mod 2 ^ (e - s).
Proof.
  intros Hs Hse He (Hlen & Hok & Hbits).
  apply Z.bits_inj'. intros j Hj. rewrite spec_load_bits by lia.
  destruct (Z.ltb_spec j (e - s)) as [Hlt|Hge]; cbn [andb].
  - rewrite Z.mod_pow2_bits_low by lia.
    unfold field_pos.
    pose proof (mirror_range bito s e (s + j) Hs ltac:(lia)) as [Hm _].
    rewrite Hbits by lia.
    destruct (Z.leb_spec s (mirror bito s e (s + j))); [|lia].
    destruct (Z.ltb_spec (mirror bito s e (s + j)) e); [|lia]. cbn [andb].
    rewrite mirror_invol by (try assumption; lia). f_equal. lia.
  - rewrite Z.mod_pow2_bits_high by lia. reflexivity.
Qed.

Theorem roundtrip ptrw bo bito c v data s e :
  guard ptrw c data s e ->
  exists data', store ptrw bo bito c v s e data = Some (Ok data') /\
    load ptrw bo bito c data' s e = Some (Ok (wrap (cty_ity ptrw c) (v mod 2 ^ (e - s)))).
Proof.
  intros (Hp & Hc & Hd & Hs & Hse & He & Hw).
  destruct (store_layout ptrw bo bito c v data s e) as (data' & Hst & Hpost); try assumption.
  exists data'. split; [assumption|].
  destruct Hpost as (Hlen & Hok & Hbits).
  rewrite load_layout; try assumption; try (rewrite Hlen; assumption).
  rewrite (spec_load_after_store bo bito v s e data data'); try assumption; [reflexivity|].
  repeat split; assumption.
Qed.

Lemma wrap_unsigned_small t x : signed t = false -> 0 <= x < 2 ^ bits t -> wrap t x = x.
Proof. intros Hs Hx. unfold wrap. rewrite Hs. cbn [andb]. apply Z.mod_small. assumption. Qed.

Lemma pow2_le a b : 0 <= a <= b -> 2 ^ a <= 2 ^ b.
Proof. intros. apply Z.pow_le_mono_r; lia. Qed.

Theorem roundtrip_unsigned ptrw bo bito c v data s e :
  guard ptrw c data s e -> signed (cty_ity ptrw c) = false ->
  exists data', store ptrw bo bito c v s e data = Some (Ok data') /\
    load ptrw bo bito c data' s e = Some (Ok (v mod 2 ^ (e - s))).
Proof.
  intros G Hu. destruct (roundtrip ptrw bo bito c v data s e G) as (data' & H1 & H2).
  exists data'. split; [assumption|]. rewrite H2. do 2 f_equal.
  destruct G as (_ & _ & _ & Hs & Hse & _ & Hw).
  apply wrap_unsigned_small; [assumption|].
  pose proof (Z.mod_pos_bound v (2 ^ (e - s)) ltac:(apply pow2_pos; lia)).
  pose proof (pow2_le (e - s) (bits (cty_ity ptrw c)) ltac:(lia)). lia.
Qed.

(* signed carrier, field as wide as the carrier: exact for every representable value *)
Theorem roundtrip_signed_full ptrw bo bito c v data s e :
  guard ptrw c data s e -> signed (cty_ity ptrw c) = true -> e - s = bits (cty_ity ptrw c) ->
  in_range (cty_ity ptrw c) v = true ->
  exists data', store ptrw bo bito c v s e data = Some (Ok data') /\
    load ptrw bo bito c data' s e = Some (Ok v).
Proof.
  intros G Hsg Hfull Hr. destruct (roundtrip ptrw bo bito c v data s e G) as (data' & H1 & H2).
  exists data'. split; [assumption|]. rewrite H2. do 2 f_equal.
  destruct G as (_ & _ & _ & Hs & Hse & _ & Hw).
  set (t := cty_ity ptrw c) in *. set (b := bits t) in *.
  assert (Hb : 0 < b) by lia.
  assert (wrap t (v mod 2 ^ (e - s)) = wrap t v) as ->.
  { apply wrap_depends_on_mod. fold b. rewrite Hfull. apply Z.mod_mod. pose proof (pow2_pos b). lia. }
  unfold in_range, ity_min, ity_max in Hr. rewrite Hsg in Hr. fold b in Hr.
  unfold wrap. rewrite Hsg. fold b. cbn [andb].
  assert (H2b : 2 ^ b = 2 * 2 ^ (b - 1)).
  { replace b with (Z.succ (b - 1)) at 1 by lia. rewrite Z.pow_succ_r by lia. reflexivity. }
  pose proof (pow2_pos (b - 1) ltac:(lia)).
  destruct (Z_lt_ge_dec v 0).
  - assert (v mod 2 ^ b = v + 2 ^ b) as ->.
    { symmetry. apply Z.mod_unique with (q := -1); lia. }
    destruct (2 ^ (b - 1) <=? v + 2 ^ b) eqn:E; lia.
  - rewrite Z.mod_small by lia.
    destruct (2 ^ (b - 1) <=? v) eqn:E; lia.
Qed.

(* signed carrier, field narrower than the carrier: the model (and the code) return the UNSIGNED
   reading of the w low bits, which is the two's-complement reading only when bit w-1 is clear *)
Theorem roundtrip_signed_narrow ptrw bo bito c v data s e :
  guard ptrw c data s e -> e - s < bits (cty_ity ptrw c) ->
  exists data', store ptrw bo bito c v s e data = Some (Ok data') /\
    load ptrw bo bito c data' s e = Some (Ok (v mod 2 ^ (e - s))).
Proof.
  intros G Hn. destruct (roundtrip ptrw bo bito c v data s e G) as (data' & H1 & H2).
  exists data'. split; [assumption|]. rewrite H2. do 2 f_equal.
  destruct G as (_ & _ & _ & Hs & Hse & _ & Hw).
  set (t := cty_ity ptrw c) in *. set (b := bits t) in *.
  pose proof (Z.mod_pos_bound v (2 ^ (e - s)) ltac:(apply pow2_pos; lia)) as Hm.
  pose proof (pow2_le (e - s) (b - 1) ltac:(lia)) as Hle.
  assert (H2b : 2 ^ b = 2 * 2 ^ (b - 1)).
  { replace b with (Z.succ (b - 1)) at 1 by lia. rewrite Z.pow_succ_r by lia. reflexivity. }
  unfold wrap. fold b. rewrite (Z.mod_small (v mod 2 ^ (e - s))) by lia.
  destruct (signed t); cbn [andb]; [|reflexivity].
  destruct (2 ^ (b - 1) <=? v mod 2 ^ (e - s)) eqn:E; [lia|reflexivity].
Qed.

Lemma signed_of_small w v : 0 < w -> v mod 2 ^ w < 2 ^ (w - 1) -> signed_of w v = v mod 2 ^ w.
Proof. intros Hw H. unfold signed_of. destruct (2 ^ (w - 1) <=? v mod 2 ^ w) eqn:E; [lia|reflexivity]. Qed.

(* ---------- isolation & setter sequences ---------- *)

Theorem store_isolation ptrw bo bito c v data s e :
  guard ptrw c data s e ->
  exists data', store ptrw bo bito c v s e data = Some (Ok data') /\
    length data' = length data /\ bytes_ok data' /\
    forall k, 0 <= k < 8 * Z.of_nat (length data) -> ~ (s <= k < e) ->
      setbit bo bito data' k = setbit bo bito data k.
Proof.
  intros (Hp & Hc & Hd & Hs & Hse & He & Hw).
  destruct (store_layout ptrw bo bito c v data s e) as (data' & Hst & Hlen & Hok & Hbits); try assumption.
  exists data'. repeat split; try assumption.
  intros k Hk Hout. rewrite Hbits by assumption.
  destruct (Z.leb_spec s k); cbn [andb]; [|reflexivity].
  destruct (Z.ltb_spec k e); [lia|reflexivity].
Qed.

(* one setter call: carrier, range, value *)
Record setter := { st_c : cty; st_s : Z; st_e : Z; st_v : Z }.

Definition apply_setter ptrw bo bito (acc : option (list Z)) (st : setter) : option (list Z) :=
  match acc with
  | None => None
  | Some d => match store ptrw bo bito (st_c st) (st_v st) (st_s st) (st_e st) d with
              | Some (Ok d') => Some d'
              | _ => None
              end
  end.

Definition setter_ok ptrw (len : nat) (st : setter) : Prop :=
  In (st_c st) carriers /\ 0 <= st_s st /\ st_s st < st_e st /\ st_e st <= 8 * Z.of_nat len /\
  st_e st - st_s st <= bits (cty_ity ptrw (st_c st)).

Definition disjoint_from (s e : Z) (st : setter) : Prop := st_e st <= s \/ e <= st_s st.

Theorem setter_sequence_preserves ptrw bo bito c s e sts : forall data,
  guard ptrw c data s e ->
  Forall (setter_ok ptrw (length data)) sts -> Forall (disjoint_from s e) sts ->
  exists data', fold_left (apply_setter ptrw bo bito) sts (Some data) = Some data' /\
    length data' = length data /\ bytes_ok data' /\
    load ptrw bo bito c data' s e = load ptrw bo bito c data s e.
Proof.
  induction sts as [|st t IH]; intros data G Hok Hdis; cbn [fold_left].
  - exists data. destruct G as (_ & _ & Hd & _). repeat split; auto.
  - inversion Hok as [|? ? Hst Hok']; subst. inversion Hdis as [|? ? Hd1 Hdis']; subst.
    destruct G as (Hp & Hc & Hd & Hs & Hse & He & Hw).
    destruct Hst as (Hc' & Hs' & Hse' & He' & Hw').
    destruct (store_isolation ptrw bo bito (st_c st) (st_v st) data (st_s st) (st_e st))
      as (d1 & Hstore & Hlen1 & Hok1 & Hiso).
    { repeat split; assumption. }
    unfold apply_setter at 2. rewrite Hstore.
    assert (G1 : guard ptrw c d1 s e) by (repeat split; try assumption; rewrite Hlen1; assumption).
    destruct (IH d1 G1) as (d2 & Hf & Hlen2 & Hok2 & Hload).
    { rewrite Hlen1. assumption. }
    { assumption. }
    exists d2. repeat split; try assumption; [congruence|].
    rewrite Hload. symmetry.
    apply load_local; try assumption; [repeat split; assumption|].
    intros k Hk. symmetry. apply Hiso; [lia|]. unfold disjoint_from in Hd1. lia.
Qed.

(* ---------- footprint (C03) ---------- *)

Lemma byte_eq_of_bits a b : 0 <= a < 256 -> 0 <= b < 256 ->
  (forall c, 0 <= c < 8 -> Z.testbit a c = Z.testbit b c) -> a = b.
Proof.
  intros Ha Hb H. apply Z.bits_inj'. intros c Hc.
  destruct (Z_lt_ge_dec c 8); [apply H; lia|].
  rewrite !byte_high_bits by lia. reflexivity.
Qed.

(* the set-bit index that lives at (byte idx, bit b) *)
Definition unphys (bo : byte_order) (bito : bit_order) (len idx b : Z) : Z :=
  8 * (match bo with LE => idx | BE => len - 1 - idx end) + (match bito with LSB0 => b | MSB0 => 7 - b end).

Lemma unphys_ok bo bito len idx b : 0 <= idx < len -> 0 <= b < 8 ->
  let k := unphys bo bito len idx b in
  0 <= k < 8 * len /\ phys_byte bo len k = idx /\ phys_bit bito k = b.
Proof. intros H1 H2 k; subst k; destruct bo, bito; unfold unphys, phys_byte, phys_bit; lia. Qed.

Theorem store_footprint ptrw bo bito c v data s e :
  guard ptrw c data s e ->
  exists data', store ptrw bo bito c v s e data = Some (Ok data') /\ length data' = length data /\
    forall idx, (idx < length data)%nat ->
      (forall k, s <= k < e -> phys_byte bo (Z.of_nat (length data)) k <> Z.of_nat idx) ->
      nth idx data' 0 = nth idx data 0.
Proof.
  intros G. destruct (store_isolation ptrw bo bito c v data s e G) as (data' & Hst & Hlen & Hok & Hiso).
  exists data'. repeat split; try assumption.
  intros idx Hidx Hout.
  destruct G as (_ & _ & Hd & _).
  apply byte_eq_of_bits; [apply nth_bytes_ok; assumption|apply nth_bytes_ok; assumption|].
  intros b Hb.
  set (L := Z.of_nat (length data)) in *.
  destruct (unphys_ok bo bito L (Z.of_nat idx) b ltac:(lia) Hb) as (Hk & Hpb & Hbit).
  set (k := unphys bo bito L (Z.of_nat idx) b) in *.
  assert (Hnot : ~ (s <= k < e)) by (intros Hin; apply (Hout k Hin); assumption).
  specialize (Hiso k Hk Hnot). unfold setbit in Hiso.
  rewrite Hlen in Hiso. fold L in Hiso. rewrite Hpb, Hbit, Nat2Z.id in Hiso. exact Hiso.
Qed.

(* ---------- a decidable form of the guard (for examples and witnesses) ---------- *)

Definition guardb (ptrw : Z) (c : cty) (data : list Z) (s e : Z) : bool :=
  existsb (Z.eqb ptrw) ptr_widths && existsb (cty_eqb c) carriers &&
  forallb (fun b => (0 <=? b) && (b <? 256)) data &&
  (0 <=? s) && (s <? e) && (e <=? 8 * Z.of_nat (length data)) && (e - s <=? bits (cty_ity ptrw c)).

Lemma cty_eqb_eq a b : cty_eqb a b = true -> a = b.
Proof. destruct a, b; cbn; congruence. Qed.

Lemma guardb_sound ptrw c data s e : guardb ptrw c data s e = true -> guard ptrw c data s e.
Proof.
  unfold guardb, guard. intros H.
  repeat (apply andb_true_iff in H; destruct H as [H ?]).
  repeat split; try lia.
  - apply existsb_exists in H. destruct H as (x & Hin & Hx). apply Z.eqb_eq in Hx. subst. assumption.
  - match goal with H : existsb (cty_eqb c) carriers = true |- _ =>
      apply existsb_exists in H; destruct H as (x & Hin & Hx); apply cty_eqb_eq in Hx; subst; assumption end.
  - match goal with H : forallb _ data = true |- _ => rewrite forallb_forall in H end.
    unfold bytes_ok. rewrite Forall_forall. intros b Hb.
    match goal with H : forall x, In x data -> _ |- _ => specialize (H b Hb) end. lia.
Qed.
