(* GenOps.v — a table translated from /repo's source on every build (coq/gen/OpsChoice.v; tools/translate_tables.py), what it must
   say for the hand-written models to be the code's, and the proof that it does.  A change of the source that alters
   the table breaks the proof below, and only the properties whose cone contains this file report the broken tie. *)
From Coq Require Import ZArith List Bool String.
From DD Require Import Common Mir.
From DDGen Require Import OpsChoice.
Import ListNotations.
Open Scope string_scope.
Open Scope Z_scope.

(* ---- ops function chosen for an accessor (C06: "using the effective byte and bit order") ---- *)
Definition spec_ops (kind : string) (bo : byte_ord) (bi : bit_ord) : string * string :=
  (kind ++ match bi with BiLSB0 => "_lsb0" | BiMSB0 => "_msb0" end,
   match bo with BoLE => "LE" | BoBE => "BE" end).

Definition byte_ord_eqb (a b : byte_ord) : bool :=
  match a, b with BoLE, BoLE | BoBE, BoBE => true | _, _ => false end.
Definition bit_ord_eqb (a b : bit_ord) : bool :=
  match a, b with BiLSB0, BiLSB0 | BiMSB0, BiMSB0 => true | _, _ => false end.

Definition ops_lookup (kind : string) (bo : byte_ord) (bi : bit_ord) : list (string * string) :=
  map snd (filter (fun r => let '(k, b, i) := fst r in String.eqb k kind && byte_ord_eqb b bo && bit_ord_eqb i bi)
                  ops_choice).

(* every (kind, byte order, bit order) has exactly one row, and it is the specified one; no other rows *)
Definition ops_choice_ok : bool :=
  forallb (fun kind => forallb (fun bo => forallb (fun bi =>
     match ops_lookup kind bo bi with
     | [r] => String.eqb (fst r) (fst (spec_ops kind bo bi)) && String.eqb (snd r) (snd (spec_ops kind bo bi))
     | _ => false
     end) [BiLSB0; BiMSB0]) [BoLE; BoBE]) ["load"; "store"]
  && (List.length ops_choice =? 8)%nat.

Theorem ops_choice_adequate : ops_choice_ok = true.
Proof. vm_compute. reflexivity. Qed.

Theorem ops_choice_spec : forall kind bo bi, In kind ["load"; "store"] ->
  ops_lookup kind bo bi = [spec_ops kind bo bi].
Proof.
  intros kind bo bi Hk. destruct Hk as [<-|[<-|[]]]; destruct bo, bi; vm_compute; reflexivity.
Qed.

