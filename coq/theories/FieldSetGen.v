(* FieldSetGen.v — model of what the generator emits for field sets:
   mir passes that shape them (byte_order_specified, bool_fields_checked: see Layout.v),
   lir_transform::transform_field_sets / transform_field_set (carrier choice, conversion method),
   field_set_transform::{generate_field_set, get_read_function, get_write_function, get_super_token}.
   Definitions only. *)
From Coq Require Import ZArith List Bool String Ascii.
From DD Require Import Common Carrier Bits Mir GenErr Layout.
Import ListNotations.
Open Scope string_scope.
Open Scope Z_scope.

(* usize::next_power_of_two of max(8, w), by doubling from 8 *)
Fixpoint np2_from (fuel : nat) (p w : Z) : Z :=
  match fuel with
  | O => p
  | S f => if w <=? p then p else np2_from f (2 * p) w
  end.
Definition carrier_bits (w : Z) : Z := np2_from 40 8 w.

Inductive conv_form := CNone | CBool | CInto | CUnsafeInto | CTryInto.

Record accessor := {
  a_name : string; a_bit_order : bit_ord; a_byte_order : byte_ord;
  a_signed : bool; a_cbits : Z; a_start : Z; a_end : Z; a_conv : conv_form; a_ty : string }.

Record fs_facts := {
  fs_name : string; fs_size_bytes : Z; fs_size_bits : Z;
  fs_getters : list accessor; fs_setters : list accessor }.

(* get_super_token: prefix `super::` unless the path has a leading `::` or starts with `crate` *)
Definition starts_with (p s : string) : bool := String.eqb p (String.substring 0 (String.length p) s).
Definition needs_super (ty : string) : bool :=
  negb (starts_with "::" ty) && negb (String.eqb ty "crate") && negb (starts_with "crate::" ty).
Definition prefixed (ty : string) : string := if needs_super ty then "super::" ++ ty else ty.

Definition carrier_name (sg : bool) (b : Z) : string := (if sg then "i" else "u") ++ show_Z b.

Definition conv_type_name (c : conversion) : string :=
  match c with ConvDirect n _ => n | ConvEnum e _ => e_name e end.
Definition conv_use_try (c : conversion) : bool :=
  match c with ConvDirect _ t => t | ConvEnum _ t => t end.

(* conversion method (scope: a Direct conversion never names a generated enum; an accepted non-try
   inline enum is Infallible on its own field — both discharged in C07's model) *)
Definition conv_form_of (f : field) : conv_form :=
  match f_base f, f_conv f with
  | BBool, _ => CBool
  | _, None => CNone
  | _, Some c => if conv_use_try c then CTryInto
                 else match c with ConvEnum _ _ => CUnsafeInto | ConvDirect _ _ => CInto end
  end.

Definition field_signed (f : field) : bool := match f_base f with BInt => true | _ => false end.
Definition field_cbits (f : field) : Z :=
  match f_base f with BBool => 8 | _ => carrier_bits (range_count (f_start f) (f_end f)) end.

Definition getter_of (bo : byte_ord) (bi : bit_ord) (f : field) : accessor :=
  let cf := conv_form_of f in
  let cn := carrier_name (field_signed f) (field_cbits f) in
  {| a_name := f_name f; a_bit_order := bi; a_byte_order := bo; a_signed := field_signed f;
     a_cbits := field_cbits f; a_start := f_start f; a_end := f_end f; a_conv := cf;
     a_ty := match cf, f_conv f with
             | CNone, _ => cn
             | CBool, _ => "bool"
             | CTryInto, Some c => "Result<" ++ prefixed (conv_type_name c) ++ ",<" ++ prefixed (conv_type_name c)
                                   ++ "asTryFrom<" ++ cn ++ ">>::Error>"
             | _, Some c => prefixed (conv_type_name c)
             | _, None => cn
             end |}.

Definition setter_of (bo : byte_ord) (bi : bit_ord) (f : field) : accessor :=
  let cf := match conv_form_of f with CNone => CNone | CBool => CBool | _ => CInto end in
  let cn := carrier_name (field_signed f) (field_cbits f) in
  {| a_name := "set_" ++ f_name f; a_bit_order := bi; a_byte_order := bo; a_signed := field_signed f;
     a_cbits := field_cbits f; a_start := f_start f; a_end := f_end f; a_conv := cf;
     a_ty := match cf, f_conv f with
             | CNone, _ => cn
             | CBool, _ => "bool"
             | _, Some c => prefixed (conv_type_name c)
             | _, None => cn
             end |}.

Definition readable (a : access) : bool := match a with RW | RO => true | WO => false end.
Definition writable (a : access) : bool := match a with RW | WO => true | RO => false end.

Definition div_ceil8 (n : Z) : Z := (n + 7) / 8.

Definition field_set_facts (name : string) (bo : byte_ord) (bi : bit_ord) (size : Z) (fs : list field) : list fs_facts :=
  if size =? 0 then [] else
  [{| fs_name := name; fs_size_bytes := div_ceil8 size; fs_size_bits := size;
      fs_getters := map (getter_of bo bi) (filter (fun f => readable (f_access f)) fs);
      fs_setters := map (setter_of bo bi) (filter (fun f => writable (f_access f)) fs) |}].

(* the object AFTER the layout passes (bool widening) with the byte order the pass leaves on it *)
Definition object_field_set_facts (g : config) (o : object) : list fs_facts :=
  match o with
  | ORegister r =>
    field_set_facts (rg_name r) (effective_byte_order g (rg_byte_order r)) (rg_bit_order r) (rg_size_bits r) (rg_fields r)
  | OCommand c =>
    field_set_facts (cm_name c ++ "FieldsIn") (effective_byte_order g (cm_byte_order c)) (cm_bit_order c) (cm_size_in c) (cm_in_fields c)
    ++ field_set_facts (cm_name c ++ "FieldsOut") (effective_byte_order g (cm_byte_order c)) (cm_bit_order c) (cm_size_out c) (cm_out_fields c)
  | _ => []
  end.

(* emitted field sets of a device that passed the layout passes (None if it is rejected there) *)
Definition emitted_field_sets (d : device) : option (list fs_facts) :=
  match layout_check d with
  | Some _ => None
  | None =>
    match mapM bool_fields_object (preorder_objects (d_objects d)) with
    | RErr _ => None
    | ROk objs => Some (flat_map (object_field_set_facts (d_config d)) objs)
    end
  end.

(* ---- tie to the ops model: the call an accessor makes ---- *)

Definition cty_of (sg : bool) (b : Z) : option cty :=
  if b =? 8 then Some (if sg then I8 else U8) else if b =? 16 then Some (if sg then I16 else U16)
  else if b =? 32 then Some (if sg then I32 else U32) else if b =? 64 then Some (if sg then I64 else U64)
  else if b =? 128 then Some (if sg then I128 else U128) else None.

Definition to_byte_order (b : byte_ord) : byte_order := match b with BoLE => LE | BoBE => BE end.
Definition to_bit_order (b : bit_ord) : bit_order := match b with BiLSB0 => LSB0 | BiMSB0 => MSB0 end.

(* what `fs.getter()` computes on the set's byte array (before the conversion) *)
Definition getter_call (ptrw : Z) (a : accessor) (bytes : list Z) : option (outcome Z) :=
  match cty_of (a_signed a) (a_cbits a) with
  | None => None
  | Some c => load ptrw (to_byte_order (a_byte_order a)) (to_bit_order (a_bit_order a)) c bytes (a_start a) (a_end a)
  end.

Definition setter_call (ptrw : Z) (a : accessor) (v : Z) (bytes : list Z) : option (outcome (list Z)) :=
  match cty_of (a_signed a) (a_cbits a) with
  | None => None
  | Some c => store ptrw (to_byte_order (a_byte_order a)) (to_bit_order (a_bit_order a)) c v (a_start a) (a_end a) bytes
  end.

(* ---- canonical printing ---- *)

Definition show_conv (c : conv_form) : string :=
  match c with CNone => "none" | CBool => "bool" | CInto => "into" | CUnsafeInto => "unsafe_into" | CTryInto => "try_into" end.

Definition show_accessor (tag : string) (a : accessor) : string :=
  "[" ++ tag ++ ":" ++ a_name a ++ ":" ++ (match a_bit_order a with BiLSB0 => "lsb0" | BiMSB0 => "msb0" end)
  ++ ":" ++ carrier_name (a_signed a) (a_cbits a) ++ ":" ++ (match a_byte_order a with BoLE => "LE" | BoBE => "BE" end)
  ++ ":" ++ show_Z (a_start a) ++ ":" ++ show_Z (a_end a) ++ ":" ++ show_conv (a_conv a) ++ ":" ++ a_ty a ++ "]".

Definition show_fs (f : fs_facts) : string :=
  "fs:" ++ fs_name f ++ ":" ++ show_Z (fs_size_bytes f) ++ ":" ++ show_Z (fs_size_bits f)
  ++ String.concat "" (map (show_accessor "g") (fs_getters f))
  ++ String.concat "" (map (show_accessor "s") (fs_setters f)).

Definition field_sets_result (d : device) : string :=
  match emitted_field_sets d with
  | None => "rejected"
  | Some l => String.concat ";" (map show_fs l)
  end.

(* ---- reference interpreter queries for the L2 correspondence (compiled output vs model) ---- *)

(* ---- the constant part of every emitted field set (generate_field_set): `bits: [u8; N]`, `From<[u8; N]>` /
   `From<FieldSet> for [u8; N]` move the array in and out, and BitAnd / BitOr / BitXor / Not (and the *Assign forms)
   loop over the N bytes ---- *)
Definition fs_from_bytes (bs : list Z) : list Z := bs.
Definition fs_to_bytes (fs : list Z) : list Z := fs.

Fixpoint zip_with (f : Z -> Z -> Z) (a b : list Z) : list Z :=
  match a, b with
  | x :: a', y :: b' => f x y :: zip_with f a' b'
  | _, _ => []
  end.

Definition fs_and (a b : list Z) : list Z := zip_with Z.land a b.
Definition fs_or (a b : list Z) : list Z := zip_with Z.lor a b.
Definition fs_xor (a b : list Z) : list Z := zip_with Z.lxor a b.
Definition fs_not (a : list Z) : list Z := map (fun x => 255 - x) a.      (* `!x` on a u8 *)

Inductive query :=
| QGet (fs acc : nat) (bytes : list Z)
| QSet (fs acc : nat) (v : Z) (bytes : list Z)
| QId (bytes : list Z)
| QOps (a b : list Z).

Definition show_bytes (l : list Z) : string := String.concat "," (map show_Z l).

Definition run_query (sets : list fs_facts) (q : query) : string :=
  match q with
  | QGet i k bytes =>
    match nth_error sets i with
    | None => "nofs"
    | Some f =>
      match nth_error (fs_getters f) k with
      | None => "noacc"
      | Some a => match getter_call 64 a bytes with
                  | Some (Ok v) => show_Z v
                  | Some (Fail _) => "FAIL"
                  | None => "NOCARRIER"
                  end
      end
    end
  | QSet i k v bytes =>
    match nth_error sets i with
    | None => "nofs"
    | Some f =>
      match nth_error (fs_setters f) k with
      | None => "noacc"
      | Some a => match setter_call 64 a v bytes with
                  | Some (Ok b) => show_bytes b
                  | Some (Fail _) => "FAIL"
                  | None => "NOCARRIER"
                  end
      end
    end
  | QId bytes => show_bytes (fs_to_bytes (fs_from_bytes bytes))
  | QOps a b => show_bytes (fs_and a b) ++ " " ++ show_bytes (fs_or a b) ++ " " ++ show_bytes (fs_xor a b) ++ " " ++
                show_bytes (fs_not a)
  end.

Definition l2_expected (d : device) (qs : list query) : string :=
  match emitted_field_sets d with
  | None => "rejected"
  | Some sets => String.concat ";" (map (run_query sets) qs)
  end.
