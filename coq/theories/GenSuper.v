(* GenSuper.v — the rule of get_super_token (field_set_transform.rs), translated from /repo's source on every build
   (coq/gen/SuperRule.v; tools/translate_tables.py), what it must say for FieldSetGen.needs_super to be the code's, and the
   proof that it does.  A source edit that adds, drops or changes a clause of the condition changes the table and breaks the
   proof below (seed C06-7 added `self` / `super` to the exceptions). *)
From Coq Require Import List Bool String.
From DD Require Import FieldSetGen.
From DDGen Require Import SuperRule.
Import ListNotations.
Open Scope string_scope.

(* "the first segment of the path is [seg]": the path is [seg] alone or goes on with `::` *)
Definition first_segment_is (seg ty : string) : bool := String.eqb ty seg || starts_with (seg ++ "::") ty.

Definition clause_holds (ty : string) (c : super_clause) : bool :=
  match c with
  | SNoLeadingColon => negb (starts_with "::" ty)
  | SFirstSegmentIsNot seg => negb (first_segment_is seg ty)
  end.

Definition rule_holds (rule : list super_clause) (ty : string) : bool := forallb (clause_holds ty) rule.

(* what the table must say: no leading `::`, and the first segment is not `crate` — nothing else *)
Theorem super_rule_as_modelled : super_rule = [SNoLeadingColon; SFirstSegmentIsNot "crate"].
Proof. reflexivity. Qed.

(* FieldSetGen.needs_super is the translated rule, for every type path *)
Theorem needs_super_from_source : forall ty, needs_super ty = rule_holds super_rule ty.
Proof.
  intro ty. rewrite super_rule_as_modelled. unfold needs_super, rule_holds, clause_holds, first_segment_is.
  cbn [forallb]. change ("crate" ++ "::") with "crate::".
  destruct (starts_with "::" ty), (String.eqb ty "crate"), (starts_with "crate::" ty); reflexivity.
Qed.
