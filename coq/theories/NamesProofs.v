(* NamesProofs.v — proofs about Case.v / Names.v (property C14). *)
From Coq Require Import ZArith NArith List Bool String Ascii Lia Arith Wf_nat.
From DD Require Import Common Mir GenErr Case Names.
Import ListNotations.
Open Scope string_scope.

(* ================================================================== *)
(* Induction over the nested object tree                               *)
(* ================================================================== *)

Section ObjectInd.
  Context (P : object -> Prop).
  Context (Hblock : forall c n off rep objs, Forall P objs -> P (OBlock c n off rep objs)).
  Context (Hreg : forall r, P (ORegister r)).
  Context (Hcmd : forall c, P (OCommand c)).
  Context (Hbuf : forall b, P (OBuffer b)).
  Context (Href : forall c n ov, P (ORef c n ov)).

  Fixpoint object_ind' (o : object) : P o :=
    match o with
    | OBlock c n off rep objs =>
      Hblock c n off rep objs
        ((fix go (l : list object) : Forall P l :=
            match l with
            | [] => Forall_nil P
            | x :: t => Forall_cons x (object_ind' x) (go t)
            end) objs)
    | ORegister r => Hreg r
    | OCommand c => Hcmd c
    | OBuffer b => Hbuf b
    | ORef c n ov => Href c n ov
    end.
End ObjectInd.

(* pre-order list of one object, without depths *)
Fixpoint pre (o : object) : list object :=
  o :: match o with
       | OBlock _ _ _ _ objs => flat_map pre objs
       | _ => []
       end.

Lemma flatten_depth_pre : forall o d, map fst (flatten_depth d o) = pre o.
Proof.
  induction o using object_ind'; intros d; cbn; try reflexivity.
  f_equal. induction H as [|x t Hx Ht IH]; cbn; [reflexivity|].
  rewrite map_app, Hx, IH. reflexivity.
Qed.

Lemma preorder_objects_pre : forall objs, preorder_objects objs = flat_map pre objs.
Proof.
  unfold preorder_objects, preorder. induction objs as [|o t IH]; cbn; [reflexivity|].
  rewrite map_app, flatten_depth_pre, IH. reflexivity.
Qed.

Lemma pre_self : forall o, In o (pre o).
Proof. destruct o; cbn; auto. Qed.

Lemma pre_block_children : forall c n off rep objs x,
  In x (flat_map pre objs) -> In x (pre (OBlock c n off rep objs)).
Proof. intros. cbn. right. assumption. Qed.

(* transitivity of "occurs in the subtree" *)
Lemma pre_trans : forall o x y, In x (pre o) -> In y (pre x) -> In y (pre o).
Proof.
  induction o using object_ind'; intros x y Hx Hy; cbn in Hx;
    try (destruct Hx as [<-|[]]; assumption).
  destruct Hx as [<-|Hx]; [assumption|].
  cbn. right. apply in_flat_map in Hx. destruct Hx as (ch & Hch & Hx).
  apply in_flat_map. exists ch. split; [assumption|].
  rewrite Forall_forall in H. eapply H; eassumption.
Qed.

Lemma flat_pre_trans : forall objs x y, In x (flat_map pre objs) -> In y (pre x) -> In y (flat_map pre objs).
Proof.
  intros objs x y Hx Hy. apply in_flat_map in Hx. destruct Hx as (o & Ho & Hx).
  apply in_flat_map. exists o. split; [assumption|]. eapply pre_trans; eassumption.
Qed.

(* ================================================================== *)
(* search_object = first match in pre-order                            *)
(* ================================================================== *)

Lemma find_some_app {A B} (f : A -> option B) l1 l2 :
  find_some f (l1 ++ l2) = match find_some f l1 with Some r => Some r | None => find_some f l2 end.
Proof. induction l1 as [|x t IH]; cbn; [reflexivity|]. destruct (f x); [reflexivity|apply IH]. Qed.

Lemma find_app {A} (p : A -> bool) l1 l2 :
  find p (l1 ++ l2) = match find p l1 with Some r => Some r | None => find p l2 end.
Proof. induction l1 as [|x t IH]; cbn; [reflexivity|]. destruct (p x); [reflexivity|apply IH]. Qed.

Lemma search_in_find : forall name o,
  search_in name o = find (fun x => String.eqb (object_name x) name) (pre o).
Proof.
  intros name. induction o using object_ind'; cbn; try (destruct (String.eqb _ name); reflexivity).
  destruct (String.eqb n name); [reflexivity|].
  induction H as [|x t Hx Ht IH]; cbn; [reflexivity|].
  rewrite find_app, <- Hx. destruct (search_in name x); [reflexivity|apply IH].
Qed.

Lemma search_object_find : forall name objs,
  search_object name objs = find (fun x => String.eqb (object_name x) name) (preorder_objects objs).
Proof.
  intros name objs. rewrite preorder_objects_pre. unfold search_object.
  induction objs as [|o t IH]; cbn; [reflexivity|].
  rewrite find_app, <- search_in_find. destruct (search_in name o); [reflexivity|apply IH].
Qed.

Lemma search_object_some : forall name objs o,
  search_object name objs = Some o -> In o (preorder_objects objs) /\ object_name o = name.
Proof.
  intros name objs o H. rewrite search_object_find in H. apply List.find_some in H.
  destruct H as [Hin Heq]. split; [assumption|]. apply String.eqb_eq. assumption.
Qed.

Lemma search_object_none : forall name objs,
  search_object name objs = None <-> (forall o, In o (preorder_objects objs) -> object_name o <> name).
Proof.
  intros name objs. rewrite search_object_find. split.
  - intros H o Hin Hn. eapply find_none in H; [|eassumption]. cbn in H.
    apply String.eqb_neq in H. contradiction.
  - intros H. destruct (find _ _) eqn:E; [|reflexivity].
    apply List.find_some in E. destruct E as [Hin Heq]. apply String.eqb_eq in Heq.
    exfalso. eapply H; eassumption.
Qed.

(* with unique names the first match is THE object of that name *)
Lemma find_unique {A} (key : A -> string) (l : list A) (o : A) :
  NoDup (map key l) -> In o l ->
  find (fun x => String.eqb (key x) (key o)) l = Some o.
Proof.
  induction l as [|x t IH]; cbn; intros Hnd Hin; [contradiction|].
  inversion Hnd as [|? ? Hnot Hnd']; subst.
  destruct Hin as [->|Hin].
  - rewrite String.eqb_refl. reflexivity.
  - destruct (String.eqb (key x) (key o)) eqn:E.
    + apply String.eqb_eq in E. exfalso. apply Hnot. rewrite E. apply in_map. assumption.
    + apply IH; assumption.
Qed.

Theorem search_finds_declared : forall objs o,
  NoDup (map object_name (preorder_objects objs)) ->
  In o (preorder_objects objs) ->
  search_object (object_name o) objs = Some o.
Proof. intros objs o Hnd Hin. rewrite search_object_find. apply find_unique; assumption. Qed.



(* ================================================================== *)
(* "insert everything into a set, fail on the first collision"         *)
(* ================================================================== *)

Section Fresh.
  Context {A : Type} (eqb : A -> A -> bool).
  Context (eqb_spec : forall a b, eqb a b = true <-> a = b).

  Definition memb (x : A) (l : list A) : bool := existsb (eqb x) l.

  Fixpoint fresh_walk (seen l : list A) : bool :=
    match l with
    | [] => true
    | x :: t => negb (memb x seen) && fresh_walk (x :: seen) t
    end.

  Lemma memb_in x l : memb x l = true <-> In x l.
  Proof.
    unfold memb. rewrite existsb_exists. split.
    - intros (y & Hy & E). apply eqb_spec in E. subst. assumption.
    - intros H. exists x. split; [assumption|]. apply eqb_spec. reflexivity.
  Qed.

  Lemma memb_false x l : memb x l = false <-> ~ In x l.
  Proof.
    rewrite <- memb_in. destruct (memb x l); split; intro H.
    - discriminate.
    - exfalso. apply H. reflexivity.
    - intro H2. discriminate.
    - reflexivity.
  Qed.

  Lemma fresh_walk_spec : forall l seen,
    fresh_walk seen l = true <-> (forall x, In x l -> ~ In x seen) /\ NoDup l.
  Proof.
    induction l as [|x t IH]; intros seen; cbn.
    - split; [intros _; split; [intros ? []|constructor]|reflexivity].
    - rewrite andb_true_iff, negb_true_iff, memb_false, IH. split.
      + intros (Hx & Hd & Hnd). split.
        * intros y [<-|Hy]; [assumption|]. intros Hs. apply (Hd y Hy). right. assumption.
        * constructor; [|assumption]. intros Hin. apply (Hd x Hin). left. reflexivity.
      + intros (Hd & Hnd). inversion Hnd; subst. repeat split.
        * apply Hd. left. reflexivity.
        * intros y Hy [<-|Hs]; [contradiction|]. apply (Hd y); [right|]; assumption.
        * assumption.
  Qed.

  Lemma fresh_walk_app : forall l1 l2 seen,
    fresh_walk seen (l1 ++ l2)%list = fresh_walk seen l1 && fresh_walk (rev l1 ++ seen)%list l2.
  Proof.
    induction l1 as [|x t IH]; intros l2 seen; cbn; [reflexivity|].
    rewrite IH, <- app_assoc, andb_assoc. reflexivity.
  Qed.

  Lemma fresh_walk_nodup l : fresh_walk [] l = true <-> NoDup l.
  Proof. rewrite fresh_walk_spec. split; [intros [_ H]; exact H|intros H; split; [intros ? _ []|exact H]]. Qed.
End Fresh.

Lemma cfg_eqb_spec a b : cfg_eqb a b = true <-> a = b.
Proof.
  destruct a as [x|], b as [y|]; cbn; try (split; congruence).
  rewrite String.eqb_eq. split; congruence.
Qed.

Lemma uid_eqb_spec (a b : uid) : uid_eqb a b = true <-> a = b.
Proof.
  destruct a as [n c], b as [n' c']. unfold uid_eqb. cbn.
  rewrite andb_true_iff, String.eqb_eq, cfg_eqb_spec. split; [intros [-> ->]; reflexivity|intros H; inversion H; auto].
Qed.

Lemma str_eqb_spec (a b : string) : String.eqb a b = true <-> a = b.
Proof. apply String.eqb_eq. Qed.

Lemma mem_uid_memb x l : mem_uid x l = memb uid_eqb x l.
Proof. reflexivity. Qed.
Lemma mem_str_memb x l : mem_str x l = memb String.eqb x l.
Proof. reflexivity. Qed.

Definition vid (v : variant) : uid := (v_name v, v_cfg v).
Definition eid (e : enum_def) : uid := (e_name e, e_cfg e).

Notation fresh_u := (fresh_walk uid_eqb).
Notation fresh_s := (fresh_walk String.eqb).

(* ---------- check_variants ---------- *)

Lemma check_variants_spec : forall vs seen en obj fld,
  check_variants seen vs en obj fld = None <-> fresh_u seen (map vid vs) = true.
Proof.
  induction vs as [|v t IH]; intros seen en obj fld; cbn; [split; reflexivity|].
  rewrite mem_uid_memb. fold (vid v). destruct (memb uid_eqb (vid v) seen); cbn.
  - split; discriminate.
  - apply IH.
Qed.

(* ---------- check_fields ---------- *)

Definition variants_ok (e : enum_def) : bool := fresh_u [] (map vid (e_variants e)).

Lemma field_enums_cons f t :
  field_enums (f :: t) = (match f_conv f with Some (ConvEnum e _) => [e] | _ => [] end ++ field_enums t)%list.
Proof. reflexivity. Qed.

Lemma check_fields_spec : forall fs seen gen obj gen',
  check_fields seen gen fs obj = ROk gen' <->
  fresh_s seen (map f_name fs) = true /\
  fresh_u gen (map eid (field_enums fs)) = true /\
  forallb variants_ok (field_enums fs) = true /\
  gen' = (rev (map eid (field_enums fs)) ++ gen)%list.
Proof.
  induction fs as [|f t IH]; intros seen gen obj gen'.
  - cbn. split; [intros H; inversion H; auto|intros (_ & _ & _ & ->); reflexivity].
  - cbn [check_fields map fresh_walk]. rewrite field_enums_cons, mem_str_memb.
    destruct (memb String.eqb (f_name f) seen); cbn [negb andb].
    + split; [discriminate|intros (H & _); discriminate].
    + destruct (f_conv f) as [[tn ut|e ut]|]; cbn [app map fresh_walk forallb rev].
      * rewrite IH. reflexivity.
      * rewrite mem_uid_memb. fold (eid e). destruct (memb uid_eqb (eid e) gen); cbn [negb andb].
        -- split; [discriminate|intros (_ & H & _); discriminate].
        -- destruct (check_variants [] (e_variants e) (e_name e) obj (f_name f)) eqn:E.
           ++ assert (variants_ok e = false) as ->.
              { unfold variants_ok. destruct (fresh_u [] (map vid (e_variants e))) eqn:E2; [|reflexivity].
                apply check_variants_spec with (en := e_name e) (obj := obj) (fld := f_name f) in E2. congruence. }
              cbn. split; [discriminate|intros (_ & _ & H & _); discriminate].
           ++ apply check_variants_spec in E. unfold variants_ok at 1. rewrite E. cbn [andb].
              rewrite IH. rewrite <- app_assoc. cbn. reflexivity.
      * rewrite IH. reflexivity.
Qed.

Lemma check_fields_total : forall fs seen gen obj,
  (exists gen', check_fields seen gen fs obj = ROk gen') \/ (exists e, check_fields seen gen fs obj = RErr e).
Proof. intros. destruct (check_fields seen gen fs obj); [left|right]; eexists; reflexivity. Qed.

(* ---------- check_sets ---------- *)

Definition sets_enums (sets : list (list field)) : list enum_def := flat_map field_enums sets.

Lemma check_sets_spec : forall sets gen obj gen',
  check_sets gen sets obj = ROk gen' <->
  forallb (fun fs => fresh_s [] (map f_name fs)) sets = true /\
  fresh_u gen (map eid (sets_enums sets)) = true /\
  forallb variants_ok (sets_enums sets) = true /\
  gen' = (rev (map eid (sets_enums sets)) ++ gen)%list.
Proof.
  induction sets as [|fs t IH]; intros gen obj gen'.
  - cbn. split; [intros H; inversion H; auto|intros (_ & _ & _ & ->); reflexivity].
  - cbn [check_sets]. unfold sets_enums. cbn [flat_map forallb]. fold (sets_enums t).
    rewrite map_app, fresh_walk_app, forallb_app, rev_app_distr, <- app_assoc.
    destruct (check_fields [] gen fs obj) as [g1|e] eqn:E; cbn [rbind].
    + apply check_fields_spec in E. destruct E as (E1 & E2 & E3 & ->).
      rewrite IH, E1, E2, E3. cbn [andb]. reflexivity.
    + split; [discriminate|]. intros (H1 & H2 & H3 & _).
      apply andb_true_iff in H1, H2, H3. destruct H1 as [H1 _], H2 as [H2 _], H3 as [H3 _].
      assert (check_fields [] gen fs obj = ROk (rev (map eid (field_enums fs)) ++ gen)%list) as X
        by (apply check_fields_spec; auto).
      congruence.
Qed.

(* ---------- unique_walk ---------- *)

Definition fields_okb (os : list object) : bool :=
  forallb (fun o => forallb (fun fs => fresh_s [] (map f_name fs)) (object_field_sets o)) os.

Lemma device_enums_cons o t : device_enums (o :: t) = (sets_enums (object_field_sets o) ++ device_enums t)%list.
Proof. reflexivity. Qed.

Lemma unique_walk_spec : forall os seen gen,
  unique_walk seen gen os = None <->
  fresh_u seen (map object_uid os) = true /\
  fields_okb os = true /\
  fresh_u gen (map eid (device_enums os)) = true /\
  forallb variants_ok (device_enums os) = true.
Proof.
  induction os as [|o t IH]; intros seen gen.
  - cbn. split; auto.
  - cbn [unique_walk map fresh_walk fields_okb forallb]. fold (fields_okb t).
    rewrite device_enums_cons, map_app, fresh_walk_app, forallb_app, mem_uid_memb.
    destruct (memb uid_eqb (object_uid o) seen); cbn [negb andb].
    + split; [discriminate|intros (H & _); discriminate].
    + destruct (check_sets gen (object_field_sets o) (object_name o)) as [g1|e] eqn:E.
      * apply check_sets_spec in E. destruct E as (E1 & E2 & E3 & ->).
        rewrite IH, E1, E2, E3. cbn [andb]. reflexivity.
      * split; [discriminate|]. intros (_ & H1 & H2 & H3).
        apply andb_true_iff in H1, H2, H3. destruct H1 as [H1 _], H2 as [H2 _], H3 as [H3 _].
        assert (check_sets gen (object_field_sets o) (object_name o) =
                ROk (rev (map eid (sets_enums (object_field_sets o))) ++ gen)%list) as X
          by (apply check_sets_spec; auto).
        congruence.
Qed.

Definition uniqueb (os : list object) : bool :=
  fresh_u [] (map object_uid os) && fields_okb os &&
  fresh_u [] (map eid (device_enums os)) && forallb variants_ok (device_enums os).

Lemma names_unique_spec d :
  names_unique d = None <-> uniqueb (preorder_objects (d_objects d)) = true.
Proof.
  unfold names_unique, uniqueb. rewrite unique_walk_spec, !andb_true_iff. tauto.
Qed.



(* ================================================================== *)
(* refs_validated                                                      *)
(* ================================================================== *)

Lemma okind_eqb_spec a b : okind_eqb a b = true <-> a = b.
Proof. destruct a, b; cbn; split; congruence. Qed.

Lemma map_insert_keys : forall m k v t,
  In t (map fst (map_insert k v m)) <-> t = k \/ In t (map fst m).
Proof.
  induction m as [|[k' v'] m IH]; intros k v t; cbn.
  - split; [intros [H|[]]; auto|intros [H|[]]; auto].
  - destruct (String.eqb k k') eqn:E; cbn.
    + apply String.eqb_eq in E. subst. split; [intros [H|H]; auto|intros [H|[H|H]]; auto].
    + rewrite IH. split; [intros [H|[H|H]]; auto|intros [H|[H|H]]; auto].
Qed.

Definition ref_of_kind (k : okind) (t : string) (os : list object) : Prop :=
  exists c n ov, In (ORef c n ov) os /\ override_kind ov = k /\ override_target ov = t.

Lemma reffed_keys : forall os k m t,
  In t (map fst (reffed k os m)) <-> In t (map fst m) \/ ref_of_kind k t os.
Proof.
  induction os as [|o os IH]; intros k m t.
  - cbn. split; [auto|intros [H|(c & n & ov & [] & _)]; assumption].
  - assert (Hskip : (forall c n ov, o <> ORef c n ov) ->
              (In t (map fst (reffed k os m)) <-> In t (map fst m) \/ ref_of_kind k t (o :: os))).
    { intros Hn. rewrite IH. split; intros [H|(c & n & ov & Hin & Hk & Ht)]; auto.
      - right. exists c, n, ov. split; [right; assumption|auto].
      - destruct Hin as [Heq|Hin]; [exfalso; eapply Hn; eauto|]. right. exists c, n, ov. auto. }
    destruct o; cbn [reffed]; try (apply Hskip; intros; discriminate).
    destruct (okind_eqb (override_kind ov) k) eqn:E.
    + apply okind_eqb_spec in E. rewrite IH, map_insert_keys. split.
      * intros [[->|H]|(c0 & n & ov0 & Hin & Hk & Ht)]; auto.
        -- right. exists c, name, ov. split; [left; reflexivity|auto].
        -- right. exists c0, n, ov0. split; [right; assumption|auto].
      * intros [H|(c0 & n & ov0 & [Heq|Hin] & Hk & Ht)]; auto.
        -- inversion Heq; subst. left. left. reflexivity.
        -- right. exists c0, n, ov0. auto.
    + rewrite IH. split; intros [H|(c0 & n & ov0 & Hin & Hk & Ht)]; auto.
      * right. exists c0, n, ov0. split; [right; assumption|auto].
      * destruct Hin as [Heq|Hin].
        -- inversion Heq; subst.
           assert (okind_eqb (override_kind ov0) (override_kind ov0) = true) by (apply okind_eqb_spec; reflexivity).
           congruence.
        -- right. exists c0, n, ov0. auto.
Qed.

Definition has_real (k : okind) (t : string) (os : list object) : Prop :=
  exists o, In o os /\ object_kind o = k /\ object_name o = t.

Lemma real_names_spec k t os : mem_str t (real_names k os) = true <-> has_real k t os.
Proof.
  rewrite mem_str_memb, (memb_in String.eqb str_eqb_spec). unfold real_names, has_real.
  rewrite in_map_iff. split.
  - intros (o & Hn & Hin). apply filter_In in Hin. destruct Hin as [Hin Hk].
    apply okind_eqb_spec in Hk. exists o. auto.
  - intros (o & Hin & Hk & Hn). exists o. split; [assumption|]. apply filter_In. split; [assumption|].
    apply okind_eqb_spec. assumption.
Qed.

Lemma map_filter_nil {A B} (f : A -> B) p (l : list A) :
  map f (filter p l) = [] <-> forall x, In x l -> p x = false.
Proof.
  induction l as [|x t IH]; cbn; [split; [intros _ ? []|reflexivity]|].
  destruct (p x) eqn:E; cbn.
  - split; [discriminate|]. intros H. rewrite (H x (or_introl eq_refl)) in E. discriminate.
  - rewrite IH. split; [intros H y [<-|Hy]; auto|intros H y Hy; apply H; right; assumption].
Qed.

Lemma dangling_nil k os :
  dangling k os = [] <-> (forall t, ref_of_kind k t os -> has_real k t os).
Proof.
  unfold dangling. rewrite map_filter_nil. split.
  - intros H t Hr. apply real_names_spec.
    assert (In t (map fst (reffed k os []))) as Hin by (apply reffed_keys; right; assumption).
    apply in_map_iff in Hin. destruct Hin as ([t' r] & Ht & Hin). cbn in Ht. subst.
    specialize (H _ Hin). cbn in H. apply negb_false_iff in H. assumption.
  - intros H [t r] Hin. cbn. apply negb_false_iff. apply real_names_spec. apply H.
    assert (In t (map fst (reffed k os []))) as Hk by (apply in_map_iff; exists (t, r); auto).
    apply reffed_keys in Hk. destruct Hk as [[]|Hk]. assumption.
Qed.

Lemma dangling_cons k os e l :
  dangling k os = e :: l -> exists t, ref_of_kind k t os /\ ~ has_real k t os.
Proof.
  unfold dangling. intros H.
  assert (In e (map (fun tr => mk_err "ref_unknown" [kind_word k; snd tr; fst tr])
                    (filter (fun tr => negb (mem_str (fst tr) (real_names k os))) (reffed k os []))))
    as Hin by (rewrite H; left; reflexivity).
  apply in_map_iff in Hin. destruct Hin as ([t r] & _ & Hin). apply filter_In in Hin.
  destruct Hin as [Hin Hneg]. cbn in Hneg. exists t. split.
  - assert (In t (map fst (reffed k os []))) as Hk by (apply in_map_iff; exists (t, r); auto).
    apply reffed_keys in Hk. destruct Hk as [[]|Hk]. assumption.
  - intros Hr. apply real_names_spec in Hr. rewrite Hr in Hneg. discriminate.
Qed.

Definition refs_ok (os : list object) : Prop :=
  forall c n ov, In (ORef c n ov) os -> has_real (override_kind ov) (override_target ov) os.

Definition a_bad_ref (os : list object) : Prop :=
  exists c n ov, In (ORef c n ov) os /\ ~ has_real (override_kind ov) (override_target ov) os.

Lemma override_kind_cases ov : override_kind ov = KBlock \/ override_kind ov = KRegister \/ override_kind ov = KCommand.
Proof. destruct ov; cbn; auto. Qed.

Lemma refs_validated_ok_true d :
  refs_validated_ok d = true <-> refs_ok (preorder_objects (d_objects d)).
Proof.
  unfold refs_validated_ok, refs_candidates. set (os := preorder_objects (d_objects d)).
  split.
  - intros H c n ov Hin.
    destruct (dangling KBlock os) eqn:E1; [|discriminate].
    destruct (dangling KRegister os) eqn:E2; [|discriminate].
    destruct (dangling KCommand os) eqn:E3; [|discriminate].
    destruct (override_kind_cases ov) as [K|[K|K]]; rewrite K.
    + eapply dangling_nil; [exact E1|]. exists c, n, ov. auto.
    + eapply dangling_nil; [exact E2|]. exists c, n, ov. auto.
    + eapply dangling_nil; [exact E3|]. exists c, n, ov. auto.
  - intros H.
    assert (forall k, dangling k os = []) as Hd.
    { intros k. apply dangling_nil. intros t (c & n & ov & Hin & Hk & Ht). subst. apply (H c n ov Hin). }
    rewrite !Hd. reflexivity.
Qed.

Lemma refs_validated_ok_false d :
  refs_validated_ok d = false <-> a_bad_ref (preorder_objects (d_objects d)).
Proof.
  split.
  - unfold refs_validated_ok, refs_candidates. set (os := preorder_objects (d_objects d)). intros H.
    assert (exists k e l, dangling k os = e :: l) as (k & e & l & Hk).
    { destruct (dangling KBlock os) eqn:E1; [|eauto].
      destruct (dangling KRegister os) eqn:E2; [|eauto].
      destruct (dangling KCommand os) eqn:E3; [discriminate|eauto]. }
    apply dangling_cons in Hk. destruct Hk as (t & (c & n & ov & Hin & Hk & Ht) & Hno). subst.
    exists c, n, ov. auto.
  - intros (c & n & ov & Hin & Hno). destruct (refs_validated_ok d) eqn:E; [|reflexivity].
    apply refs_validated_ok_true in E. exfalso. apply Hno. apply (E c n ov Hin).
Qed.

(* ================================================================== *)
(* duplicates: ~NoDup (map key l)  <->  two positions share a key        *)
(* ================================================================== *)

Lemma two_share_not_nodup {A} (key : A -> string) l : two_share key l <-> ~ NoDup (map key l).
Proof.
  split.
  - intros (l1 & x & l2 & y & l3 & -> & E) Hnd.
    rewrite map_app in Hnd. cbn in Hnd. apply NoDup_remove_2 in Hnd. apply Hnd.
    apply in_or_app. right. rewrite map_app. apply in_or_app. right. cbn. left. congruence.
  - induction l as [|x t IH]; cbn; intros H; [exfalso; apply H; constructor|].
    destruct (in_dec string_dec (key x) (map key t)) as [Hin|Hnin].
    + apply in_map_iff in Hin. destruct Hin as (y & Hy & Hin). apply in_split in Hin.
      destruct Hin as (l2 & l3 & ->). exists [], x, l2, y, l3. split; [reflexivity|congruence].
    + destruct IH as (l1 & a & l2 & b & l3 & -> & E).
      { intros Hnd. apply H. constructor; assumption. }
      exists (x :: l1), a, l2, b, l3. split; [reflexivity|assumption].
Qed.

Lemma NoDup_map_inj {A B} (f : A -> B) (l : list A) :
  (forall x y, f x = f y -> x = y) -> (NoDup (map f l) <-> NoDup l).
Proof.
  intros inj. induction l as [|x t IH]; cbn; [split; constructor|].
  split; intros H; inversion H; subst; constructor.
  - intros Hin. apply H2. apply in_map. assumption.
  - apply IH. assumption.
  - intros Hin. apply in_map_iff in Hin. destruct Hin as (y & E & Hy). apply inj in E. subst. contradiction.
  - apply IH. assumption.
Qed.

Lemma NoDup_pair_none (l : list string) : NoDup (map (fun s => (s, @None string)) l) <-> NoDup l.
Proof. apply NoDup_map_inj. intros x y H. inversion H. reflexivity. Qed.

Lemma forallb_false {A} (p : A -> bool) l : forallb p l = false <-> exists x, In x l /\ p x = false.
Proof.
  induction l as [|x t IH]; cbn; [split; [discriminate|intros (? & [] & _)]|].
  rewrite andb_false_iff, IH. split.
  - intros [H|(y & Hy & Hp)]; [exists x; auto|exists y; auto].
  - intros (y & [<-|Hy] & Hp); [left; assumption|right; exists y; auto].
Qed.

Lemma fresh_false_u l : fresh_u [] l = false <-> ~ NoDup l.
Proof.
  rewrite <- (fresh_walk_nodup uid_eqb uid_eqb_spec). destruct (fresh_u [] l); split; intro H; congruence.
Qed.

Lemma fresh_false_s l : fresh_s [] l = false <-> ~ NoDup l.
Proof.
  rewrite <- (fresh_walk_nodup String.eqb str_eqb_spec). destruct (fresh_s [] l); split; intro H; congruence.
Qed.



(* ================================================================== *)
(* names_normalized commutes with the pre-order traversal              *)
(* ================================================================== *)

Section Norm.
  Context (bs : list boundary).
  Notation N := (norm_object bs).
  Notation P := (to_pascal bs).
  Notation S := (to_snake bs).

  Lemma pre_norm : forall o, pre (N o) = map N (pre o).
  Proof.
    induction o using object_ind'; cbn; try reflexivity.
    f_equal. induction H as [|x t Hx Ht IH]; cbn; [reflexivity|].
    rewrite map_app, Hx, IH. reflexivity.
  Qed.

  Lemma preorder_norm objs : preorder_objects (map N objs) = map N (preorder_objects objs).
  Proof.
    rewrite !preorder_objects_pre. induction objs as [|o t IH]; cbn; [reflexivity|].
    rewrite map_app, pre_norm, IH. reflexivity.
  Qed.

  Lemma norm_name o : object_name (N o) = P (object_name o).
  Proof. destruct o; reflexivity. Qed.
  Lemma norm_cfg o : object_cfg (N o) = object_cfg o.
  Proof. destruct o; reflexivity. Qed.
  Lemma norm_kind o : object_kind (N o) = object_kind o.
  Proof. destruct o; reflexivity. Qed.
  Lemma norm_sets o : object_field_sets (N o) = map (map (norm_field bs)) (object_field_sets o).
  Proof. destruct o; reflexivity. Qed.
  Lemma norm_ov_kind ov : override_kind (norm_override bs ov) = override_kind ov.
  Proof. destruct ov; reflexivity. Qed.
  Lemma norm_ov_target ov : override_target (norm_override bs ov) = P (override_target ov).
  Proof. destruct ov; reflexivity. Qed.

  Lemma norm_field_enums fs : field_enums (map (norm_field bs) fs) = map (norm_enum bs) (field_enums fs).
  Proof.
    induction fs as [|f t IH]; [reflexivity|].
    cbn [map]. rewrite !field_enums_cons, map_app, IH. f_equal.
    destruct f as [c n a b cv s e]; cbn. destruct cv as [[tn ut|en ut]|]; reflexivity.
  Qed.

  Lemma norm_sets_enums sets :
    sets_enums (map (map (norm_field bs)) sets) = map (norm_enum bs) (sets_enums sets).
  Proof.
    unfold sets_enums. induction sets as [|fs t IH]; cbn; [reflexivity|].
    rewrite map_app, norm_field_enums, IH. reflexivity.
  Qed.

  Lemma norm_device_enums os : device_enums (map N os) = map (norm_enum bs) (device_enums os).
  Proof.
    induction os as [|o t IH]; [reflexivity|].
    cbn [map]. rewrite !device_enums_cons, map_app, IH, norm_sets, norm_sets_enums. reflexivity.
  Qed.

  (* ---------- cfg-free ---------- *)

  Lemma cfg_free_enum os e :
    Forall cfg_free_object os -> In e (device_enums os) ->
    e_cfg e = None /\ Forall cfg_free_variant (e_variants e).
  Proof.
    intros Hf Hin. unfold device_enums in Hin. apply in_flat_map in Hin. destruct Hin as (o & Ho & Hin).
    rewrite Forall_forall in Hf. destruct (Hf o Ho) as [_ Hsets].
    unfold object_enums in Hin. apply in_flat_map in Hin. destruct Hin as (fs & Hfs & Hin).
    rewrite Forall_forall in Hsets. specialize (Hsets fs Hfs).
    unfold field_enums in Hin. apply in_flat_map in Hin. destruct Hin as (f & Hfin & Hin).
    rewrite Forall_forall in Hsets. destruct (Hsets f Hfin) as [_ Hc].
    destruct (f_conv f) as [[tn ut|en ut]|]; try contradiction.
    destruct Hin as [<-|[]]. assumption.
  Qed.

  (* ---------- the five clauses ---------- *)

  Lemma clause_object os :
    Forall cfg_free_object os ->
    (fresh_u [] (map object_uid (map N os)) = false <-> spec_dup_object bs os).
  Proof.
    intros Hf. rewrite fresh_false_u. unfold spec_dup_object. rewrite two_share_not_nodup.
    assert (map object_uid (map N os) = map (fun s => (s, @None string)) (map (fun o => P (object_name o)) os)) as ->.
    { rewrite !map_map. apply map_ext_in. intros o Ho. unfold object_uid. rewrite norm_name, norm_cfg.
      rewrite Forall_forall in Hf. destruct (Hf o Ho) as [-> _]. reflexivity. }
    rewrite NoDup_pair_none. reflexivity.
  Qed.

  Lemma clause_field os : fields_okb (map N os) = false <-> spec_dup_field bs os.
  Proof.
    unfold fields_okb, spec_dup_field. rewrite forallb_false. split.
    - intros (o' & Ho' & Hf). apply in_map_iff in Ho'. destruct Ho' as (o & <- & Ho).
      apply forallb_false in Hf. destruct Hf as (fs' & Hfs' & Hd). rewrite norm_sets in Hfs'.
      apply in_map_iff in Hfs'. destruct Hfs' as (fs & <- & Hfs).
      exists o, fs. repeat split; try assumption.
      apply two_share_not_nodup. apply fresh_false_s in Hd. rewrite map_map in Hd. exact Hd.
    - intros (o & fs & Ho & Hfs & Hd). exists (N o). split; [apply in_map; assumption|].
      apply forallb_false. exists (map (norm_field bs) fs). split.
      + rewrite norm_sets. apply in_map. assumption.
      + apply fresh_false_s. rewrite map_map. apply two_share_not_nodup in Hd. exact Hd.
  Qed.

  Lemma clause_enum os :
    Forall cfg_free_object os ->
    (fresh_u [] (map eid (device_enums (map N os))) = false <-> spec_dup_enum bs os).
  Proof.
    intros Hf. rewrite fresh_false_u. unfold spec_dup_enum. rewrite two_share_not_nodup, norm_device_enums.
    assert (map eid (map (norm_enum bs) (device_enums os)) =
            map (fun s => (s, @None string)) (map (fun e => P (e_name e)) (device_enums os))) as ->.
    { rewrite !map_map. apply map_ext_in. intros e He. unfold eid. cbn.
      destruct (cfg_free_enum os e Hf He) as [-> _]. reflexivity. }
    rewrite NoDup_pair_none. reflexivity.
  Qed.

  Lemma clause_variant os :
    Forall cfg_free_object os ->
    (forallb variants_ok (device_enums (map N os)) = false <-> spec_dup_variant bs os).
  Proof.
    intros Hf. rewrite forallb_false, norm_device_enums. unfold spec_dup_variant.
    assert (forall e, In e (device_enums os) ->
              map vid (e_variants (norm_enum bs e)) =
              map (fun s => (s, @None string)) (map (fun v => P (v_name v)) (e_variants e))) as Hv.
    { intros e He. cbn. rewrite !map_map. apply map_ext_in. intros v Hvin. unfold vid. cbn.
      destruct (cfg_free_enum os e Hf He) as [_ Hvs]. rewrite Forall_forall in Hvs.
      rewrite (Hvs v Hvin). reflexivity. }
    split.
    - intros (e' & He' & Hd). apply in_map_iff in He'. destruct He' as (e & <- & He).
      exists e. split; [assumption|]. apply two_share_not_nodup.
      unfold variants_ok in Hd. apply fresh_false_u in Hd. rewrite (Hv e He), NoDup_pair_none in Hd. exact Hd.
    - intros (e & He & Hd). exists (norm_enum bs e). split; [apply in_map; assumption|].
      unfold variants_ok. apply fresh_false_u. rewrite (Hv e He), NoDup_pair_none.
      apply two_share_not_nodup in Hd. exact Hd.
  Qed.

  Lemma clause_ref os : a_bad_ref (map N os) <-> spec_bad_ref bs os.
  Proof.
    unfold a_bad_ref, spec_bad_ref, has_real. split.
    - intros (c & n & ov & Hin & Hno). apply in_map_iff in Hin. destruct Hin as (o & Heq & Ho).
      destruct o; cbn in Heq; try discriminate. inversion Heq; subst.
      exists c, name, ov0. split; [assumption|].
      intros (o1 & Ho1 & Hk & Hn). apply Hno. exists (N o1). split; [apply in_map; assumption|].
      rewrite norm_kind, norm_name, norm_ov_kind, norm_ov_target. auto.
    - intros (c & n & ov & Hin & Hno). exists c, (P n), (norm_override bs ov). split.
      + apply in_map_iff. exists (ORef c n ov). split; [reflexivity|assumption].
      + intros (o' & Ho' & Hk & Hn). apply in_map_iff in Ho'. destruct Ho' as (o1 & <- & Ho1).
        rewrite norm_kind, norm_name, norm_ov_kind, norm_ov_target in *. apply Hno. exists o1. auto.
  Qed.
End Norm.

(* ================================================================== *)
(* C14_accept_iff                                                      *)
(* ================================================================== *)

(* the naming clauses: the whole decision before the repair of D11; the current one is [accept_iff] below *)
Theorem accept_iff_before_d11_repair : forall d, cfg_free d ->
  (name_ref_check_before_d11_repair d = false <-> C14_spec_reject_names d).
Proof.
  intros d Hf. unfold cfg_free in Hf. unfold C14_spec_reject_names, spec_reject.
  set (bs := dev_boundaries d) in *. set (os := preorder_objects (d_objects d)) in *.
  assert (Hpre : preorder_objects (d_objects (names_normalized d)) = map (norm_object bs) os).
  { unfold names_normalized. cbn. apply preorder_norm. }
  rewrite <- (clause_object bs os Hf), <- (clause_field bs os), <- (clause_enum bs os Hf),
          <- (clause_variant bs os Hf), <- (clause_ref bs os).
  unfold name_ref_check_before_d11_repair.
  pose proof (names_unique_spec (names_normalized d)) as HU. rewrite Hpre in HU.
  pose proof (refs_validated_ok_false (names_normalized d)) as HR. rewrite Hpre in HR.
  unfold uniqueb in HU.
  destruct (names_unique (names_normalized d)) as [e|].
  - assert (fresh_u [] (map object_uid (map (norm_object bs) os)) && fields_okb (map (norm_object bs) os) &&
            fresh_u [] (map eid (device_enums (map (norm_object bs) os))) &&
            forallb variants_ok (device_enums (map (norm_object bs) os)) = false) as HF.
    { destruct (_ && _ && _ && _); [|reflexivity]. destruct HU as [_ HU]. specialize (HU eq_refl). discriminate. }
    rewrite !andb_false_iff in HF. split; [intros _|reflexivity]. tauto.
  - destruct HU as [HU _]. specialize (HU eq_refl). rewrite !andb_true_iff in HU.
    destruct HU as (((U1 & U2) & U3) & U4). rewrite U1, U2, U3, U4, HR.
    split; [intros H; repeat right; assumption|].
    intros [H|[H|[H|[H|H]]]]; try discriminate. assumption.
Qed.



(* ================================================================== *)
(* ref lowering: fuel, termination, acyclicity                         *)
(* ================================================================== *)

Notation OOF := (Fail OutOfFuel).

Lemma mapO_mono {A B} (g g' : A -> outcome B) l :
  (forall x, In x l -> g x <> OOF -> g' x = g x) ->
  mapO g l <> OOF -> mapO g' l = mapO g l.
Proof.
  induction l as [|a t IH]; intros H Hne; [reflexivity|].
  cbn [mapO] in *.
  destruct (g a) as [b|k] eqn:Ea.
  - rewrite (H a (or_introl eq_refl)) by (rewrite Ea; discriminate). rewrite Ea.
    cbn [bind] in *. rewrite IH.
    + reflexivity.
    + intros x Hx Hn. apply H; [right; assumption|assumption].
    + intros E. apply Hne. rewrite E. reflexivity.
  - cbn [bind] in Hne. rewrite (H a (or_introl eq_refl)); [rewrite Ea; reflexivity|].
    rewrite Ea. intros E. apply Hne. inversion E. reflexivity.
Qed.

Lemma mapO_not_oof {A B} (g : A -> outcome B) l :
  (forall x, In x l -> g x <> OOF) -> mapO g l <> OOF.
Proof.
  induction l as [|a t IH]; intros H; cbn; [discriminate|].
  pose proof (H a (or_introl eq_refl)) as Ha. destruct (g a) as [b|k]; cbn; [|intros E; apply Ha; inversion E; reflexivity].
  assert (mapO g t <> OOF) as Ht by (apply IH; intros; apply H; right; assumption).
  destruct (mapO g t); cbn; [discriminate|exact Ht].
Qed.

Lemma mapO_ok_inv {A B} (g : A -> outcome B) l r :
  mapO g l = Ok r -> forall x, In x l -> exists b, g x = Ok b.
Proof.
  revert r. induction l as [|a t IH]; intros r H x Hx; [contradiction|]. cbn in H.
  destruct (g a) as [b|k] eqn:Ea; cbn in H; [|discriminate].
  destruct (mapO g t) as [bs|k] eqn:Et; cbn in H; [|discriminate].
  destruct Hx as [<-|Hx]; [eauto|]. eapply IH; eauto.
Qed.

Lemma mapO_ok_or_oof {A B} (g : A -> outcome B) l :
  (forall x, In x l -> (exists b, g x = Ok b) \/ g x = OOF) ->
  (exists r, mapO g l = Ok r) \/ mapO g l = OOF.
Proof.
  induction l as [|a t IH]; intros H; cbn; [left; eauto|].
  destruct (H a (or_introl eq_refl)) as [(b & ->)| -> ]; cbn; [|right; reflexivity].
  destruct IH as [(r & ->)| -> ]; cbn; [intros; apply H; right; assumption|left; eauto|right; reflexivity].
Qed.

Section Lowering.
  Context (dev : list object).

  Lemma get_method_mono : forall f o,
    get_method f dev o <> OOF -> get_method (S f) dev o = get_method f dev o.
  Proof.
    induction f as [|f IH]; intros o H; [exfalso; apply H; reflexivity|].
    destruct o; try reflexivity.
    - (* block *)
      change (get_method (S f) dev (OBlock c name address_offset rep objs))
        with (do ms <- mapO (get_method f dev) objs;
              Ok ((to_snake_default name, name), (name, map fst ms) :: flat_map snd ms)) in *.
      change (get_method (S (S f)) dev (OBlock c name address_offset rep objs))
        with (do ms <- mapO (get_method (S f) dev) objs;
              Ok ((to_snake_default name, name), (name, map fst ms) :: flat_map snd ms)).
      rewrite (mapO_mono (get_method f dev) (get_method (S f) dev)); [reflexivity| |].
      + intros x _ Hx. apply IH. assumption.
      + intros E. apply H. rewrite E. reflexivity.
    - (* ref *)
      cbn [get_method] in *. destruct (search_object (override_target ov) dev) as [tgt|]; [|reflexivity].
      destruct (okind_eqb (object_kind tgt) (override_kind ov)); [|reflexivity].
      rewrite IH; [reflexivity|]. intros E. apply H. rewrite E. reflexivity.
  Qed.

  Lemma get_method_mono_le : forall f f' o,
    (f <= f')%nat -> get_method f dev o <> OOF -> get_method f' dev o = get_method f dev o.
  Proof.
    intros f f' o Hle H. induction Hle as [|m Hle IH]; [reflexivity|].
    rewrite get_method_mono; [assumption|]. rewrite IH. assumption.
  Qed.

  Definition term (o : object) : Prop := exists f, get_method f dev o <> OOF.

  Lemma term_common : forall objs, Forall term objs ->
    exists f, forall x, In x objs -> get_method f dev x <> OOF.
  Proof.
    induction 1 as [|x t (fx & Hx) Ht (ft & IH)]; [exists O; intros ? []|].
    exists (Nat.max fx ft). intros y [<-|Hy].
    - rewrite (get_method_mono_le fx); [assumption|lia|assumption].
    - rewrite (get_method_mono_le ft); [apply IH; assumption|lia|apply IH; assumption].
  Qed.

  (* a block ref with target t occurs in the subtree of o *)
  Definition bref_in (t : string) (o : object) : Prop :=
    exists x, In x (pre o) /\ is_block_ref_to t x.

  Definition targets_term (o : object) : Prop :=
    forall t, bref_in t o ->
    forall c off rep objs, search_object t dev = Some (OBlock c t off rep objs) -> term (OBlock c t off rep objs).

  Lemma term_obj : forall o, targets_term o -> term o.
  Proof.
    induction o using object_ind'; intros Ht.
    - (* block *)
      assert (Forall term objs) as Hall.
      { rewrite Forall_forall in *. intros x Hx. apply H; [assumption|].
        intros t (y & Hy & Hr). apply Ht. exists y. split; [|assumption].
        cbn. right. apply in_flat_map. exists x. auto. }
      destruct (term_common objs Hall) as (f & Hf). exists (S f).
      change (get_method (S f) dev (OBlock c n off rep objs))
        with (do ms <- mapO (get_method f dev) objs;
              Ok ((to_snake_default n, n), (n, map fst ms) :: flat_map snd ms)).
      pose proof (mapO_not_oof (get_method f dev) objs Hf) as Hm.
      destruct (mapO (get_method f dev) objs); cbn; [discriminate|intros E; apply Hm; inversion E; reflexivity].
    - exists 1%nat. discriminate.
    - exists 1%nat. discriminate.
    - exists 1%nat. discriminate.
    - (* ref *)
      destruct (search_object (override_target ov) dev) as [tgt|] eqn:Es.
      2:{ exists 1%nat. cbn. rewrite Es. discriminate. }
      destruct (okind_eqb (object_kind tgt) (override_kind ov)) eqn:Ek.
      2:{ exists 1%nat. cbn. rewrite Es, Ek. discriminate. }
      assert (term tgt) as (f & Hf).
      { destruct (search_object_some _ _ _ Es) as [_ Hname].
        destruct ov as [t a rp|t acc a al rs rp|t a al rp]; cbn in *.
        - destruct tgt; cbn in Ek; try discriminate. cbn in Hname. subst.
          apply (Ht t); [|assumption]. exists (ORef c n (OvBlock t a rp)). split; [left; reflexivity|].
          exists c, n, a, rp. reflexivity.
        - destruct tgt; cbn in Ek; try discriminate. exists 1%nat. discriminate.
        - destruct tgt; cbn in Ek; try discriminate. exists 1%nat. discriminate. }
      exists (S f). cbn [get_method]. rewrite Es, Ek.
      destruct (get_method f dev tgt); cbn; [discriminate|intros E; apply Hf; inversion E; reflexivity].
  Qed.

  (* ---------- descending along successful calls ---------- *)

  Lemma ok_descend : forall o f r, get_method f dev o = Ok r ->
    forall x, In x (pre o) -> exists f' r', (f' <= f)%nat /\ get_method f' dev x = Ok r'.
  Proof.
    induction o using object_ind'; intros f res Hr x Hx;
      try (cbn in Hx; destruct Hx as [<-|[]]; exists f, res; split; [lia|assumption]).
    cbn in Hx. destruct Hx as [<-|Hx]; [exists f, res; split; [lia|assumption]|].
    destruct f as [|f]; [discriminate|].
    change (get_method (S f) dev (OBlock c n off rep objs))
      with (do ms <- mapO (get_method f dev) objs;
            Ok ((to_snake_default n, n), (n, map fst ms) :: flat_map snd ms)) in Hr.
    destruct (mapO (get_method f dev) objs) as [ms|k] eqn:Em; cbn in Hr; [|discriminate].
    apply in_flat_map in Hx. destruct Hx as (ch & Hch & Hx).
    destruct (mapO_ok_inv _ _ _ Em ch Hch) as (b & Hb).
    rewrite Forall_forall in H. destruct (H ch Hch f b Hb x Hx) as (f' & r' & Hle & Hok).
    exists f', r'. split; [lia|assumption].
  Qed.

  Lemma ok_descend_strict : forall c n off rep objs f r,
    get_method f dev (OBlock c n off rep objs) = Ok r ->
    forall x, In x (flat_map pre objs) -> exists f' r', (f' < f)%nat /\ get_method f' dev x = Ok r'.
  Proof.
    intros c n off rep objs f r Hr x Hx. destruct f as [|f]; [discriminate|].
    change (get_method (S f) dev (OBlock c n off rep objs))
      with (do ms <- mapO (get_method f dev) objs;
            Ok ((to_snake_default n, n), (n, map fst ms) :: flat_map snd ms)) in Hr.
    destruct (mapO (get_method f dev) objs) as [ms|k] eqn:Em; cbn in Hr; [|discriminate].
    apply in_flat_map in Hx. destruct Hx as (ch & Hch & Hx).
    destruct (mapO_ok_inv _ _ _ Em ch Hch) as (b & Hb).
    destruct (ok_descend ch f b Hb x Hx) as (f' & r' & Hle & Hok).
    exists f', r'. split; [lia|assumption].
  Qed.

  Lemma ok_ref_target : forall c n t a rp f r,
    get_method f dev (ORef c n (OvBlock t a rp)) = Ok r ->
    exists f' cc off rep objs r', (f' < f)%nat /\
      search_object t dev = Some (OBlock cc t off rep objs) /\
      get_method f' dev (OBlock cc t off rep objs) = Ok r'.
  Proof.
    intros c n t a rp f r Hr. destruct f as [|f]; [discriminate|]. cbn [get_method override_target override_kind] in Hr.
    destruct (search_object t dev) as [tgt|] eqn:Es; [|discriminate].
    destruct (okind_eqb (object_kind tgt) KBlock) eqn:Ek; [|discriminate].
    destruct (get_method f dev tgt) as [m|k] eqn:Em; cbn in Hr; [|discriminate].
    destruct (search_object_some _ _ _ Es) as [_ Hn].
    destruct tgt; cbn in Ek; try discriminate. cbn in Hn. subst.
    exists f, c0, address_offset, rep, objs, m. split; [lia|]. split; [reflexivity|assumption].
  Qed.

  (* ---------- refs_resolve: no `expect` fires ---------- *)

  Definition refs_resolve : Prop :=
    forall c n ov, In (ORef c n ov) (preorder_objects dev) ->
    exists tgt, search_object (override_target ov) dev = Some tgt /\ object_kind tgt = override_kind ov.

  Lemma child_in_dev : forall c n off rep objs x,
    In (OBlock c n off rep objs) (preorder_objects dev) -> In x objs -> In x (preorder_objects dev).
  Proof.
    intros c n off rep objs x Hb Hx. rewrite preorder_objects_pre in *.
    eapply flat_pre_trans; [exact Hb|]. cbn. right. apply in_flat_map. exists x. split; [assumption|apply pre_self].
  Qed.

  Lemma okind_eqb_refl k : okind_eqb k k = true.
  Proof. destruct k; reflexivity. Qed.

  Lemma no_assert : refs_resolve -> forall f o, In o (preorder_objects dev) ->
    (exists r, get_method f dev o = Ok r) \/ get_method f dev o = OOF.
  Proof.
    intros Hres. induction f as [|f IH]; intros o Ho; [right; reflexivity|].
    destruct o; try (left; eexists; reflexivity).
    - change (get_method (S f) dev (OBlock c name address_offset rep objs))
        with (do ms <- mapO (get_method f dev) objs;
              Ok ((to_snake_default name, name), (name, map fst ms) :: flat_map snd ms)).
      destruct (mapO_ok_or_oof (get_method f dev) objs) as [(ms & ->)| -> ]; cbn.
      + intros x Hx. apply IH. eapply child_in_dev; eassumption.
      + left. eauto.
      + right. reflexivity.
    - cbn [get_method]. destruct (Hres c name ov Ho) as (tgt & Es & Ek). rewrite Es, Ek, okind_eqb_refl.
      destruct (search_object_some _ _ _ Es) as [Hin _].
      destruct (IH tgt Hin) as [(m & ->)| -> ]; cbn.
      + left. eauto.
      + right. reflexivity.
  Qed.
End Lowering.



Section Main.
  Context (dev : list object).

  Definition nested_rel (t a : string) : Prop := nested dev a t.
  Definition all_acc : Prop := forall a, Acc nested_rel a.

  Lemma rank_acc : acyclic dev -> all_acc.
  Proof.
    intros (rank & H).
    assert (forall n a, (rank a < n)%nat -> Acc nested_rel a) as X.
    { induction n as [|n IH]; intros a Ha; [lia|]. constructor. intros t Ht.
      apply IH. specialize (H a t Ht). lia. }
    intros a. apply (X (S (rank a))). lia.
  Qed.

  Lemma acc_term_block : forall a, Acc nested_rel a ->
    forall c off rep objs, search_object a dev = Some (OBlock c a off rep objs) ->
    term dev (OBlock c a off rep objs).
  Proof.
    induction 1 as [a _ IH]. intros c off rep objs Hs. apply term_obj.
    intros t (x & Hx & Hr) c' off' rep' objs' Hs'. apply (IH t); [|assumption].
    exists c, off, rep, objs. split; [assumption|]. exists x. split; [|assumption].
    rewrite preorder_objects_pre. cbn in Hx. destruct Hx as [<-|Hx]; [|assumption].
    destruct Hr as (cx & nx & ax & rx & Hr). discriminate.
  Qed.

  Lemma acc_terminates : all_acc -> forall root, exists f, lower f root dev <> OOF.
  Proof.
    intros Hacc root.
    assert (Forall (term dev) dev) as Hall.
    { apply Forall_forall. intros o Ho. apply term_obj. intros t Hb c off rep objs Hs.
      apply acc_term_block; [apply Hacc|assumption]. }
    destruct (term_common dev dev Hall) as (f & Hf). exists f. unfold lower.
    pose proof (mapO_not_oof (get_method f dev) dev Hf) as Hm.
    destruct (mapO (get_method f dev) dev); cbn; [discriminate|intros E; apply Hm; inversion E; reflexivity].
  Qed.

  Lemma ok_acc : forall f a c off rep objs r,
    search_object a dev = Some (OBlock c a off rep objs) ->
    get_method f dev (OBlock c a off rep objs) = Ok r -> Acc nested_rel a.
  Proof.
    induction f as [f IH] using lt_wf_ind. intros a c off rep objs r Hs Hok.
    constructor. intros t (c' & off' & rep' & objs' & Hs' & (x & Hx & (cx & nx & ax & rx & ->))).
    rewrite Hs in Hs'. inversion Hs'; subst c' off' rep' objs'. rewrite preorder_objects_pre in Hx.
    destruct (ok_descend_strict dev _ _ _ _ _ _ _ Hok _ Hx) as (f1 & r1 & Hlt1 & Hok1).
    destruct (ok_ref_target dev _ _ _ _ _ _ _ Hok1) as (f2 & cc & off2 & rep2 & objs2 & r2 & Hlt2 & Hs2 & Hok2).
    apply (IH f2) with (c := cc) (off := off2) (rep := rep2) (objs := objs2) (r := r2); [lia|assumption|assumption].
  Qed.

  Lemma lower_ok_all : forall F root bl, lower F root dev = Ok bl ->
    forall o, In o (preorder_objects dev) -> exists f r, (f <= F)%nat /\ get_method f dev o = Ok r.
  Proof.
    intros F root bl H o Ho. unfold lower in H.
    destruct (mapO (get_method F dev) dev) as [ms|k] eqn:Em; cbn in H; [|discriminate].
    rewrite preorder_objects_pre in Ho. apply in_flat_map in Ho. destruct Ho as (top & Htop & Ho).
    destruct (mapO_ok_inv _ _ _ Em top Htop) as (b & Hb).
    destruct (ok_descend dev top F b Hb o Ho) as (f & r & Hle & Hok). eauto.
  Qed.

  Lemma nested_needs_block : forall a t, nested dev a t ->
    exists c off rep objs, search_object a dev = Some (OBlock c a off rep objs).
  Proof. intros a t (c & off & rep & objs & Hs & _). eauto. Qed.

  Lemma ok_all_acc : forall F root bl, lower F root dev = Ok bl -> all_acc.
  Proof.
    intros F root bl H a.
    destruct (search_object a dev) as [o|] eqn:Es.
    - destruct (search_object_some _ _ _ Es) as [Hin Hn].
      destruct o; try (constructor; intros t Ht; destruct (nested_needs_block _ _ Ht) as (? & ? & ? & ? & E);
                       rewrite Es in E; discriminate).
      cbn in Hn. subst name.
      destruct (lower_ok_all F root bl H _ Hin) as (f & r & _ & Hok).
      eapply ok_acc; eassumption.
    - constructor. intros t Ht. destruct (nested_needs_block _ _ Ht) as (? & ? & ? & ? & E).
      rewrite Es in E. discriminate.
  Qed.

  (* ---------- a rank from the least sufficient fuel ---------- *)

  Definition okb (r : outcome (method * list lir_block)) : bool := match r with Ok _ => true | _ => false end.

  Fixpoint least_from (p : nat -> bool) (k fuel : nat) : nat :=
    match fuel with
    | O => k
    | S fu => if p k then k else least_from p (S k) fu
    end.

  Lemma least_from_spec p : forall fuel k j,
    (k <= j <= k + fuel)%nat -> p j = true ->
    p (least_from p k fuel) = true /\ (least_from p k fuel <= j)%nat.
  Proof.
    induction fuel as [|fu IH]; intros k j Hj Hp; cbn.
    - assert (j = k) by lia. subst. auto.
    - destruct (p k) eqn:E; [split; [assumption|lia]|].
      assert (j <> k) by (intros ->; congruence).
      apply IH; [lia|assumption].
  Qed.

  Definition mfuel (F : nat) (o : object) : nat := least_from (fun f => okb (get_method f dev o)) 0 F.

  Lemma mfuel_ok F o f r : (f <= F)%nat -> get_method f dev o = Ok r ->
    (exists r', get_method (mfuel F o) dev o = Ok r') /\ (mfuel F o <= f)%nat.
  Proof.
    intros Hle Hok.
    destruct (least_from_spec (fun f => okb (get_method f dev o)) F 0 f) as [H1 H2]; [lia|rewrite Hok; reflexivity|].
    split; [|exact H2]. fold (mfuel F o) in H1. destruct (get_method (mfuel F o) dev o); [eauto|discriminate].
  Qed.

  Definition fuel_rank (F : nat) (a : string) : nat :=
    match search_object a dev with Some o => mfuel F o | None => O end.

  Lemma fuel_rank_decreases : forall F root bl, lower F root dev = Ok bl ->
    forall a t, nested dev a t -> (fuel_rank F t < fuel_rank F a)%nat.
  Proof.
    intros F root bl H a t (c & off & rep & objs & Hs & (x & Hx & (cx & nx & ax & rx & ->))).
    destruct (search_object_some _ _ _ Hs) as [Hin _].
    destruct (lower_ok_all F root bl H _ Hin) as (f0 & r0 & Hle0 & Hok0).
    destruct (mfuel_ok F _ f0 r0 Hle0 Hok0) as ((rm & Hokm) & Hlem).
    rewrite preorder_objects_pre in Hx.
    destruct (ok_descend_strict dev _ _ _ _ _ _ _ Hokm _ Hx) as (f1 & r1 & Hlt1 & Hok1).
    destruct (ok_ref_target dev _ _ _ _ _ _ _ Hok1) as (f2 & cc & off2 & rep2 & objs2 & r2 & Hlt2 & Hs2 & Hok2).
    unfold fuel_rank. rewrite Hs, Hs2.
    destruct (mfuel_ok F _ f2 r2 ltac:(lia) Hok2) as (_ & Hle2). lia.
  Qed.

  Lemma lower_ok_or_oof : refs_resolve dev -> forall f root,
    (exists bl, lower f root dev = Ok bl) \/ lower f root dev = OOF.
  Proof.
    intros Hres f root. unfold lower.
    destruct (mapO_ok_or_oof (get_method f dev) dev) as [(ms & ->)| -> ]; cbn.
    - intros x Hx. apply no_assert; [assumption|]. rewrite preorder_objects_pre.
      apply in_flat_map. exists x. split; [assumption|apply pre_self].
    - left. eauto.
    - right. reflexivity.
  Qed.

  Theorem lowering_terminates_iff_acyclic :
    refs_resolve dev -> (lowering_terminates dev <-> acyclic dev).
  Proof.
    intros Hres. split.
    - intros (f & Hf). destruct (lower_ok_or_oof Hres f "Root") as [(bl & Hok)|E]; [|contradiction].
      exists (fuel_rank f). apply (fuel_rank_decreases f "Root" bl Hok).
    - intros Hac. apply (acc_terminates (rank_acc Hac)).
  Qed.

  (* a cycle of the nesting relation excludes any rank *)
  Lemma cyclic_not_acyclic : cyclic dev -> ~ acyclic dev.
  Proof.
    intros (a & Hc) (rank & Hr).
    assert (forall x y, nested_plus dev x y -> (rank y < rank x)%nat) as X.
    { induction 1 as [x y Hn|x m y Hn _ IH]; [apply Hr; assumption|]. specialize (Hr _ _ Hn). lia. }
    specialize (X a a Hc). lia.
  Qed.

  Theorem cycle_diverges : refs_resolve dev -> cyclic dev -> forall fuel root, lower fuel root dev = OOF.
  Proof.
    intros Hres Hc fuel root. destruct (lower_ok_or_oof Hres fuel root) as [(bl & Hok)|E]; [|assumption].
    exfalso. apply (cyclic_not_acyclic Hc). exists (fuel_rank fuel). apply (fuel_rank_decreases fuel root bl Hok).
  Qed.
End Main.

(* ================================================================== *)
(* D11: block A { ref B = block A { .. } }                              *)
(* ================================================================== *)

Definition d11_ref : object := ORef None "B" (OvBlock "A" (Some 1%Z) None).
Definition d11_block : object := OBlock None "A" 0%Z None [d11_ref].
Definition d11_objects : list object := [d11_block].

Lemma d11_no_fuel : forall f,
  get_method f d11_objects d11_block = OOF /\ get_method f d11_objects d11_ref = OOF.
Proof.
  induction f as [|f [IHb IHr]]; [split; reflexivity|]. split.
  - change (get_method (S f) d11_objects d11_block)
      with (do ms <- mapO (get_method f d11_objects) [d11_ref];
            Ok ((to_snake_default "A", "A"), ("A", map fst ms) :: flat_map snd ms)).
    cbn [mapO]. rewrite IHr. reflexivity.
  - change (get_method (S f) d11_objects d11_ref)
      with (match search_object "A" d11_objects with
            | None => Fail AssertFail
            | Some tgt =>
              if okind_eqb (object_kind tgt) KBlock
              then do m <- get_method f d11_objects tgt; Ok ((to_snake_default "B", snd (fst m)), snd m)
              else Fail AssertFail
            end).
    change (search_object "A" d11_objects) with (Some d11_block). cbn [object_kind d11_block okind_eqb].
    rewrite IHb. reflexivity.
Qed.

Lemma d11_lower_diverges : forall fuel root, lower fuel root d11_objects = OOF.
Proof.
  intros fuel root. unfold lower.
  assert (mapO (get_method fuel d11_objects) d11_objects = OOF) as ->; [|reflexivity].
  change (mapO (get_method fuel d11_objects) d11_objects)
    with (do b <- get_method fuel d11_objects d11_block; do bs <- Ok []; Ok (b :: bs)).
  destruct (d11_no_fuel fuel) as [-> _]. reflexivity.
Qed.


Open Scope list_scope.


(* ================================================================== *)
(* Case.v: split without the accumulator                               *)
(* ================================================================== *)

Definition cons_first (c : ascii) (r : list (list ascii)) : list (list ascii) :=
  match r with w :: ws => (c :: w) :: ws | [] => [[c]] end.

Definition app_first (w : list ascii) (r : list (list ascii)) : list (list ascii) :=
  match r with x :: xs => (w ++ x) :: xs | [] => [w] end.

Fixpoint split_rec (bs : list boundary) (prev : option ascii) (l : list ascii) : list (list ascii) :=
  match l with
  | [] => [[]]
  | c :: t =>
    let r := split_rec bs (Some c) t in
    if any_one bs c then [] :: r
    else if split_before bs prev c t then [] :: cons_first c r
    else cons_first c r
  end.

Lemma split_rec_nonempty bs : forall l prev, exists w ws, split_rec bs prev l = w :: ws.
Proof.
  induction l as [|c t IH]; intros prev; cbn; [eauto|].
  destruct (IH (Some c)) as (w & ws & ->).
  destruct (any_one bs c); [eauto|]. destruct (split_before bs prev c t); cbn; eauto.
Qed.

Lemma split_aux_rec bs : forall l prev word,
  split_aux bs prev l word = app_first (rev word) (split_rec bs prev l).
Proof.
  induction l as [|c t IH]; intros prev word; cbn.
  - rewrite app_nil_r. reflexivity.
  - destruct (split_rec_nonempty bs t (Some c)) as (w & ws & E).
    destruct (any_one bs c).
    + rewrite IH, E. cbn. rewrite app_nil_r. reflexivity.
    + destruct (split_before bs prev c t).
      * rewrite IH, E. cbn. rewrite app_nil_r. reflexivity.
      * rewrite IH, E. cbn. rewrite <- app_assoc. reflexivity.
Qed.

Lemma split_eq bs s : split bs s = filter nonempty (split_rec bs None s).
Proof.
  unfold split. rewrite split_aux_rec. cbn.
  destruct (split_rec_nonempty bs s None) as (w & ws & ->). reflexivity.
Qed.

(* ================================================================== *)
(* character classes                                                   *)
(* ================================================================== *)

Ltac all_ascii c :=
  destruct c as [b0 b1 b2 b3 b4 b5 b6 b7];
  destruct b0, b1, b2, b3, b4, b5, b6, b7; reflexivity.

Lemma lower_not_upper c : is_upper (to_lower c) = false.
Proof. all_ascii c. Qed.
Lemma lower_is_lower c : is_lower (to_lower c) = is_lower c || is_upper c.
Proof. all_ascii c. Qed.
Lemma lower_is_digit c : is_digit (to_lower c) = is_digit c.
Proof. all_ascii c. Qed.
Lemma lower_delim c : any_one default_boundaries (to_lower c) = any_one default_boundaries c.
Proof. all_ascii c. Qed.
Lemma lower_idem c : to_lower (to_lower c) = to_lower c.
Proof. all_ascii c. Qed.
Lemma underscore_two c : any_two default_boundaries chr_underscore c = false.
Proof. all_ascii c. Qed.
Lemma underscore_delim : any_one default_boundaries chr_underscore = true.
Proof. reflexivity. Qed.

Notation D := default_boundaries.

Lemma any_two_default p c :
  any_two D p c =
  (is_lower p && is_upper c) || (is_upper p && is_digit c) || (is_digit p && is_upper c) ||
  (is_digit p && is_lower c) || (is_lower p && is_digit c).
Proof.
  unfold any_two, default_boundaries. cbn [existsb detect_two].
  destruct (is_lower p), (is_upper c), (is_upper p), (is_digit c), (is_digit p), (is_lower c); reflexivity.
Qed.

Lemma any_three_default p c e : any_three D p c e = is_upper p && is_upper c && is_lower e.
Proof.
  unfold any_three, default_boundaries. cbn [existsb detect_three].
  destruct (is_upper p && is_upper c && is_lower e); reflexivity.
Qed.

Lemma lowered_two p c : any_two D (to_lower p) (to_lower c) = true -> any_two D p c = true.
Proof.
  rewrite !any_two_default, !lower_not_upper, !lower_is_lower, !lower_is_digit.
  destruct (is_lower p), (is_upper c), (is_upper p), (is_digit c), (is_digit p), (is_lower c); cbn; congruence.
Qed.

(* ================================================================== *)
(* words produced by split (default boundaries)                        *)
(* ================================================================== *)

(* no delimiter inside, no boundary between neighbours *)
Fixpoint chain (w : list ascii) : Prop :=
  match w with
  | [] => True
  | c :: t => any_one D c = false /\
              match t with c2 :: _ => any_two D c c2 = false | [] => True end /\
              chain t
  end.

Definition headok (prev : option ascii) (r : list (list ascii)) : Prop :=
  match r, prev with
  | (c2 :: _) :: _, Some p => any_two D p c2 = false
  | _, _ => True
  end.

Lemma split_rec_chain : forall l prev,
  Forall chain (split_rec D prev l) /\ headok prev (split_rec D prev l).
Proof.
  induction l as [|c t IH]; intros prev.
  - cbn. split; [repeat constructor|exact I].
  - cbn [split_rec]. destruct (IH (Some c)) as [Hall Hhead].
    destruct (split_rec_nonempty D t (Some c)) as (w & ws & E). rewrite E in *.
    assert (any_one D c = false -> chain (c :: w)) as Hcw.
    { intros Hc. cbn [chain]. inversion Hall; subst. split; [assumption|]. split; [|assumption].
      destruct w; [exact I|]. exact Hhead. }
    destruct (any_one D c) eqn:Ec.
    + split; [constructor; [exact I|assumption]|destruct prev; exact I].
    + destruct (split_before D prev c t) eqn:Es.
      * split; [|destruct prev; exact I]. constructor; [exact I|]. cbn.
        inversion Hall; subst. constructor; [apply Hcw; reflexivity|assumption].
      * split.
        -- cbn. inversion Hall; subst. constructor; [apply Hcw; reflexivity|assumption].
        -- cbn. destruct prev as [p|]; [|exact I]. cbn in Es. apply orb_false_iff in Es. destruct Es. assumption.
Qed.

(* a word that re-splitting (default boundaries) leaves alone *)
Fixpoint stable (w : list ascii) : Prop :=
  match w with
  | [] => True
  | c :: t => any_one D c = false /\ is_upper c = false /\
              match t with c2 :: _ => any_two D c c2 = false | [] => True end /\
              stable t
  end.

Lemma chain_lower_stable : forall w, chain w -> stable (map to_lower w).
Proof.
  induction w as [|c t IH]; intros H; [exact I|].
  cbn [chain] in H. destruct H as (Hc & Hp & Ht). cbn [map stable].
  split; [rewrite lower_delim; assumption|]. split; [apply lower_not_upper|]. split; [|apply IH; assumption].
  destruct t as [|c2 t2]; [exact I|]. cbn [map].
  destruct (any_two D (to_lower c) (to_lower c2)) eqn:E; [|reflexivity].
  apply lowered_two in E. congruence.
Qed.

Definition last_or (prev : option ascii) (w : list ascii) : option ascii :=
  match w with [] => prev | c :: t => Some (last t c) end.

Lemma last_cons {A} : forall (l : list A) a d, last (a :: l) d = last l a.
Proof.
  induction l as [|b l IH]; intros a d; [reflexivity|].
  change (last (a :: b :: l) d) with (last (b :: l) d). rewrite !IH. reflexivity.
Qed.

Lemma last_or_cons prev c w : last_or prev (c :: w) = last_or (Some c) w.
Proof. destruct w as [|c2 t]; [reflexivity|]. unfold last_or. rewrite last_cons. reflexivity. Qed.

Lemma stable_run : forall w prev tail,
  stable w ->
  (forall p c t, prev = Some p -> w = c :: t -> any_two D p c = false) ->
  split_rec D prev (w ++ tail) = app_first w (split_rec D (last_or prev w) tail).
Proof.
  induction w as [|c w IH]; intros prev tail Hst Hhead.
  - cbn. destruct (split_rec_nonempty D tail prev) as (x & xs & ->). reflexivity.
  - cbn [stable] in Hst. destruct Hst as (Hc & Hu & Hp & Hw).
    cbn [app split_rec]. rewrite Hc.
    assert (split_before D prev c (w ++ tail) = false) as ->.
    { destruct prev as [p|]; [|reflexivity]. cbn [split_before].
      rewrite (Hhead p c w eq_refl eq_refl). cbn [orb].
      destruct (w ++ tail) as [|e rest]; [reflexivity|]. rewrite any_three_default, Hu.
      rewrite andb_false_r. reflexivity. }
    rewrite IH; [|assumption|].
    + rewrite last_or_cons.
      destruct (split_rec_nonempty D tail (last_or (Some c) w)) as (x & xs & ->). reflexivity.
    + intros p c2 t Hp2 Hw2. inversion Hp2; subst. exact Hp.
Qed.

Lemma split_rec_join : forall ws prev,
  Forall stable ws -> Forall (fun w => nonempty w = true) ws ->
  prev = None \/ prev = Some chr_underscore ->
  filter nonempty (split_rec D prev (join [chr_underscore] ws)) = ws.
Proof.
  induction ws as [|w t IH]; intros prev Hst Hne Hprev; [reflexivity|].
  inversion Hst as [|? ? Hw Ht]; subst. inversion Hne as [|? ? Hwn Htn]; subst.
  assert (forall p c r, prev = Some p -> w = c :: r -> any_two D p c = false) as Hhead.
  { intros p c r Hp _. destruct Hprev as [Hprev|Hprev]; rewrite Hprev in Hp; [discriminate|].
    inversion Hp; subst. apply underscore_two. }
  destruct t as [|w2 t2].
  - cbn [join]. rewrite <- (app_nil_r w) at 1. rewrite stable_run by assumption. cbn. rewrite app_nil_r, Hwn. reflexivity.
  - cbn [join]. rewrite stable_run by assumption.
    cbn [app split_rec]. rewrite underscore_delim. cbn [app_first]. rewrite app_nil_r. cbn [filter]. rewrite Hwn.
    f_equal. apply IH; [assumption|assumption|right; reflexivity].
Qed.

Lemma filter_nonempty_all (ws : list (list ascii)) : Forall (fun w => nonempty w = true) (filter nonempty ws).
Proof. apply Forall_forall. intros w Hw. apply filter_In in Hw. apply Hw. Qed.

Lemma map_lower_idem w : map to_lower (map to_lower w) = map to_lower w.
Proof. rewrite map_map. apply map_ext. intros. apply lower_idem. Qed.

Theorem snake_l_default_idempotent : forall s, snake_l D (snake_l D s) = snake_l D s.
Proof.
  intros s. unfold snake_l. set (ws := map word_lower (split D s)).
  assert (split D (join [chr_underscore] ws) = ws) as ->.
  { rewrite split_eq. apply split_rec_join; [| |left; reflexivity].
    - unfold ws. rewrite split_eq. apply Forall_forall. intros w Hw. apply in_map_iff in Hw.
      destruct Hw as (w0 & <- & Hw0). apply chain_lower_stable. apply filter_In in Hw0. destruct Hw0 as [Hw0 _].
      destruct (split_rec_chain s None) as [Hall _]. rewrite Forall_forall in Hall. apply Hall. assumption.
    - unfold ws. apply Forall_forall. intros w Hw. apply in_map_iff in Hw. destruct Hw as (w0 & <- & Hw0).
      pose proof (filter_nonempty_all (split_aux D None s [])) as Hne. rewrite Forall_forall in Hne.
      specialize (Hne w0 Hw0). destruct w0; [discriminate|reflexivity]. }
  f_equal. unfold ws. rewrite map_map. apply map_ext. intros w. apply map_lower_idem.
Qed.

Lemma la_sl l : la (sl l) = l.
Proof. apply list_ascii_of_string_of_list_ascii. Qed.
Lemma sl_la s : sl (la s) = s.
Proof. apply string_of_list_ascii_of_string. Qed.

Theorem snake_default_idempotent : forall s, to_snake_default (to_snake_default s) = to_snake_default s.
Proof. intros s. unfold to_snake_default, to_snake. rewrite la_sl, snake_l_default_idempotent. reflexivity. Qed.

(* ================================================================== *)
(* Pascal: fixed points (any boundaries)                               *)
(* ================================================================== *)

Lemma concat_cons_first c r : r <> [] -> List.concat (cons_first c r) = c :: List.concat r.
Proof. destruct r; [congruence|reflexivity]. Qed.

Lemma concat_split_rec bs : forall l prev,
  Forall (fun c => any_one bs c = false) l -> List.concat (split_rec bs prev l) = l.
Proof.
  induction l as [|c t IH]; intros prev H; [reflexivity|]. inversion H; subst.
  cbn [split_rec]. rewrite H2.
  destruct (split_rec_nonempty bs t (Some c)) as (w & ws & E).
  destruct (split_before bs prev c t); cbn [List.concat app]; rewrite concat_cons_first, IH by (try assumption; rewrite E; discriminate); reflexivity.
Qed.

Lemma concat_filter_nonempty (r : list (list ascii)) : List.concat (filter nonempty r) = List.concat r.
Proof. induction r as [|w t IH]; [reflexivity|]. destruct w; cbn; [assumption|]. rewrite IH. reflexivity. Qed.

Lemma join_nil_concat (ws : list (list ascii)) : join [] ws = List.concat ws.
Proof.
  induction ws as [|w t IH]; [reflexivity|]. destruct t; [cbn; rewrite app_nil_r; reflexivity|].
  cbn [join List.concat] in *. rewrite IH. reflexivity.
Qed.

Theorem pascal_fixed : forall bs s,
  Forall (fun c => any_one bs c = false) (la s) ->
  Forall (fun w => word_capital w = w) (split bs (la s)) ->
  to_pascal bs s = s.
Proof.
  intros bs s Hd Hw. unfold to_pascal, pascal_l. rewrite join_nil_concat.
  assert (map word_capital (split bs (la s)) = split bs (la s)) as ->.
  { rewrite <- (map_id (split bs (la s))) at 2. apply map_ext_in. intros w Hin. rewrite Forall_forall in Hw. auto. }
  rewrite split_eq, concat_filter_nonempty, concat_split_rec by assumption. apply sl_la.
Qed.

Open Scope string_scope.

Theorem device_name_check_spec : forall n, device_name_check n = None <-> lenient_pascal n = n.
Proof.
  intros n. unfold device_name_check. destruct (String.eqb n (lenient_pascal n)) eqn:E.
  - apply String.eqb_eq in E. split; [intros _; congruence|reflexivity].
  - apply String.eqb_neq in E. split; [discriminate|intros H; congruence].
Qed.

(* ================================================================== *)
(* accepted definitions: names unique, refs resolve                    *)
(* ================================================================== *)

Lemma nodup_uid_names os :
  (forall o, In o os -> object_cfg o = None) -> NoDup (map object_uid os) -> NoDup (map object_name os).
Proof.
  intros Hc H. apply NoDup_pair_none.
  assert (map object_uid os = map (fun s => (s, @None string)) (map object_name os)) as <-; [|assumption].
  rewrite map_map. apply map_ext_in. intros o Ho. unfold object_uid. rewrite (Hc o Ho). reflexivity.
Qed.

Lemma name_ref_check_before_true d :
  name_ref_check_before_d11_repair d = true <->
  names_unique (names_normalized d) = None /\ refs_validated_ok (names_normalized d) = true.
Proof.
  unfold name_ref_check_before_d11_repair. destruct (names_unique (names_normalized d)).
  - split; [discriminate|intros [H _]; discriminate].
  - split; [auto|intros [_ H]; exact H].
Qed.

Lemma name_ref_check_true d :
  name_ref_check d = true <->
  names_unique (names_normalized d) = None /\ refs_validated_ok (names_normalized d) = true /\
  no_recursive_block_refs (names_normalized d) = true.
Proof.
  unfold name_ref_check. destruct (names_unique (names_normalized d)).
  - split; [discriminate|intros [H _]; discriminate].
  - rewrite andb_true_iff. split; [auto|intros [_ H]; exact H].
Qed.

(* the current check only adds a rejection *)
Lemma name_ref_check_weaker d :
  name_ref_check d = true -> name_ref_check_before_d11_repair d = true.
Proof.
  intros H. apply name_ref_check_true in H. apply name_ref_check_before_true. tauto.
Qed.

Lemma accepted_nodup_names d : cfg_free d -> names_unique (names_normalized d) = None ->
  NoDup (map object_name (preorder_objects (d_objects (names_normalized d)))).
Proof.
  intros Hf Hu. apply names_unique_spec in Hu. unfold uniqueb in Hu. rewrite !andb_true_iff in Hu.
  destruct Hu as (((U1 & _) & _) & _). apply (fresh_walk_nodup uid_eqb uid_eqb_spec) in U1.
  apply nodup_uid_names; [|assumption].
  unfold names_normalized. cbn [d_objects]. rewrite preorder_norm. intros o Ho.
  apply in_map_iff in Ho. destruct Ho as (o0 & <- & Ho0). rewrite norm_cfg.
  unfold cfg_free in Hf. rewrite Forall_forall in Hf. apply (Hf o0 Ho0).
Qed.

Lemma refs_ok_resolve objs :
  NoDup (map object_name (preorder_objects objs)) -> refs_ok (preorder_objects objs) -> refs_resolve objs.
Proof.
  intros Hnd Hok c n ov Hin. destruct (Hok c n ov Hin) as (o & Ho & Hk & Hn). exists o.
  rewrite <- Hn. split; [apply search_finds_declared; assumption|assumption].
Qed.

Theorem accepted_refs_resolve : forall d, cfg_free d -> name_ref_check d = true ->
  forall c n ov, In (ORef c n ov) (preorder_objects (d_objects (names_normalized d))) ->
  exists o, search_object (override_target ov) (d_objects (names_normalized d)) = Some o /\
            In o (preorder_objects (d_objects (names_normalized d))) /\
            object_kind o = override_kind ov /\ object_name o = override_target ov.
Proof.
  intros d Hf Hc c n ov Hin. apply name_ref_check_true in Hc. destruct Hc as (Hu & Hr & _).
  apply refs_validated_ok_true in Hr. pose proof (accepted_nodup_names d Hf Hu) as Hnd.
  destruct (Hr c n ov Hin) as (o & Ho & Hk & Hn). exists o. repeat split; try assumption.
  rewrite <- Hn. apply search_finds_declared; assumption.
Qed.

Theorem accepted_lowering_iff_acyclic : forall d, cfg_free d -> name_ref_check d = true ->
  (lowering_terminates (d_objects (names_normalized d)) <-> acyclic (d_objects (names_normalized d))).
Proof.
  intros d Hf Hc. apply lowering_terminates_iff_acyclic.
  apply name_ref_check_true in Hc. destruct Hc as (Hu & Hr & _).
  apply refs_ok_resolve; [apply accepted_nodup_names; assumption|apply refs_validated_ok_true; assumption].
Qed.

(* ================================================================== *)
(* front-end rejections                                                *)
(* ================================================================== *)

Lemma find_none_forall {A} (p : A -> bool) l : find p l = None <-> Forall (fun x => p x = false) l.
Proof.
  induction l as [|x t IH]; cbn; [split; [constructor|reflexivity]|].
  destruct (p x) eqn:E.
  - split; [discriminate|]. intros H. inversion H; subst. congruence.
  - rewrite IH. split; [intros H; constructor; assumption|intros H; inversion H; assumption].
Qed.

Lemma first_forbidden_none forb items :
  first_forbidden forb items = None <-> Forall (fun i => mem_str i forb = false) items.
Proof. apply find_none_forall. Qed.

Lemma first_unexpected_none allowed keys :
  first_unexpected allowed keys = None <-> Forall (fun k => mem_str k allowed = true) keys.
Proof.
  unfold first_unexpected.
  assert (find (fun k => negb (mem_str k allowed)) keys = None <->
          Forall (fun k => mem_str k allowed = true) keys) as X.
  { rewrite find_none_forall. split; intros H; eapply Forall_impl; try exact H;
      cbn; intros a Ha; [apply negb_false_iff in Ha|apply negb_false_iff]; assumption. }
  destruct (find _ keys); [|tauto]. split; [discriminate|]. intros H. apply X in H. discriminate.
Qed.

Theorem front_dsl_spec : forall n s, front_dsl n s = None <-> shape_ok_dsl s.
Proof.
  intros n s. unfold front_dsl, shape_ok_dsl. destruct (os_kind s).
  - destruct (os_attrs s); [split; [discriminate|intros [H _]; discriminate]|].
    destruct (os_objects s); [split; [discriminate|intros [_ H]; discriminate]|]. tauto.
  - destruct (os_attrs s); [split; [discriminate|intros [H _]; discriminate]|].
    destruct (os_fields s); [split; [discriminate|intros (_ & H & _); discriminate]|].
    rewrite <- first_forbidden_none. destruct (first_forbidden _ _); [split; [discriminate|intros (_ & _ & H); discriminate]|tauto].
  - destruct (os_attrs s); [split; [discriminate|intros [H _]; discriminate]|].
    destruct (os_novalue s); [split; [discriminate|intros (_ & H & _); discriminate]|].
    destruct (os_basic s); [split; [discriminate|intros (_ & _ & H & _); discriminate]|].
    destruct (os_in s); [split; [discriminate|intros (_ & _ & _ & H & _); discriminate]|].
    destruct (os_out s); [split; [discriminate|intros (_ & _ & _ & _ & H & _); discriminate]|].
    rewrite <- first_forbidden_none.
    destruct (first_forbidden _ _); [split; [discriminate|intros (_ & _ & _ & _ & _ & H); discriminate]|tauto].
  - split; [discriminate|contradiction].
  - split; [discriminate|contradiction].
Qed.

Theorem front_manifest_spec : forall s, front_manifest s = None <-> shape_ok_manifest s.
Proof.
  intros s. unfold front_manifest, shape_ok_manifest. destruct (os_kind s);
    try apply first_unexpected_none; split; [discriminate|contradiction|discriminate|contradiction].
Qed.

Open Scope string_scope.

(* ================================================================== *)
(* ensure_no_recursive_block_refs (repair of D11)                      *)
(* ================================================================== *)

(* ---------- reaches ---------- *)

Lemma reaches_one (R : string -> string -> Prop) a b : R a b -> reaches R a b.
Proof. intros H. eapply reaches_step; [exact H|apply reaches_refl]. Qed.

Lemma reaches_trans (R : string -> string -> Prop) a b c : reaches R a b -> reaches R b c -> reaches R a c.
Proof. induction 1; intros H2; [assumption|]. eapply reaches_step; eauto. Qed.

Lemma reaches_snoc (R : string -> string -> Prop) a b c : reaches R a b -> R b c -> reaches R a c.
Proof. intros H1 H2. eapply reaches_trans; [exact H1|apply reaches_one; exact H2]. Qed.

Lemma reaches_ext (R R' : string -> string -> Prop) :
  (forall a b, R a b -> R' a b) -> forall a b, reaches R a b -> reaches R' a b.
Proof. intros H a b. induction 1; [apply reaches_refl|]. eapply reaches_step; eauto. Qed.

(* a set that contains a, and every R-successor of its members, contains everything a reaches *)
Lemma reaches_closed (R : string -> string -> Prop) (S : string -> Prop) :
  (forall x y, S x -> R x y -> S y) -> forall a b, reaches R a b -> S a -> S b.
Proof. intros Hc a b. induction 1; intros Ha; [assumption|]. apply IHreaches. eapply Hc; eauto. Qed.

(* ---------- the worklist ---------- *)

Section Walk.
  Context (succ : string -> list string).
  Let R (a b : string) : Prop := In b (succ a).

  Lemma mem_str_in x l : mem_str x l = true <-> In x l.
  Proof. rewrite mem_str_memb. apply (memb_in String.eqb str_eqb_spec). Qed.

  (* soundness: whatever is popped is reachable from the start *)
  Lemma rec_walk_sound t p : forall fuel seen todo,
    (forall x, In x todo -> reaches R t x) ->
    rec_walk fuel succ p seen todo = Ok true -> reaches R t p.
  Proof.
    induction fuel as [|f IH]; intros seen todo Htodo H; [discriminate|].
    cbn [rec_walk] in H. destruct todo as [|b rest]; [discriminate|].
    destruct (String.eqb b p) eqn:Eb.
    - apply String.eqb_eq in Eb. subst. apply Htodo. left. reflexivity.
    - destruct (mem_str b seen).
      + eapply IH; [|exact H]. intros x Hx. apply Htodo. right. assumption.
      + eapply IH; [|exact H]. intros x Hx. apply in_app_or in Hx. destruct Hx as [Hx|Hx].
        * apply in_rev in Hx. eapply reaches_snoc; [apply Htodo; left; reflexivity|exact Hx].
        * apply Htodo. right. assumption.
  Qed.

  (* completeness: when the walk ends without a hit, [seen] has grown into a successor-closed set that contains
     the whole stack and not the enclosing block *)
  Definition walk_inv (p : string) (seen todo : list string) : Prop :=
    (forall s q, In s seen -> R s q -> In q seen \/ In q todo) /\ ~ In p seen.

  Lemma rec_walk_false p : forall fuel seen todo,
    walk_inv p seen todo -> rec_walk fuel succ p seen todo = Ok false ->
    exists final, (forall x y, In x final -> R x y -> In y final) /\ ~ In p final /\
                  incl seen final /\ incl todo final.
  Proof.
    induction fuel as [|f IH]; intros seen todo [Hcl Hp] H; [discriminate|].
    cbn [rec_walk] in H. destruct todo as [|b rest].
    - exists seen. repeat split.
      + intros x y Hx Hxy. destruct (Hcl x y Hx Hxy) as [Hy|[]]. assumption.
      + assumption.
      + apply incl_refl.
      + intros x [].
    - destruct (String.eqb b p) eqn:Eb; [discriminate|]. apply String.eqb_neq in Eb.
      destruct (mem_str b seen) eqn:Em.
      + apply mem_str_in in Em.
        destruct (IH seen rest) as (final & Hf1 & Hf2 & Hf3 & Hf4); [|exact H|].
        * split; [|assumption]. intros s q Hs Hsq. destruct (Hcl s q Hs Hsq) as [Hq|[<-|Hq]]; auto.
        * exists final. repeat split; try assumption.
          intros x [<-|Hx]; [apply Hf3; assumption|apply Hf4; assumption].
      + destruct (IH (b :: seen) (rev (succ b) ++ rest)%list) as (final & Hf1 & Hf2 & Hf3 & Hf4); [|exact H|].
        * split.
          -- intros s q [<-|Hs] Hsq.
             ++ right. apply in_or_app. left. apply -> in_rev. exact Hsq.
             ++ destruct (Hcl s q Hs Hsq) as [Hq|[<-|Hq]].
                ** left. right. assumption.
                ** left. left. reflexivity.
                ** right. apply in_or_app. right. assumption.
          -- intros [E|Hin]; [apply Eb; assumption|contradiction].
        * exists final. repeat split; try assumption.
          -- intros x Hx. apply Hf3. right. assumption.
          -- intros x [<-|Hx]; [apply Hf3; left; reflexivity|]. apply Hf4. apply in_or_app. right. assumption.
  Qed.

  Lemma rec_walk_complete t p fuel :
    rec_walk fuel succ p [] [t] = Ok false -> ~ reaches R t p.
  Proof.
    intros H Hr. destruct (rec_walk_false p fuel [] [t]) as (final & Hcl & Hp & _ & Ht); [|exact H|].
    - split; [intros s q []|intros []].
    - apply Hp. apply (reaches_closed R (fun x => In x final) Hcl t p Hr). apply Ht. left. reflexivity.
  Qed.
End Walk.

(* ---------- the fuel never runs out ---------- *)

Section WalkFuel.
  Context (E : list (string * string)).

  Definition unseen_edges (seen : list string) : list (string * string) :=
    filter (fun e => negb (mem_str (fst e) seen)) E.

  Lemma inst_of_length b : List.length (inst_of E b) = List.length (filter (fun e => String.eqb (fst e) b) E).
  Proof. unfold inst_of. apply map_length. Qed.

  Lemma unseen_split b seen : mem_str b seen = false ->
    (List.length (filter (fun e => String.eqb (fst e) b) E) + List.length (unseen_edges (b :: seen)) =
     List.length (unseen_edges seen))%nat.
  Proof.
    intros Hb. unfold unseen_edges. induction E as [|e t IH]; [reflexivity|].
    cbn [filter].
    assert (Hm : mem_str (fst e) (b :: seen) = String.eqb (fst e) b || mem_str (fst e) seen) by reflexivity.
    rewrite Hm. destruct (String.eqb (fst e) b) eqn:Ee.
    - assert (Hs : mem_str (fst e) seen = false) by (apply String.eqb_eq in Ee; rewrite Ee; exact Hb).
      rewrite Hs. cbn [orb negb List.length]. lia.
    - cbn [orb]. destruct (negb (mem_str (fst e) seen)); cbn [List.length]; lia.
  Qed.

  Lemma rec_walk_fuel p : forall fuel seen todo,
    (List.length todo + List.length (unseen_edges seen) < fuel)%nat ->
    exists b, rec_walk fuel (inst_of E) p seen todo = Ok b.
  Proof.
    induction fuel as [|f IH]; intros seen todo Hlt; [lia|].
    cbn [rec_walk]. destruct todo as [|b rest]; [eauto|].
    destruct (String.eqb b p); [eauto|].
    destruct (mem_str b seen) eqn:Em.
    - apply IH. cbn [List.length] in Hlt. lia.
    - apply IH. rewrite app_length, rev_length, inst_of_length.
      pose proof (unseen_split b seen Em). cbn [List.length] in Hlt. lia.
  Qed.

  Lemma rec_walk_total p t : exists b, rec_walk (recursive_fuel E) (inst_of E) p [] [t] = Ok b.
  Proof.
    apply rec_walk_fuel. unfold recursive_fuel, unseen_edges. cbn [List.length].
    assert (forall (f : string * string -> bool) l, (List.length (filter f l) <= List.length l)%nat) as Hle.
    { intros f l. induction l as [|x l IH]; cbn; [lia|]. destruct (f x); cbn; lia. }
    pose proof (Hle (fun e => negb (mem_str (fst e) [])) E). lia.
  Qed.
End WalkFuel.

(* ---------- edges / sites = the relations of the specification ---------- *)

Lemma child_inst_spec ch q : In q (child_inst ch) <->
  ((exists c' off' rep' objs', ch = OBlock c' q off' rep' objs') \/
   (exists c' r a rp, ch = ORef c' r (OvBlock q a rp))).
Proof.
  destruct ch as [c n off rep objs|r|cm|b|c n ov]; cbn [child_inst].
  - split.
    + intros [<-|[]]. left. eauto.
    + intros [(c' & off' & rep' & objs' & E)|(c' & r & a & rp & E)]; [|discriminate]. inversion E. left. reflexivity.
  - split; [intros []|intros [(? & ? & ? & ? & E)|(? & ? & ? & ? & E)]; discriminate].
  - split; [intros []|intros [(? & ? & ? & ? & E)|(? & ? & ? & ? & E)]; discriminate].
  - split; [intros []|intros [(? & ? & ? & ? & E)|(? & ? & ? & ? & E)]; discriminate].
  - destruct ov as [t a rp|t acc a al rs rp|t a al rp].
    + split.
      * intros [<-|[]]. right. eauto.
      * intros [(? & ? & ? & ? & E)|(c' & r & a' & rp' & E)]; [discriminate|]. inversion E. left. reflexivity.
    + split; [intros []|intros [(? & ? & ? & ? & E)|(? & ? & ? & ? & E)]; discriminate].
    + split; [intros []|intros [(? & ? & ? & ? & E)|(? & ? & ? & ? & E)]; discriminate].
Qed.

Lemma inst_edges_spec os p q : In (p, q) (inst_edges os) <-> instantiates os p q.
Proof.
  unfold inst_edges, instantiates. rewrite in_flat_map. split.
  - intros (o & Ho & Hin). destruct o as [c n off rep objs|r|cm|b|c n ov]; try contradiction.
    apply in_map_iff in Hin. destruct Hin as (q' & E & Hq). inversion E; subst.
    apply in_flat_map in Hq. destruct Hq as (ch & Hch & Hq). apply child_inst_spec in Hq.
    exists c, off, rep, objs, ch. auto.
  - intros (c & off & rep & objs & ch & Hb & Hch & Hq). exists (OBlock c p off rep objs). split; [assumption|].
    apply in_map. apply in_flat_map. exists ch. split; [assumption|apply child_inst_spec; assumption].
Qed.

Lemma inst_of_spec E b q : In q (inst_of E b) <-> In (b, q) E.
Proof.
  unfold inst_of. rewrite in_map_iff. split.
  - intros ([x y] & E1 & Hin). apply filter_In in Hin. destruct Hin as [Hin Hb]. cbn in *.
    apply String.eqb_eq in Hb. subst. assumption.
  - intros H. exists (b, q). split; [reflexivity|]. apply filter_In. split; [assumption|]. cbn. apply String.eqb_refl.
Qed.

Lemma reaches_inst_of os t p :
  reaches (fun a b => In b (inst_of (inst_edges os) a)) t p <-> reaches (instantiates os) t p.
Proof.
  split; apply reaches_ext; intros a b H.
  - apply inst_edges_spec, inst_of_spec. exact H.
  - apply inst_of_spec, inst_edges_spec. exact H.
Qed.

Lemma block_ref_sites_spec os r p t : In (r, p, t) (block_ref_sites os) <->
  exists c off rep objs cr a rp, In (OBlock c p off rep objs) os /\ In (ORef cr r (OvBlock t a rp)) objs.
Proof.
  unfold block_ref_sites. rewrite in_flat_map. split.
  - intros (o & Ho & Hin). destruct o as [c n off rep objs|rg|cm|b|c n ov]; try contradiction.
    apply in_flat_map in Hin. destruct Hin as (ch & Hch & Hin).
    destruct ch as [c1 n1 off1 rep1 objs1|rg|cm|b|c1 n1 ov1]; try contradiction.
    destruct ov1 as [t1 a1 rp1|t1 acc a1 al rs rp1|t1 a1 al rp1]; try contradiction.
    cbn in Hin. destruct Hin as [E|[]]. inversion E; subst. exists c, off, rep, objs, c1, a1, rp1. auto.
  - intros (c & off & rep & objs & cr & a & rp & Hb & Hr). exists (OBlock c p off rep objs). split; [assumption|].
    apply in_flat_map. exists (ORef cr r (OvBlock t a rp)). split; [assumption|]. left. reflexivity.
Qed.

(* ---------- the pass ---------- *)

Lemma walk_true_iff os p t :
  rec_walk (recursive_fuel (inst_edges os)) (inst_of (inst_edges os)) p [] [t] = Ok true <->
  reaches (instantiates os) t p.
Proof.
  split.
  - intros H. apply reaches_inst_of. eapply rec_walk_sound; [|exact H].
    intros x [<-|[]]. apply reaches_refl.
  - intros Hr. destruct (rec_walk_total (inst_edges os) p t) as ([|] & Hb); [assumption|].
    exfalso. eapply rec_walk_complete; [exact Hb|]. apply reaches_inst_of. exact Hr.
Qed.

Lemma walk_false_iff os p t :
  rec_walk (recursive_fuel (inst_edges os)) (inst_of (inst_edges os)) p [] [t] = Ok false <->
  ~ reaches (instantiates os) t p.
Proof.
  rewrite <- walk_true_iff. destruct (rec_walk_total (inst_edges os) p t) as ([|] & ->); split; congruence.
Qed.

Lemma first_recursive_spec os : forall sites,
  (first_recursive (recursive_fuel (inst_edges os)) (inst_edges os) sites = Ok None /\
   forall r p t, In (r, p, t) sites -> ~ reaches (instantiates os) t p) \/
  (exists r p t, In (r, p, t) sites /\ reaches (instantiates os) t p /\
     first_recursive (recursive_fuel (inst_edges os)) (inst_edges os) sites = Ok (Some (mk_err "ref_recursive" [r; t]))).
Proof.
  induction sites as [|[[r p] t] rest IH]; [left; split; [reflexivity|intros ? ? ? []]|].
  cbn [first_recursive].
  destruct (rec_walk_total (inst_edges os) p t) as ([|] & Hb); rewrite Hb; cbn [bind].
  - right. exists r, p, t. split; [left; reflexivity|]. split; [apply walk_true_iff; assumption|reflexivity].
  - apply walk_false_iff in Hb. destruct IH as [[H1 H2]|(r' & p' & t' & Hin & Hr & H)].
    + left. split; [assumption|]. intros r' p' t' [E|Hin]; [inversion E; subst; assumption|eauto].
    + right. exists r', p', t'. split; [right; assumption|auto].
Qed.

Lemma recursive_site_iff os r p t :
  recursive_site os r p t <-> In (r, p, t) (block_ref_sites os) /\ reaches (instantiates os) t p.
Proof. unfold recursive_site. rewrite block_ref_sites_spec. reflexivity. Qed.

(* the fuel of the model never runs out *)
Theorem recursive_check_total : forall d, exists v, recursive_block_refs d = Ok v.
Proof.
  intros d. unfold recursive_block_refs.
  destruct (first_recursive_spec (preorder_objects (d_objects d)) (block_ref_sites (preorder_objects (d_objects d))))
    as [[H _]|(r & p & t & _ & _ & H)]; rewrite H; eauto.
Qed.

(* whatever it reports is a block ref (name r) that is a direct child of a block p and whose target t gets back to p *)
Theorem recursive_check_some : forall d e, recursive_block_refs d = Ok (Some e) ->
  exists r p t, e = mk_err "ref_recursive" [r; t] /\ recursive_site (preorder_objects (d_objects d)) r p t.
Proof.
  intros d e. unfold recursive_block_refs.
  destruct (first_recursive_spec (preorder_objects (d_objects d)) (block_ref_sites (preorder_objects (d_objects d))))
    as [[H _]|(r & p & t & Hin & Hr & H)]; rewrite H; intros E; [discriminate|].
  inversion E. exists r, p, t. split; [reflexivity|]. apply recursive_site_iff. auto.
Qed.

Theorem recursive_check_none : forall d,
  recursive_block_refs d = Ok None <-> ~ recursive_block_ref (d_objects d).
Proof.
  intros d. unfold recursive_block_refs, recursive_block_ref, recursive_in.
  destruct (first_recursive_spec (preorder_objects (d_objects d)) (block_ref_sites (preorder_objects (d_objects d))))
    as [[H Hno]|(r & p & t & Hin & Hr & H)]; rewrite H.
  - split; [intros _|reflexivity]. intros (r & p & t & Hs). apply recursive_site_iff in Hs. destruct Hs as [Hin Hr].
    exact (Hno r p t Hin Hr).
  - split; [discriminate|]. intros Hn. exfalso. apply Hn. exists r, p, t. apply recursive_site_iff. auto.
Qed.

(* the model rejects with ref_recursive exactly the definitions with a recursive block ref *)
Theorem recursive_check_iff : forall d,
  (exists r t, recursive_block_refs d = Ok (Some (mk_err "ref_recursive" [r; t]))) <-> recursive_block_ref (d_objects d).
Proof.
  intros d. split.
  - intros (r & t & H). apply recursive_check_some in H. destruct H as (r' & p & t' & _ & Hs). exists r', p, t'. exact Hs.
  - intros Hr. destruct (recursive_check_total d) as ([e|] & Hv).
    + destruct (recursive_check_some d e Hv) as (r & p & t & -> & _). eauto.
    + apply recursive_check_none in Hv. contradiction.
Qed.

Lemma no_recursive_true d : no_recursive_block_refs d = true <-> ~ recursive_block_ref (d_objects d).
Proof.
  rewrite <- recursive_check_none. unfold no_recursive_block_refs.
  destruct (recursive_block_refs d) as [[e|]|k]; split; congruence.
Qed.

Lemma no_recursive_false d : no_recursive_block_refs d = false <-> recursive_block_ref (d_objects d).
Proof.
  rewrite <- recursive_check_iff. unfold no_recursive_block_refs.
  destruct (recursive_check_total d) as ([e|] & Hv); rewrite Hv.
  - split; [intros _|reflexivity]. destruct (recursive_check_some d e Hv) as (r & p & t & -> & _). eauto.
  - split; [discriminate|intros (r & t & E); discriminate].
Qed.

(* ---------- a cycle of [nested] is a recursive block ref ---------- *)

Section CycleIsRecursive.
  Context (dev : list object).
  Let os := preorder_objects dev.

  (* a strict descendant x of a block n has a parent block p inside that block with n instantiates* p (sub blocks only) *)
  Lemma descendant_parent : forall o,
    (forall y, In y (pre o) -> In y os) ->
    forall c n off rep objs, o = OBlock c n off rep objs ->
    forall x, In x (flat_map pre objs) ->
    exists c' p off' rep' objs', In (OBlock c' p off' rep' objs') os /\ In x objs' /\ reaches (instantiates os) n p.
  Proof.
    induction o as [c0 n0 off0 rep0 objs0 IH|r|cm|b|c0 n0 ov] using object_ind'; intros Hsub c n off rep objs E x Hx;
      try discriminate.
    inversion E; subst c0 n0 off0 rep0 objs0. clear E.
    apply in_flat_map in Hx. destruct Hx as (ch & Hch & Hx).
    assert (Hself : In (OBlock c n off rep objs) os) by (apply Hsub; apply pre_self).
    destruct ch as [c1 n1 off1 rep1 objs1|r|cm|b|c1 n1 ov1];
      try (cbn in Hx; destruct Hx as [<-|[]]; exists c, n, off, rep, objs; split; [assumption|split; [assumption|apply reaches_refl]]).
    cbn [pre] in Hx. destruct Hx as [<-|Hx].
    - exists c, n, off, rep, objs. split; [assumption|split; [assumption|apply reaches_refl]].
    - rewrite Forall_forall in IH.
      destruct (IH _ Hch) with (c := c1) (n := n1) (off := off1) (rep := rep1) (objs := objs1) (x := x)
        as (c' & p & off' & rep' & objs' & Hp & Hxp & Hr); [|reflexivity|assumption|].
      + intros y Hy. apply Hsub. cbn [pre]. right. apply in_flat_map. exists (OBlock c1 n1 off1 rep1 objs1). auto.
      + exists c', p, off', rep', objs'. split; [assumption|split; [assumption|]].
        eapply reaches_step; [|exact Hr].
        exists c, off, rep, objs, (OBlock c1 n1 off1 rep1 objs1). split; [assumption|split; [assumption|]]. left. eauto.
  Qed.

  Lemma nested_site a t : nested dev a t ->
    exists r p, (exists c off rep objs cr ad rp,
                   In (OBlock c p off rep objs) os /\ In (ORef cr r (OvBlock t ad rp)) objs) /\
                reaches (instantiates os) a p.
  Proof.
    intros (c & off & rep & objs & Hs & (x & Hx & (cx & nx & ax & rx & ->))).
    destruct (search_object_some _ _ _ Hs) as [Hin _]. fold os in Hin.
    rewrite preorder_objects_pre in Hx.
    destruct (descendant_parent (OBlock c a off rep objs)) with (c := c) (n := a) (off := off) (rep := rep) (objs := objs)
                                                               (x := ORef cx nx (OvBlock t ax rx))
      as (c' & p & off' & rep' & objs' & Hp & Hxp & Hr); [|reflexivity|assumption|].
    - intros y Hy. unfold os. rewrite preorder_objects_pre. eapply flat_pre_trans; [|exact Hy].
      rewrite <- preorder_objects_pre. exact Hin.
    - exists nx, p. split; [|assumption]. exists c', off', rep', objs', cx, ax, rx. auto.
  Qed.

  Lemma nested_reaches a t : nested dev a t -> reaches (instantiates os) a t.
  Proof.
    intros H. destruct (nested_site a t H) as (r & p & (c & off & rep & objs & cr & ad & rp & Hp & Hr) & Hreach).
    eapply reaches_snoc; [exact Hreach|].
    exists c, off, rep, objs, (ORef cr r (OvBlock t ad rp)). split; [assumption|split; [assumption|]]. right. eauto.
  Qed.

  Lemma nested_plus_reaches a t : nested_plus dev a t -> reaches (instantiates os) a t.
  Proof.
    induction 1 as [a t H|a m t H _ IH]; [apply nested_reaches; assumption|].
    eapply reaches_trans; [apply nested_reaches; exact H|exact IH].
  Qed.

  Theorem cyclic_is_recursive : cyclic dev -> recursive_block_ref dev.
  Proof.
    intros (a & Hc). unfold recursive_block_ref, recursive_in. fold os.
    assert (exists m, nested dev a m /\ reaches (instantiates os) m a) as (m & Hn & Hr).
    { inversion Hc as [x y H|x m y H Hp]; subst.
      - exists a. split; [assumption|apply reaches_refl].
      - exists m. split; [assumption|apply nested_plus_reaches; assumption]. }
    destruct (nested_site a m Hn) as (r & p & Hsite & Hreach).
    exists r, p, m. split; [exact Hsite|]. eapply reaches_trans; eassumption.
  Qed.
End CycleIsRecursive.

(* ---------- no cycle => a rank (finite carrier: pigeonhole) ---------- *)

Definition ref_target (o : object) : list string :=
  match o with ORef _ _ (OvBlock t _ _) => [t] | _ => [] end.

Definition nested_succs (dev : list object) (a : string) : list string :=
  match search_object a dev with
  | Some (OBlock _ _ _ _ objs) => flat_map ref_target (preorder_objects objs)
  | _ => []
  end.

Lemma ref_target_spec o t : In t (ref_target o) <-> is_block_ref_to t o.
Proof.
  unfold is_block_ref_to. destruct o as [c n off rep objs|r|cm|b|c n ov]; cbn;
    try (split; [intros []|intros (? & ? & ? & ? & E); discriminate]).
  destruct ov as [t1 a rp|t1 acc a al rs rp|t1 a al rp]; cbn;
    try (split; [intros []|intros (? & ? & ? & ? & E); discriminate]).
  split; [intros [<-|[]]; eauto|intros (? & ? & ? & ? & E); inversion E; left; reflexivity].
Qed.

Lemma nested_succs_spec dev a t : In t (nested_succs dev a) <-> nested dev a t.
Proof.
  unfold nested_succs, nested, block_ref_in. split.
  - destruct (search_object a dev) as [o|] eqn:Es; [|intros []].
    destruct o as [c n off rep objs|r|cm|b|c n ov]; try (intros []).
    destruct (search_object_some _ _ _ Es) as [_ Hn]. cbn in Hn. subst n.
    intros H. apply in_flat_map in H. destruct H as (x & Hx & Ht). apply ref_target_spec in Ht.
    exists c, off, rep, objs. split; [reflexivity|]. exists x. auto.
  - intros (c & off & rep & objs & -> & (x & Hx & Ht)). apply in_flat_map. exists x. split; [assumption|].
    apply ref_target_spec. assumption.
Qed.

Lemma list_max_ge l x : In x l -> (x <= list_max l)%nat.
Proof.
  intros H. assert (Forall (fun k => (k <= list_max l)%nat) l) as F by (apply list_max_le; lia).
  rewrite Forall_forall in F. auto.
Qed.

Lemma list_max_in l : list_max l <> O -> In (list_max l) l.
Proof.
  induction l as [|x t IH]; cbn [list_max fold_right]; [congruence|]. fold (list_max t). intros H.
  destruct (Nat.max_spec x (list_max t)) as [[Hlt E]|[Hle E]]; rewrite E.
  - right. apply IH. lia.
  - left. reflexivity.
Qed.

Section Rank.
  Context (dev : list object).
  Context (Hnocyc : ~ cyclic dev).
  Let univ := map object_name (preorder_objects dev).

  Fixpoint height (n : nat) (a : string) : nat :=
    match n with
    | O => O
    | S m => list_max (map (fun t => S (height m t)) (nested_succs dev a))
    end.

  Lemma height_le : forall n a, (height n a <= n)%nat.
  Proof.
    induction n as [|m IH]; intros a; [reflexivity|]. cbn [height]. apply list_max_le.
    apply Forall_forall. intros k Hk. apply in_map_iff in Hk. destruct Hk as (t & <- & _). specialize (IH t). lia.
  Qed.

  Lemma height_succ_ge : forall n a t, nested dev a t -> (S (height n t) <= height (S n) a)%nat.
  Proof.
    intros n a t H. cbn [height]. apply list_max_ge. apply in_map_iff. exists t. split; [reflexivity|].
    apply nested_succs_spec. assumption.
  Qed.

  Lemma height_full_witness : forall m a, height (S m) a = S m -> exists t, nested dev a t /\ height m t = m.
  Proof.
    intros m a H. cbn [height] in H.
    assert (In (S m) (map (fun t => S (height m t)) (nested_succs dev a))) as Hin.
    { rewrite <- H. apply list_max_in. rewrite H. discriminate. }
    apply in_map_iff in Hin. destruct Hin as (t & E & Ht). exists t. split; [apply nested_succs_spec; assumption|lia].
  Qed.

  Lemma nested_plus_snoc : forall x a t, nested_plus dev x a -> nested dev a t -> nested_plus dev x t.
  Proof.
    intros x a t H. induction H as [x a H|x m a H _ IH]; intros Ht.
    - eapply np_step; [exact H|apply np_one; exact Ht].
    - eapply np_step; [exact H|apply IH; exact Ht].
  Qed.

  Lemma nested_source_in_univ a t : nested dev a t -> In a univ.
  Proof.
    intros (c & off & rep & objs & Hs & _). destruct (search_object_some _ _ _ Hs) as [Hin Hn].
    unfold univ. apply in_map_iff. exists (OBlock c a off rep objs). auto.
  Qed.

  (* a chain of n >= 1 steps below a, whose pairwise distinct ancestors all lie in univ: there is room for it *)
  Lemma saturated_bound : forall n a anc,
    (1 <= n)%nat -> height n a = n -> NoDup anc -> incl anc univ ->
    (forall x, In x anc -> nested_plus dev x a) ->
    (List.length anc + n <= List.length univ)%nat.
  Proof.
    induction n as [|m IH]; intros a anc Hn Hh Hnd Hincl Hanc; [lia|].
    destruct (height_full_witness m a Hh) as (t & Hat & Ht).
    assert (Ha : In a univ) by (eapply nested_source_in_univ; exact Hat).
    assert (Hna : ~ In a anc).
    { intros Hin. apply Hnocyc. exists a. apply Hanc. assumption. }
    assert (Hnd' : NoDup (a :: anc)) by (constructor; assumption).
    assert (Hincl' : incl (a :: anc) univ) by (intros x [<-|Hx]; auto).
    destruct m as [|m'].
    - pose proof (NoDup_incl_length Hnd' Hincl') as L. cbn [List.length] in L. lia.
    - assert (List.length (a :: anc) + S m' <= List.length univ)%nat as L.
      { apply (IH t (a :: anc)); try assumption; [lia|].
        intros x [<-|Hx]; [apply np_one; assumption|]. eapply nested_plus_snoc; [apply Hanc; assumption|assumption]. }
      cbn [List.length] in L. lia.
  Qed.

  Lemma height_stable : forall n a, (height n a < n)%nat -> height (S n) a = height n a.
  Proof.
    induction n as [|m IH]; intros a H; [lia|].
    cbn [height] in *. f_equal. apply map_ext_in. intros t Ht. f_equal.
    change (height (S m) t = height m t). apply IH.
    assert (S (height m t) <= list_max (map (fun t0 => S (height m t0)) (nested_succs dev a)))%nat.
    { apply list_max_ge. apply in_map_iff. exists t. auto. }
    lia.
  Qed.

  Theorem no_cycle_rank : acyclic dev.
  Proof.
    set (N := List.length univ). exists (height (S N)). intros a t Hat.
    assert (Hlt : (height (S N) a < S N)%nat).
    { pose proof (height_le (S N) a) as Hle.
      destruct (Nat.eq_dec (height (S N) a) (S N)) as [E|]; [|lia].
      pose proof (saturated_bound (S N) a [] ltac:(lia) E (NoDup_nil _) (incl_nil_l _) ltac:(intros x []) ) as L.
      cbn [List.length] in L. fold N in L. lia. }
    pose proof (height_succ_ge (S N) a t Hat) as Hge. rewrite (height_stable (S N) a Hlt) in Hge. lia.
  Qed.
End Rank.

Theorem acyclic_iff_no_cycle : forall dev, acyclic dev <-> ~ cyclic dev.
Proof.
  intros dev. split; [intros H Hc; exact (cyclic_not_acyclic dev Hc H)|apply no_cycle_rank].
Qed.

(* a definition without recursive block ref is acyclic *)
Theorem not_recursive_acyclic : forall dev, ~ recursive_block_ref dev -> acyclic dev.
Proof. intros dev H. apply no_cycle_rank. intros Hc. apply H. apply cyclic_is_recursive. exact Hc. Qed.

(* ---------- the same on the tree the user wrote ---------- *)

Section NormRec.
  Context (bs : list boundary).
  Notation N := (norm_object bs).
  Notation P := (to_pascal bs).

  Lemma norm_block_inv o c p off rep objs' : N o = OBlock c p off rep objs' ->
    exists n objs, o = OBlock c n off rep objs /\ P n = p /\ objs' = map N objs.
  Proof. destruct o; cbn; intros E; try discriminate. inversion E; subst. eauto. Qed.

  Lemma norm_block_ref_inv o c r q a rp : N o = ORef c r (OvBlock q a rp) ->
    exists r0 t, o = ORef c r0 (OvBlock t a rp) /\ P r0 = r /\ P t = q.
  Proof.
    destruct o as [| | | |c0 n0 ov]; cbn; intros E; try discriminate.
    destruct ov; cbn in E; inversion E; subst. eauto.
  Qed.

  Lemma inst_norm os p q : instantiates (map N os) p q <-> spec_instantiates bs os p q.
  Proof.
    unfold instantiates, spec_instantiates. split.
    - intros (c & off & rep & objs' & ch' & Hb & Hch & Hq).
      apply in_map_iff in Hb. destruct Hb as (o & Eo & Ho).
      destruct (norm_block_inv _ _ _ _ _ _ Eo) as (n & objs & -> & Hp & ->).
      apply in_map_iff in Hch. destruct Hch as (ch & Ech & Hch).
      exists c, n, off, rep, objs, ch. split; [assumption|split; [assumption|split; [assumption|]]].
      destruct Hq as [(c' & off' & rep' & objs1 & E)|(c' & r & a & rp & E)]; rewrite E in Ech.
      + destruct (norm_block_inv _ _ _ _ _ _ Ech) as (n' & objs0 & -> & Hq & _). left. exists c', n', off', rep', objs0. auto.
      + destruct (norm_block_ref_inv _ _ _ _ _ _ Ech) as (r0 & t & -> & _ & Hq). right. exists c', r0, t, a, rp. auto.
    - intros (c & n & off & rep & objs & ch & Hb & Hp & Hch & Hq).
      exists c, off, rep, (map N objs), (N ch). split; [|split; [apply in_map; assumption|]].
      + apply in_map_iff. exists (OBlock c n off rep objs). split; [cbn; rewrite Hp; reflexivity|assumption].
      + destruct Hq as [(c' & n' & off' & rep' & objs1 & -> & Hq)|(c' & r & t & a & rp & -> & Hq)]; cbn; rewrite Hq.
        * left. eauto.
        * right. eauto.
  Qed.

  Lemma recursive_norm os : recursive_in (map N os) <-> spec_recursive_ref bs os.
  Proof.
    unfold recursive_in, recursive_site, spec_recursive_ref. split.
    - intros (r & p & t & (c & off & rep & objs' & cr & a & rp & Hb & Hr) & Hreach).
      apply in_map_iff in Hb. destruct Hb as (o & Eo & Ho).
      destruct (norm_block_inv _ _ _ _ _ _ Eo) as (n & objs & -> & Hp & ->).
      apply in_map_iff in Hr. destruct Hr as (ch & Ech & Hch).
      destruct (norm_block_ref_inv _ _ _ _ _ _ Ech) as (r0 & t0 & -> & _ & Ht).
      exists c, n, off, rep, objs, cr, r0, t0, a, rp. split; [assumption|split; [assumption|]].
      rewrite Ht, Hp. eapply reaches_ext; [|exact Hreach]. intros x y. apply inst_norm.
    - intros (c & n & off & rep & objs & cr & r & t & a & rp & Hb & Hr & Hreach).
      exists (P r), (P n), (P t). split.
      + exists c, off, rep, (map N objs), cr, a, rp. split.
        * apply in_map_iff. exists (OBlock c n off rep objs). auto.
        * apply in_map_iff. exists (ORef cr r (OvBlock t a rp)). auto.
      + eapply reaches_ext; [|exact Hreach]. intros x y. apply inst_norm.
  Qed.
End NormRec.

Lemma spec_recursive_norm d :
  C14_spec_recursive_ref d <-> recursive_block_ref (d_objects (names_normalized d)).
Proof.
  unfold C14_spec_recursive_ref, recursive_block_ref, names_normalized. cbn [d_objects].
  rewrite preorder_norm. symmetry. apply recursive_norm.
Qed.

(* ================================================================== *)
(* C14_accept_iff (current), acyclicity of accepted definitions         *)
(* ================================================================== *)

Theorem accept_iff : forall d, cfg_free d -> (name_ref_check d = false <-> C14_spec_reject d).
Proof.
  intros d Hf. unfold C14_spec_reject. rewrite <- (accept_iff_before_d11_repair d Hf), spec_recursive_norm.
  rewrite <- no_recursive_false. unfold name_ref_check, name_ref_check_before_d11_repair.
  destruct (names_unique (names_normalized d)); [split; auto|].
  destruct (refs_validated_ok (names_normalized d)); cbn [andb].
  - split; [auto|intros [H|H]; [discriminate|assumption]].
  - split; auto.
Qed.

(* an accepted definition has no block ref inside its own target: the nesting relation has a rank *)
Theorem accepted_is_acyclic : forall d, name_ref_check d = true -> acyclic (d_objects (names_normalized d)).
Proof.
  intros d H. apply name_ref_check_true in H. destruct H as (_ & _ & H).
  apply not_recursive_acyclic. apply no_recursive_true. exact H.
Qed.

(* hence the expansion of its block refs (lower: the unrepaired lowering, the by-name expansion of the LIR pass)
   terminates *)
Theorem accepted_expansion_terminates : forall d, cfg_free d -> name_ref_check d = true ->
  lowering_terminates (d_objects (names_normalized d)).
Proof.
  intros d Hf H. apply (accepted_lowering_iff_acyclic d Hf H). apply accepted_is_acyclic. exact H.
Qed.
