(* NamesProofs.v — proofs about Case.v / Names.v (property C14). *)
From Coq Require Import ZArith NArith List Bool String Ascii Lia Arith.
From DD Require Import Common Mir GenErr Case Names.
Import ListNotations.
Open Scope string_scope.

(* ================================================================== *)
(* Induction over the nested object tree                               *)
(* ================================================================== *)

Section ObjectInd.
  Context (P : object -> Prop).
  Context (Hblock : forall c n off rep objs, Forall P objs -> P (OBlock c n off rep objs)).
  Context (Hreg : forall r, P (ORegister r)).
  Context (Hcmd : forall c, P (OCommand c)).
  Context (Hbuf : forall b, P (OBuffer b)).
  Context (Href : forall c n ov, P (ORef c n ov)).

  Fixpoint object_ind' (o : object) : P o :=
    match o with
    | OBlock c n off rep objs =>
      Hblock c n off rep objs
        ((fix go (l : list object) : Forall P l :=
            match l with
            | [] => Forall_nil P
            | x :: t => Forall_cons x (object_ind' x) (go t)
            end) objs)
    | ORegister r => Hreg r
    | OCommand c => Hcmd c
    | OBuffer b => Hbuf b
    | ORef c n ov => Href c n ov
    end.
End ObjectInd.

(* pre-order list of one object, without depths *)
Fixpoint pre (o : object) : list object :=
  o :: match o with
       | OBlock _ _ _ _ objs => flat_map pre objs
       | _ => []
       end.

Lemma flatten_depth_pre : forall o d, map fst (flatten_depth d o) = pre o.
Proof.
  induction o using object_ind'; intros d; cbn; try reflexivity.
  f_equal. induction H as [|x t Hx Ht IH]; cbn; [reflexivity|].
  rewrite map_app, Hx, IH. reflexivity.
Qed.

Lemma preorder_objects_pre : forall objs, preorder_objects objs = flat_map pre objs.
Proof.
  unfold preorder_objects, preorder. induction objs as [|o t IH]; cbn; [reflexivity|].
  rewrite map_app, flatten_depth_pre, IH. reflexivity.
Qed.

Lemma pre_self : forall o, In o (pre o).
Proof. destruct o; cbn; auto. Qed.

Lemma pre_block_children : forall c n off rep objs x,
  In x (flat_map pre objs) -> In x (pre (OBlock c n off rep objs)).
Proof. intros. cbn. right. assumption. Qed.

(* transitivity of "occurs in the subtree" *)
Lemma pre_trans : forall o x y, In x (pre o) -> In y (pre x) -> In y (pre o).
Proof.
  induction o using object_ind'; intros x y Hx Hy; cbn in Hx;
    try (destruct Hx as [<-|[]]; assumption).
  destruct Hx as [<-|Hx]; [assumption|].
  cbn. right. apply in_flat_map in Hx. destruct Hx as (ch & Hch & Hx).
  apply in_flat_map. exists ch. split; [assumption|].
  rewrite Forall_forall in H. eapply H; eassumption.
Qed.

Lemma flat_pre_trans : forall objs x y, In x (flat_map pre objs) -> In y (pre x) -> In y (flat_map pre objs).
Proof.
  intros objs x y Hx Hy. apply in_flat_map in Hx. destruct Hx as (o & Ho & Hx).
  apply in_flat_map. exists o. split; [assumption|]. eapply pre_trans; eassumption.
Qed.

(* ================================================================== *)
(* search_object = first match in pre-order                            *)
(* ================================================================== *)

Lemma find_some_app {A B} (f : A -> option B) l1 l2 :
  find_some f (l1 ++ l2) = match find_some f l1 with Some r => Some r | None => find_some f l2 end.
Proof. induction l1 as [|x t IH]; cbn; [reflexivity|]. destruct (f x); [reflexivity|apply IH]. Qed.

Lemma find_app {A} (p : A -> bool) l1 l2 :
  find p (l1 ++ l2) = match find p l1 with Some r => Some r | None => find p l2 end.
Proof. induction l1 as [|x t IH]; cbn; [reflexivity|]. destruct (p x); [reflexivity|apply IH]. Qed.

Lemma search_in_find : forall name o,
  search_in name o = find (fun x => String.eqb (object_name x) name) (pre o).
Proof.
  intros name. induction o using object_ind'; cbn; try (destruct (String.eqb _ name); reflexivity).
  destruct (String.eqb n name); [reflexivity|].
  induction H as [|x t Hx Ht IH]; cbn; [reflexivity|].
  rewrite find_app, <- Hx. destruct (search_in name x); [reflexivity|apply IH].
Qed.

Lemma search_object_find : forall name objs,
  search_object name objs = find (fun x => String.eqb (object_name x) name) (preorder_objects objs).
Proof.
  intros name objs. rewrite preorder_objects_pre. unfold search_object.
  induction objs as [|o t IH]; cbn; [reflexivity|].
  rewrite find_app, <- search_in_find. destruct (search_in name o); [reflexivity|apply IH].
Qed.

Lemma search_object_some : forall name objs o,
  search_object name objs = Some o -> In o (preorder_objects objs) /\ object_name o = name.
Proof.
  intros name objs o H. rewrite search_object_find in H. apply List.find_some in H.
  destruct H as [Hin Heq]. split; [assumption|]. apply String.eqb_eq. assumption.
Qed.

Lemma search_object_none : forall name objs,
  search_object name objs = None <-> (forall o, In o (preorder_objects objs) -> object_name o <> name).
Proof.
  intros name objs. rewrite search_object_find. split.
  - intros H o Hin Hn. eapply find_none in H; [|eassumption]. cbn in H.
    apply String.eqb_neq in H. contradiction.
  - intros H. destruct (find _ _) eqn:E; [|reflexivity].
    apply List.find_some in E. destruct E as [Hin Heq]. apply String.eqb_eq in Heq.
    exfalso. eapply H; eassumption.
Qed.

(* with unique names the first match is THE object of that name *)
Lemma find_unique {A} (key : A -> string) (l : list A) (o : A) :
  NoDup (map key l) -> In o l ->
  find (fun x => String.eqb (key x) (key o)) l = Some o.
Proof.
  induction l as [|x t IH]; cbn; intros Hnd Hin; [contradiction|].
  inversion Hnd as [|? ? Hnot Hnd']; subst.
  destruct Hin as [->|Hin].
  - rewrite String.eqb_refl. reflexivity.
  - destruct (String.eqb (key x) (key o)) eqn:E.
    + apply String.eqb_eq in E. exfalso. apply Hnot. rewrite E. apply in_map. assumption.
    + apply IH; assumption.
Qed.

Theorem search_finds_declared : forall objs o,
  NoDup (map object_name (preorder_objects objs)) ->
  In o (preorder_objects objs) ->
  search_object (object_name o) objs = Some o.
Proof. intros objs o Hnd Hin. rewrite search_object_find. apply find_unique; assumption. Qed.
