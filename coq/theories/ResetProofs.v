(* ResetProofs.v — the reset-value path of the generator (Reset.v) meets the text of property C08.
   Part A: convert_reset_value, for every size (no enumeration of sizes: bit-level reasoning).
   Part B: the device-level pass and the emitted constructors (tree induction). *)
From Coq Require Import ZArith List Bool String Ascii Lia ZifyBool.
From DD Require Import Common Carrier Bits BitsSpec Mir GenErr Layout Reset.
Import ListNotations.
Open Scope Z_scope.
Ltac Zify.zify_post_hook ::= Z.div_mod_to_equations.

(* ------------------------------------------------------------------------------------------ *)
(** * Small bit facts *)

Lemma testbit_small v n m : 0 <= v < 2 ^ n -> 0 <= n <= m -> Z.testbit v m = false.
Proof.
  intros Hv Hn. rewrite <- (Z.mod_small v (2 ^ n)) by assumption.
  apply Z.mod_pow2_bits_high. assumption.
Qed.

Lemma byte_high b k : 0 <= b < 256 -> 8 <= k -> Z.testbit b k = false.
Proof. intros Hb Hk. apply (testbit_small b 8 k); [exact Hb|lia]. Qed.

(* ------------------------------------------------------------------------------------------ *)
(** * zrange / any_from *)

Lemma zrange_length a b : List.length (zrange a b) = Z.to_nat (b - a).
Proof. unfold zrange. rewrite map_length, seq_length. reflexivity. Qed.

Lemma In_zrange a b k : In k (zrange a b) <-> a <= k < b.
Proof.
  unfold zrange. rewrite in_map_iff. split.
  - intros [i [<- Hi]]. apply in_seq in Hi. lia.
  - intros H. exists (Z.to_nat (k - a)). split; [lia|]. apply in_seq. lia.
Qed.

Lemma nth_map_in {A B} (f : A -> B) l : forall i d d', (i < List.length l)%nat -> nth i (map f l) d' = f (nth i l d).
Proof.
  induction l as [|a t IH]; intros i d d' Hi; cbn [List.length] in Hi; [lia|].
  destruct i as [|i]; cbn [map nth]; [reflexivity|]. apply IH. lia.
Qed.

Lemma zrange_nth a b i d : (i < Z.to_nat (b - a))%nat -> nth i (zrange a b) d = a + Z.of_nat i.
Proof.
  intros Hi. unfold zrange.
  rewrite (nth_map_in _ _ i O d) by (rewrite seq_length; exact Hi).
  rewrite seq_nth by exact Hi. reflexivity.
Qed.

Lemma any_from_spec view from total :
  any_from view from total = true <-> exists k, from <= k < total /\ view k = true.
Proof.
  unfold any_from. rewrite existsb_exists. split; intros [k [H1 H2]]; exists k.
  - apply In_zrange in H1. auto.
  - split; [apply In_zrange; assumption|assumption].
Qed.

Lemma any_from_false view from total :
  any_from view from total = false <-> ~ exists k, from <= k < total /\ view k = true.
Proof.
  rewrite <- any_from_spec. destruct (any_from view from total).
  - split; [discriminate|]. intros H. exfalso. apply H. reflexivity.
  - split; [intros _ H; discriminate|reflexivity].
Qed.

(* ------------------------------------------------------------------------------------------ *)
(** * to_le_bytes *)

Lemma le_bytes_length n v : List.length (le_bytes n v) = n.
Proof. revert v; induction n; intros v; cbn [le_bytes List.length]; [reflexivity|]. rewrite IHn. reflexivity. Qed.

Lemma le_bytes_range n v : Forall (fun b => 0 <= b < 256) (le_bytes n v).
Proof. revert v; induction n; intros v; cbn [le_bytes]; constructor; [lia|apply IHn]. Qed.

Lemma le_bytes_testbit n : forall v i j, (i < n)%nat -> 0 <= j < 8 ->
  Z.testbit (nth i (le_bytes n v) 0) j = Z.testbit v (8 * Z.of_nat i + j).
Proof.
  induction n as [|n IH]; intros v i j Hi Hj; [lia|idtac].
  destruct i as [|i]; cbn [le_bytes nth].
  - change 256 with (2 ^ 8). rewrite Z.mod_pow2_bits_low by lia. f_equal; lia.
  - rewrite IH by lia. change 256 with (2 ^ 8). rewrite Z.div_pow2_bits by lia. f_equal; lia.
Qed.

Lemma le_bytes_nth n : forall v i, (i < n)%nat -> nth i (le_bytes n v) 0 = (v / 256 ^ Z.of_nat i) mod 256.
Proof.
  induction n as [|n IH]; intros v i Hi; [lia|idtac].
  destruct i as [|i]; cbn [le_bytes nth].
  - change (256 ^ Z.of_nat 0) with 1. rewrite Z.div_1_r. reflexivity.
  - rewrite IH by lia. rewrite Nat2Z.inj_succ, Z.pow_succ_r by lia.
    rewrite Z.div_div by lia. reflexivity.
Qed.

Lemma firstn_le_bytes m : forall n v, (m <= n)%nat -> firstn m (le_bytes n v) = le_bytes m v.
Proof.
  induction m as [|m IH]; intros n v H; [reflexivity|idtac].
  destruct n as [|n]; [lia|]. cbn [le_bytes firstn]. rewrite IH by lia. reflexivity.
Qed.

(* the specification's description of the little-endian bytes is the same list *)
Lemma spec_le_bytes_eq len v : 0 <= len -> spec_le_bytes len v = le_bytes (Z.to_nat len) v.
Proof.
  intros Hl. apply nth_ext with (d := 0) (d' := 0).
  - unfold spec_le_bytes. rewrite map_length, zrange_length, le_bytes_length. f_equal; lia.
  - intros i Hi. unfold spec_le_bytes in *. rewrite map_length, zrange_length in Hi.
    rewrite (nth_map_in _ _ i 0 0) by (rewrite zrange_length; exact Hi).
    rewrite zrange_nth by exact Hi.
    rewrite le_bytes_nth by lia. reflexivity.
Qed.

(* ------------------------------------------------------------------------------------------ *)
(** * reverse_bits (finite case analysis over the eight bit positions) *)

Lemma reverse_bits_0 : reverse_bits 0 = 0.
Proof. reflexivity. Qed.

Lemma reverse_bits_range b : 0 <= reverse_bits b < 256.
Proof.
  unfold reverse_bits, bit_at.
  destruct (Z.testbit b 0), (Z.testbit b 1), (Z.testbit b 2), (Z.testbit b 3),
           (Z.testbit b 4), (Z.testbit b 5), (Z.testbit b 6), (Z.testbit b 7); lia.
Qed.

Lemma reverse_bits_testbit b i : 0 <= i < 8 -> Z.testbit (reverse_bits b) i = Z.testbit b (7 - i).
Proof.
  intros Hi.
  assert (i = 0 \/ i = 1 \/ i = 2 \/ i = 3 \/ i = 4 \/ i = 5 \/ i = 6 \/ i = 7) as Hc by lia.
  unfold reverse_bits, bit_at.
  destruct Hc as [->|[->|[->|[->|[->|[->|[->| ->]]]]]]]; simpl (7 - _);
    destruct (Z.testbit b 0), (Z.testbit b 1), (Z.testbit b 2), (Z.testbit b 3),
             (Z.testbit b 4), (Z.testbit b 5), (Z.testbit b 6), (Z.testbit b 7); reflexivity.
Qed.

Lemma reverse_bits_invol b : 0 <= b < 256 -> reverse_bits (reverse_bits b) = b.
Proof.
  intros Hb. apply Z.bits_inj'. intros n Hn.
  destruct (Z_lt_ge_dec n 8) as [Hlt|Hge].
  - rewrite reverse_bits_testbit by lia. rewrite reverse_bits_testbit by lia. f_equal; lia.
  - rewrite (byte_high (reverse_bits (reverse_bits b))) by (try apply reverse_bits_range; lia).
    rewrite byte_high by (try assumption; lia). reflexivity.
Qed.

Lemma nth_map_reverse_bits l n : nth n (map reverse_bits l) 0 = reverse_bits (nth n l 0).
Proof. revert n; induction l as [|a t IH]; intros [|n]; cbn [map nth]; auto. Qed.

Lemma map_reverse_bits_invol l : Forall (fun b => 0 <= b < 256) l -> map reverse_bits (map reverse_bits l) = l.
Proof.
  induction 1 as [|a t Ha Ht IH]; cbn [map]; [reflexivity|].
  rewrite reverse_bits_invol by exact Ha. rewrite IH. reflexivity.
Qed.

(* ------------------------------------------------------------------------------------------ *)
(** * bitvec views = C01's set-bit numbering on a little-endian array *)

Lemma lsb0_view_setbit arr k : lsb0_view arr k = setbit LE LSB0 arr k.
Proof. reflexivity. Qed.

Lemma msb0_view_setbit arr k : msb0_view arr k = setbit LE MSB0 arr k.
Proof. reflexivity. Qed.

Lemma lsb0_view_reversed arr k : lsb0_view (map reverse_bits arr) k = msb0_view arr k.
Proof.
  unfold lsb0_view, msb0_view. rewrite nth_map_reverse_bits.
  apply reverse_bits_testbit. lia.
Qed.

(* BE counts bytes from the back: the same as LE on the reversed array *)
Lemma setbit_BE_rev bito arr k : 0 <= k < 8 * Z.of_nat (List.length arr) ->
  setbit BE bito arr k = setbit LE bito (rev arr) k.
Proof.
  intros Hk. unfold setbit, phys_byte. f_equal.
  rewrite rev_nth by lia. f_equal; lia.
Qed.

Lemma setbit_LE_rev bito arr k : 0 <= k < 8 * Z.of_nat (List.length arr) ->
  setbit LE bito arr k = setbit BE bito (rev arr) k.
Proof.
  intros Hk. rewrite setbit_BE_rev by (rewrite rev_length; exact Hk). rewrite rev_involutive. reflexivity.
Qed.

Lemma phys_bit_range bito k : 0 <= phys_bit bito k < 8.
Proof. destruct bito; unfold phys_bit; lia. Qed.

(* set-bit k of the little-endian bytes of v is bit 8*(k/8) + phys_bit(k) of v *)
Lemma setbit_le_bytes bito n v k : 0 <= k < 8 * Z.of_nat n ->
  setbit LE bito (le_bytes n v) k = Z.testbit v (8 * (k / 8) + phys_bit bito k).
Proof.
  intros Hk. unfold setbit, phys_byte.
  rewrite le_bytes_testbit by (try apply phys_bit_range; lia).
  f_equal; lia.
Qed.

(* ------------------------------------------------------------------------------------------ *)
(** * byte_len *)

Lemma byte_len_bounds size : 0 <= size -> size <= 8 * byte_len size < size + 8.
Proof. unfold byte_len. lia. Qed.

(* ------------------------------------------------------------------------------------------ *)
(** * Integer form *)

Definition vbit (bito : bit_ord) (v k : Z) : bool := Z.testbit v (8 * (k / 8) + phys_bit (bito_of bito) k).

Lemma int_array_view bito v k : 0 <= k < 128 ->
  lsb0_view (if is_msb0 bito then map reverse_bits (le_bytes 16 v) else le_bytes 16 v) k = vbit bito v k.
Proof.
  intros Hk. unfold vbit. destruct bito; cbn [is_msb0 bito_of].
  - rewrite lsb0_view_setbit. apply setbit_le_bytes. cbn. lia.
  - rewrite lsb0_view_reversed, msb0_view_setbit. apply setbit_le_bytes. cbn. lia.
Qed.

Lemma int_code_reject bito v size : 0 <= size ->
  any_from (lsb0_view (if is_msb0 bito then map reverse_bits (le_bytes 16 v) else le_bytes 16 v)) size 128 = true
  <-> exists k, size <= k < 128 /\ vbit bito v k = true.
Proof.
  intros Hs. rewrite any_from_spec. split; intros [k [Hk Hb]]; exists k; (split; [exact Hk|]).
  - rewrite int_array_view in Hb by lia. exact Hb.
  - rewrite int_array_view by lia. exact Hb.
Qed.

(* what the integer path returns when it returns bytes *)
Lemma int_final_array bito bo v size : 0 <= size <= 128 ->
  (let a := if is_msb0 bito then map reverse_bits (le_bytes 16 v) else le_bytes 16 v in
   let f := firstn (Z.to_nat (byte_len size)) a in
   let f := if is_msb0 bito then map reverse_bits f else f in
   if is_be bo then rev f else f) = spec_bytes (Some (RInt v)) bo size.
Proof.
  intros Hs. cbn zeta. unfold spec_bytes.
  assert (Hlen : 0 <= byte_len size <= 16) by (unfold byte_len; lia).
  rewrite spec_le_bytes_eq by lia.
  assert (E : (let a := if is_msb0 bito then map reverse_bits (le_bytes 16 v) else le_bytes 16 v in
               let f := firstn (Z.to_nat (byte_len size)) a in
               if is_msb0 bito then map reverse_bits f else f) = le_bytes (Z.to_nat (byte_len size)) v).
  { cbn zeta. destruct bito; cbn [is_msb0].
    - apply firstn_le_bytes. lia.
    - rewrite firstn_map, firstn_le_bytes by lia.
      apply map_reverse_bits_invol. apply le_bytes_range. }
  cbn zeta in E. rewrite E. destruct bo; reflexivity.
Qed.

Lemma spec_bytes_int_length bo v size : 0 <= size ->
  Z.of_nat (List.length (spec_bytes (Some (RInt v)) bo size)) = byte_len size.
Proof.
  intros Hs. unfold spec_bytes.
  assert (0 <= byte_len size) by (unfold byte_len; lia).
  destruct bo; [|rewrite rev_length]; unfold spec_le_bytes; rewrite map_length, zrange_length; lia.
Qed.

(* set-bit k (register's own orders) of the produced bytes is bit 8*(k/8)+phys_bit(k) of the integer *)
Lemma spec_bytes_int_bit bo bito v size k : 0 <= size -> 0 <= k < 8 * byte_len size ->
  reg_bit bo bito (spec_bytes (Some (RInt v)) bo size) k = vbit bito v k.
Proof.
  intros Hs Hk. unfold reg_bit, vbit, spec_bytes.
  assert (Hl : 0 <= byte_len size) by (unfold byte_len; lia).
  rewrite spec_le_bytes_eq by lia.
  destruct bo; cbn [bo_of].
  - apply setbit_le_bytes. lia.
  - rewrite setbit_BE_rev by (rewrite rev_length, le_bytes_length; lia).
    rewrite rev_involutive. apply setbit_le_bytes. lia.
Qed.

(* bits at or above 8*len: exactly "the integer does not fit into len bytes" *)
Lemma int_overflow_bits bito v len : 0 <= v < 2 ^ 128 -> 0 <= len <= 16 ->
  (exists k, 8 * len <= k < 128 /\ vbit bito v k = true) <-> 2 ^ (8 * len) <= v.
Proof.
  intros Hv Hl. unfold vbit. split.
  - intros [k [Hk Hb]].
    destruct (Z_lt_ge_dec v (2 ^ (8 * len))) as [Hlt|Hge]; [exfalso|lia].
    pose proof (phys_bit_range (bito_of bito) k).
    rewrite (testbit_small v (8 * len)) in Hb by lia. discriminate.
  - intros Hge.
    assert (Hpos : 0 < v). { assert (0 < 2 ^ (8 * len)) by (apply Z.pow_pos_nonneg; lia). lia. }
    pose proof (Z.bit_log2 v Hpos) as Hbit.
    assert (Hlo : 8 * len <= Z.log2 v) by (apply Z.log2_le_pow2; [exact Hpos|exact Hge]).
    assert (Hhi : Z.log2 v < 128) by (apply Z.log2_lt_pow2; [exact Hpos|lia]).
    set (j := Z.log2 v) in *.
    exists (8 * (j / 8) + match bito with BiLSB0 => j mod 8 | BiMSB0 => 7 - j mod 8 end).
    split.
    + destruct bito; lia.
    + replace (8 * ((8 * (j / 8) + match bito with BiLSB0 => j mod 8 | BiMSB0 => 7 - j mod 8 end) / 8) +
               phys_bit (bito_of bito) (8 * (j / 8) + match bito with BiLSB0 => j mod 8 | BiMSB0 => 7 - j mod 8 end))
        with j; [exact Hbit|].
      destruct bito; cbn [bito_of phys_bit]; lia.
Qed.

Lemma int_reject_iff bo bito v size : 1 <= size <= 128 -> 0 <= v < 2 ^ 128 ->
  (exists k, size <= k < 128 /\ vbit bito v k = true) <-> spec_reject (RInt v) bo bito size.
Proof.
  intros Hs Hv. unfold spec_reject, high_bit_set.
  pose proof (byte_len_bounds size ltac:(lia)) as Hb.
  assert (Hl : 0 <= byte_len size <= 16) by (unfold byte_len; lia).
  rewrite spec_bytes_int_length by lia.
  rewrite <- (int_overflow_bits bito v (byte_len size)) by assumption.
  split.
  - intros [k [Hk Hbit]]. destruct (Z_lt_ge_dec k (8 * byte_len size)).
    + right. exists k. split; [lia|]. rewrite spec_bytes_int_bit by lia. exact Hbit.
    + left. exists k. split; [lia|exact Hbit].
  - intros [[k [Hk Hbit]]|[k [Hk Hbit]]].
    + exists k. split; [lia|exact Hbit].
    + exists k. split; [lia|]. rewrite spec_bytes_int_bit in Hbit by lia. exact Hbit.
Qed.

Lemma convert_int bito bo v size ty name : 0 <= size <= 128 ->
  convert_reset_value (RInt v) bito size ty name bo =
  if any_from (lsb0_view (if is_msb0 bito then map reverse_bits (le_bytes 16 v) else le_bytes 16 v)) size 128
  then Ok (RErr (err_too_big ty name size))
  else Ok (ROk (spec_bytes (Some (RInt v)) bo size)).
Proof.
  intros Hs. unfold convert_reset_value.
  replace (128 <? size) with false by lia.
  destruct (any_from _ size 128); [reflexivity|].
  do 2 f_equal. apply (int_final_array bito bo v size Hs).
Qed.

Lemma convert_int_over_128 bito bo v size ty name : 128 < size ->
  convert_reset_value (RInt v) bito size ty name bo = Fail AssertFail.
Proof. intros Hs. unfold convert_reset_value. replace (128 <? size) with true by lia. reflexivity. Qed.

(* ------------------------------------------------------------------------------------------ *)
(** * Array form *)

Definition arr_view (bito : bit_ord) (a : list Z) : Z -> bool :=
  match bito with BiLSB0 => lsb0_view a | BiMSB0 => msb0_view a end.

Lemma arr_view_bit bo bito arr k : 0 <= k < 8 * Z.of_nat (List.length arr) ->
  arr_view bito (if is_be bo then rev arr else arr) k = reg_bit bo bito arr k.
Proof.
  intros Hk. unfold reg_bit.
  assert (E : forall a, arr_view bito a k = setbit LE (bito_of bito) a k) by (intros a; destruct bito; reflexivity).
  rewrite E. destruct bo; cbn [is_be bo_of]; [reflexivity|].
  symmetry. apply setbit_BE_rev. exact Hk.
Qed.

Lemma convert_arr bito bo arr size ty name : 0 <= size ->
  convert_reset_value (RArr arr) bito size ty name bo =
  if negb (Z.of_nat (List.length arr) =? byte_len size)
  then Ok (RErr (err_len ty name (byte_len size) (Z.of_nat (List.length arr))))
  else if any_from (arr_view bito (if is_be bo then rev arr else arr)) size (8 * Z.of_nat (List.length arr))
       then Ok (RErr (err_too_big ty name size))
       else Ok (ROk arr).
Proof.
  intros Hs. unfold convert_reset_value.
  destruct (Z.eqb_spec (Z.of_nat (List.length arr)) (byte_len size)) as [E|E]; cbn [negb]; [|reflexivity].
  pose proof (byte_len_bounds size Hs).
  replace (8 * Z.of_nat (List.length arr) <? size) with false by lia.
  assert (Hrev : (if is_be bo then rev (if is_be bo then rev arr else arr) else if is_be bo then rev arr else arr) = arr)
    by (destruct bo; cbn [is_be]; [reflexivity|apply rev_involutive]).
  cbv zeta. rewrite Hrev. destruct bito; reflexivity.
Qed.

Lemma arr_code_reject bo bito arr size : 0 <= size ->
  any_from (arr_view bito (if is_be bo then rev arr else arr)) size (8 * Z.of_nat (List.length arr)) = true
  <-> high_bit_set bo bito size arr.
Proof.
  intros Hs. rewrite any_from_spec. unfold high_bit_set.
  split; intros [k [Hk Hb]]; exists k; (split; [exact Hk|]).
  - rewrite arr_view_bit in Hb by lia. exact Hb.
  - rewrite arr_view_bit by lia. exact Hb.
Qed.

(* ------------------------------------------------------------------------------------------ *)
(** * The value-level theorems of C08 *)

(* the conversion never panics on the property's domain: it accepts or it rejects *)
Theorem convert_total rv bito size ty name bo : 1 <= size <= 128 ->
  accepted (convert_reset_value rv bito size ty name bo) \/ rejected (convert_reset_value rv bito size ty name bo).
Proof.
  intros Hs. destruct rv as [v|arr].
  - rewrite convert_int by lia. destruct (any_from _ size 128).
    + right. eexists. split; [reflexivity|]. right. reflexivity.
    + left. eexists. reflexivity.
  - rewrite convert_arr by lia. destruct (negb _).
    + right. eexists. split; [reflexivity|]. left. reflexivity.
    + destruct (any_from _ size _).
      * right. eexists. split; [reflexivity|]. right. reflexivity.
      * left. eexists. reflexivity.
Qed.

Theorem convert_accept_iff rv bito size ty name bo : 1 <= size <= 128 -> rv_wf rv ->
  (accepted (convert_reset_value rv bito size ty name bo) <-> ~ spec_reject rv bo bito size) /\
  (rejected (convert_reset_value rv bito size ty name bo) <-> spec_reject rv bo bito size).
Proof.
  intros Hs Hwf. destruct rv as [v|arr].
  - cbn [rv_wf] in Hwf. rewrite convert_int by lia.
    rewrite <- (int_reject_iff bo bito v size Hs Hwf).
    rewrite <- (int_code_reject bito v size) by lia.
    destruct (any_from _ size 128); split; split.
    + intros [out H]. discriminate.
    + intros H. exfalso. apply H. reflexivity.
    + intros _. reflexivity.
    + intros _. eexists. split; [reflexivity|]. right. reflexivity.
    + intros _ H. discriminate.
    + intros _. eexists. reflexivity.
    + intros [e [H _]]. discriminate.
    + intros H. discriminate.
  - rewrite convert_arr by lia. unfold spec_reject.
    rewrite <- (arr_code_reject bo bito arr size) by lia.
    destruct (Z.eqb_spec (Z.of_nat (List.length arr)) (byte_len size)) as [E|E]; cbn [negb].
    + destruct (any_from _ size _); split; split.
      * intros [out H]. discriminate.
      * intros H. exfalso. apply H. right. reflexivity.
      * intros _. right. reflexivity.
      * intros _. eexists. split; [reflexivity|]. right. reflexivity.
      * intros _ [H|H]; [contradiction|discriminate].
      * intros _. eexists. reflexivity.
      * intros [e [H _]]. discriminate.
      * intros [H|H]; [contradiction|discriminate].
    + split; split.
      * intros [out H]. discriminate.
      * intros H. exfalso. apply H. left. exact E.
      * intros _. left. exact E.
      * intros _. eexists. split; [reflexivity|]. left. reflexivity.
Qed.

(* accepted values come out as the property says; their length is the register's byte length *)
Theorem convert_bytes rv bito size ty name bo out : 0 <= size ->
  convert_reset_value rv bito size ty name bo = Ok (ROk out) ->
  out = spec_bytes (Some rv) bo size /\ Z.of_nat (List.length out) = byte_len size.
Proof.
  intros Hs H. destruct rv as [v|arr].
  - destruct (Z_le_gt_dec size 128) as [Hle|Hgt].
    + rewrite convert_int in H by lia. destruct (any_from _ size 128); [discriminate|].
      inversion H; subst. split; [reflexivity|]. apply spec_bytes_int_length. lia.
    + rewrite convert_int_over_128 in H by lia. discriminate.
  - rewrite convert_arr in H by lia.
    destruct (Z.eqb_spec (Z.of_nat (List.length arr)) (byte_len size)) as [E|E]; cbn [negb] in H; [|discriminate].
    destruct (any_from _ size _); [discriminate|]. inversion H; subst. split; [reflexivity|exact E].
Qed.

(* no accepted value has a bit at or above the size, in C01's numbering of the register's own orders *)
Theorem convert_no_high_bit rv bito size ty name bo out : 1 <= size <= 128 -> rv_wf rv ->
  convert_reset_value rv bito size ty name bo = Ok (ROk out) ->
  forall k, size <= k < 8 * Z.of_nat (List.length out) -> reg_bit bo bito out k = false.
Proof.
  intros Hs Hwf H k Hk.
  assert (H0 : 0 <= size) by lia.
  destruct (convert_bytes _ _ _ _ _ _ _ H0 H) as [-> Hlen].
  destruct (convert_accept_iff rv bito size ty name bo Hs Hwf) as [[Ha _] _].
  assert (Hn : ~ spec_reject rv bo bito size) by (apply Ha; eexists; exact H).
  destruct (reg_bit bo bito (spec_bytes (Some rv) bo size) k) eqn:Eb; [exfalso|reflexivity].
  apply Hn. destruct rv as [v|arr]; right; exists k; split; assumption.
Qed.

(* the rejection rule of the array form IS C01's numbering *)
Theorem array_reject_uses_setbit arr bo bito size ty name : 1 <= size ->
  Z.of_nat (List.length arr) = byte_len size ->
  (rejected (convert_reset_value (RArr arr) bito size ty name bo) <->
   exists k, size <= k < 8 * Z.of_nat (List.length arr) /\ setbit (bo_of bo) (bito_of bito) arr k = true) /\
  (convert_reset_value (RArr arr) bito size ty name bo = Ok (ROk arr) <->
   forall k, size <= k < 8 * Z.of_nat (List.length arr) -> setbit (bo_of bo) (bito_of bito) arr k = false).
Proof.
  intros Hs Hlen. rewrite convert_arr by lia.
  replace (Z.of_nat (List.length arr) =? byte_len size) with true by lia. cbn [negb].
  pose proof (arr_code_reject bo bito arr size ltac:(lia)) as Hc. unfold high_bit_set, reg_bit in Hc.
  destruct (any_from _ size _); split; split.
  - intros _. apply Hc. reflexivity.
  - intros _. eexists. split; [reflexivity|]. right. reflexivity.
  - intros H. discriminate.
  - intros H. exfalso. destruct (proj1 Hc eq_refl) as [k [Hk Hb]]. rewrite H in Hb by exact Hk. discriminate.
  - intros [e [H _]]. discriminate.
  - intros H. apply Hc in H. discriminate.
  - intros _ k Hk. destruct (setbit (bo_of bo) (bito_of bito) arr k) eqn:Eb; [|reflexivity].
    assert (false = true) by (apply Hc; exists k; split; assumption). discriminate.
  - intros _. reflexivity.
Qed.

(* LSB0 corollary: an integer is accepted iff it is below 2^size *)
Corollary int_lsb0_accept_iff v size ty name bo : 1 <= size <= 128 -> 0 <= v < 2 ^ 128 ->
  accepted (convert_reset_value (RInt v) BiLSB0 size ty name bo) <-> v < 2 ^ size.
Proof.
  intros Hs Hv. rewrite convert_int by lia.
  pose proof (int_code_reject BiLSB0 v size ltac:(lia)) as Hc.
  assert (Hbit : forall k, 0 <= k -> vbit BiLSB0 v k = Z.testbit v k).
  { intros k Hk. unfold vbit. cbn [bito_of phys_bit]. f_equal; lia. }
  destruct (any_from _ size 128); split.
  - intros [out H]. discriminate.
  - intros Hlt. exfalso. destruct (proj1 Hc eq_refl) as [k [Hk Hb]].
    rewrite Hbit in Hb by lia. rewrite (testbit_small v size k) in Hb by lia. discriminate.
  - intros _. destruct (Z_lt_ge_dec v (2 ^ size)) as [|Hge]; [assumption|exfalso].
    assert (Hpos : 0 < v). { assert (0 < 2 ^ size) by (apply Z.pow_pos_nonneg; lia). lia. }
    assert (false = true); [|discriminate].
    apply Hc. exists (Z.log2 v). split.
    + split; [apply Z.log2_le_pow2; lia|apply Z.log2_lt_pow2; lia].
    + rewrite Hbit by apply Z.log2_nonneg. apply Z.bit_log2. exact Hpos.
  - intros _. eexists. reflexivity.
Qed.

(* ========================================================================================== *)
(** * Part B — the object tree: induction principle, map_object, search_object *)

Definition is_block (o : object) : bool := match o with OBlock _ _ _ _ _ => true | _ => false end.

Section ObjectInd.
  Variable P : object -> Prop.
  Hypothesis Hblock : forall c n a r objs, Forall P objs -> P (OBlock c n a r objs).
  Hypothesis Hleaf : forall o, is_block o = false -> P o.
  Fixpoint object_ind_nested (o : object) : P o :=
    match o with
    | OBlock c n a r objs =>
      Hblock c n a r objs
             ((fix go (l : list object) : Forall P l :=
                 match l with
                 | [] => Forall_nil P
                 | x :: t => Forall_cons x (object_ind_nested x) (go t)
                 end) objs)
    | ORegister r => Hleaf (ORegister r) eq_refl
    | OCommand c => Hleaf (OCommand c) eq_refl
    | OBuffer b => Hleaf (OBuffer b) eq_refl
    | ORef c n ov => Hleaf (ORef c n ov) eq_refl
    end.
End ObjectInd.

Definition leafy (f : object -> object) : Prop := forall o, is_block o = false -> is_block (f o) = false.
Definition keeps_names (f : object -> object) : Prop := forall o, object_name (f o) = object_name o.

Lemma map_object_leaf f o : is_block o = false -> map_object f o = f o.
Proof. destruct o; cbn; intros H; [discriminate|reflexivity..]. Qed.

Lemma flatten_leaf o d : is_block o = false -> flatten_depth d o = [(o, d)].
Proof. destruct o; cbn; intros H; [discriminate|reflexivity..]. Qed.

Lemma flatten_map_object f : leafy f -> forall o d,
  flatten_depth d (map_object f o) = map (fun p => (map_object f (fst p), snd p)) (flatten_depth d o).
Proof.
  intros Hf o. induction o as [c n a r objs IH|o Hl] using object_ind_nested; intros d.
  - cbn [map_object flatten_depth map fst snd]. f_equal.
    induction IH as [|x t Hx Ht IHt]; cbn [map flat_map]; [reflexivity|].
    rewrite map_app, Hx, IHt. reflexivity.
  - rewrite map_object_leaf by exact Hl. rewrite (flatten_leaf o) by exact Hl.
    rewrite flatten_leaf by (apply Hf; exact Hl).
    cbn [map fst snd]. rewrite map_object_leaf by exact Hl. reflexivity.
Qed.

Lemma preorder_objects_map f objs : leafy f ->
  preorder_objects (map_objects f objs) = map (map_object f) (preorder_objects objs).
Proof.
  intros Hf. unfold preorder_objects, preorder, map_objects.
  induction objs as [|x t IH]; cbn [map flat_map]; [reflexivity|].
  rewrite !map_app, IH. f_equal.
  rewrite flatten_map_object by exact Hf. rewrite !map_map. reflexivity.
Qed.

Lemma object_name_map_object f o : keeps_names f -> object_name (map_object f o) = object_name o.
Proof. intros Hn. destruct o; cbn [map_object]; try apply Hn. reflexivity. Qed.

(* search_object, unfolded one step *)
Lemma search_in_block name c n a r objs :
  search_in name (OBlock c n a r objs) =
  if String.eqb n name then Some (OBlock c n a r objs) else search_object name objs.
Proof.
  cbn [search_in object_name]. destruct (String.eqb n name); [reflexivity|].
  induction objs as [|x t IH]; [reflexivity|].
  cbn [search_object]. rewrite <- IH. reflexivity.
Qed.

Lemma search_in_leaf name o : is_block o = false ->
  search_in name o = if String.eqb (object_name o) name then Some o else None.
Proof. destruct o; intros H; [discriminate|..]; cbn [search_in]; destruct (String.eqb _ name); reflexivity. Qed.

Lemma search_in_map f name : leafy f -> keeps_names f -> forall o,
  search_in name (map_object f o) = option_map (map_object f) (search_in name o).
Proof.
  intros Hf Hn o. induction o as [c n a r objs IH|o Hl] using object_ind_nested.
  - cbn [map_object]. rewrite !search_in_block.
    destruct (String.eqb n name); [reflexivity|].
    induction IH as [|x t Hx Ht IHt]; [reflexivity|].
    cbn [map search_object]. rewrite Hx. destruct (search_in name x); [reflexivity|exact IHt].
  - rewrite map_object_leaf by exact Hl.
    rewrite search_in_leaf by (apply Hf; exact Hl). rewrite search_in_leaf by exact Hl.
    rewrite Hn. destruct (String.eqb (object_name o) name); [|reflexivity].
    cbn [option_map]. rewrite map_object_leaf by exact Hl. reflexivity.
Qed.

Lemma search_object_map f name objs : leafy f -> keeps_names f ->
  search_object name (map_objects f objs) = option_map (map_object f) (search_object name objs).
Proof.
  intros Hf Hn. unfold map_objects. induction objs as [|x t IH]; [reflexivity|].
  cbn [map search_object]. rewrite search_in_map by assumption.
  destruct (search_in name x); [reflexivity|exact IH].
Qed.

Lemma search_in_found name : forall o x, search_in name o = Some x ->
  object_name x = name /\ forall d, In x (map fst (flatten_depth d o)).
Proof.
  intros o. induction o as [c n a r objs IH|o Hl] using object_ind_nested; intros x H.
  - rewrite search_in_block in H. destruct (String.eqb n name) eqn:E.
    + inversion H; subst. split; [apply String.eqb_eq; exact E|]. intros d. cbn [flatten_depth map fst]. left. reflexivity.
    + assert (G : object_name x = name /\ forall d, In x (map fst (flat_map (flatten_depth d) objs))).
      { induction IH as [|y t Hy Ht IHt]; [discriminate|].
        cbn [search_object] in H. destruct (search_in name y) eqn:Ey.
        - inversion H; subst. destruct (Hy _ eq_refl) as [G1 G2]. split; [exact G1|].
          intros d. cbn [flat_map]. rewrite map_app. apply in_or_app. left. apply G2.
        - destruct (IHt H) as [G1 G2]. split; [exact G1|].
          intros d. cbn [flat_map]. rewrite map_app. apply in_or_app. right. apply G2. }
      destruct G as [G1 G2]. split; [exact G1|]. intros d. cbn [flatten_depth map fst]. right. apply G2.
  - rewrite search_in_leaf in H by exact Hl. destruct (String.eqb (object_name o) name) eqn:E; [|discriminate].
    inversion H; subst. split; [apply String.eqb_eq; exact E|].
    intros d. rewrite flatten_leaf by exact Hl. left. reflexivity.
Qed.

Lemma search_object_found name objs x : search_object name objs = Some x ->
  object_name x = name /\ In x (preorder_objects objs).
Proof.
  unfold preorder_objects, preorder. induction objs as [|y t IH]; [discriminate|].
  cbn [search_object flat_map]. destruct (search_in name y) eqn:E; intros H.
  - inversion H; subst. destruct (search_in_found _ _ _ E) as [G1 G2]. split; [exact G1|].
    rewrite map_app. apply in_or_app. left. apply G2.
  - destruct (IH H) as [G1 G2]. split; [exact G1|]. rewrite map_app. apply in_or_app. right. exact G2.
Qed.

Lemma find_app' {A} (f : A -> bool) l1 l2 :
  find f (l1 ++ l2) = match find f l1 with Some x => Some x | None => find f l2 end.
Proof. induction l1 as [|a t IH]; cbn [app find]; [reflexivity|]. destruct (f a); [reflexivity|exact IH]. Qed.

(* search_object is "first match in pre-order" *)
Lemma search_in_is_find name : forall o d,
  search_in name o = find (fun x => String.eqb (object_name x) name) (map fst (flatten_depth d o)).
Proof.
  intros o. induction o as [c n a r objs IH|o Hl] using object_ind_nested; intros d.
  - rewrite search_in_block. cbn [flatten_depth map fst find object_name].
    destruct (String.eqb n name); [reflexivity|].
    induction IH as [|y t Hy Ht IHt]; [reflexivity|].
    cbn [search_object flat_map]. rewrite map_app, find_app', <- Hy.
    destruct (search_in name y); [reflexivity|exact IHt].
  - rewrite search_in_leaf by exact Hl. rewrite flatten_leaf by exact Hl. cbn [map fst find].
    destruct (String.eqb (object_name o) name); reflexivity.
Qed.

Theorem search_object_is_find name objs :
  search_object name objs = find (fun x => String.eqb (object_name x) name) (preorder_objects objs).
Proof.
  unfold preorder_objects, preorder. induction objs as [|y t IH]; [reflexivity|].
  cbn [search_object flat_map]. rewrite map_app, find_app', <- (search_in_is_find name y 0%nat).
  destruct (search_in name y); [reflexivity|exact IH].
Qed.

(* ------------------------------------------------------------------------------------------ *)
(** * Monadic list helpers *)

Lemma mapO_in {A B} (f : A -> outcome B) l : forall l' x,
  mapO f l = Ok l' -> In x l -> exists b, f x = Ok b /\ In b l'.
Proof.
  induction l as [|a t IH]; intros l' x H Hin; [destruct Hin|].
  cbn [mapO] in H. destruct (f a) as [b|k] eqn:Ea; cbn [bind] in H; [|discriminate].
  destruct (mapO f t) as [bs|k] eqn:Et; cbn [bind] in H; [|discriminate].
  inversion H; subst. destruct Hin as [<-|Hin].
  - exists b. split; [exact Ea|left; reflexivity].
  - destruct (IH _ _ eq_refl Hin) as [b' [H1 H2]]. exists b'. split; [exact H1|right; exact H2].
Qed.

Lemma mapO_in_rev {A B} (f : A -> outcome B) l : forall l' b,
  mapO f l = Ok l' -> In b l' -> exists x, In x l /\ f x = Ok b.
Proof.
  induction l as [|a t IH]; intros l' b H Hin.
  - inversion H; subst. destruct Hin.
  - cbn [mapO] in H. destruct (f a) as [b0|k] eqn:Ea; cbn [bind] in H; [|discriminate].
    destruct (mapO f t) as [bs|k] eqn:Et; cbn [bind] in H; [|discriminate].
    inversion H; subst. destruct Hin as [<-|Hin].
    + exists a. split; [left; reflexivity|exact Ea].
    + destruct (IH _ _ eq_refl Hin) as [x [H1 H2]]. exists x. split; [right; exact H1|exact H2].
Qed.

Lemma In_cat_options {A} (l : list (option A)) a : In a (cat_options l) <-> In (Some a) l.
Proof.
  induction l as [|[x|] t IH]; cbn [cat_options In].
  - tauto.
  - rewrite IH. split; intros [H|H]; auto; left; congruence.
  - rewrite IH. split; [auto|]. intros [H|H]; [discriminate|exact H].
Qed.

Lemma first_stop_none F (l : list object) :
  first_stop (map F l) = None -> forall x, In x l -> exists r, F x = Ok (ROk r).
Proof.
  induction l as [|a t IH]; cbn [map first_stop]; intros H x Hin; [destruct Hin|].
  destruct (F a) as [[r|e]|k] eqn:Ea; try discriminate.
  destruct Hin as [<-|Hin]; [exists r; exact Ea|apply IH; assumption].
Qed.

(* ------------------------------------------------------------------------------------------ *)
(** * The two MIR passes *)

Lemma bos_object_leafy g : leafy (bos_object g).
Proof. intros o H. destruct o; cbn in *; congruence. Qed.

Lemma bos_register_name g r : rg_name (bos_register g r) = rg_name r.
Proof.
  unfold bos_register. destruct (rg_byte_order r); [reflexivity|].
  destruct (g_default_byte_order g); [reflexivity|]. destruct (8 <? rg_size_bits r); reflexivity.
Qed.

Lemma bos_object_names g : keeps_names (bos_object g).
Proof. intros o. destruct o; cbn [bos_object object_name]; try reflexivity. apply bos_register_name. Qed.

Lemma bos_register_other g r :
  rg_size_bits (bos_register g r) = rg_size_bits r /\ rg_bit_order (bos_register g r) = rg_bit_order r /\
  rg_reset (bos_register g r) = rg_reset r.
Proof.
  unfold bos_register. destruct (rg_byte_order r); [auto|].
  destruct (g_default_byte_order g); [auto|]. destruct (8 <? rg_size_bits r); auto.
Qed.

(* after byte_order_specified, get_target_byte_order returns the register's effective byte order
   (own, else global default, else LE for sizes up to 8) — and the register carries it *)
Lemma bos_target g r b : get_target_byte_order g (bos_register g r) = Ok b ->
  b = effective_byte_order g (rg_byte_order r) /\ rg_byte_order (bos_register g r) = Some b.
Proof.
  unfold get_target_byte_order, bos_register, effective_byte_order.
  destruct (rg_byte_order r) as [b0|] eqn:E.
  - rewrite E. intros H; inversion H; subst. auto.
  - destruct (g_default_byte_order g) as [d|].
    + cbn [with_byte_order rg_byte_order]. intros H; inversion H; subst. auto.
    + destruct (8 <? rg_size_bits r) eqn:E8.
      * rewrite E. replace (rg_size_bits r <=? 8) with false by lia. discriminate.
      * cbn [with_byte_order rg_byte_order]. intros H; inversion H; subst. auto.
Qed.

Definition reg_image (d : device) (r : register) : register :=
  match convert_object d (ORegister r) with
  | Ok (ROk (Some a)) => with_reset r (Some (RArr a))
  | _ => r
  end.

Lemma replace_reset_register d r : replace_reset d (ORegister r) = ORegister (reg_image d r).
Proof.
  unfold replace_reset, reg_image. destruct (convert_object d (ORegister r)) as [[[a|]|e]|k]; reflexivity.
Qed.

Lemma replace_reset_leafy d : leafy (replace_reset d).
Proof.
  intros o H. unfold replace_reset.
  destruct (convert_object d o) as [[[a|]|e]|k]; try exact H.
  destruct o as [| | | |c n ov]; try exact H; try reflexivity. destruct ov; reflexivity.
Qed.

Lemma replace_reset_names d : keeps_names (replace_reset d).
Proof.
  intros o. unfold replace_reset.
  destruct (convert_object d o) as [[[a|]|e]|k]; try reflexivity.
  destruct o as [| | | |c n ov]; try reflexivity. destruct ov; reflexivity.
Qed.

(* what the pass leaves on a register (after byte_order_specified) when its conversion succeeded *)
Lemma reg_image_spec g d1 r x : d_config d1 = g -> 0 <= rg_size_bits r ->
  convert_object d1 (ORegister (bos_register g r)) = Ok (ROk x) ->
  let bo := effective_byte_order g (rg_byte_order r) in
  let r2 := reg_image d1 (bos_register g r) in
  rg_name r2 = rg_name r /\ rg_size_bits r2 = rg_size_bits r /\ rg_byte_order r2 = Some bo /\
  rg_reset r2 = match rg_reset r with
                | None => None
                | Some rv => Some (RArr (spec_bytes (Some rv) bo (rg_size_bits r)))
                end /\
  (forall rv, rg_reset r = Some rv ->
     convert_reset_value rv (rg_bit_order r) (rg_size_bits r) "register" (rg_name r) bo =
     Ok (ROk (spec_bytes (Some rv) bo (rg_size_bits r)))).
Proof.
  intros Hg Hs H. cbn zeta. unfold reg_image. rewrite H.
  cbn [convert_object] in H. rewrite Hg in H.
  destruct (get_target_byte_order g (bos_register g r)) as [b|k] eqn:Eb; cbn [bind] in H; [|discriminate].
  destruct (bos_target _ _ _ Eb) as [-> Hbo].
  destruct (bos_register_other g r) as [Es [Ebit Er]].
  rewrite Er, Es, Ebit, bos_register_name in H.
  destruct (rg_reset r) as [rv|] eqn:Erv.
  - destruct (convert_reset_value rv (rg_bit_order r) (rg_size_bits r) "register" (rg_name r)
                                  (effective_byte_order g (rg_byte_order r))) as [[a|e]|k] eqn:Ec;
      cbn [bind] in H; try discriminate.
    inversion H; subst x.
    destruct (convert_bytes _ _ _ _ _ _ _ Hs Ec) as [-> _].
    cbn [with_reset rg_name rg_size_bits rg_byte_order rg_reset].
    rewrite bos_register_name, Es, Hbo. repeat split; try reflexivity.
    intros rv' Hrv'. inversion Hrv'; subst. exact Ec.
  - inversion H; subst x. rewrite bos_register_name, Es, Hbo, Er. repeat split; try reflexivity.
    intros rv' Hrv'. discriminate.
Qed.

(* unpacking an accepted pipeline *)
Lemma pipeline_inv rf d em : pipeline_with rf d = Ok (ROk em) ->
  let g := d_config d in
  let d1 := {| d_config := g; d_objects := map_objects (bos_object g) (d_objects d) |} in
  let d2 := {| d_config := g; d_objects := map_objects (replace_reset d1) (d_objects d1) |} in
  (forall x, In x (preorder_objects (d_objects d1)) -> exists r, convert_object d1 x = Ok (ROk r)) /\
  emit d2 = Ok em.
Proof.
  cbn zeta. unfold pipeline_with, bos_pass.
  destruct (first_error _); [discriminate|].
  match goal with |- context [if rf then ?a else None] => destruct (if rf then a else None) end; [discriminate|].
  unfold reset_pass.
  match goal with |- context [first_stop ?l] => destruct (first_stop l) as [[[u|e]|k]|] eqn:Efs end; try discriminate.
  cbn [d_config d_objects].
  match goal with |- context [refs_check ?x] => destruct (refs_check x) end; [discriminate|].
  match goal with |- context [emit ?x] => destruct (emit x) as [em'|k] eqn:Eem end; [|discriminate].
  intros H; inversion H; subst em'. split; [|reflexivity].
  apply first_stop_none. exact Efs.
Qed.

Lemma emit_inv d em : emit d = Ok em ->
  let all := preorder_objects (d_objects d) in
  exists sets accs, mapO (ctor_set_of_object all) all = Ok sets /\
                    mapO (accessor_of (d_objects d)) all = Ok accs /\
                    em_sets em = cat_options sets /\ em_accessors em = cat_options accs.
Proof.
  cbn zeta. unfold emit.
  destruct (mapO (ctor_set_of_object _) _) as [sets|k] eqn:E1; cbn [bind]; [|discriminate].
  destruct (mapO (accessor_of _) _) as [accs|k] eqn:E2; cbn [bind]; [|discriminate].
  intros H; inversion H; subst. exists sets, accs. auto.
Qed.

Lemma ctor_set_of_inv all r cs : ctor_set_of all r = Ok cs ->
  exists ov, mapO ref_ctor (find_refs all (rg_name r)) = Ok ov /\
    cs_name cs = rg_name r /\ cs_size_bits cs = rg_size_bits r /\ cs_size_bytes cs = byte_len (rg_size_bits r) /\
    cs_new_as cs = cat_options ov /\
    match rg_reset r with
    | None => cs_new cs = zeros (byte_len (rg_size_bits r))
    | Some (RArr a) => cs_new cs = a
    | Some (RInt _) => False
    end.
Proof.
  unfold ctor_set_of.
  destruct (mapO ref_ctor _) as [ov|k] eqn:E1; cbn [bind]; [|discriminate].
  destruct (rg_byte_order r); cbn [bind]; [|discriminate].
  destruct (rg_reset r) as [[v|a]|]; cbn [bind]; try discriminate;
    intros H; inversion H; subst; cbn; exists ov; repeat split; reflexivity.
Qed.

Lemma zeros_length n : 0 <= n -> Z.of_nat (List.length (zeros n)) = n.
Proof. intros H. unfold zeros. rewrite repeat_length. lia. Qed.

(* ------------------------------------------------------------------------------------------ *)
(** * Device-level theorems *)

Lemma NoDup_map_inj {A B} (f : A -> B) l a b :
  NoDup (map f l) -> In a l -> In b l -> f a = f b -> a = b.
Proof.
  induction l as [|x t IH]; cbn [map In]; intros Hnd Ha Hb Hf; [destruct Ha|].
  inversion Hnd as [|y l' Hnot Hnd']; subst.
  destruct Ha as [<-|Ha], Hb as [<-|Hb].
  - reflexivity.
  - exfalso. apply Hnot. rewrite Hf. apply in_map. exact Hb.
  - exfalso. apply Hnot. rewrite <- Hf. apply in_map. exact Ha.
  - apply IH; assumption.
Qed.

Section Device.
  Variables (rf : bool) (d : device) (em : emitted).
  Hypothesis Hpipe : pipeline_with rf d = Ok (ROk em).

  Let g := d_config d.
  Let d1 := {| d_config := g; d_objects := map_objects (bos_object g) (d_objects d) |}.
  Let d2 := {| d_config := g; d_objects := map_objects (replace_reset d1) (d_objects d1) |}.
  Let all2 := preorder_objects (d_objects d2).

  Lemma all2_eq : all2 = map (map_object (replace_reset d1)) (map (map_object (bos_object g)) (preorder_objects (d_objects d))).
  Proof.
    unfold all2, d2, d1. cbn [d_objects].
    rewrite preorder_objects_map by apply replace_reset_leafy.
    rewrite preorder_objects_map by apply bos_object_leafy. reflexivity.
  Qed.

  Lemma leaf_image o : is_block o = false -> In o (preorder_objects (d_objects d)) ->
    In (bos_object g o) (preorder_objects (d_objects d1)) /\ In (replace_reset d1 (bos_object g o)) all2.
  Proof.
    intros Hl Hin. split.
    - unfold d1. cbn [d_objects]. rewrite preorder_objects_map by apply bos_object_leafy.
      rewrite <- (map_object_leaf (bos_object g) o Hl). apply in_map. exact Hin.
    - rewrite all2_eq.
      rewrite <- (map_object_leaf (replace_reset d1) (bos_object g o)) by (apply bos_object_leafy; exact Hl).
      rewrite <- (map_object_leaf (bos_object g) o Hl). apply in_map, in_map. exact Hin.
  Qed.

  Lemma search_d2 name base : search_object name (d_objects d) = Some (ORegister base) ->
    search_object name (d_objects d1) = Some (ORegister (bos_register g base)) /\
    search_object name (d_objects d2) = Some (ORegister (reg_image d1 (bos_register g base))).
  Proof.
    intros H.
    assert (H1 : search_object name (d_objects d1) = Some (ORegister (bos_register g base))).
    { unfold d1. cbn [d_objects].
      rewrite search_object_map by (try apply bos_object_leafy; apply bos_object_names).
      rewrite H. reflexivity. }
    split; [exact H1|].
    unfold d2. cbn [d_objects].
    rewrite search_object_map by (try apply replace_reset_leafy; apply replace_reset_names).
    fold d1. rewrite H1. cbn [option_map map_object]. rewrite replace_reset_register. reflexivity.
  Qed.

  (* every register of the definition: new() holds the declared value (array verbatim, integer as LE bytes cut
     and reversed for BE) or zeros; [u8; N] and new_zero() have N = ceil(size/8); its accessor uses new *)
  Theorem register_constructors r :
    In (ORegister r) (preorder_objects (d_objects d)) -> 0 < rg_size_bits r ->
    let bo := effective_byte_order g (rg_byte_order r) in
    (exists cs, In cs (em_sets em) /\ cs_name cs = rg_name r /\ cs_size_bits cs = rg_size_bits r /\
                cs_size_bytes cs = byte_len (rg_size_bits r) /\
                cs_new cs = spec_bytes (rg_reset r) bo (rg_size_bits r) /\
                Z.of_nat (List.length (cs_new cs)) = cs_size_bytes cs) /\
    In {| ac_name := snake (rg_name r); ac_field_set := rg_name r; ac_reset_fn := "new" |} (em_accessors em) /\
    (forall rv, rg_reset r = Some rv ->
       accepted (convert_reset_value rv (rg_bit_order r) (rg_size_bits r) "register" (rg_name r) bo)).
  Proof.
    intros Hin Hs. cbn zeta.
    destruct (pipeline_inv _ _ _ Hpipe) as [Hconv Hemit]. fold g d1 d2 in Hconv, Hemit.
    destruct (emit_inv _ _ Hemit) as [sets [accs [Hsets [Haccs [Es Ea]]]]]. fold all2 in Hsets, Haccs.
    destruct (leaf_image (ORegister r) eq_refl Hin) as [Hin1 Hin2]. cbn [bos_object] in Hin1, Hin2.
    destruct (Hconv _ Hin1) as [x Hx].
    rewrite replace_reset_register in Hin2.
    assert (Hs0 : 0 <= rg_size_bits r) by lia.
    destruct (reg_image_spec g d1 r x eq_refl Hs0 Hx) as [En [Esz [Ebo [Ers Hacc]]]].
    set (r2 := reg_image d1 (bos_register g r)) in *.
    split; [|split].
    - destruct (mapO_in _ _ _ _ Hsets Hin2) as [ocs [Hocs Hino]].
      cbn [ctor_set_of_object] in Hocs. rewrite Esz in Hocs.
      replace (rg_size_bits r =? 0) with false in Hocs by lia.
      destruct (ctor_set_of all2 r2) as [cs|k] eqn:Ecs; cbn [bind] in Hocs; [|discriminate].
      inversion Hocs; subst ocs.
      destruct (ctor_set_of_inv _ _ _ Ecs) as [ov [_ [C1 [C2 [C3 [_ C5]]]]]].
      exists cs. rewrite Es, In_cat_options. split; [exact Hino|].
      rewrite C1, C2, C3, En, Esz. repeat split.
      + rewrite Ers in C5. destruct (rg_reset r) as [rv|]; rewrite ?Esz in C5; exact C5.
      + rewrite Ers in C5. destruct (rg_reset r) as [rv|] eqn:Erv.
        * rewrite C5. assert (H0 : 0 <= rg_size_bits r) by lia.
          destruct (convert_bytes _ _ _ _ _ _ _ H0 (Hacc rv eq_refl)) as [_ Hlen]. exact Hlen.
        * rewrite C5, Esz. apply zeros_length. unfold byte_len. lia.
    - destruct (mapO_in _ _ _ _ Haccs Hin2) as [oa [Hoa Hina]].
      cbn [accessor_of] in Hoa. inversion Hoa; subst oa.
      rewrite Ea, In_cat_options. rewrite En in Hina. exact Hina.
    - intros rv Hrv. eexists. apply Hacc. exact Hrv.
  Qed.

  (* with unique object names (established by names_unique), EVERY constructor set carrying the register's name
     is that one *)
  Theorem register_constructor_unique r cs :
    NoDup (map object_name (preorder_objects (d_objects d))) ->
    In (ORegister r) (preorder_objects (d_objects d)) -> 0 < rg_size_bits r ->
    In cs (em_sets em) -> cs_name cs = rg_name r ->
    cs_new cs = spec_bytes (rg_reset r) (effective_byte_order g (rg_byte_order r)) (rg_size_bits r) /\
    cs_size_bytes cs = byte_len (rg_size_bits r) /\ cs_size_bits cs = rg_size_bits r.
  Proof.
    intros Hnd Hin Hs Hcs Hname.
    destruct (pipeline_inv _ _ _ Hpipe) as [Hconv Hemit]. fold g d1 d2 in Hconv, Hemit.
    destruct (emit_inv _ _ Hemit) as [sets [accs [Hsets [_ [Es _]]]]]. fold all2 in Hsets.
    rewrite Es, In_cat_options in Hcs.
    destruct (mapO_in_rev _ _ _ _ Hsets Hcs) as [o2 [Ho2 Hc2]].
    rewrite all2_eq, map_map in Ho2. apply in_map_iff in Ho2. destruct Ho2 as [o [<- Ho]].
    assert (Hn2 : object_name (map_object (replace_reset d1) (map_object (bos_object g) o)) = object_name o).
    { rewrite object_name_map_object by apply replace_reset_names.
      apply object_name_map_object. apply bos_object_names. }
    destruct (map_object (replace_reset d1) (map_object (bos_object g) o)) as [| rr | | |] eqn:Eo2;
      cbn [ctor_set_of_object] in Hc2; try discriminate.
    destruct (rg_size_bits rr =? 0); [discriminate|].
    destruct (ctor_set_of all2 rr) as [cs'|k] eqn:Ecs; cbn [bind] in Hc2; [|discriminate].
    inversion Hc2; subst cs'.
    destruct (ctor_set_of_inv _ _ _ Ecs) as [ov [_ [C1 [C2 [C3 [_ C5]]]]]].
    cbn [object_name] in Hn2.
    assert (Heq : o = ORegister r).
    { apply (NoDup_map_inj object_name _ _ _ Hnd Ho Hin). cbn [object_name]. congruence. }
    subst o. cbn [map_object bos_object] in Eo2. rewrite replace_reset_register in Eo2.
    inversion Eo2; subst rr.
    destruct (leaf_image (ORegister r) eq_refl Hin) as [Hin1 _]. cbn [bos_object] in Hin1.
    destruct (Hconv _ Hin1) as [x Hx].
    assert (Hs0 : 0 <= rg_size_bits r) by lia.
    destruct (reg_image_spec g d1 r x eq_refl Hs0 Hx) as [En [Esz [Ebo [Ers Hacc]]]].
    rewrite C2, C3, Esz. split; [|split; reflexivity].
    rewrite Ers in C5. destruct (rg_reset r) as [rv|]; rewrite ?Esz in C5; exact C5.
  Qed.

  (* a ref that overrides the reset value: the target's field set gets new_as_<ref>() holding the override's
     converted bytes (converted with the TARGET's size and orders), the ref's accessor hands exactly that
     constructor to RegisterOperation, and the target's own new() still holds the target's own value *)
  Theorem ref_override_own_constructor c name target acc addr aao rv rep base :
    In (ORef c name (OvRegister target acc addr aao (Some rv) rep)) (preorder_objects (d_objects d)) ->
    search_object target (d_objects d) = Some (ORegister base) -> 0 < rg_size_bits base ->
    let bo := effective_byte_order g (rg_byte_order base) in
    let size := rg_size_bits base in
    (exists cs, In cs (em_sets em) /\ cs_name cs = rg_name base /\
                In (new_as_name name, spec_bytes (Some rv) bo size) (cs_new_as cs) /\
                cs_new cs = spec_bytes (rg_reset base) bo size) /\
    In {| ac_name := snake name; ac_field_set := rg_name base; ac_reset_fn := new_as_name name |} (em_accessors em) /\
    accepted (convert_reset_value rv (rg_bit_order base) size "ref register" name bo).
  Proof.
    intros Hin Hsearch Hs. cbn zeta.
    destruct (pipeline_inv _ _ _ Hpipe) as [Hconv Hemit]. fold g d1 d2 in Hconv, Hemit.
    destruct (emit_inv _ _ Hemit) as [sets [accs [Hsets [Haccs [Es Ea]]]]]. fold all2 in Hsets, Haccs.
    destruct (search_object_found _ _ _ Hsearch) as [Hname Hbase_in]. cbn [object_name] in Hname.
    destruct (search_d2 _ _ Hsearch) as [Hs1 Hs2].
    (* the base register *)
    destruct (leaf_image (ORegister base) eq_refl Hbase_in) as [Hb1 Hb2]. cbn [bos_object] in Hb1, Hb2.
    destruct (Hconv _ Hb1) as [xb Hxb].
    rewrite replace_reset_register in Hb2.
    assert (Hs0 : 0 <= rg_size_bits base) by lia.
    destruct (reg_image_spec g d1 base xb eq_refl Hs0 Hxb) as [En [Esz [Ebo [Ers _]]]].
    set (base2 := reg_image d1 (bos_register g base)) in *.
    (* the ref *)
    set (oref := ORef c name (OvRegister target acc addr aao (Some rv) rep)) in *.
    destruct (leaf_image oref eq_refl Hin) as [Hr1 Hr2]. cbn [bos_object oref] in Hr1, Hr2. fold oref in Hr1, Hr2.
    destruct (Hconv _ Hr1) as [xr Hxr].
    assert (Hcv : convert_reset_value rv (rg_bit_order base) (rg_size_bits base) "ref register" name
                    (effective_byte_order g (rg_byte_order base)) =
                  Ok (ROk (spec_bytes (Some rv) (effective_byte_order g (rg_byte_order base)) (rg_size_bits base)))
                  /\ xr = Some (spec_bytes (Some rv) (effective_byte_order g (rg_byte_order base)) (rg_size_bits base))).
    { unfold oref in Hxr. cbn [convert_object] in Hxr. rewrite Hs1 in Hxr. cbn [d_config d1] in Hxr.
      destruct (get_target_byte_order g (bos_register g base)) as [b|k] eqn:Eb; cbn [bind] in Hxr; [|discriminate].
      destruct (bos_target _ _ _ Eb) as [-> _].
      destruct (bos_register_other g base) as [Es' [Ebit' _]]. rewrite Es', Ebit' in Hxr.
      destruct (convert_reset_value rv (rg_bit_order base) (rg_size_bits base) "ref register" name
                                    (effective_byte_order g (rg_byte_order base))) as [[a|e]|k] eqn:Ec;
        cbn [bind] in Hxr; try discriminate.
      assert (H0 : 0 <= rg_size_bits base) by lia.
      destruct (convert_bytes _ _ _ _ _ _ _ H0 Ec) as [-> _]. inversion Hxr; subst xr. auto. }
    destruct Hcv as [Hcv ->].
    set (bytes := spec_bytes (Some rv) (effective_byte_order g (rg_byte_order base)) (rg_size_bits base)) in *.
    assert (Href2 : replace_reset d1 oref = ORef c name (OvRegister target acc addr aao (Some (RArr bytes)) rep)).
    { unfold replace_reset. rewrite Hxr. reflexivity. }
    rewrite Href2 in Hr2.
    split; [|split].
    - destruct (mapO_in _ _ _ _ Hsets Hb2) as [ocs [Hocs Hino]].
      cbn [ctor_set_of_object] in Hocs. rewrite Esz in Hocs.
      replace (rg_size_bits base =? 0) with false in Hocs by lia.
      destruct (ctor_set_of all2 base2) as [cs|k] eqn:Ecs; cbn [bind] in Hocs; [|discriminate].
      inversion Hocs; subst ocs.
      destruct (ctor_set_of_inv _ _ _ Ecs) as [ov [Hov [C1 [_ [_ [C4 C5]]]]]].
      exists cs. rewrite Es, In_cat_options. split; [exact Hino|].
      rewrite C1, En. split; [reflexivity|]. split.
      + rewrite C4, In_cat_options.
        assert (Hfr : In (ORef c name (OvRegister target acc addr aao (Some (RArr bytes)) rep))
                         (find_refs all2 (rg_name base2))).
        { unfold find_refs. apply filter_In. split; [exact Hr2|].
          cbn [refers_to override_target]. rewrite En, Hname. apply String.eqb_refl. }
        destruct (mapO_in _ _ _ _ Hov Hfr) as [b [Hb Hinb]].
        cbn [ref_ctor] in Hb. inversion Hb; subst b. exact Hinb.
      + rewrite Ers in C5. destruct (rg_reset base) as [rv0|]; rewrite ?Esz in C5; exact C5.
    - destruct (mapO_in _ _ _ _ Haccs Hr2) as [oa [Hoa Hina]].
      cbn [accessor_of] in Hoa. rewrite Hs2 in Hoa. inversion Hoa; subst oa.
      rewrite Ea, In_cat_options. fold base2 in Hina. rewrite En in Hina. exact Hina.
    - eexists. exact Hcv.
  Qed.

  (* a ref without a reset override uses the target's new() *)
  Theorem ref_without_override_uses_new c name target acc addr aao rep base :
    In (ORef c name (OvRegister target acc addr aao None rep)) (preorder_objects (d_objects d)) ->
    search_object target (d_objects d) = Some (ORegister base) ->
    In {| ac_name := snake name; ac_field_set := rg_name base; ac_reset_fn := "new" |} (em_accessors em).
  Proof.
    intros Hin Hsearch.
    destruct (pipeline_inv _ _ _ Hpipe) as [Hconv Hemit]. fold g d1 d2 in Hconv, Hemit.
    destruct (emit_inv _ _ Hemit) as [sets [accs [Hsets [Haccs [Es Ea]]]]]. fold all2 in Hsets, Haccs.
    destruct (search_d2 _ _ Hsearch) as [Hs1 Hs2].
    set (oref := ORef c name (OvRegister target acc addr aao None rep)) in *.
    destruct (leaf_image oref eq_refl Hin) as [Hr1 Hr2]. cbn [bos_object oref] in Hr1, Hr2. fold oref in Hr1, Hr2.
    assert (Href2 : replace_reset d1 oref = oref) by reflexivity.
    rewrite Href2 in Hr2.
    destruct (mapO_in _ _ _ _ Haccs Hr2) as [oa [Hoa Hina]].
    unfold oref in Hoa. cbn [accessor_of] in Hoa. rewrite Hs2 in Hoa. inversion Hoa; subst oa.
    rewrite Ea, In_cat_options.
    assert (En : rg_name (reg_image d1 (bos_register g base)) = rg_name base).
    { unfold reg_image. destruct (convert_object d1 (ORegister (bos_register g base))) as [[[a|]|e]|k];
        cbn [with_reset rg_name]; apply bos_register_name. }
    rewrite En in Hina. exact Hina.
  Qed.
End Device.

(* a definition holding a register whose declared reset value the property wants rejected is not accepted
   (and so is a ref override, by the last conjunct of ref_override_own_constructor) *)
Corollary device_rejects_bad_reset rf d r rv :
  In (ORegister r) (preorder_objects (d_objects d)) -> rg_reset r = Some rv ->
  1 <= rg_size_bits r <= 128 -> rv_wf rv ->
  spec_reject rv (effective_byte_order (d_config d) (rg_byte_order r)) (rg_bit_order r) (rg_size_bits r) ->
  forall em, pipeline_with rf d <> Ok (ROk em).
Proof.
  intros Hin Hrv Hs Hwf Hrej em Hpipe.
  destruct (register_constructors rf d em Hpipe r Hin ltac:(lia)) as [_ [_ Hacc]].
  specialize (Hacc rv Hrv).
  destruct (convert_accept_iff rv (rg_bit_order r) (rg_size_bits r) "register" (rg_name r)
              (effective_byte_order (d_config d) (rg_byte_order r)) Hs Hwf) as [[Ha _] _].
  exact (Ha Hacc Hrej).
Qed.
