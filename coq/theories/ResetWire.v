(* ResetWire.v — composition of the register protocol (Proto.v, C05) with the reset-value emission
   (Reset.v, C08): the bytes `write(|_| ())` puts on the wire are the declared reset value; a ref that
   overrides the reset value sends its own while the target keeps its own value. *)
From Coq Require Import ZArith List Bool String Lia.
From DD Require Import Common Mir GenErr Layout Reset ResetProofs.
From DD Require Proto ProtoProofs.
Import ListNotations.
Open Scope Z_scope.

(* the closure `|_| ()` : leaves the register untouched *)
Definition id_closure : Proto.closure unit := fun b => (b, tt).

Lemma call_id_closure b : Proto.call_closure id_closure b = (b, tt).
Proof. unfold Proto.call_closure, id_closure. rewrite ProtoProofs.overlay_same_length by reflexivity. reflexivity. Qed.

Lemma nbytes_byte_len sz (l : list Z) : Z.of_nat (List.length l) = byte_len sz -> List.length l = Proto.nbytes sz.
Proof. unfold byte_len, Proto.nbytes. intros H. rewrite <- H. rewrite Nat2Z.id. reflexivity. Qed.

(* the interface call performed by `accessor.write(|_| ())` when the accessor's constructor yields [ctor] *)
Theorem write_noop_sends_constructor_bytes orc h a sz ctor :
  Z.of_nat (List.length ctor) = byte_len sz ->
  exists r, Proto.run orc (Proto.reg_write a sz ctor id_closure) h =
            ([(Proto.RegWrite a sz ctor, r)],
             Proto.Done (match Proto.r_res r with Proto.ROk _ => Proto.ROk tt | Proto.RErr e => Proto.RErr e end)).
Proof.
  intros Hlen. apply nbytes_byte_len in Hlen.
  destruct (ProtoProofs.reg_write_spec unit orc h a sz ctor id_closure Hlen) as [_ Hrun].
  rewrite call_id_closure in Hrun. cbn [fst snd] in Hrun. eexists. exact Hrun.
Qed.

(* a declared register: its accessor uses `new`, whose bytes are the declared reset value, and
   write(|_| ()) sends exactly those ceil(size/8) bytes with the declared size, once *)
Theorem register_write_sends_reset rf d em r orc h a :
  pipeline_with rf d = Ok (GenErr.ROk em) ->
  In (ORegister r) (preorder_objects (d_objects d)) -> 0 < rg_size_bits r ->
  let bo := effective_byte_order (d_config d) (rg_byte_order r) in
  let wire := spec_bytes (rg_reset r) bo (rg_size_bits r) in
  exists cs resp,
    In cs (em_sets em) /\ cs_name cs = rg_name r /\ cs_new cs = wire /\
    In {| ac_name := snake (rg_name r); ac_field_set := rg_name r; ac_reset_fn := "new" |} (em_accessors em) /\
    Proto.run orc (Proto.reg_write a (rg_size_bits r) (cs_new cs) id_closure) h =
      ([(Proto.RegWrite a (rg_size_bits r) wire, resp)],
       Proto.Done (match Proto.r_res resp with Proto.ROk _ => Proto.ROk tt | Proto.RErr e => Proto.RErr e end)).
Proof.
  intros Hp Hin Hsz bo wire.
  destruct (register_constructors rf d em Hp r Hin Hsz) as ((cs & Hcs & Hn & Hsb & Hby & Hnew & Hlen) & Hacc & _).
  assert (Hl : Z.of_nat (List.length (cs_new cs)) = byte_len (rg_size_bits r)) by (rewrite Hlen, Hby; reflexivity).
  destruct (write_noop_sends_constructor_bytes orc h a (rg_size_bits r) (cs_new cs) Hl) as [resp Hrun].
  exists cs, resp. repeat split; try assumption.
  fold bo in Hnew. subst wire. rewrite <- Hnew. exact Hrun.
Qed.

(* a register ref that overrides the reset value: its accessor uses `new_as_<ref>`, whose bytes are the
   OVERRIDE's value, write(|_| ()) sends those — and the target's `new()` keeps the target's own value *)
Theorem ref_write_sends_override rf d em c name target acc addr aao rv rep base orc h a :
  pipeline_with rf d = Ok (GenErr.ROk em) ->
  In (ORef c name (OvRegister target acc addr aao (Some rv) rep)) (preorder_objects (d_objects d)) ->
  search_object target (d_objects d) = Some (ORegister base) -> 0 < rg_size_bits base ->
  let bo := effective_byte_order (d_config d) (rg_byte_order base) in
  let size := rg_size_bits base in
  let wire := spec_bytes (Some rv) bo size in
  exists cs resp,
    In cs (em_sets em) /\ cs_name cs = rg_name base /\
    In (new_as_name name, wire) (cs_new_as cs) /\
    cs_new cs = spec_bytes (rg_reset base) bo size /\
    In {| ac_name := snake name; ac_field_set := rg_name base; ac_reset_fn := new_as_name name |} (em_accessors em) /\
    Proto.run orc (Proto.reg_write a size wire id_closure) h =
      ([(Proto.RegWrite a size wire, resp)],
       Proto.Done (match Proto.r_res resp with Proto.ROk _ => Proto.ROk tt | Proto.RErr e => Proto.RErr e end)).
Proof.
  intros Hp Hin Hs Hsz bo size wire.
  destruct (ref_override_own_constructor rf d em Hp c name target acc addr aao rv rep base Hin Hs Hsz)
    as ((cs & Hcs & Hn & Hna & Hnew) & Hacc & (out & Hconv)).
  destruct (convert_bytes rv (rg_bit_order base) (rg_size_bits base) "ref register"%string name
              (effective_byte_order (d_config d) (rg_byte_order base)) out ltac:(lia) Hconv) as [Hout Hlen].
  assert (Hl : Z.of_nat (List.length wire) = byte_len size) by (subst wire bo size; rewrite <- Hout; exact Hlen).
  destruct (write_noop_sends_constructor_bytes orc h a size wire Hl) as [resp Hrun].
  exists cs, resp. repeat split; assumption.
Qed.
