(* RawBridge.v — ties the enum model's `raw_of_pattern` (what C07 assumes a field getter hands to the
   conversion) to the model of the bit operations: the value `load` returns for a field of width w through
   the carrier the generator chooses (width carrier_bits w, signed iff the base type is `int`) is
   `raw_of_pattern base w p` for the bit pattern p = spec_load of the field, and 0 <= p < 2^w.
   So the hypothesis `0 <= p < 2 ^ field_width f` of C07_infallible_getter_total covers every buffer. *)
From Coq Require Import ZArith List Bool Lia ZifyBool.
From DD Require Import Common Carrier Bits BitsSpec BitsProofs BitsRoundtrip Mir Enum.
Import ListNotations.
Open Scope Z_scope.

Lemma wrap_signed_small t x : 0 < bits t -> 0 <= x < 2 ^ (bits t - 1) -> wrap t x = x.
Proof.
  intros Hb Hx. unfold wrap.
  assert (2 ^ bits t = 2 * 2 ^ (bits t - 1)) as Hp
    by (replace (bits t) with (Z.succ (bits t - 1)) at 1 by lia; apply Z.pow_succ_r; lia).
  rewrite Z.mod_small by lia.
  destruct (Z.leb_spec (2 ^ (bits t - 1)) x); [lia|]. rewrite andb_false_r. reflexivity.
Qed.

Theorem loaded_raw_is_pattern ptrw bo bito c data s e (b : base_type) :
  guard ptrw c data s e ->
  bits (cty_ity ptrw c) = carrier_bits (e - s) ->
  signed (cty_ity ptrw c) = (match b with BInt => true | _ => false end) ->
  let p := spec_load bo bito data s e in
  0 <= p < 2 ^ (e - s) /\
  load ptrw bo bito c data s e = Some (Ok (raw_of_pattern b (e - s) p)).
Proof.
  intros (Hp & Hc & Hd & Hs & Hse & He & Hw) Hbits Hsg p.
  pose proof (spec_load_range bo bito data s e ltac:(lia)) as Hr. fold p in Hr.
  split; [exact Hr|].
  rewrite load_layout by assumption. fold p. do 2 f_equal.
  assert (Hpw : 2 ^ (e - s) <= 2 ^ bits (cty_ity ptrw c)) by (apply pow2_le; lia).
  unfold raw_of_pattern.
  destruct b; try (apply wrap_unsigned_small; [assumption|lia]).
  (* BInt *)
  rewrite <- Hbits.
  destruct (Z.eqb_spec (e - s) (bits (cty_ity ptrw c))) as [Heq|Hne].
  - destruct (cty_ity ptrw c) as [sg bt]. cbn [signed bits] in *. subst sg bt. rewrite <- Heq. reflexivity.
  - apply wrap_signed_small; [lia|].
    assert (2 ^ (e - s) <= 2 ^ (bits (cty_ity ptrw c) - 1)) by (apply pow2_le; lia). lia.
Qed.
