(* LayoutProofs.v — the layout passes accept exactly the well-formed layouts (C11). *)
From Coq Require Import ZArith List Bool String Lia ZifyBool.
From DD Require Import Common Mir GenErr Layout.
Import ListNotations.
Open Scope Z_scope.

(* ---------- generic facts about first_error / mapM ---------- *)

Lemma first_error_none {A} (f : A -> option gen_error) l :
  first_error (map f l) = None <-> Forall (fun x => f x = None) l.
Proof.
  induction l as [|a t IH]; cbn.
  - split; auto.
  - destruct (f a) eqn:E.
    + split; [discriminate|]. intros H. inversion H; subst. congruence.
    + rewrite IH. split; intros H; [constructor; auto|inversion H; auto].
Qed.

Lemma first_error_some_in {A} (f : A -> option gen_error) l e :
  first_error (map f l) = Some e -> exists x, In x l /\ f x = Some e.
Proof.
  induction l as [|a t IH]; cbn; [discriminate|].
  destruct (f a) eqn:E.
  - intros H; inversion H; subst. exists a; auto.
  - intros H. destruct (IH H) as (x & Hin & Hx). exists x; auto.
Qed.

Lemma mapM_ok {A B} (f : A -> result B) l l' :
  mapM f l = ROk l' <-> Forall2 (fun a b => f a = ROk b) l l'.
Proof.
  revert l'; induction l as [|a t IH]; intros l'; cbn.
  - split; intros H; [inversion H; constructor|inversion H; reflexivity].
  - destruct (f a) eqn:E; cbn.
    + destruct (mapM f t) eqn:E2; cbn.
      * split; intros H.
        -- inversion H; subst. constructor; [assumption|]. apply IH. reflexivity.
        -- inversion H; subst. rewrite E in H2. inversion H2; subst.
           apply IH in H4. inversion H4; subst. reflexivity.
      * split; [discriminate|]. intros H. inversion H; subst. apply IH in H4. discriminate.
    + split; [discriminate|]. intros H. inversion H; subst. congruence.
Qed.

Lemma mapM_err_in {A B} (f : A -> result B) l e :
  mapM f l = RErr e -> exists x, In x l /\ f x = RErr e.
Proof.
  induction l as [|a t IH]; cbn; [discriminate|].
  destruct (f a) eqn:E; cbn.
  - destruct (mapM f t) eqn:E2; cbn; [discriminate|].
    intros H; inversion H; subst. destruct (IH eq_refl) as (x & Hin & Hx). exists x; auto.
  - intros H; inversion H; subst. exists a; auto.
Qed.

Lemma mapM_total {A B} (f : A -> result B) l :
  (forall x, In x l -> exists y, f x = ROk y) -> exists l', mapM f l = ROk l'.
Proof.
  induction l as [|a t IH]; intros H; cbn; [eexists; reflexivity|].
  destruct (H a (or_introl eq_refl)) as [y Hy]. rewrite Hy. cbn.
  destruct IH as [l' Hl']; [intros x Hx; apply H; right; assumption|].
  rewrite Hl'. cbn. eexists; reflexivity.
Qed.

(* ---------- fields ---------- *)

Definition widen (f : field) : field :=
  {| f_cfg := f_cfg f; f_name := f_name f; f_access := f_access f; f_base := f_base f;
     f_conv := f_conv f; f_start := f_start f; f_end := field_end f |}.

Definition bool_ok (f : field) : Prop :=
  f_base f = BBool -> field_end f - f_start f = 1 /\ f_conv f = None.

Lemma is_bool_true b : is_bool b = true <-> b = BBool.
Proof. destruct b; cbn; split; congruence. Qed.

Lemma bool_field_spec obj f :
  (bool_ok f -> bool_field obj f = ROk (widen f)) /\
  (forall f', bool_field obj f = ROk f' -> bool_ok f /\ f' = widen f).
Proof.
  unfold bool_field, bool_ok, widen, field_end, range_count.
  destruct f as [c n a b cv s e]; cbn.
  destruct b; cbn.
  - (* bool *)
    destruct (Z.eqb_spec s e) as [->|Hne]; cbn.
    + destruct (e <? e + 1) eqn:E1; [|lia]. replace (e + 1 - e =? 1) with true by lia. cbn.
      destruct cv as [cv|]; cbn.
      * split; [intros H; destruct (H eq_refl) as [_ H2]; discriminate|discriminate].
      * split; [reflexivity|]. intros f' H; inversion H; subst. split; [|reflexivity]. intros _. split; [lia|reflexivity].
    + destruct (s <? e) eqn:E1.
      * destruct (Z.eqb_spec (e - s) 1) as [E2|E2]; cbn.
        -- destruct cv as [cv|]; cbn.
           ++ split; [intros H; destruct (H eq_refl) as [_ H2]; discriminate|discriminate].
           ++ split; [reflexivity|]. intros f' H; inversion H; subst. split; [|reflexivity]. intros _. split; [lia|reflexivity].
        -- split; [intros H; destruct (H eq_refl) as [H1 _]; lia|discriminate].
      * cbn. split; [intros H; destruct (H eq_refl) as [H1 _]; lia|discriminate].
  - split; [reflexivity|]. intros f' H; inversion H; subst. split; [discriminate|reflexivity].
  - split; [reflexivity|]. intros f' H; inversion H; subst. split; [discriminate|reflexivity].
Qed.

Lemma bool_fields_spec obj fs :
  (Forall bool_ok fs -> mapM (bool_field obj) fs = ROk (map widen fs)) /\
  (forall fs', mapM (bool_field obj) fs = ROk fs' -> Forall bool_ok fs /\ fs' = map widen fs).
Proof.
  split.
  - intros H. apply mapM_ok. induction H as [|f t Hf Ht IH]; cbn; constructor; [|assumption].
    apply bool_field_spec. assumption.
  - intros fs' H. apply mapM_ok in H. induction H as [|f f' t t' Hf Ht IH]; cbn; [split; constructor|].
    destruct (proj2 (bool_field_spec obj f) _ Hf) as [Hb ->]. destruct IH as [IH1 ->].
    split; [constructor; assumption|reflexivity].
Qed.

Definition len_ok (size : Z) (f : field) : Prop := f_end f <= size /\ f_start f < f_end f.

Lemma validate_len_spec fs size obj :
  validate_len fs size obj = None <-> Forall (len_ok size) fs.
Proof.
  induction fs as [|f t IH]; cbn; [split; auto|].
  unfold range_count.
  destruct (f_end f <=? size) eqn:E1; cbn.
  - destruct (f_start f <? f_end f) eqn:E2; cbn.
    + replace (0 <? f_end f - f_start f) with true by lia. cbn.
      rewrite IH. split; intros H; [constructor; [unfold len_ok; lia|assumption]|inversion H; assumption].
    + cbn. split; [discriminate|]. intros H; inversion H; subst. unfold len_ok in *. lia.
  - split; [discriminate|]. intros H; inversion H; subst. unfold len_ok in *. lia.
Qed.

Definition raw_disjoint (f g : field) : Prop := ~ (f_start f < f_end g /\ f_start g < f_end f).

Lemma overlap_with_spec f rest obj :
  overlap_with f rest obj = None <-> Forall (raw_disjoint f) rest.
Proof.
  induction rest as [|g t IH]; cbn; [split; auto|].
  unfold ranges_overlap.
  destruct ((f_start f <? f_end g) && (f_start g <? f_end f)) eqn:E.
  - split; [discriminate|]. intros H; inversion H; subst. unfold raw_disjoint in *. lia.
  - rewrite IH. split; intros H; [constructor; [unfold raw_disjoint; lia|assumption]|inversion H; assumption].
Qed.

Lemma validate_overlap_spec fs obj :
  validate_overlap fs obj = None <-> pairwise raw_disjoint fs.
Proof.
  induction fs as [|f t IH]; cbn; [split; auto|].
  destruct (overlap_with f t obj) eqn:E.
  - split; [discriminate|]. intros [H _]. apply (proj2 (overlap_with_spec f t obj)) in H. congruence.
  - rewrite IH. apply (proj1 (overlap_with_spec f t obj)) in E. tauto.
Qed.

Lemma pairwise_map_widen fs :
  pairwise raw_disjoint (map widen fs) <-> pairwise fields_disjoint fs.
Proof.
  induction fs as [|f t IH]; cbn; [tauto|].
  rewrite IH. rewrite Forall_map.
  assert (Forall (fun x => raw_disjoint (widen f) (widen x)) t <-> Forall (fields_disjoint f) t) as ->; [|tauto].
  split; intros H; (eapply Forall_impl; [|exact H]); intros g; unfold raw_disjoint, fields_disjoint, widen; cbn; tauto.
Qed.

Lemma validate_set_spec fs size allow obj :
  Forall bool_ok fs ->
  (validate_set (map widen fs) size allow obj = None <-> set_ok fs size allow).
Proof.
  intros Hb. unfold validate_set, set_ok.
  destruct (validate_len (map widen fs) size obj) eqn:E.
  - split; [discriminate|]. intros [H _].
    assert (Forall (len_ok size) (map widen fs)) as H2.
    { rewrite Forall_map. eapply Forall_impl; [|exact H]. intros f [H1 [H2 _]]. unfold len_ok, widen; cbn. lia. }
    apply validate_len_spec with (obj := obj) in H2. congruence.
  - apply validate_len_spec in E. rewrite Forall_map in E.
    assert (Forall (field_ok size) fs) as Hok.
    { rewrite Forall_forall in *. intros f Hin. specialize (E f Hin). specialize (Hb f Hin).
      unfold len_ok, widen in E; cbn in E. unfold field_ok. repeat split; try lia. all: apply Hb; assumption. }
    destruct allow.
    + split; [intros _; split; [assumption|discriminate]|reflexivity].
    + rewrite validate_overlap_spec, pairwise_map_widen. split; [intros H; split; auto|intros [_ H]; auto].
Qed.

Lemma set_ok_bool_ok fs size allow : set_ok fs size allow -> Forall bool_ok fs.
Proof. intros [H _]. eapply Forall_impl; [|exact H]. intros f [_ [_ Hb]]. exact Hb. Qed.

(* ---------- per-object ---------- *)

Definition object_bool_ok (o : object) : Prop :=
  match o with
  | ORegister r => Forall bool_ok (rg_fields r)
  | OCommand c => Forall bool_ok (cm_in_fields c) /\ Forall bool_ok (cm_out_fields c)
  | _ => True
  end.

Definition object_sets_ok (o : object) : Prop :=
  match o with
  | ORegister r => set_ok (rg_fields r) (rg_size_bits r) (rg_allow_bit_overlap r)
  | OCommand c => set_ok (cm_in_fields c) (cm_size_in c) (cm_allow_bit_overlap c) /\
                  set_ok (cm_out_fields c) (cm_size_out c) (cm_allow_bit_overlap c)
  | _ => True
  end.

Definition object_bo_ok (g : config) (o : object) : Prop :=
  match o with
  | ORegister r => byte_order_known g (rg_byte_order r) [rg_size_bits r]
  | OCommand c => byte_order_known g (cm_byte_order c) [cm_size_in c; cm_size_out c]
  | _ => True
  end.

Lemma object_layout_split g o : object_layout_ok g o <-> object_sets_ok o /\ object_bo_ok g o.
Proof. destruct o; cbn; tauto. Qed.

Lemma byte_order_check_spec g o : byte_order_check g o = None <-> object_bo_ok g o.
Proof.
  unfold byte_order_check, object_bo_ok, byte_order_known.
  destruct (g_default_byte_order g) as [b|] eqn:Eg.
  - destruct o; split; auto; intros _ _ H; discriminate.
  - destruct o as [| r | c | |]; try tauto.
    + destruct (rg_byte_order r); [split; auto; intros _ H; discriminate|].
      destruct (8 <? rg_size_bits r) eqn:E.
      * split; [discriminate|]. intros H. specialize (H eq_refl eq_refl). inversion H; subst. lia.
      * split; auto. intros _ _ _. constructor; [lia|constructor].
    + destruct (cm_byte_order c); [split; auto; intros _ H; discriminate|].
      destruct ((8 <? cm_size_in c) || (8 <? cm_size_out c)) eqn:E.
      * split; [discriminate|]. intros H. specialize (H eq_refl eq_refl).
        inversion H as [|? ? H1 H2]; subst. inversion H2; subst. lia.
      * split; auto. intros _ _ _. repeat constructor; lia.
Qed.

Definition widen_object (o : object) : object :=
  match o with
  | ORegister r =>
    ORegister {| rg_cfg := rg_cfg r; rg_name := rg_name r; rg_access := rg_access r;
                 rg_byte_order := rg_byte_order r; rg_bit_order := rg_bit_order r;
                 rg_allow_bit_overlap := rg_allow_bit_overlap r;
                 rg_allow_address_overlap := rg_allow_address_overlap r;
                 rg_address := rg_address r; rg_size_bits := rg_size_bits r; rg_reset := rg_reset r;
                 rg_repeat := rg_repeat r; rg_fields := map widen (rg_fields r) |}
  | OCommand c =>
    OCommand {| cm_cfg := cm_cfg c; cm_name := cm_name c; cm_address := cm_address c;
                cm_byte_order := cm_byte_order c; cm_bit_order := cm_bit_order c;
                cm_allow_bit_overlap := cm_allow_bit_overlap c;
                cm_allow_address_overlap := cm_allow_address_overlap c;
                cm_size_in := cm_size_in c; cm_size_out := cm_size_out c; cm_repeat := cm_repeat c;
                cm_in_fields := map widen (cm_in_fields c); cm_out_fields := map widen (cm_out_fields c) |}
  | _ => o
  end.

Lemma bool_fields_object_spec o :
  (object_bool_ok o -> bool_fields_object o = ROk (widen_object o)) /\
  (forall o', bool_fields_object o = ROk o' -> object_bool_ok o /\ o' = widen_object o).
Proof.
  destruct o as [| r | c | |]; cbn; try (split; [reflexivity|intros o' H; inversion H; auto]).
  - destruct (bool_fields_spec (rg_name r) (rg_fields r)) as [H1 H2]. split.
    + intros H. rewrite (H1 H). reflexivity.
    + intros o'. destruct (mapM (bool_field (rg_name r)) (rg_fields r)) as [fs|] eqn:E; cbn; [|discriminate].
      intros H; inversion H; subst. destruct (H2 _ eq_refl) as [Hb ->]. auto.
  - destruct (bool_fields_spec (cm_name c) (cm_in_fields c)) as [H1 H2].
    destruct (bool_fields_spec (cm_name c) (cm_out_fields c)) as [H3 H4]. split.
    + intros [Ha Hb]. rewrite (H1 Ha). cbn. rewrite (H3 Hb). reflexivity.
    + intros o'. destruct (mapM (bool_field (cm_name c)) (cm_in_fields c)) as [fi|] eqn:E; cbn; [|discriminate].
      destruct (mapM (bool_field (cm_name c)) (cm_out_fields c)) as [fo|] eqn:E2; cbn; [|discriminate].
      intros H; inversion H; subst. destruct (H2 _ eq_refl) as [Hb ->]. destruct (H4 _ eq_refl) as [Hb' ->]. auto.
Qed.

Lemma bit_ranges_object_spec o : object_bool_ok o ->
  (bit_ranges_object (widen_object o) = None <-> object_sets_ok o).
Proof.
  destruct o as [| r | c | |]; cbn; try tauto.
  - intros Hb. apply validate_set_spec. assumption.
  - intros [Ha Hb].
    pose proof (validate_set_spec (cm_in_fields c) (cm_size_in c) (cm_allow_bit_overlap c) (cm_name c ++ " (in)") Ha) as Hi.
    pose proof (validate_set_spec (cm_out_fields c) (cm_size_out c) (cm_allow_bit_overlap c) (cm_name c ++ " (out)") Hb) as Ho.
    destruct (validate_set (map widen (cm_in_fields c)) (cm_size_in c) (cm_allow_bit_overlap c) (cm_name c ++ " (in)")).
    + split; [discriminate|]. intros [H _]. apply Hi in H. discriminate.
    + rewrite Ho. split; [intros H; split; [apply Hi; reflexivity|exact H]|tauto].
Qed.

Lemma object_sets_ok_bool_ok o : object_sets_ok o -> object_bool_ok o.
Proof.
  destruct o; cbn; auto.
  - apply set_ok_bool_ok.
  - intros [A B]. split; eapply set_ok_bool_ok; eassumption.
Qed.

(* ---------- the main theorem ---------- *)

Theorem layout_accept_iff_wf d : layout_check d = None <-> wf_layout d.
Proof.
  unfold layout_check, wf_layout.
  set (objs := preorder_objects (d_objects d)). set (g := d_config d).
  assert (Forall (object_layout_ok g) objs <->
          Forall (object_bo_ok g) objs /\ Forall object_sets_ok objs) as ->.
  { rewrite !Forall_forall. split.
    - intros H. split; intros o Hin; apply (object_layout_split g o); auto.
    - intros [H1 H2] o Hin. apply object_layout_split. auto. }
  destruct (first_error (map (byte_order_check g) objs)) eqn:E1.
  - split; [discriminate|]. intros [H _].
    assert (first_error (map (byte_order_check g) objs) = None) as H2.
    { apply first_error_none. eapply Forall_impl; [|exact H]. intros o. apply byte_order_check_spec. }
    congruence.
  - apply first_error_none in E1.
    assert (Forall (object_bo_ok g) objs) as Hbo.
    { eapply Forall_impl; [|exact E1]. intros o. apply byte_order_check_spec. }
    destruct (mapM bool_fields_object objs) as [objs'|e] eqn:E2.
    + apply mapM_ok in E2.
      assert (Forall object_bool_ok objs /\ objs' = map widen_object objs) as [Hb ->].
      { clear -E2. induction E2 as [|o o' t t' Ho Ht IH]; cbn; [split; constructor|].
        destruct (proj2 (bool_fields_object_spec o) _ Ho) as [H1 ->]. destruct IH as [IH1 ->].
        split; [constructor; assumption|reflexivity]. }
      rewrite map_map. rewrite first_error_none.
      split.
      * intros H. split; [assumption|]. rewrite Forall_forall in *. intros o Hin.
        apply bit_ranges_object_spec; auto.
      * intros [_ H]. rewrite Forall_forall in *. intros o Hin. apply bit_ranges_object_spec; auto.
    + split; [discriminate|]. intros [_ H]. exfalso.
      destruct (mapM_total bool_fields_object objs) as [l' Hl'].
      { intros o Hin. exists (widen_object o). apply bool_fields_object_spec.
        apply object_sets_ok_bool_ok. rewrite Forall_forall in H. auto. }
      congruence.
Qed.

(* ---------- an error names an object of the tree (with (in)/(out) for commands) ---------- *)

Definition error_subject_of (o : object) (s : string) : Prop :=
  match o with
  | ORegister r => s = rg_name r
  | OCommand c => s = cm_name c \/ s = (cm_name c ++ " (in)")%string \/ s = (cm_name c ++ " (out)")%string
  | _ => False
  end.

Lemma validate_len_subject fs size obj e : validate_len fs size obj = Some e -> nth 0 (e_args e) ""%string = obj.
Proof.
  induction fs as [|f t IH]; cbn; [discriminate|].
  destruct (negb (f_end f <=? size)); [intros H; inversion H; reflexivity|].
  destruct (negb (0 <? range_count (f_start f) (f_end f))); [intros H; inversion H; reflexivity|]. exact IH.
Qed.

Lemma overlap_with_subject f rest obj e : overlap_with f rest obj = Some e -> nth 0 (e_args e) ""%string = obj.
Proof.
  induction rest as [|g t IH]; cbn; [discriminate|].
  destruct (ranges_overlap f g); [intros H; inversion H; reflexivity|exact IH].
Qed.

Lemma validate_overlap_subject fs obj e : validate_overlap fs obj = Some e -> nth 0 (e_args e) ""%string = obj.
Proof.
  induction fs as [|f t IH]; cbn; [discriminate|].
  destruct (overlap_with f t obj) eqn:E; [intros H; inversion H; subst; eapply overlap_with_subject; eassumption|exact IH].
Qed.

Lemma validate_set_subject fs size allow obj e : validate_set fs size allow obj = Some e -> nth 0 (e_args e) ""%string = obj.
Proof.
  unfold validate_set. destruct (validate_len fs size obj) eqn:E.
  - intros H; inversion H; subst. eapply validate_len_subject; eassumption.
  - destruct allow; [discriminate|apply validate_overlap_subject].
Qed.

Lemma mapM_bool_subject obj fs e : mapM (bool_field obj) fs = RErr e -> nth 0 (e_args e) ""%string = obj.
Proof.
  intros H. apply mapM_err_in in H. destruct H as (f & _ & Hf).
  unfold bool_field in Hf. destruct (is_bool (f_base f)); [|discriminate].
  match type of Hf with (if ?c then _ else _) = _ => destruct c end; [inversion Hf; reflexivity|].
  match type of Hf with match ?c with _ => _ end = _ => destruct c end; [inversion Hf; reflexivity|discriminate].
Qed.

Theorem layout_error_names_object d e :
  layout_check d = Some e ->
  exists o, In o (preorder_objects (d_objects d)) /\
    (error_subject_of o (nth 0 (e_args e) ""%string) \/
     (e_kind e = "byte_order"%string /\ error_subject_of o (nth 1 (e_args e) ""%string))).
Proof.
  unfold layout_check. set (objs := preorder_objects (d_objects d)).
  destruct (first_error (map (byte_order_check (d_config d)) objs)) eqn:E1.
  - intros H; inversion H; subst. apply first_error_some_in in E1. destruct E1 as (o & Hin & Ho).
    exists o. split; [assumption|]. right.
    unfold byte_order_check in Ho. destruct (g_default_byte_order (d_config d)); [discriminate|].
    destruct o as [| r | c | |]; try discriminate.
    + destruct (rg_byte_order r); [discriminate|]. destruct (8 <? rg_size_bits r); [|discriminate].
      inversion Ho; subst. cbn. auto.
    + destruct (cm_byte_order c); [discriminate|]. destruct ((8 <? cm_size_in c) || (8 <? cm_size_out c)); [|discriminate].
      inversion Ho; subst. cbn. auto.
  - destruct (mapM bool_fields_object objs) as [objs'|e'] eqn:E2.
    + intros H. apply first_error_some_in in H. destruct H as (o' & Hin' & Ho').
      apply mapM_ok in E2.
      assert (exists o, In o objs /\ bool_fields_object o = ROk o') as (o & Hin & Ho).
      { clear -E2 Hin'. induction E2 as [|a b t t' Hab Ht IH]; [contradiction|].
        destruct Hin' as [<-|Hin']; [exists a; split; [left; reflexivity|assumption]|].
        destruct (IH Hin') as (o & Hi & Hoo). exists o; split; [right; assumption|assumption]. }
      exists o. split; [assumption|]. left.
      destruct (proj2 (bool_fields_object_spec o) _ Ho) as [_ ->].
      destruct o as [| r | c | |]; cbn in Ho'; try discriminate.
      * cbn. eapply validate_set_subject. eassumption.
      * cbn. destruct (validate_set (map widen (cm_in_fields c)) (cm_size_in c) (cm_allow_bit_overlap c) (cm_name c ++ " (in)")) eqn:Ei.
        -- inversion Ho'; subst. right. left. eapply validate_set_subject. eassumption.
        -- right. right. eapply validate_set_subject. eassumption.
    + intros H; inversion H; subst. apply mapM_err_in in E2. destruct E2 as (o & Hin & Ho).
      exists o. split; [assumption|]. left.
      destruct o as [| r | c | |]; cbn in Ho; try discriminate.
      * destruct (mapM (bool_field (rg_name r)) (rg_fields r)) eqn:E; cbn in Ho; [discriminate|].
        inversion Ho; subst. cbn. eapply mapM_bool_subject. eassumption.
      * cbn. left. destruct (mapM (bool_field (cm_name c)) (cm_in_fields c)) eqn:E; cbn in Ho.
        -- destruct (mapM (bool_field (cm_name c)) (cm_out_fields c)) eqn:E3; cbn in Ho; [discriminate|].
           inversion Ho; subst. eapply mapM_bool_subject. eassumption.
        -- inversion Ho; subst. eapply mapM_bool_subject. eassumption.
Qed.
