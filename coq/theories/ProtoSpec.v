(* ProtoSpec.v — vocabulary in which the C05 / C09 / C10 theorems are stated.  Written from the
   property texts (and the embedded-io documentation of write_all / read_exact), not from the
   code.  Definitions only. *)
From Coq Require Import ZArith List Bool.
From DD Require Import Proto.
Import ListNotations.

(* every event of `t` carries the answer that `orc` gives to that call after the history `h`
   followed by the earlier events of `t` *)
Fixpoint answered_by (orc : oracle) (h t : list event) : Prop :=
  match t with
  | [] => True
  | (c, r) :: t' => r = orc h c /\ answered_by orc (h ++ [(c, r)]) t'
  end.

(* Two blocking functions are indistinguishable: same events, same outcome, for every
   interface and history. *)
Definition sync_agrees {R : Type} (p q : prog R) : Prop :=
  forall orc h, run orc p h = run orc q h.

(* An async function behaves like a blocking one under EVERY pattern of suspension: for every
   interface, history and schedule (how often each awaited interface future answers Pending), the
   executor terminates (any fuel above the sum of the schedule is enough), the events and the
   outcome are those of the blocking function, and the future was polled once plus once per
   Pending of the awaits it actually reached. *)
Definition async_agrees {R : Type} (ap : aprog R) (p : prog R) : Prop :=
  forall orc h sched fuel, list_sum sched < fuel ->
    exec orc fuel ap sched h =
    (fst (run orc p h),
     S (list_sum (firstn (length (fst (run orc p h))) sched)),
     snd (run orc p h)).

(* ---------------------------------------------------------------- short transfers *)

(* number of bytes the interface reported for this call (0 for an error) *)
Definition accepted (e : event) : nat :=
  match r_res (snd e) with ROk n => n | RErr _ => 0 end.

(* k, k + n0, k + n0 + n1, ... : the running sum of the reported counts before each call *)
Fixpoint offsets (k : nat) (t : list event) : list nat :=
  match t with
  | [] => []
  | e :: t' => k :: offsets (k + accepted e) t'
  end.

(* the bytes a write call got accepted: the first n of the slice it passed *)
Definition wchunk (e : event) : bytes :=
  match fst e with
  | BufWrite _ d => firstn (accepted e) d
  | _ => []
  end.

(* the bytes a read call delivered: the first n of the slice after the interface stored into it *)
Definition rchunk (e : event) : bytes :=
  match fst e with
  | BufRead _ b => firstn (accepted e) (overlay (r_data (snd e)) b)
  | _ => []
  end.

(* embedded_io::Write::write_all, as documented: "calls write() in a loop until exactly
   buf.len() bytes have been written"; "panics if write() returns Ok(0)"; an error ends it.
   `buf` = the bytes still to be written. *)
Inductive write_all_spec (a : Z) : bytes -> list event -> pout (result unit) -> Prop :=
| WA_done : write_all_spec a [] [] (Done (ROk tt))
| WA_err : forall buf r e, buf <> [] -> r_res r = RErr e ->
    write_all_spec a buf [(BufWrite a buf, r)] (Done (RErr e))
| WA_zero : forall buf r, buf <> [] -> r_res r = ROk 0 ->
    write_all_spec a buf [(BufWrite a buf, r)] (Stopped StopWriteZero)
| WA_over : forall buf r n, buf <> [] -> r_res r = ROk n -> length buf < n ->
    write_all_spec a buf [(BufWrite a buf, r)] (Stopped StopSliceIndex)
| WA_step : forall buf r n t o, buf <> [] -> r_res r = ROk n -> 1 <= n <= length buf ->
    write_all_spec a (skipn n buf) t o ->
    write_all_spec a buf ((BufWrite a buf, r) :: t) o.

(* embedded_io::Read::read_exact: "calls read() in a loop until exactly buf.len() bytes have been
   read"; a read of 0 bytes before that is UnexpectedEof; an error e is Other(e).
   `filled` = the part of the caller's slice already filled, `buf` = the unfilled remainder; the
   outcome carries the caller's whole slice. *)
Inductive read_exact_spec (a : Z) : bytes -> bytes -> list event -> pout (rx_result * bytes) -> Prop :=
| RX_done : forall filled, read_exact_spec a filled [] [] (Done (RxOk, filled))
| RX_eof : forall filled buf r, buf <> [] -> r_res r = ROk 0 ->
    read_exact_spec a filled buf [(BufRead a buf, r)]
      (Done (RxErr RxUnexpectedEof, filled ++ overlay (r_data r) buf))
| RX_err : forall filled buf r e, buf <> [] -> r_res r = RErr e ->
    read_exact_spec a filled buf [(BufRead a buf, r)]
      (Done (RxErr (RxOther e), filled ++ overlay (r_data r) buf))
| RX_over : forall filled buf r n, buf <> [] -> r_res r = ROk n -> length buf < n ->
    read_exact_spec a filled buf [(BufRead a buf, r)] (Stopped StopSliceIndex)
| RX_step : forall filled buf r n t o, buf <> [] -> r_res r = ROk n -> 1 <= n <= length buf ->
    read_exact_spec a (filled ++ firstn n (overlay (r_data r) buf))
                      (skipn n (overlay (r_data r) buf)) t o ->
    read_exact_spec a filled buf ((BufRead a buf, r) :: t) o.

(* the call of the i-th event reads into a slice of the given length *)
Definition reads_len (a : Z) (c : call) (len : nat) : Prop :=
  exists b, c = BufRead a b /\ length b = len.
