(* EnumProofs.v — proofs about the enum analysis (C15) and the emitted conversions (C07). *)
From Coq Require Import ZArith List Bool String Ascii Lia ZifyBool.
From DD Require Import Common Mir GenErr Enum.
Import ListNotations.
Open Scope Z_scope.

(* ================================================================== *)
(* 1. The two numberings                                                *)
(* ================================================================== *)

Definition ev_of (p : Z * variant) : evariant :=
  {| ev_name := v_name (snd p); ev_cfg := v_cfg (snd p); ev_num := fst p;
     ev_default := is_default (snd p); ev_catch_all := is_catch_all (snd p) |}.

Definition next_of (last : option Z) : option Z := match last with Some l => Some (l + 1) | None => None end.

Definition emit_num (next : option Z) (v : variant) : Z :=
  match v_value v with
  | EVSpec z => z
  | _ => match next with Some x => x | None => 0 end
  end.

Lemma emit_from_cons : forall next v t,
  emit_from next (v :: t) =
  {| ev_name := v_name v; ev_cfg := v_cfg v; ev_num := emit_num next v;
     ev_default := is_default v; ev_catch_all := is_catch_all v |} :: emit_from (Some (emit_num next v + 1)) t.
Proof. intros. unfold emit_num. cbn [emit_from]. destruct (v_value v); reflexivity. Qed.

Lemma emit_num_assigned : forall last v, emit_num (next_of last) v = assigned last v.
Proof. intros last v. unfold emit_num, assigned, last_plus_one, next_of. destruct (v_value v), last; reflexivity. Qed.

Lemma emit_from_seen : forall vs last,
  emit_from (next_of last) vs = map ev_of (seen_from last vs).
Proof.
  induction vs as [|v t IH]; intros last; [reflexivity|].
  rewrite emit_from_cons, emit_num_assigned. cbn [seen_from map]. f_equal.
  exact (IH (Some (assigned last v))).
Qed.

Lemma emit_variants_seen : forall vs, emit_variants vs = map ev_of (seen_values vs).
Proof. intros vs. exact (emit_from_seen vs None). Qed.

Lemma mutate_one_props : forall last v,
  let v' := mutate_one (assigned last v, v) in
  v_name v' = v_name v /\ v_cfg v' = v_cfg v /\ is_default v' = is_default v /\
  is_catch_all v' = is_catch_all v /\ assigned last v' = assigned last v.
Proof.
  intros last v. unfold mutate_one, assigned, is_default, is_catch_all. cbn [fst snd].
  destruct (v_value v) eqn:Ev; cbn [set_spec v_name v_cfg v_value]; rewrite ?Ev; repeat split; reflexivity.
Qed.

(* the pass's own rewrite of Unspecified into Specified does not change what the emitter produces *)
Lemma emit_from_mutated : forall vs last,
  emit_from (next_of last) (map mutate_one (seen_from last vs)) = emit_from (next_of last) vs.
Proof.
  induction vs as [|v t IH]; intros last; [reflexivity|].
  cbn [seen_from map]. rewrite !emit_from_cons, !emit_num_assigned.
  destruct (mutate_one_props last v) as (H1 & H2 & H3 & H4 & H5).
  rewrite H1, H2, H3, H4, H5. f_equal. exact (IH (Some (assigned last v))).
Qed.

Lemma emit_variants_mutated : forall vs, emit_variants (mutated vs) = emit_variants vs.
Proof. intros vs. exact (emit_from_mutated vs None). Qed.

Lemma numbers_emit : forall vs, map ev_num (emit_variants vs) = numbers vs.
Proof.
  intros vs. rewrite emit_variants_seen, map_map. unfold numbers. apply map_ext. reflexivity.
Qed.

(* C15_numberings_agree *)
Theorem numberings_agree : forall vs,
  map ev_num (emit_variants vs) = numbers vs /\
  map ev_num (emit_variants (mutated vs)) = numbers vs.
Proof. intros vs. rewrite emit_variants_mutated. split; apply numbers_emit. Qed.

Lemma seen_values_snd : forall vs last, map snd (seen_from last vs) = vs.
Proof. induction vs as [|v t IH]; intros last; cbn; [reflexivity|]. f_equal. apply IH. Qed.

Lemma seen_values_length : forall vs, List.length (seen_values vs) = List.length vs.
Proof. intros vs. rewrite <- (seen_values_snd vs None) at 2. rewrite map_length. reflexivity. Qed.

Lemma numbers_length : forall vs, List.length (numbers vs) = List.length vs.
Proof. intros vs. unfold numbers. rewrite map_length. apply seen_values_length. Qed.

Lemma seen_nth : forall vs i n v,
  nth_error (seen_values vs) i = Some (n, v) <->
  nth_error (numbers vs) i = Some n /\ nth_error vs i = Some v.
Proof.
  intros vs i n v. unfold numbers.
  rewrite <- (seen_values_snd vs None) at 3. fold (seen_values vs).
  rewrite !nth_error_map. destruct (nth_error (seen_values vs) i) as [[n' v']|]; cbn.
  - split; [intros H; inversion H; auto|intros [H1 H2]; inversion H1; inversion H2; reflexivity].
  - split; [discriminate|intros [H _]; discriminate].
Qed.

(* position-by-position characterisation of the pass's numbering *)
Lemma seen_from_nth : forall vs last i v n,
  nth_error vs i = Some v -> nth_error (map fst (seen_from last vs)) i = Some n ->
  match v_value v with
  | EVSpec z => n = z
  | _ => match i with
         | O => n = last_plus_one last
         | S j => exists m, nth_error (map fst (seen_from last vs)) j = Some m /\ n = m + 1
         end
  end.
Proof.
  induction vs as [|v0 t IH]; intros last i v n Hv Hn; [destruct i; discriminate|].
  destruct i as [|j].
  - cbn in Hv, Hn. inversion Hv; subst v0. inversion Hn; subst n.
    unfold assigned. destruct (v_value v); reflexivity.
  - cbn [nth_error seen_from map fst] in Hv, Hn |- *.
    specialize (IH (Some (assigned last v0)) j v n Hv Hn).
    destruct (v_value v); try exact IH;
      (destruct j as [|k]; [exists (assigned last v0); split; [reflexivity|exact IH]|exact IH]).
Qed.

Theorem numbering_ok_numbers : forall vs, numbering_ok vs (numbers vs).
Proof.
  intros vs. split; [apply numbers_length|].
  intros i v n Hv Hn. pose proof (seen_from_nth vs None i v n Hv Hn) as H.
  destruct (v_value v); try exact H; destruct i; exact H.
Qed.

Theorem numbering_ok_unique : forall vs ns, numbering_ok vs ns -> ns = numbers vs.
Proof.
  intros vs ns [Hlen Hns]. destruct (numbering_ok_numbers vs) as [Hlen' Hnum].
  assert (forall i, nth_error ns i = nth_error (numbers vs) i) as Hext.
  { induction i as [i IHi] using (well_founded_induction Wf_nat.lt_wf).
    destruct (nth_error vs i) as [v|] eqn:Ev.
    - assert (i < List.length vs)%nat as Hi by (apply nth_error_Some; congruence).
      destruct (nth_error ns i) as [n|] eqn:En;
        [|apply nth_error_None in En; lia].
      destruct (nth_error (numbers vs) i) as [n'|] eqn:En';
        [|apply nth_error_None in En'; lia].
      specialize (Hns i v n Ev En). specialize (Hnum i v n' Ev En').
      destruct (v_value v); try (destruct i as [|j]; [congruence|]);
        try (destruct Hns as (m & Hm & ->); destruct Hnum as (m' & Hm' & ->);
             rewrite (IHi j) in Hm by lia; congruence).
      congruence.
    - apply nth_error_None in Ev.
      assert (nth_error ns i = None) as -> by (apply nth_error_None; lia).
      symmetry. apply nth_error_None. lia. }
  clear - Hext. revert ns Hext. induction (numbers vs) as [|a l IH]; intros ns Hext.
  - destruct ns; [reflexivity|]. specialize (Hext O). discriminate.
  - destruct ns as [|b ns]; [specialize (Hext O); discriminate|].
    pose proof (Hext O) as H0. cbn in H0. inversion H0; subst. f_equal.
    apply IH. intros i. exact (Hext (S i)).
Qed.

(* ================================================================== *)
(* 2. Reflection of the pass's tests                                    *)
(* ================================================================== *)

Lemma cfg_eqb_eq : forall a b, cfg_eqb a b = true <-> a = b.
Proof.
  intros [x|] [y|]; cbn; try (split; [discriminate|congruence]); [|split; reflexivity].
  rewrite String.eqb_eq. split; congruence.
Qed.

(* has_dup R l  <->  some pair of positions i < j is related *)
Lemma has_dup_spec {A} (eqb : A -> A -> bool) : forall l,
  has_dup eqb l = true <->
  exists i j a b, (i < j)%nat /\ nth_error l i = Some a /\ nth_error l j = Some b /\ eqb a b = true.
Proof.
  induction l as [|x t IH]; cbn [has_dup].
  - split; [discriminate|]. intros (i & j & a & b & _ & Hi & _). destruct i; discriminate.
  - rewrite orb_true_iff, existsb_exists, IH. split.
    + intros [(b & Hin & Hb)|(i & j & a & b & Hlt & Hi & Hj & Hab)].
      * destruct (In_nth_error _ _ Hin) as [j Hj]. exists O, (S j), x, b. repeat split; auto; lia.
      * exists (S i), (S j), a, b. repeat split; auto; lia.
    + intros (i & j & a & b & Hlt & Hi & Hj & Hab).
      destruct j as [|j]; [lia|]. cbn in Hj. destruct i as [|i].
      * cbn in Hi. inversion Hi; subst. left. exists b. split; [eapply nth_error_In; eauto|assumption].
      * cbn in Hi. right. exists i, j, a, b. repeat split; auto; lia.
Qed.

Lemma has_dup_false {A} (eqb : A -> A -> bool) l :
  has_dup eqb l = false <->
  ~ exists i j a b, (i < j)%nat /\ nth_error l i = Some a /\ nth_error l j = Some b /\ eqb a b = true.
Proof. rewrite <- has_dup_spec. destruct (has_dup eqb l); split; congruence. Qed.

Lemma spec_duplicate_reflect : forall vs, spec_duplicate_b vs = true <-> spec_duplicate vs.
Proof.
  intros vs. unfold spec_duplicate_b, spec_duplicate. rewrite has_dup_spec. split.
  - intros (i & j & [n a] & [m b] & Hlt & Hi & Hj & Hab).
    unfold seen_eqb_fixed in Hab. cbn [fst snd] in Hab.
    apply andb_true_iff in Hab. destruct Hab as [Hn Hc]. apply Z.eqb_eq in Hn. subst m.
    apply cfg_eqb_eq in Hc. apply seen_nth in Hi, Hj. exists i, j, a, b, n. tauto.
  - intros (i & j & a & b & n & Hlt & Hi & Hj & Hni & Hnj & Hc).
    exists i, j, (n, a), (n, b). repeat split; auto; try (apply seen_nth; auto).
    unfold seen_eqb_fixed. cbn [fst snd]. rewrite Z.eqb_refl. apply cfg_eqb_eq in Hc. rewrite Hc. reflexivity.
Qed.

Lemma d12_class_reflect : forall vs, d12_class_b vs = true <-> d12_class vs.
Proof.
  intros vs. unfold d12_class_b, d12_class. rewrite has_dup_spec. split.
  - intros (i & j & [n a] & [m b] & Hlt & Hi & Hj & Hab).
    unfold d12_eqb in Hab. cbn [fst snd] in Hab.
    apply andb_true_iff in Hab. destruct Hab as [Hab Hname].
    apply andb_true_iff in Hab. destruct Hab as [Hn Hc]. apply Z.eqb_eq in Hn. subst m.
    apply cfg_eqb_eq in Hc. apply negb_true_iff, String.eqb_neq in Hname.
    apply seen_nth in Hi, Hj. exists i, j, a, b, n. tauto.
  - intros (i & j & a & b & n & Hlt & Hi & Hj & Hni & Hnj & Hc & Hname).
    exists i, j, (n, a), (n, b). repeat split; auto; try (apply seen_nth; auto).
    unfold d12_eqb. cbn [fst snd]. rewrite Z.eqb_refl. apply cfg_eqb_eq in Hc. rewrite Hc.
    apply String.eqb_neq in Hname. rewrite Hname. reflexivity.
Qed.

(* the code's pair test = (the property's test) minus (the D12 class) *)
Lemma seen_eqb_fixed_split : forall a b, seen_eqb_fixed a b = seen_eqb a b || d12_eqb a b.
Proof.
  intros [n a] [m b]. unfold seen_eqb_fixed, seen_eqb, d12_eqb, variant_id_eqb. cbn [fst snd].
  destruct (n =? m), (cfg_eqb (v_cfg a) (v_cfg b)), (String.eqb (v_name a) (v_name b)); reflexivity.
Qed.

Lemma has_dup_code_vs_spec : forall vs,
  spec_duplicate_b vs = has_dup seen_eqb (seen_values vs) || d12_class_b vs.
Proof.
  intros vs. unfold spec_duplicate_b, d12_class_b.
  apply eq_true_iff_eq. rewrite orb_true_iff, !has_dup_spec. split.
  - intros (i & j & a & b & Hlt & Hi & Hj & Hab). rewrite seen_eqb_fixed_split in Hab.
    apply orb_true_iff in Hab. destruct Hab; [left|right]; exists i, j, a, b; auto.
  - intros [(i & j & a & b & Hlt & Hi & Hj & Hab)|(i & j & a & b & Hlt & Hi & Hj & Hab)];
      exists i, j, a, b; rewrite seen_eqb_fixed_split, Hab; repeat split; auto using orb_true_r.
Qed.

(* too high *)
Lemma too_high_find : forall w vs,
  find (fun p : Z * variant => highest w <? fst p) (seen_values vs) = None <->
  existsb (fun n => highest w <? n) (numbers vs) = false.
Proof.
  intros w vs. unfold numbers. induction (seen_values vs) as [|[n v] t IH]; cbn; [tauto|].
  destruct (highest w <? n); cbn; [split; discriminate|exact IH].
Qed.

Lemma too_high_reflect : forall w vs,
  existsb (fun n => highest w <? n) (numbers vs) = true <-> spec_too_high w vs.
Proof.
  intros w vs. unfold spec_too_high, highest. rewrite existsb_exists.
  split; intros (n & Hin & H); exists n; split; auto; lia.
Qed.

(* ---- coverage: the fuelled walk equals the unbounded statement (pigeonhole) ---- *)

Lemma existsb_eqb_In : forall x l, existsb (Z.eqb x) l = true <-> In x l.
Proof.
  intros x l. rewrite existsb_exists. split.
  - intros (y & Hin & Hy). apply Z.eqb_eq in Hy. subst. assumption.
  - intros H. exists x. split; [assumption|apply Z.eqb_refl].
Qed.

Lemma all_seen_from_sound : forall fuel val hi nums,
  all_seen_from fuel val hi nums = true -> forall v, val <= v <= hi -> In v nums.
Proof.
  induction fuel as [|f IH]; intros val hi nums H v Hv; cbn [all_seen_from] in H.
  - destruct (hi <? val) eqn:E; [lia|discriminate].
  - destruct (hi <? val) eqn:E; [lia|].
    destruct (existsb (Z.eqb val) nums) eqn:Ex; [|discriminate].
    destruct (Z.eq_dec v val) as [->|Hne]; [apply existsb_eqb_In; assumption|].
    apply (IH (val + 1) hi nums H). lia.
Qed.

Lemma all_seen_from_complete : forall fuel val hi nums,
  (forall v, val <= v <= hi -> In v nums) -> hi - val + 1 <= Z.of_nat fuel ->
  all_seen_from fuel val hi nums = true.
Proof.
  induction fuel as [|f IH]; intros val hi nums H Hf; cbn [all_seen_from].
  - destruct (hi <? val) eqn:E; [reflexivity|lia].
  - destruct (hi <? val) eqn:E; [reflexivity|].
    assert (In val nums) as Hin by (apply H; lia).
    apply existsb_eqb_In in Hin. rewrite Hin. apply IH; [intros v Hv; apply H; lia|lia].
Qed.

Lemma NoDup_map_Zofnat : forall l, NoDup l -> NoDup (map Z.of_nat l).
Proof.
  induction l as [|a t IH]; intros H; cbn; [constructor|].
  inversion H; subst. constructor; [|apply IH; assumption].
  intros Hin. apply in_map_iff in Hin. destruct Hin as (b & Hb & Hin).
  apply Nat2Z.inj in Hb. subst. contradiction.
Qed.

(* pigeonhole: a list containing 0..hi has more than hi elements *)
Lemma covers_length : forall hi nums, 0 <= hi ->
  (forall v, 0 <= v <= hi -> In v nums) -> hi + 1 <= Z.of_nat (List.length nums).
Proof.
  intros hi nums Hhi H.
  pose (l := map Z.of_nat (seq 0 (Z.to_nat (hi + 1)))).
  assert (NoDup l) as Hnd by (apply NoDup_map_Zofnat, seq_NoDup).
  assert (incl l nums) as Hincl.
  { intros v Hv. unfold l in Hv. apply in_map_iff in Hv. destruct Hv as (k & <- & Hk).
    apply in_seq in Hk. apply H. lia. }
  pose proof (NoDup_incl_length Hnd Hincl) as Hlen.
  unfold l in Hlen. rewrite map_length, seq_length in Hlen. lia.
Qed.

Theorem bits_covered_spec : forall w vs, 0 <= w ->
  bits_covered w vs = true <-> (forall p, 0 <= p < 2 ^ w -> In p (numbers vs)).
Proof.
  intros w vs Hw. unfold bits_covered, highest.
  assert (0 < 2 ^ w) by (apply Z.pow_pos_nonneg; lia).
  split.
  - intros Hc p Hp. eapply all_seen_from_sound; [exact Hc|lia].
  - intros Hc. apply all_seen_from_complete; [intros v Hv; apply Hc; lia|].
    assert (2 ^ w - 1 + 1 <= Z.of_nat (List.length (numbers vs))) as Hl.
    { apply covers_length; [lia|]. intros v Hv. apply Hc. lia. }
    rewrite numbers_length in Hl. lia.
Qed.

Lemma has_fallback_spec : forall vs,
  has_fallback vs = true <->
  (exists v, In v vs /\ v_value v = EVDefault) \/ (exists v, In v vs /\ v_value v = EVCatchAll).
Proof.
  intros vs. unfold has_fallback. rewrite existsb_exists. split.
  - intros (v & Hin & Hf). unfold is_fallback, is_default, is_catch_all in Hf.
    destruct (v_value v) eqn:E; try discriminate; [left|right]; exists v; auto.
  - intros [(v & Hin & E)|(v & Hin & E)]; exists v; split; auto;
      unfold is_fallback, is_default, is_catch_all; rewrite E; reflexivity.
Qed.

Lemma style_reflect : forall w vs, 0 <= w ->
  (has_fallback vs || bits_covered w vs = true) <-> spec_total w vs.
Proof.
  intros w vs Hw. unfold spec_total.
  rewrite orb_true_iff, has_fallback_spec, (bits_covered_spec w vs Hw). tauto.
Qed.

(* C15_infallible_iff_total *)
Theorem infallible_iff_total : forall w vs, 0 <= w ->
  (enum_style w vs = GInfallible w <-> spec_total w vs) /\
  (forall b, enum_style w vs = GInfallible b -> b = w) /\
  (enum_style w vs = GFallible <-> ~ spec_total w vs).
Proof.
  intros w vs Hw. pose proof (style_reflect w vs Hw) as H. unfold enum_style.
  destruct (has_fallback vs || bits_covered w vs).
  - split; [|split].
    + split; [intros _; apply H; reflexivity|reflexivity].
    + intros b Hb. congruence.
    + split; [discriminate|]. intros Hn. exfalso. apply Hn, H. reflexivity.
  - assert (~ spec_total w vs) as Hn by (intros Ht; apply H in Ht; discriminate).
    split; [|split].
    + split; [discriminate|]. intros Ht. contradiction.
    + intros b Hb. discriminate.
    + split; [intros _; exact Hn|reflexivity].
Qed.

Lemma spec_total_reflect : forall w vs, 0 <= w ->
  (has_fallback vs || bits_covered w vs = true) <-> spec_total w vs.
Proof.
  exact style_reflect.
Qed.

(* ================================================================== *)
(* 3. Rejection <-> the property's disjunction                          *)
(* ================================================================== *)

Definition reject_b_with (dup_eqb : Z * variant -> Z * variant -> bool) (w : Z) (vs : list variant) (use_try : bool) : bool :=
  match vs with [] => true | _ => false end ||
  has_dup dup_eqb (seen_values vs) || existsb (fun n => highest w <? n) (numbers vs) ||
  negb (count is_default vs <? 2)%nat || negb (count is_catch_all vs <? 2)%nat ||
  (negb use_try && negb (has_fallback vs || bits_covered w vs)).

(* the generalised pass: an error is either one of the historical tests or the inserted test [mid] *)
Lemma enum_check_gen_reject : forall dup_eqb mid obj fld w e t, w < 127 ->
  (exists err, enum_check_gen dup_eqb mid obj fld w e t = VErr err) <->
  (reject_b_with dup_eqb w (e_variants e) t = true \/ mid (seen_values (e_variants e)) <> None).
Proof.
  intros dup_eqb mid obj fld w e t Hw. unfold enum_check_gen, reject_b_with.
  assert (127 <=? w = false) as -> by lia.
  assert (w <=? 128 = true) as -> by lia. cbn [negb].
  destruct (e_variants e) as [|v0 vs0] eqn:Evs; [cbn; split; eauto|].
  rewrite <- Evs. cbn [orb].
  destruct (has_dup dup_eqb (seen_values (e_variants e))); cbn [orb]; [split; eauto|].
  destruct (find (fun p => highest w <? fst p) (seen_values (e_variants e))) as [[n0 v1]|] eqn:Ef.
  - assert (existsb (fun n => highest w <? n) (numbers (e_variants e)) = true) as ->.
    { destruct (existsb (fun n => highest w <? n) (numbers (e_variants e))) eqn:Ex; [reflexivity|].
      apply too_high_find in Ex. congruence. }
    cbn. split; eauto.
  - apply too_high_find in Ef. rewrite Ef. cbn [orb].
    destruct (mid (seen_values (e_variants e))) as [merr|] eqn:Em.
    { split; [intros _; right; discriminate|eauto]. }
    assert (forall P : Prop, (P \/ @None gen_error <> None) <-> P) as Hnone by (intros P; split; [intros [H|H]; [exact H|congruence]|auto]).
    rewrite Hnone.
    destruct (count is_default (e_variants e) <? 2)%nat; cbn [negb orb]; [|split; eauto].
    destruct (count is_catch_all (e_variants e) <? 2)%nat; cbn [negb orb]; [|split; eauto].
    unfold enum_style. destruct (has_fallback (e_variants e) || bits_covered w (e_variants e)); cbn [negb andb].
    + rewrite andb_false_r. split; [intros [err H]; discriminate|discriminate].
    + destruct t; cbn; split; eauto; try discriminate. intros [err H]; discriminate.
Qed.

Lemma enum_check_with_reject : forall dup_eqb obj fld w e t, w < 127 ->
  (exists err, enum_check_with dup_eqb obj fld w e t = VErr err) <->
  reject_b_with dup_eqb w (e_variants e) t = true.
Proof.
  intros dup_eqb obj fld w e t Hw. unfold enum_check_with.
  rewrite enum_check_gen_reject by exact Hw. split; [intros [H|H]; [exact H|congruence]|auto].
Qed.

Lemma enum_check_gen_verdicts : forall dup_eqb mid obj fld w e t, w < 127 ->
  enum_check_gen dup_eqb mid obj fld w e t = VOk \/ exists err, enum_check_gen dup_eqb mid obj fld w e t = VErr err.
Proof.
  intros dup_eqb mid obj fld w e t Hw. unfold enum_check_gen.
  assert (127 <=? w = false) as -> by lia.
  assert (w <=? 128 = true) as -> by lia. cbn [negb].
  destruct (e_variants e); [eauto|].
  destruct (has_dup _ _); [eauto|].
  destruct (find _ _) as [[n0 v1]|]; [eauto|].
  destruct (mid _); [eauto|].
  destruct (_ <? _)%nat; cbn [negb]; [|eauto].
  destruct (_ <? _)%nat; cbn [negb]; [|eauto].
  destruct (enum_style _ _); [destruct t|]; eauto.
Qed.

Lemma enum_check_with_verdicts : forall dup_eqb obj fld w e t, w < 127 ->
  enum_check_with dup_eqb obj fld w e t = VOk \/ exists err, enum_check_with dup_eqb obj fld w e t = VErr err.
Proof. intros dup_eqb obj fld w e t Hw. unfold enum_check_with. apply enum_check_gen_verdicts. exact Hw. Qed.

Lemma ge2_ltb : forall n, (n >= 2)%nat <-> negb (n <? 2)%nat = true.
Proof.
  intros n. destruct (n <? 2)%nat eqn:E; cbn.
  - apply Nat.ltb_lt in E. split; [lia|discriminate].
  - apply Nat.ltb_ge in E. split; [reflexivity|lia].
Qed.

Lemma spec_reject_reflect : forall w vs t, 0 <= w -> spec_reject_b w vs t = true <-> spec_reject w vs t.
Proof.
  intros w vs t Hw. unfold spec_reject_b, spec_reject.
  rewrite !orb_true_iff, andb_true_iff, spec_duplicate_reflect, too_high_reflect, <- !ge2_ltb.
  rewrite !negb_true_iff.
  assert ((has_fallback vs || bits_covered w vs = false) <-> ~ spec_total w vs) as Ht.
  { rewrite <- (spec_total_reflect w vs Hw). destruct (has_fallback vs || bits_covered w vs); split; congruence. }
  rewrite Ht.
  assert (match vs with [] => true | _ :: _ => false end = true <-> vs = []) as He
    by (destruct vs; split; congruence).
  rewrite He. tauto.
Qed.

(* with the repair candidate the pass rejects exactly what the property says *)
Theorem reject_iff_fixed : forall obj fld w e t, 0 <= w < 127 ->
  (exists err, enum_check_fixed obj fld w e t = VErr err) <-> spec_reject w (e_variants e) t.
Proof.
  intros obj fld w e t Hw. unfold enum_check_fixed.
  rewrite enum_check_with_reject by lia. rewrite <- spec_reject_reflect by lia. reflexivity.
Qed.

(* the code as it is: exactly the property's rule outside the D12 class *)
Theorem reject_iff_partial : forall obj fld w e t, 0 <= w < 127 -> ~ d12_class (e_variants e) ->
  (exists err, enum_check obj fld w e t = VErr err) <-> spec_reject w (e_variants e) t.
Proof.
  intros obj fld w e t Hw Hd. unfold enum_check.
  rewrite enum_check_with_reject by lia. rewrite <- spec_reject_reflect by lia.
  unfold reject_b_with, spec_reject_b. rewrite has_dup_code_vs_spec.
  assert (d12_class_b (e_variants e) = false) as ->.
  { destruct (d12_class_b (e_variants e)) eqn:E; [|reflexivity]. apply d12_class_reflect in E. contradiction. }
  rewrite orb_false_r. reflexivity.
Qed.

(* soundness direction holds without the side condition: whatever the code rejects, the property rejects *)
Theorem reject_sound : forall obj fld w e t, 0 <= w < 127 ->
  (exists err, enum_check obj fld w e t = VErr err) -> spec_reject w (e_variants e) t.
Proof.
  intros obj fld w e t Hw H. unfold enum_check in H.
  rewrite enum_check_with_reject in H by lia. apply spec_reject_reflect; [lia|].
  unfold reject_b_with in H. unfold spec_reject_b. rewrite has_dup_code_vs_spec.
  destruct (has_dup seen_eqb (seen_values (e_variants e))); cbn [orb] in *.
  - rewrite !orb_true_r. reflexivity.
  - destruct (d12_class_b (e_variants e)); [rewrite !orb_true_r; reflexivity|exact H].
Qed.

(* ================================================================== *)
(* 4. What acceptance implies                                           *)
(* ================================================================== *)

Lemma enum_check_gen_ok_inv : forall dup_eqb mid obj fld w e t,
  enum_check_gen dup_eqb mid obj fld w e t = VOk ->
  w < 127 /\ e_variants e <> [] /\ has_dup dup_eqb (seen_values (e_variants e)) = false /\
  existsb (fun n => highest w <? n) (numbers (e_variants e)) = false /\
  (count is_default (e_variants e) < 2)%nat /\ (count is_catch_all (e_variants e) < 2)%nat /\
  (t = false -> enum_style w (e_variants e) = GInfallible w) /\
  mid (seen_values (e_variants e)) = None.
Proof.
  intros dup_eqb mid obj fld w e t. unfold enum_check_gen.
  destruct (127 <=? w) eqn:Ew; [discriminate|].
  destruct (w <=? 128); cbn [negb]; [|discriminate].
  destruct (e_variants e) as [|v0 vs0] eqn:Evs; [discriminate|]. rewrite <- Evs.
  destruct (has_dup dup_eqb (seen_values (e_variants e))); [discriminate|].
  destruct (find (fun p => highest w <? fst p) (seen_values (e_variants e))) as [[n0 v1]|] eqn:Ef; [discriminate|].
  apply too_high_find in Ef.
  destruct (mid (seen_values (e_variants e))) as [merr|] eqn:Em; [discriminate|].
  destruct (count is_default (e_variants e) <? 2)%nat eqn:Ed; cbn [negb]; [|discriminate].
  destruct (count is_catch_all (e_variants e) <? 2)%nat eqn:Ec; cbn [negb]; [|discriminate].
  apply Nat.ltb_lt in Ed, Ec. intros H.
  repeat split; try assumption; try lia; try congruence.
  intros ->. unfold enum_style in *. destruct (has_fallback (e_variants e) || bits_covered w (e_variants e)); [reflexivity|discriminate].
Qed.

Lemma enum_check_ok_inv : forall dup_eqb obj fld w e t,
  enum_check_with dup_eqb obj fld w e t = VOk ->
  w < 127 /\ e_variants e <> [] /\ has_dup dup_eqb (seen_values (e_variants e)) = false /\
  existsb (fun n => highest w <? n) (numbers (e_variants e)) = false /\
  (count is_default (e_variants e) < 2)%nat /\ (count is_catch_all (e_variants e) < 2)%nat /\
  (t = false -> enum_style w (e_variants e) = GInfallible w).
Proof.
  intros dup_eqb obj fld w e t H. unfold enum_check_with in H. apply enum_check_gen_ok_inv in H. tauto.
Qed.

Lemma first_verdict_ok {A} (f : A -> verdict) : forall l,
  first_verdict (map f l) = VOk <-> Forall (fun x => f x = VOk) l.
Proof.
  induction l as [|a t IH]; cbn [map first_verdict]; [split; auto|].
  destruct (f a) eqn:E.
  - rewrite IH. split; intros H; [constructor; auto|inversion H; auto].
  - split; [discriminate|]. intros H. inversion H; congruence.
  - split; [discriminate|]. intros H. inversion H; congruence.
Qed.

Lemma accepted_sites : forall d s, enum_values_check d = VOk -> In s (enum_sites d) ->
  enum_check (s_obj s) (f_name (s_field s)) (s_width s) (s_enum s) (s_try s) = VOk.
Proof.
  intros d s H Hin. unfold enum_values_check, enum_values_check_with in H.
  apply first_verdict_ok in H. rewrite Forall_forall in H. exact (H s Hin).
Qed.

(* accepted + cfg-free + outside the D12 class: all numbers are pairwise different *)
Lemma accepted_numbers_nodup : forall obj fld w e t,
  enum_check obj fld w e t = VOk -> (forall v, In v (e_variants e) -> v_cfg v = None) ->
  ~ d12_class (e_variants e) -> NoDup (numbers (e_variants e)).
Proof.
  intros obj fld w e t Hok Hcfg Hd12. apply enum_check_ok_inv in Hok.
  destruct Hok as (_ & _ & Hdup & _). apply has_dup_false in Hdup.
  apply NoDup_nth_error. intros i j Hi Hij.
  destruct (Nat.eq_dec i j) as [|Hne]; [assumption|]. exfalso.
  assert (forall i j, (i < j)%nat -> (i < List.length (numbers (e_variants e)))%nat ->
            nth_error (numbers (e_variants e)) i = nth_error (numbers (e_variants e)) j -> False) as Hgen.
  { clear i j Hi Hij Hne. intros i j Hlt Hi Hij.
    destruct (nth_error (numbers (e_variants e)) i) as [n|] eqn:En; [|apply nth_error_None in En; lia].
    symmetry in Hij. rewrite numbers_length in Hi.
    destruct (nth_error (e_variants e) i) as [a|] eqn:Ea; [|apply nth_error_None in Ea; lia].
    assert (j < List.length (e_variants e))%nat as Hj
        by (rewrite <- numbers_length; apply nth_error_Some; congruence).
    destruct (nth_error (e_variants e) j) as [b|] eqn:Eb; [|apply nth_error_None in Eb; lia].
    assert (v_cfg a = v_cfg b) as Hc.
    { rewrite (Hcfg a), (Hcfg b); [reflexivity|eapply nth_error_In; eauto|eapply nth_error_In; eauto]. }
    destruct (String.eqb (v_name a) (v_name b)) eqn:Enm.
    - apply Hdup. exists i, j, (n, a), (n, b). repeat split; auto; try (apply seen_nth; auto).
      unfold seen_eqb, variant_id_eqb. cbn [fst snd]. rewrite Z.eqb_refl, Enm.
      apply cfg_eqb_eq in Hc. rewrite Hc. reflexivity.
    - apply Hd12. exists i, j, a, b, n. apply String.eqb_neq in Enm. tauto. }
  destruct (Nat.lt_ge_cases i j) as [Hlt|Hge].
  - exact (Hgen i j Hlt Hi Hij).
  - assert (j < i)%nat as Hlt by lia.
    assert (j < List.length (numbers (e_variants e)))%nat as Hj.
    { apply nth_error_Some. rewrite <- Hij. apply nth_error_Some. assumption. }
    exact (Hgen j i Hlt Hj (eq_sym Hij)).
Qed.

(* ================================================================== *)
(* 5. The emitted conversions (C07)                                     *)
(* ================================================================== *)

Lemma find_exists {A} (f : A -> bool) l :
  (exists x, In x l /\ f x = true) -> exists y, find f l = Some y.
Proof.
  intros (x & Hin & Hx). destruct (find f l) as [y|] eqn:E; [eauto|].
  rewrite (find_none f l E x Hin) in Hx. discriminate.
Qed.

Lemma find_none_iff {A} (f : A -> bool) l : find f l = None <-> forall x, In x l -> f x = false.
Proof.
  split; [apply find_none|]. intros H. destruct (find f l) as [y|] eqn:E; [|reflexivity].
  apply find_some in E. destruct E as [Hin Hy]. rewrite (H y Hin) in Hy. discriminate.
Qed.

Definition listed (e : eenum) (raw : Z) : Prop :=
  exists v, In v (ee_variants e) /\ ev_catch_all v = false /\ ev_num v = raw.

Lemma listed_find : forall e raw, listed e raw <-> exists v, find (arm_matches raw) (ee_variants e) = Some v.
Proof.
  intros e raw. split.
  - intros (v & Hin & Hc & Hn). apply find_exists. exists v. split; [assumption|].
    unfold arm_matches. rewrite Hc, Hn, Z.eqb_refl. reflexivity.
  - intros (v & Hf). apply find_some in Hf. destruct Hf as [Hin Hm]. unfold arm_matches in Hm.
    apply andb_true_iff in Hm. destruct Hm as [Hc Hn]. exists v. repeat split; auto.
    + apply negb_true_iff in Hc. assumption.
    + apply Z.eqb_eq in Hn. assumption.
Qed.

(* C07_from_num_precedence *)
Theorem from_num_precedence : forall e raw,
  (* a variant with that number: the result is a unit variant with that number (the first one listed) *)
  (listed e raw ->
     exists v, In v (ee_variants e) /\ ev_catch_all v = false /\ ev_num v = raw /\ from_num e raw = CVal (VUnit v)) /\
  (* else the catch-all carrying the raw value *)
  (~ listed e raw -> (exists c, In c (ee_variants e) /\ ev_catch_all c = true) ->
     exists c, In c (ee_variants e) /\ ev_catch_all c = true /\ from_num e raw = CVal (VCatch c raw)) /\
  (* else the default variant *)
  (~ listed e raw -> (forall c, In c (ee_variants e) -> ev_catch_all c = false) ->
     (exists d, In d (ee_variants e) /\ ev_default d = true) ->
     exists d, In d (ee_variants e) /\ ev_default d = true /\ from_num e raw = CVal (VUnit d) /\
               enum_default e = Some (VUnit d)) /\
  (* else (only for enums with neither) the error carrying the raw value and the enum's name *)
  (~ listed e raw -> (forall c, In c (ee_variants e) -> ev_catch_all c = false) ->
     (forall d, In d (ee_variants e) -> ev_default d = false) ->
     from_num e raw = CErr raw (ee_name e)).
Proof.
  intros e raw. unfold from_num, enum_default. repeat split.
  - intros Hl. apply listed_find in Hl. destruct Hl as [v Hf]. rewrite Hf.
    pose proof (find_some _ _ Hf) as [Hin Hm]. unfold arm_matches in Hm.
    apply andb_true_iff in Hm. destruct Hm as [Hc Hn]. exists v.
    apply negb_true_iff in Hc. apply Z.eqb_eq in Hn. auto.
  - intros Hnl Hc.
    destruct (find (arm_matches raw) (ee_variants e)) as [v|] eqn:Ef; [exfalso; apply Hnl, listed_find; eauto|].
    destruct (find_exists ev_catch_all _ Hc) as [c Hfc]. rewrite Hfc.
    apply find_some in Hfc. destruct Hfc. exists c. auto.
  - intros Hnl Hnc Hd.
    destruct (find (arm_matches raw) (ee_variants e)) as [v|] eqn:Ef; [exfalso; apply Hnl, listed_find; eauto|].
    assert (find ev_catch_all (ee_variants e) = None) as -> by (apply find_none_iff; assumption).
    destruct (find_exists ev_default _ Hd) as [d Hfd]. rewrite Hfd.
    apply find_some in Hfd. destruct Hfd as [Hin Hdd]. exists d.
    unfold default_value. rewrite (Hnc d Hin). auto.
  - intros Hnl Hnc Hnd.
    destruct (find (arm_matches raw) (ee_variants e)) as [v|] eqn:Ef; [exfalso; apply Hnl, listed_find; eauto|].
    assert (find ev_catch_all (ee_variants e) = None) as -> by (apply find_none_iff; assumption).
    assert (find ev_default (ee_variants e) = None) as -> by (apply find_none_iff; assumption).
    reflexivity.
Qed.

Lemma find_unique_key {A} (key : A -> Z) (p : A -> bool) : forall l v,
  NoDup (map key l) -> In v l -> p v = true -> (forall u, In u l -> p u = true -> key u = key v) ->
  find p l = Some v.
Proof.
  induction l as [|a t IH]; intros v Hnd Hin Hp Hkey; [contradiction|].
  cbn [find]. cbn [map] in Hnd. inversion Hnd as [|? ? Hnotin Hnd']; subst.
  destruct (p a) eqn:Epa.
  - destruct Hin as [->|Hin]; [reflexivity|]. exfalso. apply Hnotin.
    rewrite (Hkey a (or_introl eq_refl) Epa). apply in_map. assumption.
  - destruct Hin as [->|Hin]; [congruence|].
    apply IH; auto. intros u Hu. apply Hkey. right. assumption.
Qed.

Lemma count_map {A B} (f : B -> bool) (g : A -> B) : forall l, count f (map g l) = count (fun x => f (g x)) l.
Proof.
  unfold count. induction l as [|a t IH]; cbn; [reflexivity|]. destruct (f (g a)); cbn; rewrite IH; reflexivity.
Qed.

Lemma count_ext {A} (f g : A -> bool) : forall l, (forall x, f x = g x) -> count f l = count g l.
Proof. intros l H. unfold count. rewrite (filter_ext f g H). reflexivity. Qed.

Lemma count_zero_none {A} (f : A -> bool) : forall l, count f l = O -> forall x, In x l -> f x = false.
Proof.
  unfold count. induction l as [|a t IH]; intros H x Hin; [contradiction|].
  cbn in H. destruct (f a) eqn:E; [discriminate|]. destruct Hin as [->|Hin]; auto.
Qed.

Lemma count_lt2_find {A} (f : A -> bool) : forall l c,
  (count f l < 2)%nat -> In c l -> f c = true -> find f l = Some c.
Proof.
  induction l as [|a t IH]; intros c Hc Hin Hfc; [contradiction|].
  cbn [find]. unfold count in Hc. cbn [filter] in Hc. destruct (f a) eqn:Efa.
  - cbn in Hc. destruct Hin as [->|Hin]; [reflexivity|].
    assert (count f t = O) as Hz by (unfold count; lia).
    rewrite (count_zero_none f t Hz c Hin) in Hfc. discriminate.
  - destruct Hin as [->|Hin]; [congruence|]. apply IH; auto.
Qed.

Lemma emitted_count_catch_all : forall vs, count ev_catch_all (emit_variants vs) = count is_catch_all vs.
Proof.
  intros vs. rewrite emit_variants_seen, count_map.
  rewrite <- (seen_values_snd vs None) at 2. fold (seen_values vs). rewrite count_map. reflexivity.
Qed.

(* C07_roundtrip *)
Theorem roundtrip : forall obj fld w e t ee,
  enum_check obj fld w e t = VOk ->
  (forall v, In v (e_variants e) -> v_cfg v = None) -> ~ d12_class (e_variants e) ->
  ee_variants ee = emit_variants (e_variants e) ->
  (forall v, In v (ee_variants ee) -> ev_catch_all v = false ->
     from_num ee (to_num (VUnit v)) = CVal (VUnit v)) /\
  (forall c p, In c (ee_variants ee) -> ev_catch_all c = true -> ~ listed ee p ->
     from_num ee (to_num (VCatch c p)) = CVal (VCatch c p)).
Proof.
  intros obj fld w e t ee Hok Hcfg Hd12 Hvs.
  pose proof (accepted_numbers_nodup _ _ _ _ _ Hok Hcfg Hd12) as Hnd.
  rewrite <- numbers_emit, <- Hvs in Hnd.
  apply enum_check_ok_inv in Hok. destruct Hok as (_ & _ & _ & _ & _ & Hcc & _).
  rewrite <- emitted_count_catch_all, <- Hvs in Hcc.
  split.
  - intros v Hin Hc. cbn [to_num]. unfold from_num.
    assert (find (arm_matches (ev_num v)) (ee_variants ee) = Some v) as ->; [|reflexivity].
    apply (find_unique_key ev_num); auto.
    + unfold arm_matches. rewrite Hc, Z.eqb_refl. reflexivity.
    + intros u _ Hu. unfold arm_matches in Hu. apply andb_true_iff in Hu. destruct Hu as [_ Hu].
      apply Z.eqb_eq in Hu. assumption.
  - intros c p Hin Hc Hnl. cbn [to_num]. unfold from_num.
    destruct (find (arm_matches p) (ee_variants ee)) as [v|] eqn:Ef; [exfalso; apply Hnl, listed_find; eauto|].
    rewrite (count_lt2_find ev_catch_all _ c Hcc Hin Hc). reflexivity.
Qed.

(* ---- the infallible getter ---- *)

Lemma carrier_bits_ge8 : forall w, 8 <= carrier_bits w.
Proof.
  intros w. unfold carrier_bits.
  pose proof (Z.log2_up_spec (Z.max w 8)) as H. assert (1 < Z.max w 8) as H1 by lia.
  specialize (H H1). lia.
Qed.

(* an enum analysed Infallible for width w converts every raw value below 2^w (every raw value at all when
   it has a fallback variant) *)
Lemma from_num_total : forall vs ee w raw, 0 <= w ->
  ee_variants ee = emit_variants vs -> enum_style w vs = GInfallible w ->
  (has_fallback vs = true \/ 0 <= raw < 2 ^ w) -> exists x, from_num ee raw = CVal x.
Proof.
  intros vs ee w raw Hw Hvs Hst Hraw. unfold from_num. rewrite Hvs, emit_variants_seen.
  destruct (find (arm_matches raw) (map ev_of (seen_values vs))) as [v|] eqn:Ef; [eauto|].
  assert (has_fallback vs = true) as Hfb.
  { destruct (has_fallback vs) eqn:E; [reflexivity|]. exfalso.
    destruct Hraw as [Hraw|Hraw]; [discriminate|].
    unfold enum_style in Hst. rewrite E in Hst. cbn [orb] in Hst.
    destruct (bits_covered w vs) eqn:Ec; [|discriminate].
    pose proof (proj1 (bits_covered_spec w vs Hw) Ec raw Hraw) as Ec'. clear Ec. rename Ec' into Ec.
    unfold numbers in Ec. apply in_map_iff in Ec. destruct Ec as ([n v] & Hn & Hin). cbn in Hn. subst n.
    assert (arm_matches raw (ev_of (raw, v)) = true) as Hm.
    { unfold arm_matches, ev_of. cbn [ev_catch_all ev_num fst snd]. rewrite Z.eqb_refl.
      unfold has_fallback in E. rewrite <- negb_true_iff in E.
      assert (is_fallback v = false) as Hv.
      { destruct (is_fallback v) eqn:Ev; [|reflexivity]. exfalso.
        assert (existsb is_fallback vs = true) as Hx.
        { apply existsb_exists. exists v. split; [|assumption].
          rewrite <- (seen_values_snd vs None). apply in_map_iff. exists (raw, v). auto. }
        rewrite Hx in E. discriminate. }
      unfold is_fallback in Hv. apply orb_false_iff in Hv. destruct Hv as [_ ->]. reflexivity. }
    rewrite (find_none _ _ Ef (ev_of (raw, v))) in Hm; [discriminate|].
    apply in_map. assumption. }
  unfold has_fallback in Hfb. apply existsb_exists in Hfb. destruct Hfb as (v & Hin & Hv).
  rewrite <- (seen_values_snd vs None) in Hin. apply in_map_iff in Hin. destruct Hin as ([n v'] & Hs & Hin).
  cbn in Hs. subst v'.
  unfold is_fallback in Hv. apply orb_true_iff in Hv.
  destruct (find ev_catch_all (map ev_of (seen_values vs))) as [c|] eqn:Ec; [eauto|].
  destruct (find ev_default (map ev_of (seen_values vs))) as [d|] eqn:Ed; [eauto|].
  exfalso. destruct Hv as [Hv|Hv].
  - assert (ev_default (ev_of (n, v)) = false) as Hx by (apply (find_none _ _ Ed); apply in_map; assumption).
    unfold ev_of in Hx. cbn [ev_default snd] in Hx. congruence.
  - assert (ev_catch_all (ev_of (n, v)) = false) as Hx by (apply (find_none _ _ Ec); apply in_map; assumption).
    unfold ev_of in Hx. cbn [ev_catch_all snd] in Hx. congruence.
Qed.

Lemma find_enum_site : forall l name e,
  find_enum (map (fun s => (styled s, f_base (s_field s), s_width s)) l) name = Some e ->
  exists s, In s l /\ e = styled s /\
    resolve (map (fun t : enum_def * base_type * Z => match t with (e, b, w) => transform_enum e b w end)
                 (map (fun s => (styled s, f_base (s_field s), s_width s)) l)) name =
    Some (transform_enum (styled s) (f_base (s_field s)) (s_width s)).
Proof.
  induction l as [|s t IH]; intros name e H; [discriminate|].
  unfold find_enum, resolve in *. cbn [map find fst] in *.
  change (ee_name (transform_enum (styled s) (f_base (s_field s)) (s_width s))) with (e_name (s_enum s)).
  change (e_name (styled s)) with (e_name (s_enum s)) in *.
  destruct (String.eqb (e_name (s_enum s)) name) eqn:En.
  - inversion H; subst. exists s. split; [left; reflexivity|]. split; reflexivity.
  - destruct (IH name e H) as (s' & Hin & He & Hr). exists s'. split; [right; assumption|]. split; assumption.
Qed.

Lemma pow2_mono : forall a b, 0 <= a <= b -> 2 ^ a <= 2 ^ b.
Proof. intros a b H. apply Z.pow_le_mono_r; lia. Qed.

(* what the current rule (6916a8d) guarantees when it chooses the unchecked conversion: EVERY generated enum of
   that name is Infallible{bits} with width(f) <= bits *)
Lemma conv_choice_unsafe_inv : forall enums f name,
  conv_choice enums f = CMUnsafeInto name ->
  forall e, In e (named_enums enums name) ->
  exists bits, e_style e = Some (GInfallible bits) /\ field_width f <= bits.
Proof.
  intros enums f name Hch e Hin. unfold conv_choice in Hch.
  destruct (f_conv f) as [c|]; [|destruct (f_base f); discriminate].
  destruct (conv_use_try c); [discriminate|].
  destruct (named_enums enums (conv_type_name c)) as [|e0 l] eqn:En; [discriminate|].
  destruct (forallb (infallible_for (field_width f)) (e0 :: l)) eqn:Ef; [|discriminate].
  inversion Hch; subst name. rewrite En in Hin.
  rewrite forallb_forall in Ef. specialize (Ef e Hin). unfold infallible_for in Ef.
  destruct (e_style e) as [[|bits]|]; try discriminate. exists bits. split; [reflexivity|lia].
Qed.

Lemma resolve_sites : forall l name ee,
  resolve (map (fun s => transform_enum (styled s) (f_base (s_field s)) (s_width s)) l) name = Some ee ->
  exists s, In s l /\ e_name (s_enum s) = name /\ ee = transform_enum (styled s) (f_base (s_field s)) (s_width s).
Proof.
  intros l name ee H. unfold resolve in H. apply find_some in H. destruct H as [Hin Hn].
  apply in_map_iff in Hin. destruct Hin as (s & <- & Hs). exists s. split; [assumption|]. split; [|reflexivity].
  apply String.eqb_eq in Hn. exact Hn.
Qed.

Lemma named_enums_site : forall d s,
  In s (enum_sites d) -> In (styled s) (named_enums (collect_enums d) (e_name (s_enum s))).
Proof.
  intros d s Hs. unfold named_enums, collect_enums. apply in_map_iff.
  exists (styled s, f_base (s_field s), s_width s). split; [reflexivity|].
  apply filter_In. split.
  - apply in_map_iff. exists s. split; [reflexivity|assumption].
  - cbn [fst]. change (e_name (styled s)) with (e_name (s_enum s)). apply String.eqb_refl.
Qed.

(* the core: an accepted site analysed Infallible{bits} converts every bit pattern of a field at most bits wide *)
Lemma unsafe_site_total : forall d s f p bits,
  enum_values_check d = VOk -> In s (enum_sites d) ->
  enum_style (s_width s) (s_variants s) = GInfallible bits -> field_width f <= bits ->
  0 <= p < 2 ^ field_width f ->
  (f_base f = BInt -> field_width f = carrier_bits (field_width f) ->
   forall v, In v (ee_variants (transform_enum (styled s) (f_base (s_field s)) (s_width s))) ->
             ev_num v <= 2 ^ (field_width f - 1) - 1) ->
  exists x, match from_num (transform_enum (styled s) (f_base (s_field s)) (s_width s))
                           (raw_of_pattern (f_base f) (field_width f) p) with
            | CVal x => Ok (GEnum x)
            | CErr _ _ => Fail UB_unwrap_unchecked
            end = Ok x.
Proof.
  intros d s f p bits Hacc Hin Hst Ew Hp Hlit.
  pose proof (accepted_sites d s Hacc Hin) as Hok. apply enum_check_ok_inv in Hok.
  assert (0 <= s_width s) as Hws by (unfold s_width, field_width; destruct (_ <? _) eqn:E; lia).
  destruct (infallible_iff_total (s_width s) (s_variants s) Hws) as (_ & Hb & _).
  pose proof (Hb bits Hst) as Hbits. subst bits.
  assert (0 <= field_width f) as Hwf by (unfold field_width; destruct (_ <? _) eqn:E; lia).
  pose proof (pow2_mono (field_width f) (s_width s) (conj Hwf Ew)) as Hpow.
  set (ee := transform_enum (styled s) (f_base (s_field s)) (s_width s)) in *.
  assert (ee_variants ee = emit_variants (s_variants s)) as Hvs.
  { unfold ee, transform_enum, styled. cbn [ee_variants e_variants]. apply emit_variants_mutated. }
  assert (forall raw, (has_fallback (s_variants s) = true \/ 0 <= raw < 2 ^ s_width s) ->
                      exists x, match from_num ee raw with CVal x => Ok (GEnum x) | CErr _ _ => Fail UB_unwrap_unchecked end = Ok x) as Hgo.
  { intros raw Hr. destruct (from_num_total (s_variants s) ee (s_width s) raw Hws Hvs Hst Hr) as [x ->]. eauto. }
  unfold raw_of_pattern. destruct (f_base f) eqn:Eb; try (apply Hgo; right; lia).
  destruct (field_width f =? carrier_bits (field_width f)) eqn:Efull; [|apply Hgo; right; lia].
  apply Z.eqb_eq in Efull. apply Hgo. left.
  (* full-width signed carrier: coverage would need the number 2^w - 1, which is not a literal of the carrier *)
  destruct (has_fallback (s_variants s)) eqn:Efb; [reflexivity|]. exfalso.
  unfold enum_style in Hst. rewrite Efb in Hst. cbn [orb] in Hst.
  destruct (bits_covered (s_width s) (s_variants s)) eqn:Ec; [|discriminate].
  pose proof (proj1 (bits_covered_spec _ _ Hws) Ec) as Ec'.
  assert (0 < 2 ^ s_width s) as Hpos by (apply Z.pow_pos_nonneg; lia).
  assert (In (2 ^ s_width s - 1) (numbers (s_variants s))) as Hn by (apply Ec'; lia).
  rewrite <- numbers_emit, <- Hvs in Hn. apply in_map_iff in Hn. destruct Hn as (v & Hv & Hinv).
  specialize (Hlit eq_refl Efull v Hinv).
  pose proof (carrier_bits_ge8 (field_width f)) as H8. rewrite <- Efull in H8.
  assert (2 ^ (field_width f - 1) < 2 ^ field_width f) as Hlt by (apply Z.pow_lt_mono_r; lia).
  lia.
Qed.

(* C07_infallible_getter_total_any_build: the full statement, for EVERY build.  Whichever same-named enum is
   present in the build [env] is one of the enums the rule quantified over. *)
Theorem infallible_getter_total_any_build : forall env d f name p,
  enum_values_check d = VOk ->
  conv_choice (collect_enums d) f = CMUnsafeInto name ->
  0 <= p < 2 ^ field_width f ->
  (f_base f = BInt -> field_width f = carrier_bits (field_width f) ->
   forall ee v, resolve (emitted_enums_env env d) name = Some ee -> In v (ee_variants ee) ->
                ev_num v <= 2 ^ (field_width f - 1) - 1) ->
  exists x, getter_env env d f p = Ok x.
Proof.
  intros env d f name p Hacc Hch Hp Hlit. unfold getter_env, getter_with. rewrite Hch. cbn [getter_of_method].
  destruct (resolve (emitted_enums_env env d) name) as [ee|] eqn:Er; [|eauto].
  unfold emitted_enums_env in Er. pose proof (resolve_sites _ _ _ Er) as (s & Hs & Hname & Hee).
  apply filter_In in Hs. destruct Hs as [Hin _].
  pose proof (named_enums_site d s Hin) as Hnamed. rewrite Hname in Hnamed.
  destruct (conv_choice_unsafe_inv _ _ _ Hch _ Hnamed) as (bits & Hst & Hle).
  cbn [styled e_style] in Hst. inversion Hst as [Hst']. subst ee.
  apply (unsafe_site_total d s f p bits Hacc Hin Hst' Hle Hp).
  intros Hb Hfull v Hv. exact (Hlit Hb Hfull _ v eq_refl Hv).
Qed.

Lemma emitted_enums_sites' : forall d,
  emitted_enums d = map (fun s => transform_enum (styled s) (f_base (s_field s)) (s_width s)) (enum_sites d).
Proof. intros d. unfold emitted_enums, collect_enums. rewrite map_map. reflexivity. Qed.

Lemma filter_true {A} : forall l : list A, filter (fun _ => true) l = l.
Proof. induction l as [|a t IH]; cbn; [reflexivity|]. f_equal. exact IH. Qed.

Lemma emitted_enums_env_all : forall d, emitted_enums_env (fun _ => true) d = emitted_enums d.
Proof.
  intros d. unfold emitted_enums_env. rewrite emitted_enums_sites'. f_equal.
  rewrite <- (filter_true (enum_sites d)) at 2. apply filter_ext. intros s. unfold site_on.
  apply forallb_forall. intros c _. destruct c; reflexivity.
Qed.

(* C07_infallible_getter_total: all cfg-gated items present = the build in which every predicate holds *)
Theorem infallible_getter_total : forall d f name p,
  enum_values_check d = VOk ->
  conv_choice (collect_enums d) f = CMUnsafeInto name ->
  0 <= p < 2 ^ field_width f ->
  (f_base f = BInt -> field_width f = carrier_bits (field_width f) ->
   forall ee v, resolve (emitted_enums d) name = Some ee -> In v (ee_variants ee) ->
                ev_num v <= 2 ^ (field_width f - 1) - 1) ->
  exists x, getter d f p = Ok x.
Proof.
  intros d f name p Hacc Hch Hp Hlit.
  assert (getter d f p = getter_env (fun _ => true) d f p) as ->
    by (unfold getter, getter_env; rewrite emitted_enums_env_all; reflexivity).
  apply (infallible_getter_total_any_build (fun _ => true) d f name p Hacc Hch Hp).
  rewrite emitted_enums_env_all. exact Hlit.
Qed.

(* C07_error_payload: an error is produced only by enums with neither fallback, for unlisted numbers, and it
   carries exactly the raw value and the enum's name *)
Theorem from_num_err_payload : forall e raw s t,
  from_num e raw = CErr s t ->
  s = raw /\ t = ee_name e /\ ~ listed e raw /\
  (forall v, In v (ee_variants e) -> ev_catch_all v = false /\ ev_default v = false).
Proof.
  intros e raw s t. unfold from_num.
  destruct (find (arm_matches raw) (ee_variants e)) as [v|] eqn:Ef; [discriminate|].
  destruct (find ev_catch_all (ee_variants e)) as [c|] eqn:Ec; [discriminate|].
  destruct (find ev_default (ee_variants e)) as [d|] eqn:Ed; [discriminate|].
  intros H. inversion H; subst. repeat split.
  - intros Hl. apply listed_find in Hl. destruct Hl as [v Hv]. congruence.
  - apply (find_none _ _ Ec). assumption.
  - apply (find_none _ _ Ed). assumption.
Qed.

(* device level: accepted iff every enum site is accepted; a rejection is the verdict of some site *)
Theorem device_accept_iff : forall d,
  enum_values_check d = VOk <->
  Forall (fun s => enum_check (s_obj s) (f_name (s_field s)) (s_width s) (s_enum s) (s_try s) = VOk) (enum_sites d).
Proof. intros d. unfold enum_values_check, enum_values_check_with. apply first_verdict_ok. Qed.

Lemma first_verdict_in {A} (f : A -> verdict) : forall l v,
  first_verdict (map f l) = v -> v <> VOk -> exists x, In x l /\ f x = v.
Proof.
  induction l as [|a t IH]; intros v H Hne; cbn [map first_verdict] in H; [congruence|].
  destruct (f a) eqn:E.
  - destruct (IH v H Hne) as (x & Hin & Hx). exists x. split; [right|]; assumption.
  - exists a. split; [left; reflexivity|congruence].
  - exists a. split; [left; reflexivity|congruence].
Qed.

Theorem device_reject_site : forall d e,
  enum_values_check d = VErr e ->
  exists s, In s (enum_sites d) /\
            enum_check (s_obj s) (f_name (s_field s)) (s_width s) (s_enum s) (s_try s) = VErr e.
Proof.
  intros d e H. unfold enum_values_check, enum_values_check_with in H.
  apply first_verdict_in in H; [|discriminate]. exact H.
Qed.

(* ================================================================== *)
(* 6. Builds (cfg)                                                      *)
(* ================================================================== *)

Lemma emitted_enums_sites : forall d,
  emitted_enums d = map (fun s => transform_enum (styled s) (f_base (s_field s)) (s_width s)) (enum_sites d).
Proof. intros d. unfold emitted_enums, collect_enums. rewrite map_map. reflexivity. Qed.

Lemma filter_all {A} (f : A -> bool) : forall l, (forall x, In x l -> f x = true) -> filter f l = l.
Proof.
  induction l as [|a t IH]; intros H; cbn; [reflexivity|].
  rewrite (H a (or_introl eq_refl)). f_equal. apply IH. intros x Hx. apply H. right. assumption.
Qed.

(* without cfg gates on the objects / fields that carry generated enums every build contains every enum, and
   the getter of any build is the getter analysed above *)
Theorem getter_env_cfg_free : forall env d f p, cfg_free d -> getter_env env d f p = getter d f p.
Proof.
  intros env d f p Hfree. unfold getter_env, getter, emitted_enums_env. rewrite emitted_enums_sites.
  rewrite filter_all; [reflexivity|].
  intros s Hs. unfold site_on. apply forallb_forall. intros c Hc. rewrite (Hfree s Hs c Hc). reflexivity.
Qed.

(* C07_infallible_getter_total_partial (the strongest statement that was true before 6916a8d; now a corollary) *)
Theorem infallible_getter_total_cfg_free : forall env d f name p,
  cfg_free d ->
  enum_values_check d = VOk ->
  conv_choice (collect_enums d) f = CMUnsafeInto name ->
  0 <= p < 2 ^ field_width f ->
  (f_base f = BInt -> field_width f = carrier_bits (field_width f) ->
   forall ee v, resolve (emitted_enums d) name = Some ee -> In v (ee_variants ee) ->
                ev_num v <= 2 ^ (field_width f - 1) - 1) ->
  exists x, getter_env env d f p = Ok x.
Proof.
  intros env d f name p Hfree Hacc Hch Hp Hlit. rewrite getter_env_cfg_free by assumption.
  eapply infallible_getter_total; eauto.
Qed.

(* ================================================================== *)
(* 7. The pass after the repairs of D16 (717250d) and D17 (e1d126c)     *)
(* ================================================================== *)

Lemma find_fst_none {B} (f : Z -> bool) : forall l : list (Z * B),
  find (fun p => f (fst p)) l = None <-> existsb f (map fst l) = false.
Proof.
  induction l as [|[n v] t IH]; cbn; [tauto|].
  destruct (f n); cbn; [split; discriminate|exact IH].
Qed.

Lemma repr_mid_none : forall base obj fld w e vs,
  repr_mid base obj fld w e (seen_values vs) = None <-> spec_unrepresentable_b base w vs = false.
Proof.
  intros base obj fld w e vs. unfold repr_mid, spec_unrepresentable_b, numbers.
  destruct base.
  - rewrite <- (find_fst_none (fun n => n <? 0)). cbn [unrepresentable_b].
    destruct (find _ _) as [[n v]|]; split; congruence.
  - rewrite <- (find_fst_none (fun n => n <? 0)). cbn [unrepresentable_b].
    destruct (find _ _) as [[n v]|]; split; congruence.
  - rewrite <- (find_fst_none (unrepresentable_b BInt w)). unfold unrepresentable_b, repr_min, repr_max.
    destruct (find _ _) as [[n v]|]; split; congruence.
Qed.

Lemma unrepresentable_reflect : forall base w n, unrepresentable_b base w n = true <-> unrepresentable base w n.
Proof. intros base w n. unfold unrepresentable_b, unrepresentable. destruct base; lia. Qed.

Lemma spec_unrepresentable_reflect : forall base w vs,
  spec_unrepresentable_b base w vs = true <-> spec_unrepresentable base w vs.
Proof.
  intros base w vs. unfold spec_unrepresentable_b, spec_unrepresentable. rewrite existsb_exists.
  split; intros (n & Hin & H); exists n; split; auto; apply unrepresentable_reflect; assumption.
Qed.

Lemma spec_reject_repaired_reflect : forall base w vs t, 0 <= w ->
  spec_reject_repaired_b base w vs t = true <-> spec_reject_repaired base w vs t.
Proof.
  intros base w vs t Hw. unfold spec_reject_repaired_b, spec_reject_repaired.
  rewrite orb_true_iff, spec_reject_reflect, spec_unrepresentable_reflect by exact Hw. reflexivity.
Qed.

(* C15_reject_iff_after_repairs: the pass as it is now rejects exactly what the property says *)
Theorem reject_iff_repaired : forall base obj fld w e t, 0 <= w < 127 ->
  (exists err, enum_check_repaired base obj fld w e t = VErr err) <-> spec_reject_repaired base w (e_variants e) t.
Proof.
  intros base obj fld w e t Hw. unfold enum_check_repaired.
  rewrite enum_check_gen_reject by lia. rewrite <- spec_reject_repaired_reflect by lia.
  unfold spec_reject_repaired_b. rewrite orb_true_iff.
  change (reject_b_with seen_eqb_fixed w (e_variants e) t) with (spec_reject_b w (e_variants e) t).
  assert (repr_mid base obj fld w e (seen_values (e_variants e)) <> None <->
          spec_unrepresentable_b base w (e_variants e) = true) as ->; [|reflexivity].
  pose proof (repr_mid_none base obj fld w e (e_variants e)) as H.
  destruct (repr_mid base obj fld w e (seen_values (e_variants e))), (spec_unrepresentable_b base w (e_variants e));
    split; try congruence; intros _; try discriminate.
  - exfalso. destruct H as [_ H]. specialize (H eq_refl). discriminate.
  - exfalso. destruct H as [H _]. specialize (H eq_refl). discriminate.
Qed.

Theorem repaired_verdicts : forall base obj fld w e t, w < 127 ->
  enum_check_repaired base obj fld w e t = VOk \/ exists err, enum_check_repaired base obj fld w e t = VErr err.
Proof. intros. unfold enum_check_repaired. apply enum_check_gen_verdicts. assumption. Qed.

(* acceptance only gets rarer: dropping the inserted test, or weakening the duplicate test, keeps an acceptance *)
Lemma enum_check_gen_ok_weaken : forall dup1 dup2 mid obj fld w e t,
  (has_dup dup1 (seen_values (e_variants e)) = false -> has_dup dup2 (seen_values (e_variants e)) = false) ->
  enum_check_gen dup1 mid obj fld w e t = VOk -> enum_check_gen dup2 (fun _ => None) obj fld w e t = VOk.
Proof.
  intros dup1 dup2 mid obj fld w e t Hd. unfold enum_check_gen.
  destruct (127 <=? w); [discriminate|].
  destruct (w <=? 128); cbn [negb]; [|discriminate].
  destruct (e_variants e) as [|v0 vs0] eqn:Evs; [discriminate|]. rewrite <- Evs in *.
  destruct (has_dup dup1 (seen_values (e_variants e))); [discriminate|]. rewrite (Hd eq_refl).
  destruct (find (fun p => highest w <? fst p) (seen_values (e_variants e))) as [[n0 v1]|]; [discriminate|].
  destruct (mid (seen_values (e_variants e))); [discriminate|]. exact (fun H => H).
Qed.

(* every consequence of an acceptance by the older models carries over to the pass as it is now *)
Theorem repaired_ok_implies_fixed_ok : forall base obj fld w e t,
  enum_check_repaired base obj fld w e t = VOk -> enum_check_fixed obj fld w e t = VOk.
Proof.
  intros base obj fld w e t H. unfold enum_check_fixed, enum_check_with.
  eapply enum_check_gen_ok_weaken; [|exact H]. exact (fun H => H).
Qed.

Theorem fixed_ok_implies_ok : forall obj fld w e t,
  enum_check_fixed obj fld w e t = VOk -> enum_check obj fld w e t = VOk.
Proof.
  intros obj fld w e t H. unfold enum_check, enum_check_with.
  eapply enum_check_gen_ok_weaken; [|exact H].
  intros Hf. fold (spec_duplicate_b (e_variants e)) in Hf. rewrite has_dup_code_vs_spec in Hf.
  apply orb_false_iff in Hf. exact (proj1 Hf).
Qed.

Theorem repaired_ok_implies_ok : forall base obj fld w e t,
  enum_check_repaired base obj fld w e t = VOk -> enum_check obj fld w e t = VOk.
Proof. intros base obj fld w e t H. eapply fixed_ok_implies_ok, repaired_ok_implies_fixed_ok, H. Qed.

(* an accepted enum has only numbers its repr can hold (no D16, no D17), and no two equal numbers under one cfg *)
Theorem repaired_ok_representable : forall base obj fld w e t,
  enum_check_repaired base obj fld w e t = VOk -> ~ spec_unrepresentable base w (e_variants e).
Proof.
  intros base obj fld w e t H Hs. unfold enum_check_repaired in H. apply enum_check_gen_ok_inv in H.
  destruct H as (_ & _ & _ & _ & _ & _ & _ & Hm). apply repr_mid_none in Hm.
  apply spec_unrepresentable_reflect in Hs. congruence.
Qed.

Theorem repaired_ok_not_d12 : forall base obj fld w e t,
  enum_check_repaired base obj fld w e t = VOk -> ~ d12_class (e_variants e).
Proof.
  intros base obj fld w e t H Hd. unfold enum_check_repaired in H. apply enum_check_gen_ok_inv in H.
  destruct H as (_ & _ & Hdup & _). fold (spec_duplicate_b (e_variants e)) in Hdup.
  rewrite has_dup_code_vs_spec in Hdup. apply orb_false_iff in Hdup.
  apply d12_class_reflect in Hd. destruct Hdup. congruence.
Qed.

(* C15_repaired_accepts_less *)
Theorem repaired_accepts_less : forall base obj fld w e use_try,
  enum_check_repaired base obj fld w e use_try = VOk ->
  enum_check_fixed obj fld w e use_try = VOk /\ enum_check obj fld w e use_try = VOk /\
  ~ spec_unrepresentable base w (e_variants e) /\ ~ d12_class (e_variants e).
Proof.
  intros base obj fld w e use_try H. split; [|split; [|split]].
  - exact (repaired_ok_implies_fixed_ok _ _ _ _ _ _ H).
  - exact (repaired_ok_implies_ok _ _ _ _ _ _ H).
  - exact (repaired_ok_representable _ _ _ _ _ _ H).
  - exact (repaired_ok_not_d12 _ _ _ _ _ _ H).
Qed.

(* device level *)
Theorem device_accept_iff_repaired : forall d,
  enum_values_check_repaired d = VOk <->
  Forall (fun s => enum_check_repaired (f_base (s_field s)) (s_obj s) (f_name (s_field s)) (s_width s) (s_enum s) (s_try s) = VOk)
         (enum_sites d).
Proof. intros d. unfold enum_values_check_repaired. apply (first_verdict_ok check_site_repaired). Qed.

Theorem device_reject_site_repaired : forall d e,
  enum_values_check_repaired d = VErr e ->
  exists s, In s (enum_sites d) /\
            enum_check_repaired (f_base (s_field s)) (s_obj s) (f_name (s_field s)) (s_width s) (s_enum s) (s_try s) = VErr e.
Proof.
  intros d e H. unfold enum_values_check_repaired in H.
  apply (first_verdict_in check_site_repaired) in H; [|discriminate]. exact H.
Qed.

Theorem device_repaired_ok_implies_ok : forall d,
  enum_values_check_repaired d = VOk -> enum_values_check_fixed d = VOk /\ enum_values_check d = VOk.
Proof.
  intros d H. apply device_accept_iff_repaired in H.
  unfold enum_values_check_fixed, enum_values_check, enum_values_check_with.
  split; apply first_verdict_ok; (eapply Forall_impl; [|exact H]); intros s Hs; unfold check_site_with.
  - exact (repaired_ok_implies_fixed_ok _ _ _ _ _ _ Hs).
  - exact (repaired_ok_implies_ok _ _ _ _ _ _ Hs).
Qed.

(* the same with the verdict of the pass as it is now *)
Corollary infallible_getter_total_any_build_repaired : forall env d f name p,
  enum_values_check_repaired d = VOk ->
  conv_choice (collect_enums d) f = CMUnsafeInto name ->
  0 <= p < 2 ^ field_width f ->
  (f_base f = BInt -> field_width f = carrier_bits (field_width f) ->
   forall ee v, resolve (emitted_enums_env env d) name = Some ee -> In v (ee_variants ee) ->
                ev_num v <= 2 ^ (field_width f - 1) - 1) ->
  exists x, getter_env env d f p = Ok x.
Proof.
  intros env d f name p Hacc. apply infallible_getter_total_any_build.
  exact (proj2 (device_repaired_ok_implies_ok d Hacc)).
Qed.
