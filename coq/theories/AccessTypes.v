(* AccessTypes.v — the small finite types shared by the translated capability tables
   (gen/Caps.v, gen/OpBounds.v, gen/FrontDefaults.v) and the access model (Access.v).
   Definitions only. *)
From Coq Require Import Bool List String.
Import ListNotations.

(* device-driver/src/lib.rs: `pub struct WO; RO; RW; RC; CO;` *)
Inductive marker := MWO | MRO | MRW | MRC | MCO.

(* which operation object: RegisterOperation (register.rs) / BufferOperation (buffer.rs) *)
Inductive opkind := Reg | Buf.

(* mir::Access — the three access specifiers of the definition language *)
Inductive access := RW | RO | WO.

(* the two front ends, and the three global defaults (global-config.md) *)
Inductive frontend := FDsl | FManifest.
Inductive defkind := DReg | DField | DBuf.

Definition marker_eq_dec : forall a b : marker, {a = b} + {a <> b}.
Proof. decide equality. Defined.
Definition opkind_eq_dec : forall a b : opkind, {a = b} + {a <> b}.
Proof. decide equality. Defined.
Definition access_eq_dec : forall a b : access, {a = b} + {a <> b}.
Proof. decide equality. Defined.
Definition frontend_eq_dec : forall a b : frontend, {a = b} + {a <> b}.
Proof. decide equality. Defined.
Definition defkind_eq_dec : forall a b : defkind, {a = b} + {a <> b}.
Proof. decide equality. Defined.

Definition marker_eqb (a b : marker) : bool := if marker_eq_dec a b then true else false.
Definition opkind_eqb (a b : opkind) : bool := if opkind_eq_dec a b then true else false.
Definition access_eqb (a b : access) : bool := if access_eq_dec a b then true else false.
Definition frontend_eqb (a b : frontend) : bool := if frontend_eq_dec a b then true else false.
Definition defkind_eqb (a b : defkind) : bool := if defkind_eq_dec a b then true else false.

(* an operation is identified by the object kind and the method name; trait methods carry
   the trait path as written in the impl header, e.g. "embedded_io::Read::read" *)
Definition opkey := (opkind * string)%type.

Definition opkey_eq_dec : forall a b : opkey, {a = b} + {a <> b}.
Proof. decide equality; [apply string_dec | apply opkind_eq_dec]. Defined.
Definition opkey_eqb (a b : opkey) : bool := if opkey_eq_dec a b then true else false.

Definition all_accesses : list access := [RW; RO; WO].
Definition all_markers : list marker := [MWO; MRO; MRW; MRC; MCO].
Definition all_frontends : list frontend := [FDsl; FManifest].
Definition all_defkinds : list defkind := [DReg; DField; DBuf].
