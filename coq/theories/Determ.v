(* Determ.v — C20: determinism of generation, CLI and macro dispatch.  MODEL ONLY (definitions).

   What is modelled
   ----------------
   * generation/src/mir/passes/refs_validated.rs and reset_values_converted.rs, the two passes
     whose control flow goes through std::collections::{HashMap,HashSet}.  A hash container is
     modelled by its *canonical* association list (insertion order, unique keys; `insert` on an
     existing key overwrites the value in place, exactly what HashMap::insert does to the map's
     contents).  Everything the real process's RandomState / table capacity / insertion history
     decides — i.e. the physical layout and hence the iteration order — is an explicit parameter
     `orders`: three enumeration functions that may return ANY permutation of the container's
     entries.  Iteration (`for (k, v) in map`) enumerates `ord_refs`; the by-key operations
     (contains / remove) are run on the scrambled layout too (`ord_real`, `ord_reset`), so that
     "by-key operations do not observe the order" is a theorem, not a modelling decision.
   * The passes see the object tree only through `recurse_objects`, i.e. as the pre-order
     sequence of objects; the model's `device` is that sequence (depth kept, never inspected).
   * cli/src/main.rs as a function of (path, file system oracle, library, -o option) returning
     the list of writes (sink, bytes) and the exit status (0, 1 = `Err` returned from main,
     101 = panic).
   * macros/src/lib.rs: path resolution against the crate root, dispatch on the extension.

   What is NOT modelled (tied by the correspondence check only): the hash seed of the real
   process, the operating system's file layer, rustc's macro expansion, prettyplease, the four
   text parsers.  They appear here as function parameters (`fs`, `lib`, `pretty`). *)
From Coq Require Import List Bool String Ascii ZArith Permutation.
From DD Require Import Common.
Import ListNotations.
Open Scope string_scope.

(* ------------------------------------------------------------------------------------------ *)
(** * Objects as the pass callbacks see them *)

Inductive rkind := KBlock | KRegister | KCommand.

Definition rkind_eqb (a b : rkind) : bool :=
  match a, b with KBlock, KBlock | KRegister, KRegister | KCommand, KCommand => true | _, _ => false end.

Inductive okind :=
| OBlock
| ORegister (reset : option Z)
| OCommand
| OBuffer
| ORef (k : rkind) (target : string) (reset : option Z).   (* reset: only meaningful for KRegister *)

Record obj := { o_depth : nat; o_name : string; o_cfg : string; o_kind : okind }.

Definition device := list obj.      (* pre-order, as recurse_objects enumerates it *)

(* mir::UniqueId = (name, cfg) *)
Definition uid := (string * string)%type.
Definition uid_eqb (a b : uid) : bool := String.eqb (fst a) (fst b) && String.eqb (snd a) (snd b).
Definition o_id (o : obj) : uid := (o_name o, o_cfg o).

Definition with_kind (o : obj) (k : okind) : obj :=
  {| o_depth := o_depth o; o_name := o_name o; o_cfg := o_cfg o; o_kind := k |}.

(* ------------------------------------------------------------------------------------------ *)
(** * Hash containers: canonical contents + by-key operations *)

Section HM.
  Context {K V : Type} (keqb : K -> K -> bool).

  (* HashMap::insert: returns the previous value; overwrites in place or appends *)
  Fixpoint hm_insert (k : K) (v : V) (m : list (K * V)) : list (K * V) * option V :=
    match m with
    | [] => ([(k, v)], None)
    | (k', v') :: r =>
        if keqb k k' then ((k', v) :: r, Some v')
        else let (r', old) := hm_insert k v r in ((k', v') :: r', old)
    end.

  (* HashMap::get on whatever layout is given: first entry with that key *)
  Fixpoint hm_get (k : K) (m : list (K * V)) : option V :=
    match m with
    | [] => None
    | (k', v') :: r => if keqb k k' then Some v' else hm_get k r
    end.

  (* HashMap::remove on whatever layout is given: drops every entry with that key *)
  Definition hm_remove (k : K) (m : list (K * V)) : list (K * V) * option V :=
    (filter (fun e => negb (keqb k (fst e))) m, hm_get k m).
End HM.

(* HashSet<String> *)
Definition hs_mem (x : string) (s : list string) : bool := existsb (String.eqb x) s.
Definition hs_insert (x : string) (s : list string) : list string := if hs_mem x s then s else s ++ [x].

(* ------------------------------------------------------------------------------------------ *)
(** * The order oracle *)

Record orders := {
  ord_refs  : rkind -> list (string * string) -> list (string * string);  (* iteration order of reffed_<kind> *)
  ord_real  : rkind -> list string -> list string;                        (* layout of real_<kind> *)
  ord_reset : list (uid * Z) -> list (uid * Z)                            (* layout of new_reset_values *)
}.

Definition orders_id : orders :=
  {| ord_refs := fun _ l => l; ord_real := fun _ l => l; ord_reset := fun l => l |}.

(* what is assumed of an enumeration: it lists exactly the container's entries *)
Definition orders_ok (o : orders) : Prop :=
  (forall k l, Permutation (ord_refs o k l) l) /\
  (forall k l, Permutation (ord_real o k l) l) /\
  (forall l, Permutation (ord_reset o l) l).

Definition orders_rev : orders :=
  {| ord_refs := fun _ l => rev l; ord_real := fun _ l => rev l; ord_reset := fun l => rev l |}.

(* ------------------------------------------------------------------------------------------ *)
(** * Results *)

Inductive gen_error :=
| ERefUnknown (k : rkind) (ref_name target : string)   (* "<Kind> ref "r" refers to unknown <kind> "t"" *)
| EResetConv (subject : string).                       (* convert_reset_value returned an error *)

Inductive pres (A : Type) :=
| Accept (a : A)
| Reject (e : gen_error)        (* anyhow error -> compile_error! *)
| Abort (k : failkind).         (* panic inside the library *)
Arguments Accept {A} a.
Arguments Reject {A} e.
Arguments Abort {A} k.

Definition is_accept {A} (r : pres A) : bool := match r with Accept _ => true | _ => false end.

(* ------------------------------------------------------------------------------------------ *)
(** * refs_validated.rs *)

Definition triple (A : Type) := (A * A * A)%type.

Definition sel {A} (k : rkind) (t : triple A) : A :=
  let '(b, r, c) := t in match k with KBlock => b | KRegister => r | KCommand => c end.

Definition upd {A} (k : rkind) (f : A -> A) (t : triple A) : triple A :=
  let '(b, r, c) := t in
  match k with KBlock => (f b, r, c) | KRegister => (b, f r, c) | KCommand => (b, r, f c) end.

Record collected := { c_refs : triple (list (string * string)); c_real : triple (list string) }.

Definition collected_empty : collected := {| c_refs := ([], [], []); c_real := ([], [], []) |}.

(* the closure passed to recurse_objects *)
Definition collect_step (c : collected) (o : obj) : collected :=
  match o_kind o with
  | ORef k target _ =>
      {| c_refs := upd k (fun m => fst (hm_insert String.eqb target (o_name o) m)) (c_refs c); c_real := c_real c |}
  | OBlock      => {| c_refs := c_refs c; c_real := upd KBlock    (hs_insert (o_name o)) (c_real c) |}
  | ORegister _ => {| c_refs := c_refs c; c_real := upd KRegister (hs_insert (o_name o)) (c_real c) |}
  | OCommand    => {| c_refs := c_refs c; c_real := upd KCommand  (hs_insert (o_name o)) (c_real c) |}
  | OBuffer     => c
  end.

Definition collect (d : device) : collected := fold_left collect_step d collected_empty.

(* `for (target, reffer) in map { ensure!(real.contains(&target), ...) }` over a given enumeration *)
Fixpoint first_dangling (k : rkind) (real : list string) (entries : list (string * string)) : option gen_error :=
  match entries with
  | [] => None
  | (t, r) :: rest => if hs_mem t real then first_dangling k real rest else Some (ERefUnknown k r t)
  end.

Definition check_kind (o : orders) (c : collected) (k : rkind) : option gen_error :=
  first_dangling k (ord_real o k (sel k (c_real c))) (ord_refs o k (sel k (c_refs c))).

Definition refs_validated (o : orders) (d : device) : pres unit :=
  let c := collect d in
  match check_kind o c KBlock with
  | Some e => Reject e
  | None =>
      match check_kind o c KRegister with
      | Some e => Reject e
      | None => match check_kind o c KCommand with Some e => Reject e | None => Accept tt end
      end
  end.

(* Order-free description (spec side): the dangling entries of one kind, in canonical order, and
   the entries of the first kind (block, register, command) that has any. *)
Definition dangling_of (k : rkind) (c : collected) : list gen_error :=
  map (fun e => ERefUnknown k (snd e) (fst e))
      (filter (fun e => negb (hs_mem (fst e) (sel k (c_real c)))) (sel k (c_refs c))).

Definition candidate_errors (d : device) : list gen_error :=
  let c := collect d in
  match dangling_of KBlock c with
  | e :: l => e :: l
  | [] => match dangling_of KRegister c with e :: l => e :: l | [] => dangling_of KCommand c end
  end.

(* ------------------------------------------------------------------------------------------ *)
(** * reset_values_converted.rs *)

Section Reset.
  (* convert_reset_value for the register that supplies the layout; None = anyhow error *)
  Variable conv : obj -> Z -> option Z.

  (* passes::search_object: first object with that name in pre-order, whatever its kind *)
  Definition search_object (name : string) (d : device) : option obj :=
    find (fun o => String.eqb (o_name o) name) d.

  (* first recurse_objects: fill new_reset_values.  d0 is the whole device (for search_object). *)
  Fixpoint reset_phase1 (d0 : device) (d : device) (m : list (uid * Z)) : pres (list (uid * Z)) :=
    match d with
    | [] => Accept m
    | o :: rest =>
        match o_kind o with
        | ORegister (Some v) =>
            match conv o v with
            | None => Reject (EResetConv (o_name o))
            | Some v' =>
                let (m', old) := hm_insert uid_eqb (o_id o) v' m in
                match old with
                | None => reset_phase1 d0 rest m'
                | Some _ => Abort AssertFail           (* assert_eq!(insert(..), None, "All names must be unique") *)
                end
            end
        | ORef KRegister target (Some v) =>
            match search_object target d0 with
            | Some base =>
                match o_kind base with
                | ORegister _ =>
                    match conv base v with
                    | None => Reject (EResetConv (o_name o))
                    | Some v' => reset_phase1 d0 rest (fst (hm_insert uid_eqb (o_id o) v' m))
                    end
                | _ => Abort AssertFail                (* .as_register().expect(..) *)
                end
            | None => Abort AssertFail                 (* search_object(..).expect(..) *)
            end
        | _ => reset_phase1 d0 rest m
        end
    end.

  (* second recurse_objects_mut: take the converted values out again, by key, from a map whose
     physical layout is whatever it is *)
  Fixpoint reset_phase2 (m : list (uid * Z)) (d : device) : device * list (uid * Z) :=
    match d with
    | [] => ([], m)
    | o :: rest =>
        match o_kind o with
        | ORegister r =>
            let (m', got) := hm_remove uid_eqb (o_id o) m in
            let o' := match got with Some v => with_kind o (ORegister (Some v)) | None => o end in
            let (rest', m'') := reset_phase2 m' rest in (o' :: rest', m'')
        | ORef KRegister t r =>
            let (m', got) := hm_remove uid_eqb (o_id o) m in
            let o' := match got with Some v => with_kind o (ORef KRegister t (Some v)) | None => o end in
            let (rest', m'') := reset_phase2 m' rest in (o' :: rest', m'')
        | _ => let (rest', m'') := reset_phase2 m rest in (o :: rest', m'')
        end
    end.

  Definition reset_values_converted (o : orders) (d : device) : pres device :=
    match reset_phase1 d d [] with
    | Accept m =>
        let (d', m') := reset_phase2 (ord_reset o m) d in
        match m' with [] => Accept d' | _ :: _ => Abort AssertFail end   (* assert!(is_empty()) *)
    | Reject e => Reject e
    | Abort k => Abort k
    end.

  (* the two passes in the order mir::passes::run_passes runs them *)
  (* pipeline order since /repo 0a1d247 (repair of D14): refs_validated runs BEFORE reset_values_converted *)
  Definition hash_passes (o : orders) (d : device) : pres device :=
    match refs_validated o d with
    | Accept _ => reset_values_converted o d
    | Reject e => Reject e
    | Abort k => Abort k
    end.
End Reset.

(* ------------------------------------------------------------------------------------------ *)
(** * Paths, extension, parser dispatch (shared by CLI and macro) *)

Inductive parser := PJson | PYaml | PToml | PDsl.

Definition parser_of_ext (e : string) : option parser :=
  if String.eqb e "json" then Some PJson
  else if String.eqb e "yaml" then Some PYaml
  else if String.eqb e "toml" then Some PToml
  else if String.eqb e "dsl" then Some PDsl
  else None.

Definition slash : ascii := "/"%char.
Definition dot : ascii := "."%char.

(* (text before the last c, text after the last c) *)
Fixpoint split_last (c : ascii) (s : string) : option (string * string) :=
  match s with
  | EmptyString => None
  | String a r =>
      match split_last c r with
      | Some (b, e) => Some (String a b, e)
      | None => if Ascii.eqb a c then Some (EmptyString, r) else None
      end
  end.

Fixpoint strip_trailing_slashes_rev (s : list ascii) : list ascii :=
  match s with
  | a :: r => if Ascii.eqb a slash then strip_trailing_slashes_rev r else s
  | [] => []
  end.

Definition strip_trailing_slashes (s : string) : string :=
  string_of_list_ascii (rev (strip_trailing_slashes_rev (rev (list_ascii_of_string s)))).

(* std::path::Path::file_name on unix (".." has none; trailing separators are ignored) *)
Definition file_name (p : string) : option string :=
  let p' := strip_trailing_slashes p in
  let f := match split_last slash p' with Some (_, f) => f | None => p' end in
  if String.eqb f "" || String.eqb f ".." || String.eqb f "." then None else Some f.

(* std::path::Path::extension: after the last dot of the file name; none if there is no dot or the
   only dot is the first character *)
Definition path_extension (p : string) : option string :=
  match file_name p with
  | None => None
  | Some f =>
      match split_last dot f with
      | Some (before, after) => if String.eqb before "" then None else Some after
      | None => None
      end
  end.

Definition is_absolute (p : string) : bool := prefix "/" p.

Definition ends_with_slash (s : string) : bool :=
  match rev (list_ascii_of_string s) with a :: _ => Ascii.eqb a slash | [] => false end.

(* PathBuf::join on unix *)
Definition path_join (root p : string) : string :=
  if is_absolute p then p
  else if ends_with_slash root || String.eqb root "" then root ++ p
  else root ++ "/" ++ p.

(* macros/src/lib.rs: `if path.is_relative() { path = manifest_dir.join(path) }` *)
Definition resolve (root p : string) : string := if is_absolute p then p else path_join root p.

(* ------------------------------------------------------------------------------------------ *)
(** * cli/src/main.rs *)

Inductive sink := Stdout | ToFile (path : string).

Inductive cli_stop :=
| Finished                 (* main returned Ok(()) *)
| ReturnedErr              (* main returned Err(message): exit status 1 *)
| PanicNoExtension         (* .expect("Manifest file has no file extension") *)
| PanicUnreadable          (* read_to_string failed *)
| PanicUnknownExtension
| PanicLibrary             (* DSL text not tokenisable (syn::parse_str ... expect) or a panic inside the library *)
| PanicCannotCreate        (* File::create failed *)
| PanicStrip.              (* strip_prefix/strip_suffix(...).unwrap() on the error text *)

Record cli_result := { r_writes : list (sink * string); r_stop : cli_stop }.

Definition exit_status (s : cli_stop) : Z :=
  match s with Finished => 0%Z | ReturnedErr => 1%Z | _ => 101%Z end.

Definition ends_with (suffix s : string) : bool :=
  prefix (string_of_list_ascii (rev (list_ascii_of_string suffix)))
         (string_of_list_ascii (rev (list_ascii_of_string s))).

Definition compile_error_prefix : string := "::core::compile_error!".
Definition looks_like_compile_error (pretty_text : string) : bool := prefix compile_error_prefix pretty_text.

(* the double quote character is written "" inside a Coq string *)
Definition strip_prefix_text : string := "::core::compile_error!(""".
Definition strip_suffix_text : string := """);" ++ String (ascii_of_nat 10) EmptyString.

Record cli_in := { ci_path : string; ci_out : option string }.

Section Cli.
  Context {T : Type}.
  Variable fs : string -> option string.          (* read_to_string: None = cannot be read *)
  Variable creatable : string -> bool.            (* File::create succeeds *)
  Variable lib : parser -> string -> option T.    (* transform_<parser>; None = no output (DSL lexing failed / panic) *)
  Variable pretty : T -> string.                  (* prettyplease::unparse(syn::parse2(..)) *)

  Definition cli_run (i : cli_in) : cli_result :=
    match path_extension (ci_path i) with
    | None => {| r_writes := []; r_stop := PanicNoExtension |}
    | Some e =>
        match fs (ci_path i) with
        | None => {| r_writes := []; r_stop := PanicUnreadable |}
        | Some content =>
            match parser_of_ext e with
            | None => {| r_writes := []; r_stop := PanicUnknownExtension |}
            | Some p =>
                match lib p content with
                | None => {| r_writes := []; r_stop := PanicLibrary |}
                | Some t =>
                    let text := pretty t in
                    let target := match ci_out i with
                                  | Some f => if creatable f then Some (ToFile f) else None
                                  | None => Some Stdout
                                  end in
                    match target with
                    | None => {| r_writes := []; r_stop := PanicCannotCreate |}
                    | Some s =>
                        {| r_writes := [(s, text)];
                           r_stop := if looks_like_compile_error text
                                     then if prefix strip_prefix_text text && ends_with strip_suffix_text text
                                          then ReturnedErr else PanicStrip
                                     else Finished |}
                    end
                end
            end
        end
    end.

  (* Spec side, written from the property text: what the library says for this path, if the
     environment lets the tool get that far. *)
  Definition library_output_for (path : string) : option T :=
    match path_extension path with
    | None => None
    | Some e => match fs path with
                | None => None
                | Some content => match parser_of_ext e with None => None | Some p => lib p content end
                end
    end.

  Definition chosen_sink (i : cli_in) : option sink :=
    match ci_out i with Some f => if creatable f then Some (ToFile f) else None | None => Some Stdout end.
End Cli.

(* ------------------------------------------------------------------------------------------ *)
(** * macros/src/lib.rs *)

Inductive macro_input := MInline (tokens : string) | MManifest (path : string).

Inductive macro_error :=
| MECannotOpen (resolved : string)
| MENoExtension
| MEUnknownExtension (e : string)
| MELibrary.                (* syn::parse_str(..)? failed, or the proc macro panicked *)

Inductive macro_result (T : Type) := MExpand (t : T) | MCompileError (e : macro_error).
Arguments MExpand {T} t.
Arguments MCompileError {T} e.

Section Macro.
  Context {T : Type}.
  Variable fs : string -> option string.
  Variable root : string.                         (* CARGO_MANIFEST_DIR *)
  Variable lib : parser -> string -> option T.

  Definition of_lib (r : option T) : macro_result T :=
    match r with Some t => MExpand t | None => MCompileError MELibrary end.

  Definition macro_expand (i : macro_input) : macro_result T :=
    match i with
    | MInline tokens => of_lib (lib PDsl tokens)
    | MManifest path =>
        let p := resolve root path in
        match fs p with
        | None => MCompileError (MECannotOpen p)
        | Some content =>
            match path_extension p with
            | None => MCompileError MENoExtension
            | Some e =>
                match parser_of_ext e with
                | None => MCompileError (MEUnknownExtension e)
                | Some ps => of_lib (lib ps content)
                end
            end
        end
    end.
End Macro.
