(* ProtoCases.v — the executable side of the correspondence check for C05 / C09 / C10:
   scripted interfaces, concrete closures, operation sequences.  Everything here only
   instantiates Proto.v (the interface by a script indexed by call position, the closure by an
   XOR / overwrite pattern); it is extracted by coq/extract/ExtractProto.v and run on the same
   case file as harness/proto_runner.  Definitions only. *)
From Coq Require Import ZArith List Bool.
From DD Require Import Proto.
Import ListNotations.

(* the interface of a case: the i-th call (counted over the whole case) gets the i-th scripted
   answer; calls beyond the script get Ok(0) and no data *)
Definition default_resp : resp := mkResp (ROk 0) [].
Definition script_oracle (script : list resp) : oracle :=
  fun h _ => nth (length h) script default_resp.

(* closures of a case *)
Inductive ckind := CkXor | CkSet.

Fixpoint xor_bytes (pat reg : bytes) : bytes :=
  match pat, reg with
  | p :: pat', x :: reg' => Z.lxor p x :: xor_bytes pat' reg'
  | _, _ => reg
  end.

Definition closure_effect (k : ckind) (pat reg : bytes) : bytes :=
  match k with CkXor => xor_bytes pat reg | CkSet => pat end.

(* returns what it saw, so that the value handed to the closure is observable *)
Definition mk_closure (k : ckind) (pat : bytes) : closure bytes :=
  fun reg => (closure_effect k pat reg, reg).
Definition mk_cmd_closure (k : ckind) (pat : bytes) : cmd_closure :=
  fun reg => closure_effect k pat reg.

(* ---------------------------------------------------------------- registers *)

Inductive regop := OpWrite | OpWriteZero | OpRead | OpModify.

Definition reg_prog (a sz : Z) (reset : bytes) (op : regop) (k : ckind) (pat : bytes) : prog (result bytes) :=
  match op with
  | OpWrite => reg_write a sz reset (mk_closure k pat)
  | OpWriteZero => reg_write_with_zero a sz (mk_closure k pat)
  | OpRead => reg_read a sz
  | OpModify => reg_modify a sz (mk_closure k pat)
  end.

Definition reg_aprog (a sz : Z) (reset : bytes) (op : regop) (k : ckind) (pat : bytes) : aprog (result bytes) :=
  match op with
  | OpWrite => reg_write_async a sz reset (mk_closure k pat)
  | OpWriteZero => reg_write_with_zero_async a sz (mk_closure k pat)
  | OpRead => reg_read_async a sz
  | OpModify => reg_modify_async a sz (mk_closure k pat)
  end.

Definition regstep := (regop * ckind * bytes)%type.

(* a sequence of blocking operations on one register; per operation: events, polls (0), outcome *)
Fixpoint run_reg_seq (orc : oracle) (a sz : Z) (reset : bytes) (ops : list regstep) (h : list event)
  : list (list event * nat * pout (result bytes)) :=
  match ops with
  | [] => []
  | (op, k, pat) :: rest =>
      let '(t, o) := run orc (reg_prog a sz reset op k pat) h in
      (t, O, o) :: run_reg_seq orc a sz reset rest (h ++ t)
  end.

(* the same sequence through the *_async functions, each driven to completion by the executor;
   `sched` gives the number of Pendings per call position of the whole case *)
Fixpoint exec_reg_seq (orc : oracle) (sched : list nat) (a sz : Z) (reset : bytes) (ops : list regstep)
  (h : list event) : list (list event * nat * pout (result bytes)) :=
  match ops with
  | [] => []
  | (op, k, pat) :: rest =>
      let sc := skipn (length h) sched in
      let '(t, n, o) := exec orc (exec_fuel sc) (reg_aprog a sz reset op k pat) sc h in
      (t, n, o) :: exec_reg_seq orc sched a sz reset rest (h ++ t)
  end.

Definition case_reg (async : bool) (script : list resp) (sched : list nat) (a sz : Z) (reset : bytes)
  (ops : list regstep) : list (list event * nat * pout (result bytes)) :=
  if async then exec_reg_seq (script_oracle script) sched a sz reset ops []
  else run_reg_seq (script_oracle script) a sz reset ops [].

(* ---------------------------------------------------------------- commands *)

Inductive cmdshape := ShNone | ShIn | ShOut | ShInOut.

Definition unit_bytes (r : result unit) : result bytes :=
  match r with ROk _ => ROk [] | RErr e => RErr e end.

Definition omap {A B : Type} (f : A -> B) (o : pout A) : pout B :=
  match o with Done r => Done (f r) | Stopped s => Stopped s end.

Definition case_cmd (async : bool) (script : list resp) (sched : list nat) (shape : cmdshape)
  (a szi szo : Z) (k : ckind) (pat : bytes) : list event * nat * pout (result bytes) :=
  let orc := script_oracle script in
  let f := mk_cmd_closure k pat in
  if async then
    match shape with
    | ShNone => let '(t, n, o) := exec orc (exec_fuel sched) (cmd_dispatch_none_async a) sched [] in (t, n, omap unit_bytes o)
    | ShIn => let '(t, n, o) := exec orc (exec_fuel sched) (cmd_dispatch_in_async a szi f) sched [] in (t, n, omap unit_bytes o)
    | ShOut => exec orc (exec_fuel sched) (cmd_dispatch_out_async a szo) sched []
    | ShInOut => exec orc (exec_fuel sched) (cmd_dispatch_inout_async a szi szo f) sched []
    end
  else
    match shape with
    | ShNone => let '(t, o) := run orc (cmd_dispatch_none a) [] in (t, O, omap unit_bytes o)
    | ShIn => let '(t, o) := run orc (cmd_dispatch_in a szi f) [] in (t, O, omap unit_bytes o)
    | ShOut => let '(t, o) := run orc (cmd_dispatch_out a szo) [] in (t, O, o)
    | ShInOut => let '(t, o) := run orc (cmd_dispatch_inout a szi szo f) [] in (t, O, o)
    end.

(* ---------------------------------------------------------------- buffers *)

Inductive bufop := BoWrite | BoWriteAll | BoFlush | BoRead | BoReadExact.
Inductive bufentry := EnSync | EnAsync | EnTrait | EnTraitAsync.

Inductive bufout :=
| OutCount (r : result nat) (buf : bytes)     (* write (buf = []) / read (the caller's slice) *)
| OutUnit (r : result unit)                   (* flush / write_all *)
| OutRx (r : rx_result) (buf : bytes).        (* read_exact *)

Definition out_write (r : result nat) : bufout := OutCount r [].
Definition out_read (x : result nat * bytes) : bufout := OutCount (fst x) (snd x).
Definition out_rx (x : rx_result * bytes) : bufout := OutRx (fst x) (snd x).

Definition sync3 {A : Type} (f : A -> bufout) (x : list event * pout A) : list event * nat * pout bufout :=
  (fst x, O, omap f (snd x)).
Definition async3 {A : Type} (f : A -> bufout) (x : list event * nat * pout A) : list event * nat * pout bufout :=
  let '(t, n, o) := x in (t, n, omap f o).

Definition case_buf (entry : bufentry) (op : bufop) (script : list resp) (sched : list nat)
  (a : Z) (buf : bytes) : list event * nat * pout bufout :=
  let orc := script_oracle script in
  let fuel := exec_fuel sched in
  match entry, op with
  | EnSync, BoWrite => sync3 out_write (run orc (buf_write a buf) [])
  | EnSync, BoWriteAll => sync3 OutUnit (run orc (buf_write_all (length buf) a buf) [])
  | EnSync, BoFlush => sync3 OutUnit (run orc (buf_flush a) [])
  | EnSync, BoRead => sync3 out_read (run orc (buf_read a buf) [])
  | EnSync, BoReadExact => sync3 out_rx (run orc (buf_read_exact a buf) [])
  | EnAsync, BoWrite => async3 out_write (exec orc fuel (buf_write_async a buf) sched [])
  | EnAsync, BoWriteAll => async3 OutUnit (exec orc fuel (buf_write_all_async (length buf) a buf) sched [])
  | EnAsync, BoFlush => async3 OutUnit (exec orc fuel (buf_flush_async a) sched [])
  | EnAsync, BoRead => async3 out_read (exec orc fuel (buf_read_async a buf) sched [])
  | EnAsync, BoReadExact => async3 out_rx (exec orc fuel (buf_read_exact_async a buf) sched [])
  | EnTrait, BoWrite => sync3 out_write (run orc (eio_write a buf) [])
  | EnTrait, BoWriteAll => sync3 OutUnit (run orc (eio_write_all (length buf) a buf) [])
  | EnTrait, BoFlush => sync3 OutUnit (run orc (eio_flush a) [])
  | EnTrait, BoRead => sync3 out_read (run orc (eio_read a buf) [])
  | EnTrait, BoReadExact => sync3 out_rx (run orc (eio_read_exact a buf) [])
  | EnTraitAsync, BoWrite => async3 out_write (exec orc fuel (eioa_write a buf) sched [])
  | EnTraitAsync, BoWriteAll => async3 OutUnit (exec orc fuel (eioa_write_all (length buf) a buf) sched [])
  | EnTraitAsync, BoFlush => async3 OutUnit (exec orc fuel (eioa_flush a) sched [])
  | EnTraitAsync, BoRead => async3 out_read (exec orc fuel (eioa_read a buf) sched [])
  | EnTraitAsync, BoReadExact => async3 out_rx (exec orc fuel (eioa_read_exact a buf) sched [])
  end.
