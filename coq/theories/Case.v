(* Case.v — ASCII model of the crate convert_case 0.6.0 as used by the generator
   (src/segmentation.rs: Boundary, list_from, split; src/pattern.rs: Capital / Lowercase;
    src/converter.rs: Converter::convert; src/case.rs: Pascal = Capital + "", Snake = Lowercase + "_").

   Scope: strings of printable ASCII characters.  For those every `char` is one grapheme
   (the only multi-byte ASCII grapheme is CR LF, excluded), `to_uppercase/to_lowercase` are the
   ASCII maps, and grapheme_is_uppercase / _lowercase / _digit are exactly A-Z / a-z / 0-9.
   Definitions only; lemmas are in NamesProofs.v. *)
From Coq Require Import NArith List Bool String Ascii.
Import ListNotations.
Open Scope N_scope.

Inductive boundary :=
| BHyphen | BUnderscore | BSpace | BUpperLower | BLowerUpper
| BDigitUpper | BUpperDigit | BDigitLower | BLowerDigit | BAcronym.

(* ---------- character classes (ASCII) ---------- *)

Definition code (c : ascii) : N := N_of_ascii c.
Definition is_upper (c : ascii) : bool := (65 <=? code c) && (code c <=? 90).
Definition is_lower (c : ascii) : bool := (97 <=? code c) && (code c <=? 122).
Definition is_digit (c : ascii) : bool := (48 <=? code c) && (code c <=? 57).
Definition to_lower (c : ascii) : ascii := if is_upper c then ascii_of_N (code c + 32) else c.
Definition to_upper (c : ascii) : ascii := if is_lower c then ascii_of_N (code c - 32) else c.

Definition chr_hyphen : ascii := "-"%char.
Definition chr_underscore : ascii := "_"%char.
Definition chr_space : ascii := " "%char.

(* ---------- Boundary::detect_one / detect_two / detect_three ---------- *)

Definition detect_one (b : boundary) (c : ascii) : bool :=
  match b with
  | BHyphen => Ascii.eqb c chr_hyphen
  | BUnderscore => Ascii.eqb c chr_underscore
  | BSpace => Ascii.eqb c chr_space
  | _ => false
  end.

Definition detect_two (b : boundary) (c d : ascii) : bool :=
  match b with
  | BUpperLower => is_upper c && is_lower d
  | BLowerUpper => is_lower c && is_upper d
  | BDigitUpper => is_digit c && is_upper d
  | BUpperDigit => is_upper c && is_digit d
  | BDigitLower => is_digit c && is_lower d
  | BLowerDigit => is_lower c && is_digit d
  | _ => false
  end.

Definition detect_three (b : boundary) (c d e : ascii) : bool :=
  match b with
  | BAcronym => is_upper c && is_upper d && is_lower e
  | _ => false
  end.

Definition any_one (bs : list boundary) (c : ascii) : bool := existsb (fun b => detect_one b c) bs.
Definition any_two (bs : list boundary) (c d : ascii) : bool := existsb (fun b => detect_two b c d) bs.
Definition any_three (bs : list boundary) (c d e : ascii) : bool := existsb (fun b => detect_three b c d e) bs.

(* ---------- Boundary::all / defaults ---------- *)

Definition all_boundaries : list boundary :=
  [BHyphen; BUnderscore; BSpace; BLowerUpper; BUpperLower; BDigitUpper; BUpperDigit;
   BDigitLower; BLowerDigit; BAcronym].

Definition default_boundaries : list boundary :=
  [BUnderscore; BHyphen; BSpace; BLowerUpper; BUpperDigit; BDigitUpper; BDigitLower; BLowerDigit;
   BAcronym].

(* ---------- segmentation::split ----------
   Position i of the input gets the split mark
       singles[i]  .or( doubles[i-1] ) .or( triples[i-1] )
   i.e.  c_i is a configured delimiter              -> split here, consume c_i
         else detect_two(c_{i-1}, c_i)               -> split before c_i, keep it
         else detect_three(c_{i-1}, c_i, c_{i+1})    -> split before c_i, keep it
   (no double/triple mark at i = 0, no triple mark at the last position).
   The words are then filtered for emptiness. [word] is the current word, reversed. *)

Definition split_before (bs : list boundary) (prev : option ascii) (c : ascii) (rest : list ascii) : bool :=
  match prev with
  | None => false
  | Some p =>
    any_two bs p c ||
    match rest with
    | e :: _ => any_three bs p c e
    | [] => false
    end
  end.

Fixpoint split_aux (bs : list boundary) (prev : option ascii) (l : list ascii) (word : list ascii)
  : list (list ascii) :=
  match l with
  | [] => [rev word]
  | c :: t =>
    if any_one bs c then rev word :: split_aux bs (Some c) t []
    else if split_before bs prev c t then rev word :: split_aux bs (Some c) t [c]
    else split_aux bs (Some c) t (c :: word)
  end.

Definition nonempty (w : list ascii) : bool := match w with [] => false | _ => true end.

Definition split (bs : list boundary) (s : list ascii) : list (list ascii) :=
  filter nonempty (split_aux bs None s []).

(* ---------- Boundary::list_from ---------- *)

Fixpoint exists_one (b : boundary) (l : list ascii) : bool :=
  match l with
  | [] => false
  | c :: t => detect_one b c || exists_one b t
  end.

(* pairs (c_j, c_{j+1}); [acro] = the previous pair was upper-upper *)
Fixpoint exists_two (b : boundary) (acro : bool) (l : list ascii) : bool :=
  match l with
  | c :: ((d :: _) as t) =>
    (detect_two b c d && negb acro) || exists_two b (is_upper c && is_upper d) t
  | _ => false
  end.

Fixpoint exists_three (b : boundary) (l : list ascii) : bool :=
  match l with
  | c :: ((d :: e :: _) as t) => detect_three b c d e || exists_three b t
  | _ => false
  end.

Definition list_from (s : list ascii) : list boundary :=
  filter (fun b => exists_one b s || exists_two b false s || exists_three b s) all_boundaries.

(* ---------- patterns and joins ---------- *)

Definition word_lower (w : list ascii) : list ascii := map to_lower w.
Definition word_capital (w : list ascii) : list ascii :=
  match w with
  | [] => []
  | c :: t => to_upper c :: map to_lower t
  end.

Fixpoint join (delim : list ascii) (ws : list (list ascii)) : list ascii :=
  match ws with
  | [] => []
  | [w] => w
  | w :: t => w ++ delim ++ join delim t
  end.

Definition pascal_l (bs : list boundary) (s : list ascii) : list ascii :=
  join [] (map word_capital (split bs s)).
Definition snake_l (bs : list boundary) (s : list ascii) : list ascii :=
  join [chr_underscore] (map word_lower (split bs s)).

(* ---------- string level API ---------- *)

Definition la := list_ascii_of_string.
Definition sl := string_of_list_ascii.

(* Converter::new().set_boundaries(bs).to_case(Case::Pascal).convert(s) *)
Definition to_pascal (bs : list boundary) (s : string) : string := sl (pascal_l bs (la s)).
(* Converter::new().set_boundaries(bs).to_case(Case::Snake).convert(s) *)
Definition to_snake (bs : list boundary) (s : string) : string := sl (snake_l bs (la s)).
(* s.to_case(Case::Snake): default boundaries (method names, new_as_<ref>) *)
Definition to_snake_default (s : string) : string := to_snake default_boundaries s.
Definition to_pascal_default (s : string) : string := to_pascal default_boundaries s.

(* lir_transform: Converter::new().set_boundaries(list_from "aA:AAa:_:-: :a1:A1").set_pattern(Capital),
   delimiter "" *)
Definition lenient_spec : string := "aA:AAa:_:-: :a1:A1".
Definition lenient_boundaries : list boundary := list_from (la lenient_spec).
Definition lenient_pascal (s : string) : string := to_pascal lenient_boundaries s.

(* ---------- Debug names of Boundary (as they appear in the MIR) ---------- *)

Open Scope string_scope.

Definition boundary_of_name (s : string) : option boundary :=
  if String.eqb s "Hyphen" then Some BHyphen
  else if String.eqb s "Underscore" then Some BUnderscore
  else if String.eqb s "Space" then Some BSpace
  else if String.eqb s "UpperLower" then Some BUpperLower
  else if String.eqb s "LowerUpper" then Some BLowerUpper
  else if String.eqb s "DigitUpper" then Some BDigitUpper
  else if String.eqb s "UpperDigit" then Some BUpperDigit
  else if String.eqb s "DigitLower" then Some BDigitLower
  else if String.eqb s "LowerDigit" then Some BLowerDigit
  else if String.eqb s "Acronym" then Some BAcronym
  else None.

Definition boundary_name (b : boundary) : string :=
  match b with
  | BHyphen => "Hyphen" | BUnderscore => "Underscore" | BSpace => "Space"
  | BUpperLower => "UpperLower" | BLowerUpper => "LowerUpper" | BDigitUpper => "DigitUpper"
  | BUpperDigit => "UpperDigit" | BDigitLower => "DigitLower" | BLowerDigit => "LowerDigit"
  | BAcronym => "Acronym"
  end.

Fixpoint boundaries_of_names (l : list string) : list boundary :=
  match l with
  | [] => []
  | s :: t => match boundary_of_name s with
              | Some b => b :: boundaries_of_names t
              | None => boundaries_of_names t
              end
  end.

Definition show_boundaries (bs : list boundary) : string := String.concat "," (map boundary_name bs).
Definition show_words (ws : list (list ascii)) : string := String.concat "|" (map sl ws).
