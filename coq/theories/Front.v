(* Front.v — the two front ends of the generator as executable Gallina (definitions only).

   (a) [adef]           an abstract definition: what a user means, every optional property optional, plus the
                        STRUCTURAL spelling choices each syntax offers (kept in the nodes, consumed only by the renderers);
   (b) [hdevice]        the DSL HIR as the syn parser delivers it (generation/src/dsl_hir/mod.rs): per object an ITEM
                        LIST, and [lower_dsl], a transcription of generation/src/dsl_hir/mir_transform.rs;
   (c) [mvalue]         the manifest value tree (dd-manifest-tree's Value trait over JSON / YAML / TOML) and
                        [lower_manifest], a transcription of generation/src/manifest/mod.rs (after commit df2c08c, which
                        initialises access / bit order from the global config); [lower_manifest_nodefaults] is the
                        behaviour BEFORE that commit, kept so that the theorem is visibly not vacuous;
   (d) [to_dsl], [to_manifest]  renderers adef -> HIR / value tree.

   NOT modelled (exercised by tools/checks/c16.py only): the text parsers (syn, serde_json, yaml-rust2, toml), integer
   radices, RW/ReadWrite spellings, case-insensitive boundary names, token spacing of cfg strings.
   Descriptions / doc strings are NOT part of this model (Mir.v has no description fields): only their PRESENCE on an
   object is kept ([h_doc]), because a doc attribute / `description` key on a ref override is an error in both front
   ends.  The harness compares the description strings of the real MIRs.

   Errors are (kind, args) pairs with the kinds of tools/errmap.py; [err_class] maps the kinds of both front ends to
   the classes that are comparable across them. *)
From Coq Require Import ZArith List Bool String Ascii.
From DD Require Import Common Mir GenErr.
Import ListNotations.
Open Scope string_scope.
Open Scope Z_scope.

Notation "x <-- a ;; b" := (rbind a (fun x => b)) (at level 100, a at next level, right associativity).

Definition rmap {A B} (f : A -> B) (x : result A) : result B :=
  match x with ROk a => ROk (f a) | RErr e => RErr e end.

Fixpoint find_map {A B} (f : A -> option B) (l : list A) : option B :=
  match l with
  | [] => None
  | a :: t => match f a with Some b => Some b | None => find_map f t end
  end.

Fixpoint foldM {A B} (f : A -> B -> result B) (l : list A) (b : B) : result B :=
  match l with
  | [] => ROk b
  | a :: t => b' <-- f a b ;; foldM f t b'
  end.

(* GenErr.mapM with the function outside the fix, so that it may be used in nested recursion (= mapM, FrontProofs) *)
Definition mapR {A B} (f : A -> result B) : list A -> result (list B) :=
  fix go (l : list A) : result (list B) :=
    match l with
    | [] => ROk []
    | a :: t => b <-- f a ;; bs <-- go t ;; ROk (b :: bs)
    end.

(* Option<Result<T>>::transpose *)
Definition transpose {A} (x : option (result A)) : result (option A) :=
  match x with None => ROk None | Some r => rmap Some r end.

Definition or_default {A} (x : option A) (d : A) : A := match x with Some a => a | None => d end.

(* ------------------------------------------------------------------ integer ranges *)

Definition in_i64 (z : Z) : bool := (- 2 ^ 63 <=? z) && (z <? 2 ^ 63).
Definition in_u64 (z : Z) : bool := (0 <=? z) && (z <? 2 ^ 64).
Definition in_u32 (z : Z) : bool := (0 <=? z) && (z <? 2 ^ 32).
Definition in_u8 (z : Z) : bool := (0 <=? z) && (z <? 256).
Definition in_i128 (z : Z) : bool := (- 2 ^ 127 <=? z) && (z <? 2 ^ 127).
Definition in_u128 (z : Z) : bool := (0 <=? z) && (z <? 2 ^ 128).

(* LitInt::base10_parse::<T>() *)
Definition parse_lit (ok : Z -> bool) (z : Z) : result Z :=
  if ok z then ROk z else RErr (mk_err "dsl_int" []).

(* ------------------------------------------------------------------ names shared by both front ends *)

Notation "a =s b" := (String.eqb a b) (at level 70).

Definition integer_of_name (s : string) : option integer :=
  if s =s "u8" then Some IU8 else if s =s "u16" then Some IU16 else if s =s "u32" then Some IU32
  else if s =s "i8" then Some II8 else if s =s "i16" then Some II16 else if s =s "i32" then Some II32
  else if s =s "i64" then Some II64 else None.

Definition boundary_names : list string :=
  ["Hyphen"; "Underscore"; "Space"; "LowerUpper"; "UpperLower"; "DigitUpper"; "UpperDigit"; "DigitLower";
   "LowerDigit"; "Acronym"].

Definition is_boundary_name (s : string) : bool := existsb (String.eqb s) boundary_names.

(* mir::GlobalConfig::default() *)
Definition default_config : config :=
  {| g_default_register_access := RW; g_default_field_access := RW; g_default_buffer_access := RW;
     g_default_byte_order := None; g_default_bit_order := BiLSB0; g_register_address_type := None;
     g_command_address_type := None; g_buffer_address_type := None;
     g_boundaries := ["Underscore"; "Hyphen"; "Space"; "LowerUpper"; "UpperDigit"; "DigitUpper"; "DigitLower";
                      "LowerDigit"; "Acronym"];
     g_defmt_feature := None |}.

(* record updates of Mir.config *)
Definition set_g_dra (a : access) (g : config) : config :=
  {| g_default_register_access := a; g_default_field_access := g_default_field_access g;
     g_default_buffer_access := g_default_buffer_access g; g_default_byte_order := g_default_byte_order g;
     g_default_bit_order := g_default_bit_order g; g_register_address_type := g_register_address_type g;
     g_command_address_type := g_command_address_type g; g_buffer_address_type := g_buffer_address_type g;
     g_boundaries := g_boundaries g; g_defmt_feature := g_defmt_feature g |}.
Definition set_g_dfa (a : access) (g : config) : config :=
  {| g_default_register_access := g_default_register_access g; g_default_field_access := a;
     g_default_buffer_access := g_default_buffer_access g; g_default_byte_order := g_default_byte_order g;
     g_default_bit_order := g_default_bit_order g; g_register_address_type := g_register_address_type g;
     g_command_address_type := g_command_address_type g; g_buffer_address_type := g_buffer_address_type g;
     g_boundaries := g_boundaries g; g_defmt_feature := g_defmt_feature g |}.
Definition set_g_dba (a : access) (g : config) : config :=
  {| g_default_register_access := g_default_register_access g; g_default_field_access := g_default_field_access g;
     g_default_buffer_access := a; g_default_byte_order := g_default_byte_order g;
     g_default_bit_order := g_default_bit_order g; g_register_address_type := g_register_address_type g;
     g_command_address_type := g_command_address_type g; g_buffer_address_type := g_buffer_address_type g;
     g_boundaries := g_boundaries g; g_defmt_feature := g_defmt_feature g |}.
Definition set_g_byo (b : option byte_ord) (g : config) : config :=
  {| g_default_register_access := g_default_register_access g; g_default_field_access := g_default_field_access g;
     g_default_buffer_access := g_default_buffer_access g; g_default_byte_order := b;
     g_default_bit_order := g_default_bit_order g; g_register_address_type := g_register_address_type g;
     g_command_address_type := g_command_address_type g; g_buffer_address_type := g_buffer_address_type g;
     g_boundaries := g_boundaries g; g_defmt_feature := g_defmt_feature g |}.
Definition set_g_bio (b : bit_ord) (g : config) : config :=
  {| g_default_register_access := g_default_register_access g; g_default_field_access := g_default_field_access g;
     g_default_buffer_access := g_default_buffer_access g; g_default_byte_order := g_default_byte_order g;
     g_default_bit_order := b; g_register_address_type := g_register_address_type g;
     g_command_address_type := g_command_address_type g; g_buffer_address_type := g_buffer_address_type g;
     g_boundaries := g_boundaries g; g_defmt_feature := g_defmt_feature g |}.
Definition set_g_rat (i : option integer) (g : config) : config :=
  {| g_default_register_access := g_default_register_access g; g_default_field_access := g_default_field_access g;
     g_default_buffer_access := g_default_buffer_access g; g_default_byte_order := g_default_byte_order g;
     g_default_bit_order := g_default_bit_order g; g_register_address_type := i;
     g_command_address_type := g_command_address_type g; g_buffer_address_type := g_buffer_address_type g;
     g_boundaries := g_boundaries g; g_defmt_feature := g_defmt_feature g |}.
Definition set_g_cat (i : option integer) (g : config) : config :=
  {| g_default_register_access := g_default_register_access g; g_default_field_access := g_default_field_access g;
     g_default_buffer_access := g_default_buffer_access g; g_default_byte_order := g_default_byte_order g;
     g_default_bit_order := g_default_bit_order g; g_register_address_type := g_register_address_type g;
     g_command_address_type := i; g_buffer_address_type := g_buffer_address_type g;
     g_boundaries := g_boundaries g; g_defmt_feature := g_defmt_feature g |}.
Definition set_g_bat (i : option integer) (g : config) : config :=
  {| g_default_register_access := g_default_register_access g; g_default_field_access := g_default_field_access g;
     g_default_buffer_access := g_default_buffer_access g; g_default_byte_order := g_default_byte_order g;
     g_default_bit_order := g_default_bit_order g; g_register_address_type := g_register_address_type g;
     g_command_address_type := g_command_address_type g; g_buffer_address_type := i;
     g_boundaries := g_boundaries g; g_defmt_feature := g_defmt_feature g |}.
Definition set_g_nwb (l : list string) (g : config) : config :=
  {| g_default_register_access := g_default_register_access g; g_default_field_access := g_default_field_access g;
     g_default_buffer_access := g_default_buffer_access g; g_default_byte_order := g_default_byte_order g;
     g_default_bit_order := g_default_bit_order g; g_register_address_type := g_register_address_type g;
     g_command_address_type := g_command_address_type g; g_buffer_address_type := g_buffer_address_type g;
     g_boundaries := l; g_defmt_feature := g_defmt_feature g |}.
Definition set_g_defmt (s : option string) (g : config) : config :=
  {| g_default_register_access := g_default_register_access g; g_default_field_access := g_default_field_access g;
     g_default_buffer_access := g_default_buffer_access g; g_default_byte_order := g_default_byte_order g;
     g_default_bit_order := g_default_bit_order g; g_register_address_type := g_register_address_type g;
     g_command_address_type := g_command_address_type g; g_buffer_address_type := g_buffer_address_type g;
     g_boundaries := g_boundaries g; g_defmt_feature := s |}.

(* ================================================================== (b) the DSL HIR and its lowering *)

Inductive attribute := ADoc | ACfg (s : string).

Inductive block_item := BIAddressOffset (z : Z) | BIRepeat (r : repeat).

Inductive register_item :=
| RIAccess (a : access) | RIByteOrder (b : byte_ord) | RIBitOrder (b : bit_ord)
| RIAddress (z : Z) | RISizeBits (z : Z) | RIResetInt (z : Z) | RIResetArr (l : list Z)
| RIRepeat (r : repeat) | RIAllowBitOverlap (b : bool) | RIAllowAddressOverlap (b : bool).

Inductive command_item :=
| CIByteOrder (b : byte_ord) | CIBitOrder (b : bit_ord) | CIAddress (z : Z)
| CISizeBitsIn (z : Z) | CISizeBitsOut (z : Z) | CIRepeat (r : repeat)
| CIAllowBitOverlap (b : bool) | CIAllowAddressOverlap (b : bool).

Inductive field_address := FAInteger (s : Z) | FARange (s e : Z) | FARangeIncl (s e : Z).

Inductive henum_value := HEVSpec (z : Z) | HEVDefault | HEVCatchAll.

Record hvariant := { hv_attrs : list attribute; hv_name : string; hv_value : option henum_value }.

Inductive hconv :=
| HCDirect (path : string) (use_try : bool)
| HCEnum (name : string) (vs : list hvariant) (use_try : bool).

Record hfield := {
  hf_attrs : list attribute; hf_name : string; hf_access : option access; hf_base : base_type;
  hf_conv : option hconv; hf_addr : field_address }.

Inductive command_value :=
| CVBasic (z : Z)
| CVExtended (items : list command_item) (fin fout : option (list hfield)).

Inductive hobject :=
| HBlock (attrs : list attribute) (name : string) (items : list block_item) (objs : list hobject)
| HRegister (attrs : list attribute) (name : string) (items : list register_item) (fields : list hfield)
| HCommand (attrs : list attribute) (name : string) (value : option command_value)
| HBuffer (attrs : list attribute) (name : string) (acc : option access) (address : option Z)
| HRef (attrs : list attribute) (name : string) (obj : hobject).

Inductive hconfig_item :=
| GCDefaultRegisterAccess (a : access) | GCDefaultFieldAccess (a : access) | GCDefaultBufferAccess (a : access)
| GCDefaultByteOrder (b : byte_ord) | GCDefaultBitOrder (b : bit_ord)
| GCRegisterAddressType (ident : string) | GCCommandAddressType (ident : string) | GCBufferAddressType (ident : string)
| GCNameWordBoundaries (l : list string)     (* the PARSER resolves names / applies Boundary::list_from *)
| GCDefmtFeature (s : string).

Record hdevice := { hd_configs : list hconfig_item; hd_objects : list hobject }.

(* ---- global config: TryFrom<GlobalConfigList> ---- *)

Definition config_kind (c : hconfig_item) : nat :=
  match c with
  | GCDefaultRegisterAccess _ => 0 | GCDefaultFieldAccess _ => 1 | GCDefaultBufferAccess _ => 2
  | GCDefaultByteOrder _ => 3 | GCDefaultBitOrder _ => 4 | GCRegisterAddressType _ => 5
  | GCCommandAddressType _ => 6 | GCBufferAddressType _ => 7 | GCNameWordBoundaries _ => 8
  | GCDefmtFeature _ => 9
  end%nat.

Definition count_kind (k : nat) (l : list hconfig_item) : nat :=
  List.length (filter (fun c => Nat.eqb (config_kind c) k) l).

Definition dsl_integer (ident : string) : result integer :=
  match integer_of_name ident with Some i => ROk i | None => RErr (mk_err "dsl_bad_integer_type" [ident]) end.

Definition dsl_config_step (all : list hconfig_item) (c : hconfig_item) (g : config) : result config :=
  if Nat.ltb 1 (count_kind (config_kind c) all) then RErr (mk_err "dsl_dup_config" [])
  else match c with
       | GCDefaultRegisterAccess a => ROk (set_g_dra a g)
       | GCDefaultFieldAccess a => ROk (set_g_dfa a g)
       | GCDefaultBufferAccess a => ROk (set_g_dba a g)
       | GCDefaultByteOrder b => ROk (set_g_byo (Some b) g)
       | GCDefaultBitOrder b => ROk (set_g_bio b g)
       | GCRegisterAddressType s => i <-- dsl_integer s ;; ROk (set_g_rat (Some i) g)
       | GCCommandAddressType s => i <-- dsl_integer s ;; ROk (set_g_cat (Some i) g)
       | GCBufferAddressType s => i <-- dsl_integer s ;; ROk (set_g_bat (Some i) g)
       | GCNameWordBoundaries l => ROk (set_g_nwb l g)
       | GCDefmtFeature s => ROk (set_g_defmt (Some s) g)
       end.

Definition dsl_config (items : list hconfig_item) : result config :=
  foldM (dsl_config_step items) items default_config.

(* ---- attributes ---- *)

Definition cfgs_of (attrs : list attribute) : list string :=
  flat_map (fun a => match a with ACfg s => [s] | ADoc => [] end) attrs.

Definition get_cfg_attr (attrs : list attribute) : result cfg :=
  match cfgs_of attrs with
  | [] => ROk None
  | [c] => ROk (Some c)
  | _ => RErr (mk_err "dsl_multi_cfg" [])
  end.

Definition no_attrs (attrs : list attribute) : bool := match attrs with [] => true | _ => false end.

(* ---- repeat ---- *)

Definition dsl_repeat (r : repeat) : result repeat :=
  c <-- parse_lit in_u64 (r_count r) ;;
  s <-- parse_lit in_i64 (r_stride r) ;;
  ROk {| r_count := c; r_stride := s |}.

(* ---- item pickers (the closures given to find_map) ---- *)

Definition pick_b_offset (i : block_item) := match i with BIAddressOffset z => Some z | _ => None end.
Definition pick_b_repeat (i : block_item) := match i with BIRepeat r => Some r | _ => None end.

Definition pick_r_access (i : register_item) := match i with RIAccess a => Some a | _ => None end.
Definition pick_r_byte_order (i : register_item) := match i with RIByteOrder b => Some b | _ => None end.
Definition pick_r_bit_order (i : register_item) := match i with RIBitOrder b => Some b | _ => None end.
Definition pick_r_allow_bit (i : register_item) := match i with RIAllowBitOverlap b => Some b | _ => None end.
Definition pick_r_allow_addr (i : register_item) := match i with RIAllowAddressOverlap b => Some b | _ => None end.
Definition pick_r_address (i : register_item) := match i with RIAddress z => Some z | _ => None end.
Definition pick_r_size (i : register_item) := match i with RISizeBits z => Some z | _ => None end.
Definition pick_r_repeat (i : register_item) := match i with RIRepeat r => Some r | _ => None end.

(* int.base10_parse::<i128>().map(|v| v as u128).or_else(|_| int.base10_parse::<u128>()) *)
Definition dsl_reset_int (z : Z) : result reset_value :=
  if in_i128 z then ROk (RInt (z mod 2 ^ 128))
  else if in_u128 z then ROk (RInt z)
  else RErr (mk_err "dsl_int" []).

Definition pick_r_reset (i : register_item) : option (result reset_value) :=
  match i with
  | RIResetArr l => Some (ROk (RArr l))
  | RIResetInt z => Some (dsl_reset_int z)
  | _ => None
  end.

Definition pick_c_byte_order (i : command_item) := match i with CIByteOrder b => Some b | _ => None end.
Definition pick_c_bit_order (i : command_item) := match i with CIBitOrder b => Some b | _ => None end.
Definition pick_c_address (i : command_item) := match i with CIAddress z => Some z | _ => None end.
Definition pick_c_size_in (i : command_item) := match i with CISizeBitsIn z => Some z | _ => None end.
Definition pick_c_size_out (i : command_item) := match i with CISizeBitsOut z => Some z | _ => None end.
Definition pick_c_repeat (i : command_item) := match i with CIRepeat r => Some r | _ => None end.
Definition pick_c_allow_bit (i : command_item) := match i with CIAllowBitOverlap b => Some b | _ => None end.
Definition pick_c_allow_addr (i : command_item) := match i with CIAllowAddressOverlap b => Some b | _ => None end.

(* ---- fields ---- *)

Definition dsl_variant (v : hvariant) : result variant :=
  c <-- get_cfg_attr (hv_attrs v) ;;
  val <-- match hv_value v with
          | None => ROk EVUnspec
          | Some (HEVSpec z) => z' <-- parse_lit in_i128 z ;; ROk (EVSpec z')
          | Some HEVDefault => ROk EVDefault
          | Some HEVCatchAll => ROk EVCatchAll
          end ;;
  ROk {| v_cfg := c; v_name := hv_name v; v_value := val |}.

Definition dsl_conv (fc : hconv) : result conversion :=
  match fc with
  | HCDirect path t => ROk (ConvDirect path t)
  | HCEnum name vs t =>
      vs' <-- mapM dsl_variant vs ;;
      ROk (ConvEnum {| e_cfg := None; e_name := name; e_variants := vs'; e_style := None |} t)
  end.

Definition is_bool_base (b : base_type) : bool := match b with BBool => true | _ => false end.

Definition dsl_field_address (name : string) (base : base_type) (a : field_address) : result (Z * Z) :=
  match a with
  | FAInteger s =>
      if is_bool_base base then s1 <-- parse_lit in_u32 s ;; s2 <-- parse_lit in_u32 s ;; ROk (s1, s2)
      else RErr (mk_err "dsl_nonbool_single" [name])
  | FARange s e => s' <-- parse_lit in_u32 s ;; e' <-- parse_lit in_u32 e ;; ROk (s', e')
  | FARangeIncl s e =>
      s' <-- parse_lit in_u32 s ;; e' <-- parse_lit in_u32 e ;;
      (* `end + 1` in u32: overflow panics in a debug build *)
      if e' =? 2 ^ 32 - 1 then RErr (mk_err "panic_add_overflow" []) else ROk (s', e' + 1)
  end.

Definition dsl_field (g : config) (f : hfield) : result field :=
  c <-- get_cfg_attr (hf_attrs f) ;;
  conv <-- transpose (option_map dsl_conv (hf_conv f)) ;;
  se <-- dsl_field_address (hf_name f) (hf_base f) (hf_addr f) ;;
  ROk {| f_cfg := c; f_name := hf_name f; f_access := or_default (hf_access f) (g_default_field_access g);
         f_base := hf_base f; f_conv := conv; f_start := fst se; f_end := snd se |}.

(* ---- objects ---- *)

Definition dsl_register (g : config) (attrs : list attribute) (name : string) (items : list register_item)
           (fields : list hfield) : result register :=
  c <-- get_cfg_attr attrs ;;
  addr <-- match find_map pick_r_address items with
           | Some z => parse_lit in_i64 z
           | None => RErr (mk_err "dsl_missing" ["Register"; name; "address"])
           end ;;
  size <-- match find_map pick_r_size items with
           | Some z => parse_lit in_u32 z
           | None => RErr (mk_err "dsl_missing" ["Register"; name; "size bits specified"])
           end ;;
  reset <-- transpose (find_map pick_r_reset items) ;;
  rep <-- transpose (option_map dsl_repeat (find_map pick_r_repeat items)) ;;
  fs <-- mapM (dsl_field g) fields ;;
  ROk {| rg_cfg := c; rg_name := name;
         rg_access := or_default (find_map pick_r_access items) (g_default_register_access g);
         rg_byte_order := find_map pick_r_byte_order items;
         rg_bit_order := or_default (find_map pick_r_bit_order items) (g_default_bit_order g);
         rg_allow_bit_overlap := or_default (find_map pick_r_allow_bit items) false;
         rg_allow_address_overlap := or_default (find_map pick_r_allow_addr items) false;
         rg_address := addr; rg_size_bits := size; rg_reset := reset; rg_repeat := rep; rg_fields := fs |}.

Definition cv_items (v : command_value) : list command_item :=
  match v with CVBasic _ => [] | CVExtended items _ _ => items end.

Definition dsl_command (g : config) (attrs : list attribute) (name : string) (value : option command_value)
  : result command :=
  match value with
  | None => RErr (mk_err "dsl_missing" ["Command"; name; "value"])
  | Some v =>
      c <-- get_cfg_attr attrs ;;
      addr <-- match v with
               | CVBasic z => parse_lit in_i64 z
               | CVExtended items _ _ =>
                   match find_map pick_c_address items with
                   | Some z => parse_lit in_i64 z
                   | None => RErr (mk_err "dsl_missing" ["Command"; name; "address"])
                   end
               end ;;
      let items := cv_items v in
      sin <-- match find_map pick_c_size_in items with Some z => parse_lit in_u32 z | None => ROk 0 end ;;
      sout <-- match find_map pick_c_size_out items with Some z => parse_lit in_u32 z | None => ROk 0 end ;;
      rep <-- transpose (option_map dsl_repeat (find_map pick_c_repeat items)) ;;
      fin <-- match v with
              | CVExtended _ (Some l) _ => mapM (dsl_field g) l
              | _ => ROk []
              end ;;
      fout <-- match v with
               | CVExtended _ _ (Some l) => mapM (dsl_field g) l
               | _ => ROk []
               end ;;
      ROk {| cm_cfg := c; cm_name := name; cm_address := addr;
             cm_byte_order := find_map pick_c_byte_order items;
             cm_bit_order := or_default (find_map pick_c_bit_order items) (g_default_bit_order g);
             cm_allow_bit_overlap := or_default (find_map pick_c_allow_bit items) false;
             cm_allow_address_overlap := or_default (find_map pick_c_allow_addr items) false;
             cm_size_in := sin; cm_size_out := sout; cm_repeat := rep;
             cm_in_fields := fin; cm_out_fields := fout |}
  end.

Definition dsl_buffer (g : config) (attrs : list attribute) (name : string) (acc : option access)
           (address : option Z) : result buffer :=
  c <-- get_cfg_attr attrs ;;
  addr <-- match address with
           | Some z => parse_lit in_i64 z
           | None => RErr (mk_err "dsl_missing" ["Buffer"; name; "address"])
           end ;;
  ROk {| bf_cfg := c; bf_name := name; bf_access := or_default acc (g_default_buffer_access g);
         bf_address := addr |}.

(* ---- ref overrides ---- *)

Definition forbidden (what kind : string) : gen_error := mk_err "dsl_override_forbidden" [what; kind].

Definition dsl_block_override (attrs : list attribute) (name : string) (items : list block_item)
           (objs : list hobject) : result override :=
  if negb (no_attrs attrs) then RErr (forbidden "attributes" "block")
  else match objs with
       | _ :: _ => RErr (forbidden "objects" "block")
       | [] =>
           off <-- transpose (option_map (parse_lit in_i64) (find_map pick_b_offset items)) ;;
           rep <-- transpose (option_map dsl_repeat (find_map pick_b_repeat items)) ;;
           ROk (OvBlock name off rep)
       end.

Definition r_item_forbidden (i : register_item) : option gen_error :=
  match i with
  | RIByteOrder _ => Some (forbidden "ByteOrder" "register")
  | RIBitOrder _ => Some (forbidden "BitOrder" "register")
  | RISizeBits _ => Some (forbidden "SizeBits" "register")
  | RIAllowBitOverlap _ => Some (forbidden "AllowBitOverlap" "register")
  | _ => None
  end.

Definition dsl_register_override (attrs : list attribute) (name : string) (items : list register_item)
           (fields : list hfield) : result override :=
  if negb (no_attrs attrs) then RErr (forbidden "attributes" "register")
  else match fields with
       | _ :: _ => RErr (forbidden "fields" "register")
       | [] =>
           match find_map r_item_forbidden items with
           | Some e => RErr e
           | None =>
               addr <-- transpose (option_map (parse_lit in_i64) (find_map pick_r_address items)) ;;
               reset <-- transpose (find_map pick_r_reset items) ;;
               rep <-- transpose (option_map dsl_repeat (find_map pick_r_repeat items)) ;;
               ROk (OvRegister name (find_map pick_r_access items) addr
                               (or_default (find_map pick_r_allow_addr items) false) reset rep)
           end
       end.

Definition c_item_forbidden (i : command_item) : option gen_error :=
  match i with
  | CIByteOrder _ => Some (forbidden "ByteOrder" "command")
  | CIBitOrder _ => Some (forbidden "BitOrder" "command")
  | CISizeBitsIn _ => Some (forbidden "SizeBitsIn" "command")
  | CISizeBitsOut _ => Some (forbidden "SizeBitsOut" "command")
  | CIAllowBitOverlap _ => Some (forbidden "AllowBitOverlap" "command")
  | _ => None
  end.

Definition dsl_command_override (attrs : list attribute) (name : string) (value : option command_value)
  : result override :=
  if negb (no_attrs attrs) then RErr (forbidden "attributes" "command")
  else match value with
       | Some (CVExtended _ (Some _) _) => RErr (forbidden "in" "command")
       | Some (CVExtended _ None (Some _)) => RErr (forbidden "out" "command")
       | Some (CVExtended items None None) =>
           match find_map c_item_forbidden items with
           | Some e => RErr e
           | None =>
               addr <-- transpose (option_map (parse_lit in_i64) (find_map pick_c_address items)) ;;
               rep <-- transpose (option_map dsl_repeat (find_map pick_c_repeat items)) ;;
               ROk (OvCommand name addr (or_default (find_map pick_c_allow_addr items) false) rep)
           end
       | Some (CVBasic _) => RErr (forbidden "basic" "command")
       | None => RErr (mk_err "dsl_override_value_required" [])
       end.

Fixpoint dsl_object (g : config) (o : hobject) {struct o} : result object :=
  match o with
  | HBlock attrs name items objs =>
      c <-- get_cfg_attr attrs ;;
      off <-- match find_map pick_b_offset items with Some z => parse_lit in_i64 z | None => ROk 0 end ;;
      rep <-- transpose (option_map dsl_repeat (find_map pick_b_repeat items)) ;;
      objs' <-- mapR (dsl_object g) objs ;;
      ROk (OBlock c name off rep objs')
  | HRegister attrs name items fields => rmap ORegister (dsl_register g attrs name items fields)
  | HCommand attrs name value => rmap OCommand (dsl_command g attrs name value)
  | HBuffer attrs name acc address => rmap OBuffer (dsl_buffer g attrs name acc address)
  | HRef attrs name obj =>
      c <-- get_cfg_attr attrs ;;
      ov <-- match obj with
             | HBlock a n items objs => dsl_block_override a n items objs
             | HRegister a n items fields => dsl_register_override a n items fields
             | HCommand a n v => dsl_command_override a n v
             | HBuffer _ _ _ _ => RErr (mk_err "dsl_ref_buffer" [name])
             | HRef _ _ _ => RErr (mk_err "dsl_ref_ref" [name])
             end ;;
      ROk (ORef c name ov)
  end.

Definition lower_dsl (d : hdevice) : result device :=
  g <-- dsl_config (hd_configs d) ;;
  objs <-- mapM (dsl_object g) (hd_objects d) ;;
  ROk {| d_config := g; d_objects := objs |}.

(* ================================================================== (c) the manifest value tree and its lowering *)

Inductive mvalue :=
| MNull | MBool (b : bool) | MInt (z : Z) | MStr (s : string)
| MArr (l : list mvalue)
| MMap (kvs : list (string * mvalue)).     (* maps preserve insertion order (serde_json / toml: preserve_order) *)

Definition type_err (expected : string) : gen_error := mk_err "manifest_type" [expected].

(* dd_manifest_tree::Value (JSON reading of the integer forms: as_uint = u64, as_int = i64) *)
Definition as_null (v : mvalue) : result unit := match v with MNull => ROk tt | _ => RErr (type_err "null") end.
Definition as_bool (v : mvalue) : result bool := match v with MBool b => ROk b | _ => RErr (type_err "bool") end.
Definition as_uint (v : mvalue) : result Z :=
  match v with MInt z => if in_u64 z then ROk z else RErr (type_err "uint") | _ => RErr (type_err "uint") end.
Definition as_int (v : mvalue) : result Z :=
  match v with MInt z => if in_i64 z then ROk z else RErr (type_err "int") | _ => RErr (type_err "int") end.
Definition as_string (v : mvalue) : result string := match v with MStr s => ROk s | _ => RErr (type_err "string") end.
Definition as_array (v : mvalue) : result (list mvalue) := match v with MArr l => ROk l | _ => RErr (type_err "array") end.
Definition as_map (v : mvalue) : result (list (string * mvalue)) :=
  match v with MMap kvs => ROk kvs | _ => RErr (type_err "map") end.

Definition is_ok_r {A} (r : result A) : bool := match r with ROk _ => true | RErr _ => false end.

Fixpoint mget (k : string) (kvs : list (string * mvalue)) : option mvalue :=
  match kvs with
  | [] => None
  | (k', v) :: t => if k' =s k then Some v else mget k t
  end.

Definition contains_key (k : string) (kvs : list (string * mvalue)) : bool :=
  match mget k kvs with Some _ => true | None => false end.

(* u64 -> u32 try_into *)
Definition to_u32 (z : Z) : result Z := if in_u32 z then ROk z else RErr (mk_err "manifest_int" []).
Definition as_u32 (v : mvalue) : result Z := z <-- as_uint v ;; to_u32 z.

Definition m_access (v : mvalue) : result access :=
  s <-- as_string v ;;
  if (s =s "ReadWrite") || (s =s "RW") then ROk RW
  else if (s =s "ReadOnly") || (s =s "RO") then ROk RO
  else if (s =s "WriteOnly") || (s =s "WO") then ROk WO
  else RErr (mk_err "manifest_bad_value" ["access"; s]).

Definition m_byte_order (v : mvalue) : result byte_ord :=
  s <-- as_string v ;;
  if s =s "LE" then ROk BoLE else if s =s "BE" then ROk BoBE else RErr (mk_err "manifest_bad_value" ["byte order"; s]).

Definition m_bit_order (v : mvalue) : result bit_ord :=
  s <-- as_string v ;;
  if s =s "LSB0" then ROk BiLSB0 else if s =s "MSB0" then ROk BiMSB0
  else RErr (mk_err "manifest_bad_value" ["bit order"; s]).

Definition m_integer_type (v : mvalue) : result integer :=
  s <-- as_string v ;;
  match integer_of_name s with Some i => ROk i | None => RErr (mk_err "manifest_bad_value" ["integer type"; s]) end.

Definition m_base_type (v : mvalue) : result base_type :=
  s <-- as_string v ;;
  if s =s "bool" then ROk BBool else if s =s "int" then ROk BInt else if s =s "uint" then ROk BUint
  else RErr (mk_err "manifest_bad_value" ["base"; s]).

Section WithListFrom.
(* convert_case::Boundary::list_from, as Debug names — external to both front ends, the same function in both *)
Variable list_from : string -> list string.

Definition m_boundaries (v : mvalue) : result (list string) :=
  match v with
  | MStr s => ROk (list_from s)
  | MArr l =>
      mapM (fun b => s <-- as_string b ;;
                     if is_boundary_name s then ROk s else RErr (mk_err "bad_boundary" [s])) l
  | _ => RErr (mk_err "manifest_type" ["string or array"])
  end.

Definition m_config_step (kv : string * mvalue) (g : config) : result config :=
  let (k, v) := kv in
  if k =s "default_register_access" then a <-- m_access v ;; ROk (set_g_dra a g)
  else if k =s "default_field_access" then a <-- m_access v ;; ROk (set_g_dfa a g)
  else if k =s "default_buffer_access" then a <-- m_access v ;; ROk (set_g_dba a g)
  else if k =s "default_byte_order" then b <-- m_byte_order v ;; ROk (set_g_byo (Some b) g)
  else if k =s "default_bit_order" then b <-- m_bit_order v ;; ROk (set_g_bio b g)
  else if k =s "register_address_type" then i <-- m_integer_type v ;; ROk (set_g_rat (Some i) g)
  else if k =s "command_address_type" then i <-- m_integer_type v ;; ROk (set_g_cat (Some i) g)
  else if k =s "buffer_address_type" then i <-- m_integer_type v ;; ROk (set_g_bat (Some i) g)
  else if k =s "name_word_boundaries" then l <-- m_boundaries v ;; ROk (set_g_nwb l g)
  else if k =s "defmt_feature" then s <-- as_string v ;; ROk (set_g_defmt (Some s) g)
  else RErr (mk_err "manifest_unknown_config" [k]).

Definition m_config (v : mvalue) : result config :=
  kvs <-- as_map v ;; foldM m_config_step kvs default_config.

End WithListFrom.

(* ---- repeat ---- *)

Definition m_repeat (v : mvalue) : result repeat :=
  kvs <-- as_map v ;;
  c <-- match mget "count" kvs with Some x => as_uint x | None => RErr (mk_err "manifest_missing" ["Repeat"; "count"]) end ;;
  s <-- match mget "stride" kvs with Some x => as_int x | None => RErr (mk_err "manifest_missing" ["Repeat"; "stride"]) end ;;
  match find (fun kv => negb (fst kv =s "count") && negb (fst kv =s "stride")) kvs with
  | Some kv => RErr (mk_err "manifest_unexpected_key" [fst kv])
  | None => ROk {| r_count := c; r_stride := s |}
  end.

(* ---- reset value ---- *)

Definition m_reset (v : mvalue) : result reset_value :=
  match as_uint v with
  | ROk z => ROk (RInt z)
  | RErr _ =>
      match as_array v with
      | ROk l => bs <-- mapM (fun x => z <-- as_uint x ;;
                                       if in_u8 z then ROk z else RErr (mk_err "manifest_int" [])) l ;;
                 ROk (RArr bs)
      | RErr _ => RErr (mk_err "manifest_type" ["integer or array"])
      end
  end.

(* ---- fields ---- *)

Definition m_enum_value (v : mvalue) : result enum_value :=
  if is_ok_r (as_null v) then ROk EVUnspec
  else match as_int v with
       | ROk z => ROk (EVSpec z)
       | RErr _ =>
           match as_string v with
           | ROk s => if s =s "default" then ROk EVDefault else if s =s "catch_all" then ROk EVCatchAll
                      else RErr (mk_err "manifest_bad_value" ["enum value"; s])
           | RErr _ => RErr (mk_err "manifest_type" ["null, int or string"])
           end
       end.

Definition m_variant (kv : string * mvalue) : result variant :=
  let (name, v) := kv in
  match v with
  | MMap kvs =>
      c <-- transpose (option_map as_string (mget "cfg" kvs)) ;;
      _d <-- transpose (option_map as_string (mget "description" kvs)) ;;
      val <-- transpose (option_map m_enum_value (mget "value" kvs)) ;;
      ROk {| v_cfg := c; v_name := name; v_value := or_default val EVUnspec |}
  | _ =>
      match m_enum_value v with
      | ROk val => ROk {| v_cfg := None; v_name := name; v_value := val |}
      | RErr _ => RErr (mk_err "manifest_bad_variant" [name])
      end
  end.

Definition m_conv (v : mvalue) (use_try : bool) : result conversion :=
  match v with
  | MStr s => ROk (ConvDirect s use_try)
  | MMap kvs =>
      name <-- match mget "name" kvs with Some x => as_string x | None => RErr (mk_err "manifest_missing" ["Enum"; "name"]) end ;;
      _d <-- transpose (option_map as_string (mget "description" kvs)) ;;
      vs <-- mapM m_variant (filter (fun kv => negb (fst kv =s "name") && negb (fst kv =s "description")) kvs) ;;
      ROk (ConvEnum {| e_cfg := None; e_name := name; e_variants := vs; e_style := None |} use_try)
  | _ => RErr (mk_err "manifest_type" ["string or map"])
  end.

Definition set_f_cfg (c : cfg) (f : field) : field :=
  {| f_cfg := c; f_name := f_name f; f_access := f_access f; f_base := f_base f; f_conv := f_conv f;
     f_start := f_start f; f_end := f_end f |}.
Definition set_f_access (a : access) (f : field) : field :=
  {| f_cfg := f_cfg f; f_name := f_name f; f_access := a; f_base := f_base f; f_conv := f_conv f;
     f_start := f_start f; f_end := f_end f |}.
Definition set_f_base (b : base_type) (f : field) : field :=
  {| f_cfg := f_cfg f; f_name := f_name f; f_access := f_access f; f_base := b; f_conv := f_conv f;
     f_start := f_start f; f_end := f_end f |}.
Definition set_f_conv (c : option conversion) (f : field) : field :=
  {| f_cfg := f_cfg f; f_name := f_name f; f_access := f_access f; f_base := f_base f; f_conv := c;
     f_start := f_start f; f_end := f_end f |}.
Definition set_f_start (s : Z) (f : field) : field :=
  {| f_cfg := f_cfg f; f_name := f_name f; f_access := f_access f; f_base := f_base f; f_conv := f_conv f;
     f_start := s; f_end := f_end f |}.
Definition set_f_end (e : Z) (f : field) : field :=
  {| f_cfg := f_cfg f; f_name := f_name f; f_access := f_access f; f_base := f_base f; f_conv := f_conv f;
     f_start := f_start f; f_end := e |}.

Definition m_field_step (all : list (string * mvalue)) (kv : string * mvalue) (f : field) : result field :=
  let (k, v) := kv in
  if k =s "cfg" then s <-- as_string v ;; ROk (set_f_cfg (Some s) f)
  else if k =s "description" then _s <-- as_string v ;; ROk f
  else if k =s "access" then a <-- m_access v ;; ROk (set_f_access a f)
  else if k =s "base" then b <-- m_base_type v ;; ROk (set_f_base b f)
  else if k =s "conversion" then c <-- m_conv v false ;; ROk (set_f_conv (Some c) f)
  else if k =s "try_conversion" then
    if contains_key "conversion" all then RErr (mk_err "manifest_both_conversions" [])
    else c <-- m_conv v true ;; ROk (set_f_conv (Some c) f)
  else if k =s "start" then
    s <-- as_u32 v ;;
    ROk (if contains_key "end" all then set_f_start s f else set_f_end s (set_f_start s f))
  else if k =s "end" then e <-- as_u32 v ;; ROk (set_f_end e f)
  else RErr (mk_err "manifest_unexpected_key" [k]).

(* [dfa] = the access a field starts from: the global default after df2c08c, Access::default() before *)
Definition m_field (dfa : access) (kv : string * mvalue) : result field :=
  let (name, v) := kv in
  kvs <-- as_map v ;;
  if negb (contains_key "base" kvs) then RErr (mk_err "manifest_missing" ["Field"; "base"])
  else if negb (contains_key "start" kvs) then RErr (mk_err "manifest_missing" ["Field"; "start"])
  else foldM (m_field_step kvs) kvs
             {| f_cfg := None; f_name := name; f_access := dfa; f_base := BUint; f_conv := None;
                f_start := 0; f_end := 0 |}.

Definition m_fields (dfa : access) (v : mvalue) : result (list field) :=
  kvs <-- as_map v ;; mapM (m_field dfa) kvs.

(* ---- register ---- *)


Definition upd_register (r : register) (c : option cfg) (acc : option access) (byo : option (option byte_ord))
           (bio : option bit_ord) (abo aao : option bool) (addr size : option Z)
           (reset : option (option reset_value)) (rep : option (option repeat)) (fs : option (list field)) : register :=
  {| rg_cfg := or_default c (rg_cfg r); rg_name := rg_name r; rg_access := or_default acc (rg_access r);
     rg_byte_order := or_default byo (rg_byte_order r); rg_bit_order := or_default bio (rg_bit_order r);
     rg_allow_bit_overlap := or_default abo (rg_allow_bit_overlap r);
     rg_allow_address_overlap := or_default aao (rg_allow_address_overlap r);
     rg_address := or_default addr (rg_address r); rg_size_bits := or_default size (rg_size_bits r);
     rg_reset := or_default reset (rg_reset r); rg_repeat := or_default rep (rg_repeat r);
     rg_fields := or_default fs (rg_fields r) |}.

Definition m_register_step (dfa : access) (kv : string * mvalue) (r : register) : result register :=
  let (k, v) := kv in
  let N {A} : option A := None in
  if k =s "type" then ROk r
  else if k =s "cfg" then s <-- as_string v ;; ROk (upd_register r (Some (Some s)) N N N N N N N N N N)
  else if k =s "description" then _s <-- as_string v ;; ROk r
  else if k =s "access" then a <-- m_access v ;; ROk (upd_register r N (Some a) N N N N N N N N N)
  else if k =s "byte_order" then b <-- m_byte_order v ;; ROk (upd_register r N N (Some (Some b)) N N N N N N N N)
  else if k =s "bit_order" then b <-- m_bit_order v ;; ROk (upd_register r N N N (Some b) N N N N N N N)
  else if k =s "address" then z <-- as_int v ;; ROk (upd_register r N N N N N N (Some z) N N N N)
  else if k =s "size_bits" then z <-- as_u32 v ;; ROk (upd_register r N N N N N N N (Some z) N N N)
  else if k =s "reset_value" then x <-- m_reset v ;; ROk (upd_register r N N N N N N N N (Some (Some x)) N N)
  else if k =s "repeat" then x <-- m_repeat v ;; ROk (upd_register r N N N N N N N N N (Some (Some x)) N)
  else if k =s "allow_bit_overlap" then b <-- as_bool v ;; ROk (upd_register r N N N N (Some b) N N N N N N)
  else if k =s "allow_address_overlap" then b <-- as_bool v ;; ROk (upd_register r N N N N N (Some b) N N N N N)
  else if k =s "fields" then fs <-- m_fields dfa v ;; ROk (upd_register r N N N N N N N N N N (Some fs))
  else RErr (mk_err "manifest_unexpected_key" [k]).

(* [dra dfa dbi]: what access / bit order the record is initialised with *)
Definition m_register (dra dfa : access) (dbi : bit_ord) (name : string) (kvs : list (string * mvalue))
  : result register :=
  if negb (contains_key "address" kvs) then RErr (mk_err "manifest_missing" ["Register"; "address"])
  else if negb (contains_key "size_bits" kvs) then RErr (mk_err "manifest_missing" ["Register"; "size_bits"])
  else foldM (m_register_step dfa) kvs
             {| rg_cfg := None; rg_name := name; rg_access := dra; rg_byte_order := None; rg_bit_order := dbi;
                rg_allow_bit_overlap := false; rg_allow_address_overlap := false; rg_address := 0;
                rg_size_bits := 0; rg_reset := None; rg_repeat := None; rg_fields := [] |}.

(* ---- command ---- *)

Definition upd_command (r : command) (c : option cfg) (byo : option (option byte_ord)) (bio : option bit_ord)
           (abo aao : option bool) (addr sin sout : option Z) (rep : option (option repeat))
           (fin fout : option (list field)) : command :=
  {| cm_cfg := or_default c (cm_cfg r); cm_name := cm_name r; cm_address := or_default addr (cm_address r);
     cm_byte_order := or_default byo (cm_byte_order r); cm_bit_order := or_default bio (cm_bit_order r);
     cm_allow_bit_overlap := or_default abo (cm_allow_bit_overlap r);
     cm_allow_address_overlap := or_default aao (cm_allow_address_overlap r);
     cm_size_in := or_default sin (cm_size_in r); cm_size_out := or_default sout (cm_size_out r);
     cm_repeat := or_default rep (cm_repeat r);
     cm_in_fields := or_default fin (cm_in_fields r); cm_out_fields := or_default fout (cm_out_fields r) |}.

Definition m_command_step (dfa : access) (kv : string * mvalue) (r : command) : result command :=
  let (k, v) := kv in
  let N {A} : option A := None in
  if k =s "type" then ROk r
  else if k =s "cfg" then s <-- as_string v ;; ROk (upd_command r (Some (Some s)) N N N N N N N N N N)
  else if k =s "description" then _s <-- as_string v ;; ROk r
  else if k =s "byte_order" then b <-- m_byte_order v ;; ROk (upd_command r N (Some (Some b)) N N N N N N N N N)
  else if k =s "bit_order" then b <-- m_bit_order v ;; ROk (upd_command r N N (Some b) N N N N N N N N)
  else if k =s "address" then z <-- as_int v ;; ROk (upd_command r N N N N N (Some z) N N N N N)
  else if k =s "size_bits_in" then z <-- as_u32 v ;; ROk (upd_command r N N N N N N (Some z) N N N N)
  else if k =s "size_bits_out" then z <-- as_u32 v ;; ROk (upd_command r N N N N N N N (Some z) N N N)
  else if k =s "repeat" then x <-- m_repeat v ;; ROk (upd_command r N N N N N N N N (Some (Some x)) N N)
  else if k =s "allow_bit_overlap" then b <-- as_bool v ;; ROk (upd_command r N N N (Some b) N N N N N N N)
  else if k =s "allow_address_overlap" then b <-- as_bool v ;; ROk (upd_command r N N N N (Some b) N N N N N N)
  else if k =s "fields_in" then fs <-- m_fields dfa v ;; ROk (upd_command r N N N N N N N N N (Some fs) N)
  else if k =s "fields_out" then fs <-- m_fields dfa v ;; ROk (upd_command r N N N N N N N N N N (Some fs))
  else RErr (mk_err "manifest_unexpected_key" [k]).

Definition m_command (dfa : access) (dbi : bit_ord) (name : string) (kvs : list (string * mvalue)) : result command :=
  if negb (contains_key "address" kvs) then RErr (mk_err "manifest_missing" ["Command"; "address"])
  else foldM (m_command_step dfa) kvs
             {| cm_cfg := None; cm_name := name; cm_address := 0; cm_byte_order := None; cm_bit_order := dbi;
                cm_allow_bit_overlap := false; cm_allow_address_overlap := false; cm_size_in := 0; cm_size_out := 0;
                cm_repeat := None; cm_in_fields := []; cm_out_fields := [] |}.

(* ---- buffer ---- *)

Definition m_buffer_step (kv : string * mvalue) (b : buffer) : result buffer :=
  let (k, v) := kv in
  if k =s "type" then ROk b
  else if k =s "cfg" then
    s <-- as_string v ;; ROk {| bf_cfg := Some s; bf_name := bf_name b; bf_access := bf_access b; bf_address := bf_address b |}
  else if k =s "description" then _s <-- as_string v ;; ROk b
  else if k =s "access" then
    a <-- m_access v ;; ROk {| bf_cfg := bf_cfg b; bf_name := bf_name b; bf_access := a; bf_address := bf_address b |}
  else if k =s "address" then
    z <-- as_int v ;; ROk {| bf_cfg := bf_cfg b; bf_name := bf_name b; bf_access := bf_access b; bf_address := z |}
  else RErr (mk_err "manifest_unexpected_key" [k]).

Definition m_buffer (dba : access) (name : string) (kvs : list (string * mvalue)) : result buffer :=
  if negb (contains_key "address" kvs) then RErr (mk_err "manifest_missing" ["Buffer"; "address"])
  else foldM m_buffer_step kvs {| bf_cfg := None; bf_name := name; bf_access := dba; bf_address := 0 |}.

(* ---- ref overrides ---- *)

(* errors raised while lowering the `override` map carry the context "Parsing error for 'override'" *)
Definition in_override (e : gen_error) : gen_error :=
  if e_kind e =s "manifest_unexpected_key" then mk_err "manifest_override_unexpected_key" (e_args e) else e.

Definition m_block_override_step (kv : string * mvalue) (o : option Z * option repeat)
  : result (option Z * option repeat) :=
  let (k, v) := kv in
  if k =s "type" then ROk o
  else if k =s "address_offset" then z <-- as_int v ;; ROk (Some z, snd o)
  else if k =s "repeat" then r <-- m_repeat v ;; ROk (fst o, Some r)
  else RErr (mk_err "manifest_unexpected_key" [k]).

Record reg_ov := { ro_access : option access; ro_address : option Z; ro_allow : bool;
                   ro_reset : option reset_value; ro_repeat : option repeat }.

Definition m_register_override_step (kv : string * mvalue) (o : reg_ov) : result reg_ov :=
  let (k, v) := kv in
  if k =s "type" then ROk o
  else if k =s "access" then
    a <-- m_access v ;; ROk {| ro_access := Some a; ro_address := ro_address o; ro_allow := ro_allow o;
                               ro_reset := ro_reset o; ro_repeat := ro_repeat o |}
  else if k =s "address" then
    z <-- as_int v ;; ROk {| ro_access := ro_access o; ro_address := Some z; ro_allow := ro_allow o;
                             ro_reset := ro_reset o; ro_repeat := ro_repeat o |}
  else if k =s "reset_value" then
    x <-- m_reset v ;; ROk {| ro_access := ro_access o; ro_address := ro_address o; ro_allow := ro_allow o;
                              ro_reset := Some x; ro_repeat := ro_repeat o |}
  else if k =s "repeat" then
    x <-- m_repeat v ;; ROk {| ro_access := ro_access o; ro_address := ro_address o; ro_allow := ro_allow o;
                               ro_reset := ro_reset o; ro_repeat := Some x |}
  else if k =s "allow_address_overlap" then
    b <-- as_bool v ;; ROk {| ro_access := ro_access o; ro_address := ro_address o; ro_allow := b;
                              ro_reset := ro_reset o; ro_repeat := ro_repeat o |}
  else RErr (mk_err "manifest_unexpected_key" [k]).

Record cmd_ov := { co_address : option Z; co_allow : bool; co_repeat : option repeat }.

Definition m_command_override_step (kv : string * mvalue) (o : cmd_ov) : result cmd_ov :=
  let (k, v) := kv in
  if k =s "type" then ROk o
  else if k =s "address" then
    z <-- as_int v ;; ROk {| co_address := Some z; co_allow := co_allow o; co_repeat := co_repeat o |}
  else if k =s "repeat" then
    x <-- m_repeat v ;; ROk {| co_address := co_address o; co_allow := co_allow o; co_repeat := Some x |}
  else if k =s "allow_address_overlap" then
    b <-- as_bool v ;; ROk {| co_address := co_address o; co_allow := b; co_repeat := co_repeat o |}
  else RErr (mk_err "manifest_unexpected_key" [k]).

Definition m_object_override (target : string) (v : mvalue) : result override :=
  kvs <-- as_map v ;;
  ty <-- match mget "type" kvs with Some x => as_string x | None => RErr (mk_err "manifest_no_type" []) end ;;
  if ty =s "block" then
    o <-- foldM m_block_override_step kvs (None, None) ;; ROk (OvBlock target (fst o) (snd o))
  else if ty =s "register" then
    o <-- foldM m_register_override_step kvs
            {| ro_access := None; ro_address := None; ro_allow := false; ro_reset := None; ro_repeat := None |} ;;
    ROk (OvRegister target (ro_access o) (ro_address o) (ro_allow o) (ro_reset o) (ro_repeat o))
  else if ty =s "command" then
    o <-- foldM m_command_override_step kvs {| co_address := None; co_allow := false; co_repeat := None |} ;;
    ROk (OvCommand target (co_address o) (co_allow o) (co_repeat o))
  else if ty =s "buffer" then RErr (mk_err "manifest_ref_buffer" [])
  else if ty =s "ref" then RErr (mk_err "manifest_ref_ref" [])
  else RErr (mk_err "manifest_bad_value" ["object type"; ty]).

Definition m_ref_step (kv : string * mvalue) (c : cfg) : result cfg :=
  let (k, v) := kv in
  if k =s "type" then ROk c
  else if k =s "cfg" then s <-- as_string v ;; ROk (Some s)
  else if k =s "description" then _s <-- as_string v ;; ROk c
  else if k =s "target" then ROk c
  else if k =s "override" then ROk c
  else RErr (mk_err "manifest_unexpected_key" [k]).

Definition m_ref (name : string) (kvs : list (string * mvalue)) : result object :=
  match mget "target" kvs, mget "override" kvs with
  | None, _ => RErr (mk_err "manifest_missing" ["Ref"; "target"])
  | Some _, None => RErr (mk_err "manifest_missing" ["Ref"; "override"])
  | Some tv, Some ov =>
      target <-- as_string tv ;;
      c <-- foldM m_ref_step kvs None ;;
      o <-- match m_object_override target ov with ROk o => ROk o | RErr e => RErr (in_override e) end ;;
      ROk (ORef c name o)
  end.

(* ---- objects (transform_object_with_config / transform_block) ---- *)

Record mdefaults := { md_reg : access; md_field : access; md_buf : access; md_bit : bit_ord }.

Definition defaults_of (g : config) : mdefaults :=
  {| md_reg := g_default_register_access g; md_field := g_default_field_access g;
     md_buf := g_default_buffer_access g; md_bit := g_default_bit_order g |}.

(* Default::default() for every record: the behaviour before commit df2c08c *)
Definition no_defaults : mdefaults := {| md_reg := RW; md_field := RW; md_buf := RW; md_bit := BiLSB0 |}.

Record block_rec := { bk_cfg : cfg; bk_offset : Z; bk_repeat : option repeat; bk_objects : list object }.

Fixpoint m_object (md : mdefaults) (name : string) (v : mvalue) {struct v} : result object :=
  match v with
  | MMap kvs =>
      match mget "type" kvs with
      | None => RErr (mk_err "manifest_no_type" [])
      | Some tv =>
          ty <-- as_string tv ;;
          if ty =s "block" then
            b <-- (fix go (l : list (string * mvalue)) (b : block_rec) {struct l} : result block_rec :=
                     match l with
                     | [] => ROk b
                     | (k, x) :: t =>
                         b' <-- (if k =s "type" then ROk b
                                 else if k =s "cfg" then
                                   s <-- as_string x ;;
                                   ROk {| bk_cfg := Some s; bk_offset := bk_offset b; bk_repeat := bk_repeat b;
                                          bk_objects := bk_objects b |}
                                 else if k =s "description" then _s <-- as_string x ;; ROk b
                                 else if k =s "address_offset" then
                                   z <-- as_int x ;;
                                   ROk {| bk_cfg := bk_cfg b; bk_offset := z; bk_repeat := bk_repeat b;
                                          bk_objects := bk_objects b |}
                                 else if k =s "repeat" then
                                   r <-- m_repeat x ;;
                                   ROk {| bk_cfg := bk_cfg b; bk_offset := bk_offset b; bk_repeat := Some r;
                                          bk_objects := bk_objects b |}
                                 else if k =s "objects" then
                                   match x with
                                   | MMap okvs =>
                                       os <-- (fix gol (l2 : list (string * mvalue)) : result (list object) :=
                                                 match l2 with
                                                 | [] => ROk []
                                                 | (n, ov) :: t2 =>
                                                     o <-- m_object md n ov ;; os <-- gol t2 ;; ROk (o :: os)
                                                 end) okvs ;;
                                       ROk {| bk_cfg := bk_cfg b; bk_offset := bk_offset b; bk_repeat := bk_repeat b;
                                              bk_objects := os |}
                                   | _ => RErr (type_err "map")
                                   end
                                 else RErr (mk_err "manifest_unexpected_key" [k])) ;;
                         go t b'
                     end) kvs {| bk_cfg := None; bk_offset := 0; bk_repeat := None; bk_objects := [] |} ;;
            ROk (OBlock (bk_cfg b) name (bk_offset b) (bk_repeat b) (bk_objects b))
          else if ty =s "register" then rmap ORegister (m_register (md_reg md) (md_field md) (md_bit md) name kvs)
          else if ty =s "command" then rmap OCommand (m_command (md_field md) (md_bit md) name kvs)
          else if ty =s "buffer" then rmap OBuffer (m_buffer (md_buf md) name kvs)
          else if ty =s "ref" then m_ref name kvs
          else RErr (mk_err "manifest_bad_value" ["object type"; ty])
      end
  | _ => RErr (type_err "map")
  end.

Section WithListFrom2.
Variable list_from : string -> list string.

(* manifest::transform.  [use_defaults = false] is the code before commit df2c08c. *)
Definition lower_manifest_gen (use_defaults : bool) (v : mvalue) : result device :=
  kvs <-- as_map v ;;
  g <-- match mget "config" kvs with Some c => m_config list_from c | None => ROk default_config end ;;
  let md := if use_defaults then defaults_of g else no_defaults in
  objs <-- mapM (fun kv => m_object md (fst kv) (snd kv)) (filter (fun kv => negb (fst kv =s "config")) kvs) ;;
  ROk {| d_config := g; d_objects := objs |}.

Definition lower_manifest := lower_manifest_gen true.
Definition lower_manifest_nodefaults := lower_manifest_gen false.

End WithListFrom2.

(* ================================================================== (a) abstract definitions *)

Inductive nwb := NwbArray (l : list string) | NwbString (s : string).

Record aconfig := {
  ac_default_register_access : option access; ac_default_field_access : option access;
  ac_default_buffer_access : option access; ac_default_byte_order : option byte_ord;
  ac_default_bit_order : option bit_ord; ac_register_address_type : option integer;
  ac_command_address_type : option integer; ac_buffer_address_type : option integer;
  ac_name_word_boundaries : option nwb; ac_defmt_feature : option string }.

(* fields named *_sp / av_map_form / ... are SPELLING choices: only the renderers read them *)
Record avariant := {
  av_cfg : cfg; av_name : string; av_value : enum_value;
  av_map_form : bool;      (* manifest: `V: {value: x}` instead of `V: x` (forced when a cfg is present) *)
  av_omit_value : bool }.  (* manifest, map form, unspecified value: leave `value` out instead of `value: null` *)

Inductive aconv := ACDirect (type_name : string) | ACEnum (name : string) (vs : list avariant).

Record afield := {
  af_cfg : cfg; af_name : string; af_access : option access; af_base : base_type;
  af_conv : option (aconv * bool);    (* conversion, try flag *)
  af_start : Z; af_end : option Z;    (* end exclusive; None = single address *)
  af_incl : bool }.                   (* DSL spelling a..=b instead of a..b *)

Record ahead := { h_cfg : cfg; h_doc : bool; h_name : string }.

Record aregister := {
  ar_access : option access; ar_byte_order : option byte_ord; ar_bit_order : option bit_ord;
  ar_address : option Z; ar_size_bits : option Z; ar_reset : option reset_value; ar_repeat : option repeat;
  ar_allow_bit_overlap : option bool; ar_allow_address_overlap : option bool; ar_fields : list afield;
  ar_order : list nat }.              (* DSL spelling: sort keys giving the order of the items *)

Record acommand := {
  ak_byte_order : option byte_ord; ak_bit_order : option bit_ord; ak_address : option Z;
  ak_size_in : option Z; ak_size_out : option Z; ak_repeat : option repeat;
  ak_allow_bit_overlap : option bool; ak_allow_address_overlap : option bool;
  ak_fields_in : option (list afield); ak_fields_out : option (list afield);
  ak_order : list nat;                (* DSL spelling: item order *)
  ak_basic : bool;                    (* DSL spelling `command X = addr` when only the address is given *)
  ak_bare : bool }.                   (* DSL spelling `command X` when nothing is given *)

Record abuffer := { ab_access : option access; ab_address : option Z }.

Inductive aobject :=
| ABlock (h : ahead) (address_offset : option Z) (rep : option repeat) (order : list nat) (objs : list aobject)
| ARegister (h : ahead) (r : aregister)
| ACommand (h : ahead) (c : acommand)
| ABuffer (h : ahead) (b : abuffer)
| ARef (h : ahead) (ov : aobject).    (* `ref h = <ov>`: the override is written as an object named after the target *)

Record adef := { a_config : aconfig; a_objects : list aobject }.

Definition ahead_of (o : aobject) : ahead :=
  match o with ABlock h _ _ _ _ => h | ARegister h _ => h | ACommand h _ => h | ABuffer h _ => h | ARef h _ => h end.

(* ================================================================== (d) renderers *)

Definition opt_item {A I} (c : A -> I) (x : option A) : list I := match x with Some a => [c a] | None => [] end.

(* stable sort by positional keys (missing keys = 0): every permutation of the items is reachable *)
Fixpoint insert_by {A} (k : nat) (a : A) (l : list (nat * A)) : list (nat * A) :=
  match l with
  | [] => [(k, a)]
  | (k', b) :: t => if Nat.leb k k' then (k, a) :: l else (k', b) :: insert_by k a t
  end.
Fixpoint isort {A} (l : list (nat * A)) : list (nat * A) :=
  match l with [] => [] | (k, a) :: t => insert_by k a (isort t) end.
Fixpoint zip_keys {A} (keys : list nat) (l : list A) : list (nat * A) :=
  match l with
  | [] => []
  | a :: t => match keys with [] => (O, a) :: zip_keys [] t | k :: ks => (k, a) :: zip_keys ks t end
  end.
Definition reorder {A} (keys : list nat) (l : list A) : list A := map snd (isort (zip_keys keys l)).

(* ---- to the DSL HIR ---- *)

Definition attrs_of (h : ahead) : list attribute :=
  (if h_doc h then [ADoc] else []) ++ opt_item ACfg (h_cfg h).

Definition variant_to_dsl (v : avariant) : hvariant :=
  {| hv_attrs := opt_item ACfg (av_cfg v); hv_name := av_name v;
     hv_value := match av_value v with
                 | EVUnspec => None | EVSpec z => Some (HEVSpec z)
                 | EVDefault => Some HEVDefault | EVCatchAll => Some HEVCatchAll
                 end |}.

Definition conv_to_dsl (c : aconv * bool) : hconv :=
  match fst c with
  | ACDirect n => HCDirect n (snd c)
  | ACEnum n vs => HCEnum n (map variant_to_dsl vs) (snd c)
  end.

Definition field_to_dsl (f : afield) : hfield :=
  {| hf_attrs := opt_item ACfg (af_cfg f); hf_name := af_name f; hf_access := af_access f; hf_base := af_base f;
     hf_conv := option_map conv_to_dsl (af_conv f);
     hf_addr := match af_end f with
                | None => FAInteger (af_start f)
                | Some e => if af_incl f && (1 <=? e) then FARangeIncl (af_start f) (e - 1) else FARange (af_start f) e
                end |}.

Definition reset_item (r : reset_value) : register_item :=
  match r with RInt z => RIResetInt z | RArr l => RIResetArr l end.

Definition register_items (r : aregister) : list register_item :=
  opt_item RIAccess (ar_access r) ++ opt_item RIByteOrder (ar_byte_order r) ++ opt_item RIBitOrder (ar_bit_order r)
  ++ opt_item RIAddress (ar_address r) ++ opt_item RISizeBits (ar_size_bits r) ++ opt_item reset_item (ar_reset r)
  ++ opt_item RIRepeat (ar_repeat r) ++ opt_item RIAllowBitOverlap (ar_allow_bit_overlap r)
  ++ opt_item RIAllowAddressOverlap (ar_allow_address_overlap r).

Definition command_items (c : acommand) : list command_item :=
  opt_item CIByteOrder (ak_byte_order c) ++ opt_item CIBitOrder (ak_bit_order c) ++ opt_item CIAddress (ak_address c)
  ++ opt_item CISizeBitsIn (ak_size_in c) ++ opt_item CISizeBitsOut (ak_size_out c) ++ opt_item CIRepeat (ak_repeat c)
  ++ opt_item CIAllowBitOverlap (ak_allow_bit_overlap c)
  ++ opt_item CIAllowAddressOverlap (ak_allow_address_overlap c).

Definition is_none {A} (x : option A) : bool := match x with None => true | Some _ => false end.

(* nothing but (possibly) the address is given *)
Definition command_plain (c : acommand) : bool :=
  is_none (ak_byte_order c) && is_none (ak_bit_order c) && is_none (ak_size_in c) && is_none (ak_size_out c)
  && is_none (ak_repeat c) && is_none (ak_allow_bit_overlap c) && is_none (ak_allow_address_overlap c)
  && is_none (ak_fields_in c) && is_none (ak_fields_out c).

Definition command_to_dsl (in_override : bool) (c : acommand) : option command_value :=
  let ext := Some (CVExtended (reorder (ak_order c) (command_items c))
                              (option_map (map field_to_dsl) (ak_fields_in c))
                              (option_map (map field_to_dsl) (ak_fields_out c))) in
  if in_override || negb (command_plain c) then ext
  else match ak_address c with
       | Some a => if ak_basic c then Some (CVBasic a) else ext
       | None => if ak_bare c then None else ext
       end.

Definition block_items (off : option Z) (rep : option repeat) : list block_item :=
  opt_item BIAddressOffset off ++ opt_item BIRepeat rep.

Fixpoint obj_to_dsl (in_override : bool) (o : aobject) {struct o} : hobject :=
  match o with
  | ABlock h off rep order objs =>
      HBlock (attrs_of h) (h_name h) (reorder order (block_items off rep)) (map (obj_to_dsl false) objs)
  | ARegister h r =>
      HRegister (attrs_of h) (h_name h) (reorder (ar_order r) (register_items r)) (map field_to_dsl (ar_fields r))
  | ACommand h c => HCommand (attrs_of h) (h_name h) (command_to_dsl in_override c)
  | ABuffer h b => HBuffer (attrs_of h) (h_name h) (ab_access b) (ab_address b)
  | ARef h ov => HRef (attrs_of h) (h_name h) (obj_to_dsl true ov)
  end.

Section Renderers.
Variable list_from : string -> list string.

Definition config_to_dsl (c : aconfig) : list hconfig_item :=
  opt_item GCDefaultRegisterAccess (ac_default_register_access c)
  ++ opt_item GCDefaultFieldAccess (ac_default_field_access c)
  ++ opt_item GCDefaultBufferAccess (ac_default_buffer_access c)
  ++ opt_item GCDefaultByteOrder (ac_default_byte_order c)
  ++ opt_item GCDefaultBitOrder (ac_default_bit_order c)
  ++ opt_item (fun i => GCRegisterAddressType (show_integer i)) (ac_register_address_type c)
  ++ opt_item (fun i => GCCommandAddressType (show_integer i)) (ac_command_address_type c)
  ++ opt_item (fun i => GCBufferAddressType (show_integer i)) (ac_buffer_address_type c)
  ++ opt_item (fun n => GCNameWordBoundaries (match n with NwbArray l => l | NwbString s => list_from s end))
              (ac_name_word_boundaries c)
  ++ opt_item GCDefmtFeature (ac_defmt_feature c).

Definition to_dsl (d : adef) : hdevice :=
  {| hd_configs := config_to_dsl (a_config d); hd_objects := map (obj_to_dsl false) (a_objects d) |}.

End Renderers.

(* ---- to the manifest value tree ---- *)

Definition opt_key {A} (k : string) (f : A -> mvalue) (x : option A) : list (string * mvalue) :=
  match x with Some a => [(k, f a)] | None => [] end.

Definition m_of_access (a : access) : mvalue := MStr (show_access a).
Definition m_of_byte_order (b : byte_ord) : mvalue := MStr (match b with BoLE => "LE" | BoBE => "BE" end).
Definition m_of_bit_order (b : bit_ord) : mvalue := MStr (match b with BiLSB0 => "LSB0" | BiMSB0 => "MSB0" end).
Definition m_of_repeat (r : repeat) : mvalue := MMap [("count", MInt (r_count r)); ("stride", MInt (r_stride r))].
Definition m_of_reset (r : reset_value) : mvalue :=
  match r with RInt z => MInt z | RArr l => MArr (map MInt l) end.
Definition m_of_base (b : base_type) : mvalue :=
  MStr (match b with BBool => "bool" | BUint => "uint" | BInt => "int" end).

Definition head_keys (ty : string) (h : ahead) : list (string * mvalue) :=
  [("type", MStr ty)] ++ opt_key "cfg" MStr (h_cfg h) ++ (if h_doc h then [("description", MStr "doc")] else []).

Section ToManifest.
(* TOML has no null: an unspecified variant value is written `V = {}` *)
Variable toml : bool.

Definition variant_to_m (v : avariant) : string * mvalue :=
  let bare := match av_value v with
              | EVUnspec => MNull | EVSpec z => MInt z
              | EVDefault => MStr "default" | EVCatchAll => MStr "catch_all"
              end in
  let unspec := match av_value v with EVUnspec => true | _ => false end in
  let map_form := av_map_form v || negb (is_none (av_cfg v)) || (toml && unspec) in
  (av_name v,
   if map_form then
     MMap (opt_key "cfg" MStr (av_cfg v)
           ++ (if unspec && (av_omit_value v || toml) then [] else [("value", bare)]))
   else bare).

Definition conv_to_m (c : aconv * bool) : list (string * mvalue) :=
  [(if snd c then "try_conversion" else "conversion",
    match fst c with
    | ACDirect n => MStr n
    | ACEnum n vs => MMap (("name", MStr n) :: map variant_to_m vs)
    end)].

Definition field_to_m (f : afield) : string * mvalue :=
  (af_name f,
   MMap (opt_key "cfg" MStr (af_cfg f) ++ opt_key "access" m_of_access (af_access f)
         ++ [("base", m_of_base (af_base f))]
         ++ match af_conv f with Some c => conv_to_m c | None => [] end
         ++ [("start", MInt (af_start f))] ++ opt_key "end" MInt (af_end f))).

Definition fields_to_m (fs : list afield) : mvalue := MMap (map field_to_m fs).

Definition register_keys (r : aregister) : list (string * mvalue) :=
  opt_key "access" m_of_access (ar_access r) ++ opt_key "byte_order" m_of_byte_order (ar_byte_order r)
  ++ opt_key "bit_order" m_of_bit_order (ar_bit_order r) ++ opt_key "address" MInt (ar_address r)
  ++ opt_key "size_bits" MInt (ar_size_bits r) ++ opt_key "reset_value" m_of_reset (ar_reset r)
  ++ opt_key "repeat" m_of_repeat (ar_repeat r) ++ opt_key "allow_bit_overlap" MBool (ar_allow_bit_overlap r)
  ++ opt_key "allow_address_overlap" MBool (ar_allow_address_overlap r)
  ++ match ar_fields r with [] => [] | fs => [("fields", fields_to_m fs)] end.

Definition command_keys (c : acommand) : list (string * mvalue) :=
  opt_key "byte_order" m_of_byte_order (ak_byte_order c) ++ opt_key "bit_order" m_of_bit_order (ak_bit_order c)
  ++ opt_key "address" MInt (ak_address c) ++ opt_key "repeat" m_of_repeat (ak_repeat c)
  ++ opt_key "allow_bit_overlap" MBool (ak_allow_bit_overlap c)
  ++ opt_key "allow_address_overlap" MBool (ak_allow_address_overlap c)
  ++ opt_key "size_bits_in" MInt (ak_size_in c) ++ opt_key "fields_in" fields_to_m (ak_fields_in c)
  ++ opt_key "size_bits_out" MInt (ak_size_out c) ++ opt_key "fields_out" fields_to_m (ak_fields_out c).

Fixpoint obj_to_m (o : aobject) {struct o} : mvalue :=
  match o with
  | ABlock h off rep _ objs =>
      MMap (head_keys "block" h ++ opt_key "address_offset" MInt off ++ opt_key "repeat" m_of_repeat rep
            ++ match objs with
               | [] => []
               | _ => [("objects", MMap (map (fun c => (h_name (ahead_of c), obj_to_m c)) objs))]
               end)
  | ARegister h r => MMap (head_keys "register" h ++ register_keys r)
  | ACommand h c => MMap (head_keys "command" h ++ command_keys c)
  | ABuffer h b =>
      MMap (head_keys "buffer" h ++ opt_key "access" m_of_access (ab_access b) ++ opt_key "address" MInt (ab_address b))
  | ARef h ov =>
      MMap (head_keys "ref" h ++ [("target", MStr (h_name (ahead_of ov))); ("override", obj_to_m ov)])
  end.

Definition named_to_m (o : aobject) : string * mvalue := (h_name (ahead_of o), obj_to_m o).

Definition config_keys (c : aconfig) : list (string * mvalue) :=
  opt_key "default_register_access" m_of_access (ac_default_register_access c)
  ++ opt_key "default_field_access" m_of_access (ac_default_field_access c)
  ++ opt_key "default_buffer_access" m_of_access (ac_default_buffer_access c)
  ++ opt_key "default_byte_order" m_of_byte_order (ac_default_byte_order c)
  ++ opt_key "default_bit_order" m_of_bit_order (ac_default_bit_order c)
  ++ opt_key "register_address_type" (fun i => MStr (show_integer i)) (ac_register_address_type c)
  ++ opt_key "command_address_type" (fun i => MStr (show_integer i)) (ac_command_address_type c)
  ++ opt_key "buffer_address_type" (fun i => MStr (show_integer i)) (ac_buffer_address_type c)
  ++ opt_key "name_word_boundaries"
             (fun n => match n with NwbArray l => MArr (map MStr l) | NwbString s => MStr s end)
             (ac_name_word_boundaries c)
  ++ opt_key "defmt_feature" MStr (ac_defmt_feature c).

(* the `config` key is present iff some setting is given *)
Definition to_manifest (d : adef) : mvalue :=
  MMap (match config_keys (a_config d) with [] => [] | ks => [("config", MMap ks)] end
        ++ map named_to_m (a_objects d)).

End ToManifest.

(* ================================================================== the meaning of an abstract definition (spec) *)

(* error classes comparable across the two front ends *)
Definition err_class (e : gen_error) : gen_error :=
  let k := e_kind e in
  if k =s "dsl_missing" then
    match e_args e with
    | [obj; _; what] => mk_err "missing" [obj; if what =s "size bits specified" then "size_bits" else "address"]
    | _ => e
    end
  else if k =s "manifest_missing" then mk_err "missing" (e_args e)
  else if (k =s "dsl_ref_buffer") || (k =s "manifest_ref_buffer") then mk_err "ref_buffer" []
  else if (k =s "dsl_ref_ref") || (k =s "manifest_ref_ref") then mk_err "ref_ref" []
  else if (k =s "dsl_override_forbidden") || (k =s "manifest_override_unexpected_key") then mk_err "override_forbidden" []
  else e.

Definition class_of {A} (r : result A) : result A := match r with ROk a => ROk a | RErr e => RErr (err_class e) end.

Definition spec_config (lf : string -> list string) (c : aconfig) : config :=
  {| g_default_register_access := or_default (ac_default_register_access c) RW;
     g_default_field_access := or_default (ac_default_field_access c) RW;
     g_default_buffer_access := or_default (ac_default_buffer_access c) RW;
     g_default_byte_order := ac_default_byte_order c;
     g_default_bit_order := or_default (ac_default_bit_order c) BiLSB0;
     g_register_address_type := ac_register_address_type c;
     g_command_address_type := ac_command_address_type c;
     g_buffer_address_type := ac_buffer_address_type c;
     g_boundaries := match ac_name_word_boundaries c with
                     | None => g_boundaries default_config
                     | Some (NwbArray l) => l
                     | Some (NwbString s) => lf s
                     end;
     g_defmt_feature := ac_defmt_feature c |}.

Definition spec_variant (v : avariant) : variant :=
  {| v_cfg := av_cfg v; v_name := av_name v; v_value := av_value v |}.

Definition spec_conv (c : aconv * bool) : conversion :=
  match fst c with
  | ACDirect n => ConvDirect n (snd c)
  | ACEnum n vs => ConvEnum {| e_cfg := None; e_name := n; e_variants := map spec_variant vs; e_style := None |} (snd c)
  end.

(* a single address means the empty range start..start, which becomes the bit `start` for bool fields in the
   bool_fields_checked pass and is rejected for every other base type *)
Definition spec_field (g : config) (f : afield) : field :=
  {| f_cfg := af_cfg f; f_name := af_name f; f_access := or_default (af_access f) (g_default_field_access g);
     f_base := af_base f; f_conv := option_map spec_conv (af_conv f);
     f_start := af_start f; f_end := or_default (af_end f) (af_start f) |}.

Definition missing (obj what : string) : gen_error := mk_err "missing" [obj; what].

Definition spec_register (g : config) (h : ahead) (r : aregister) : result register :=
  match ar_address r, ar_size_bits r with
  | None, _ => RErr (missing "Register" "address")
  | Some _, None => RErr (missing "Register" "size_bits")
  | Some a, Some s =>
      ROk {| rg_cfg := h_cfg h; rg_name := h_name h;
             rg_access := or_default (ar_access r) (g_default_register_access g);
             rg_byte_order := ar_byte_order r;
             rg_bit_order := or_default (ar_bit_order r) (g_default_bit_order g);
             rg_allow_bit_overlap := or_default (ar_allow_bit_overlap r) false;
             rg_allow_address_overlap := or_default (ar_allow_address_overlap r) false;
             rg_address := a; rg_size_bits := s; rg_reset := ar_reset r; rg_repeat := ar_repeat r;
             rg_fields := map (spec_field g) (ar_fields r) |}
  end.

Definition spec_command (g : config) (h : ahead) (c : acommand) : result command :=
  match ak_address c with
  | None => RErr (missing "Command" "address")
  | Some a =>
      ROk {| cm_cfg := h_cfg h; cm_name := h_name h; cm_address := a; cm_byte_order := ak_byte_order c;
             cm_bit_order := or_default (ak_bit_order c) (g_default_bit_order g);
             cm_allow_bit_overlap := or_default (ak_allow_bit_overlap c) false;
             cm_allow_address_overlap := or_default (ak_allow_address_overlap c) false;
             cm_size_in := or_default (ak_size_in c) 0; cm_size_out := or_default (ak_size_out c) 0;
             cm_repeat := ak_repeat c;
             cm_in_fields := map (spec_field g) (or_default (ak_fields_in c) []);
             cm_out_fields := map (spec_field g) (or_default (ak_fields_out c) []) |}
  end.

Definition spec_buffer (g : config) (h : ahead) (b : abuffer) : result buffer :=
  match ab_address b with
  | None => RErr (missing "Buffer" "address")
  | Some a => ROk {| bf_cfg := h_cfg h; bf_name := h_name h;
                     bf_access := or_default (ab_access b) (g_default_buffer_access g); bf_address := a |}
  end.

Definition head_plain (h : ahead) : bool := is_none (h_cfg h) && negb (h_doc h).

Definition ov_forbidden : gen_error := mk_err "override_forbidden" [].

(* "a ref is a copy of the target with parts overridden": only address / access / reset / repeat / address-overlap
   (registers), address / repeat / address-overlap (commands), offset / repeat (blocks) may be given *)
Definition spec_override (ov : aobject) : result override :=
  match ov with
  | ABlock h off rep _ objs =>
      if head_plain h && match objs with [] => true | _ => false end then ROk (OvBlock (h_name h) off rep)
      else RErr ov_forbidden
  | ARegister h r =>
      if head_plain h && is_none (ar_byte_order r) && is_none (ar_bit_order r) && is_none (ar_size_bits r)
         && is_none (ar_allow_bit_overlap r) && match ar_fields r with [] => true | _ => false end
      then ROk (OvRegister (h_name h) (ar_access r) (ar_address r) (or_default (ar_allow_address_overlap r) false)
                           (ar_reset r) (ar_repeat r))
      else RErr ov_forbidden
  | ACommand h c =>
      if head_plain h && is_none (ak_byte_order c) && is_none (ak_bit_order c) && is_none (ak_allow_bit_overlap c)
         && is_none (ak_size_in c) && is_none (ak_fields_in c) && is_none (ak_size_out c)
         && is_none (ak_fields_out c)
      then ROk (OvCommand (h_name h) (ak_address c) (or_default (ak_allow_address_overlap c) false) (ak_repeat c))
      else RErr ov_forbidden
  | ABuffer _ _ => RErr (mk_err "ref_buffer" [])
  | ARef _ _ => RErr (mk_err "ref_ref" [])
  end.

Fixpoint spec_object (g : config) (o : aobject) {struct o} : result object :=
  match o with
  | ABlock h off rep _ objs =>
      objs' <-- mapR (spec_object g) objs ;;
      ROk (OBlock (h_cfg h) (h_name h) (or_default off 0) rep objs')
  | ARegister h r => rmap ORegister (spec_register g h r)
  | ACommand h c => rmap OCommand (spec_command g h c)
  | ABuffer h b => rmap OBuffer (spec_buffer g h b)
  | ARef h ov => o' <-- spec_override ov ;; ROk (ORef (h_cfg h) (h_name h) o')
  end.

Definition spec_device (lf : string -> list string) (d : adef) : result device :=
  let g := spec_config lf (a_config d) in
  objs <-- mapR (spec_object g) (a_objects d) ;;
  ROk {| d_config := g; d_objects := objs |}.

(* ================================================================== well-formedness = expressible in all four syntaxes *)

Definition repeat_ok (r : repeat) : bool := in_u64 (r_count r) && in_i64 (r_stride r).
Definition opt_ok {A} (p : A -> bool) (x : option A) : bool := match x with Some a => p a | None => true end.

(* reset integers: u64 (manifests read them with as_uint); array elements: bytes *)
Definition reset_ok (r : reset_value) : bool :=
  match r with RInt z => in_u64 z | RArr l => forallb in_u8 l end.

Definition variant_ok (v : avariant) : bool :=
  negb (av_name v =s "name") && negb (av_name v =s "description")      (* reserved keys of the enum map *)
  && match av_value v with EVSpec z => in_i64 z | _ => true end.

Definition conv_ok (c : aconv * bool) : bool :=
  match fst c with ACDirect _ => true | ACEnum _ vs => forallb variant_ok vs end.

(* start / end in u32; the inclusive spelling must not need end-1 = u32::MAX + ... *)
Definition field_ok (f : afield) : bool :=
  in_u32 (af_start f) && opt_ok in_u32 (af_end f) && opt_ok conv_ok (af_conv f).

(* the one documented front-end specific class: a single address on a non-bool field *)
Definition field_single_nonbool (f : afield) : bool := is_none (af_end f) && negb (is_bool_base (af_base f)).

Definition fields_ok (fs : list afield) : bool := forallb (fun f => field_ok f && negb (field_single_nonbool f)) fs.

Definition register_ok (r : aregister) : bool :=
  opt_ok in_i64 (ar_address r) && opt_ok in_u32 (ar_size_bits r) && opt_ok reset_ok (ar_reset r)
  && opt_ok repeat_ok (ar_repeat r) && fields_ok (ar_fields r).

Definition command_ok (c : acommand) : bool :=
  opt_ok in_i64 (ak_address c) && opt_ok in_u32 (ak_size_in c) && opt_ok in_u32 (ak_size_out c)
  && opt_ok repeat_ok (ak_repeat c) && opt_ok fields_ok (ak_fields_in c) && opt_ok fields_ok (ak_fields_out c).

Fixpoint object_ok (o : aobject) {struct o} : bool :=
  match o with
  | ABlock _ off rep _ objs => opt_ok in_i64 off && opt_ok repeat_ok rep && forallb object_ok objs
  | ARegister _ r => register_ok r
  | ACommand _ c => command_ok c
  | ABuffer _ b => opt_ok in_i64 (ab_address b)
  | ARef _ ov => object_ok ov
  end.

Definition config_ok (c : aconfig) : bool :=
  match ac_name_word_boundaries c with Some (NwbArray l) => forallb is_boundary_name l | _ => true end.

(* a top-level object called `config` would be read as the global config by the manifest front end *)
Definition adef_ok (d : adef) : bool :=
  config_ok (a_config d) && forallb object_ok (a_objects d)
  && forallb (fun o => negb (h_name (ahead_of o) =s "config")) (a_objects d).

(* the comparison the property asks for: same MIR, or both rejected in the same class *)
Definition agree {A} (r1 r2 : result A) : Prop := class_of r1 = class_of r2.
