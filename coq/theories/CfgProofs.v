(* CfgProofs.v — proofs about Cfg.v (property C18).

   Structure
     1. sets of atoms, Cfg::combine                       (combine_atoms, combine_dedup, canon_same_set)
     2. neither walk can hit `cfg_stack.last().unwrap()` on an empty stack   (walk_total)
     3. the corrected walk computes the spec for EVERY tree (tree induction; invariant: the stack, cut
        down to depth d, is the chain of gates of the d enclosing blocks)     (fixed_walk_correct)
     4. the walk as written equals the corrected walk when no entry follows the end of two or more
        nested blocks                                                         (walk_agree, partial)
     5. attachment: items of model and spec agree whenever the object gates do (object_items_agree)
     6. the D6 witness                                                         (refuted)
     9. every atom of every gate is an own cfg written somewhere in the description (gate_atoms_are_written) *)
From Coq Require Import ZArith NArith List Bool String Ascii Arith Lia Sorted.
From DD Require Import Common Mir Cfg.
Import ListNotations.
Open Scope list_scope.
Open Scope nat_scope.

(* ------------------------------------------------------------------ 0. induction over the object tree *)

Lemma object_tree_ind (P : object -> Prop) :
  (forall c n off rep objs, Forall P objs -> P (OBlock c n off rep objs)) ->
  (forall r, P (ORegister r)) ->
  (forall c, P (OCommand c)) ->
  (forall b, P (OBuffer b)) ->
  (forall c n ov, P (ORef c n ov)) ->
  forall o, P o.
Proof.
  intros Hb Hr Hc Hbuf Href.
  refine (fix IH (o : object) : P o :=
            match o with
            | OBlock c n off rep objs =>
              Hb c n off rep objs
                 ((fix go (l : list object) : Forall P l :=
                     match l with
                     | [] => Forall_nil P
                     | x :: t => Forall_cons x (IH x) (go t)
                     end) objs)
            | ORegister r => Hr r
            | OCommand c => Hc c
            | OBuffer b => Hbuf b
            | ORef c n ov => Href c n ov
            end).
Qed.

(* ------------------------------------------------------------------ 1. sets of atoms, combine *)

Lemma same_set_refl : forall a, same_set a a.
Proof. intros a x; tauto. Qed.

Lemma same_set_sym : forall a b, same_set a b -> same_set b a.
Proof. intros a b H x; split; apply H. Qed.

Lemma same_set_trans : forall a b c, same_set a b -> same_set b c -> same_set a c.
Proof. intros a b c H1 H2 x; split; intro H; [apply H2, H1, H | apply H1, H2, H]. Qed.

Lemma same_set_app : forall a a' b b', same_set a a' -> same_set b b' -> same_set (a ++ b) (a' ++ b').
Proof.
  intros a a' b b' Ha Hb x; rewrite !in_app_iff; split; intros [H | H];
    (left; apply Ha, H) || (right; apply Hb, H).
Qed.

Lemma same_set_app_idem : forall a, same_set a (a ++ a).
Proof. intros a x; rewrite in_app_iff; tauto. Qed.

Lemma same_set_app_comm : forall a b, same_set (a ++ b) (b ++ a).
Proof. intros a b x; rewrite !in_app_iff; tauto. Qed.

Lemma same_set_nil : forall a, same_set a [] -> a = [].
Proof. intros [| h t] H; [reflexivity | exfalso; apply (proj1 (H h)); left; reflexivity]. Qed.

Lemma cfg_expr_eqb_eq : forall a b, cfg_expr_eqb a b = true <-> a = b.
Proof.
  induction a as [s | l IHl r IHr]; intros [t | l2 r2]; cbn; split; intro H; try discriminate.
  - apply String.eqb_eq in H; congruence.
  - inversion H; apply String.eqb_refl.
  - apply andb_true_iff in H as [H1 H2]. apply IHl in H1; apply IHr in H2; congruence.
  - inversion H; subst. apply andb_true_iff; split; [apply IHl | apply IHr]; reflexivity.
Qed.

Lemma cfg_expr_eqb_refl : forall a, cfg_expr_eqb a a = true.
Proof. intro a; apply cfg_expr_eqb_eq; reflexivity. Qed.

Lemma atoms_nonempty : forall e, atoms e <> [].
Proof.
  induction e as [s | l IHl r IHr]; cbn; [discriminate |].
  intro H; apply app_eq_nil in H as [H _]; auto.
Qed.

Lemma atoms_x_nil : forall g, atoms_x g = [] -> g = None.
Proof. intros [e |] H; [exfalso; exact (atoms_nonempty e H) | reflexivity]. Qed.

(* atoms (combine a b) = atoms a U atoms b *)
Lemma combine_atoms : forall a b, same_set (atoms_x (cfg_combine a b)) (atoms_x a ++ atoms_x b).
Proof.
  intros [v1 |] [v2 |]; cbn.
  - destruct (cfg_expr_eqb v1 v2) eqn:E; cbn.
    + apply cfg_expr_eqb_eq in E; subst. apply same_set_app_idem.
    + apply same_set_refl.
  - rewrite app_nil_r; apply same_set_refl.
  - apply same_set_refl.
  - apply same_set_refl.
Qed.

(* equal values are not repeated; None is the identity on both sides *)
Lemma combine_dedup : forall g, cfg_combine g g = g.
Proof. intros [v |]; cbn; [rewrite cfg_expr_eqb_refl |]; reflexivity. Qed.

Lemma combine_none_l : forall g, cfg_combine None g = g.
Proof. intros [v |]; reflexivity. Qed.

Lemma combine_none_r : forall g, cfg_combine g None = g.
Proof. intros [v |]; reflexivity. Qed.

Lemma combine_distinct : forall v1 v2, v1 <> v2 -> cfg_combine (Some v1) (Some v2) = Some (All v1 v2).
Proof.
  intros v1 v2 H; cbn. destruct (cfg_expr_eqb v1 v2) eqn:E; [| reflexivity].
  apply cfg_expr_eqb_eq in E; contradiction.
Qed.

Lemma in_insert_str : forall s l x, In x (insert_str s l) <-> x = s \/ In x l.
Proof.
  intros s l x; induction l as [| h t IH]; cbn.
  - intuition.
  - destruct (String.eqb s h) eqn:E.
    + apply String.eqb_eq in E; subst; cbn; intuition.
    + destruct (String.leb s h); cbn; [intuition |]. rewrite IH; intuition.
Qed.

Lemma canon_same_set : forall l, same_set (canon l) l.
Proof.
  induction l as [| h t IH]; intro x; cbn; [tauto |].
  rewrite in_insert_str, (IH x); intuition.
Qed.

(* ------------------------------------------------------------------ 2. the walks never panic *)

Definition tall (st : walk_state) : Prop := ws_depth st < List.length (ws_stack st).

Lemma exit_code_tall : forall d st, tall st -> tall (exit_code d st).
Proof.
  intros d [stack cur]; unfold tall, exit_code; cbn [ws_depth ws_stack]. intro H.
  destruct (d <? cur) eqn:E; cbn [ws_depth ws_stack]; [| exact H].
  apply Nat.ltb_lt in E. destruct stack; cbn [List.length tl] in *; lia.
Qed.

Lemma unwind_tall : forall cur d stack, cur < List.length stack -> tall (unwind d stack cur).
Proof.
  induction cur as [| c IH]; intros d stack H; cbn [unwind].
  - exact H.
  - destruct (d <? S c); [| exact H]. apply IH. destruct stack; cbn [List.length tl] in *; lia.
Qed.

Lemma exit_fixed_tall : forall d st, tall st -> tall (exit_fixed d st).
Proof. intros d [stack cur] H; apply unwind_tall; exact H. Qed.

Section Total.
  Variable exit : nat -> walk_state -> walk_state.
  Hypothesis exit_tall : forall d st, tall st -> tall (exit d st).

  Lemma visit_total : forall o d st, tall st ->
    exists g st', visit exit o d st = Ok (g, st') /\ tall st'.
  Proof.
    intros o d st H. unfold visit. pose proof (exit_tall d st H) as H1.
    destruct (exit d st) as [stack cur] eqn:E; unfold tall in H1; cbn in *.
    destruct stack as [| top rest]; cbn in H1; [lia |].
    eexists; eexists; split; [reflexivity |].
    destruct (is_block o); unfold tall; cbn; lia.
  Qed.

  Lemma walk_total : forall l st, tall st ->
    exists gs st', walk exit l st = Ok (gs, st') /\ tall st' /\ List.length gs = List.length l.
  Proof.
    induction l as [| [o d] t IH]; intros st H; cbn.
    - eexists; eexists; split; [reflexivity | split; [exact H | reflexivity]].
    - destruct (visit_total o d st H) as (g & st1 & Hv & H1). rewrite Hv; cbn.
      destruct (IH st1 H1) as (gs & st2 & Hw & H2 & Hl). rewrite Hw; cbn.
      eexists; eexists; split; [reflexivity | split; [exact H2 | cbn; congruence]].
  Qed.
End Total.

Lemma ws_init_tall : tall ws_init.
Proof. unfold tall; cbn; lia. Qed.

Lemma propagate_cfg_total : forall objs, exists gs,
  propagate_cfg objs = Ok gs /\ List.length gs = List.length (preorder objs).
Proof.
  intro objs. destruct (walk_total exit_code exit_code_tall (preorder objs) ws_init ws_init_tall)
    as (gs & st & H & _ & Hl).
  exists gs. unfold propagate_cfg, propagate_gates. rewrite H; cbn. auto.
Qed.

Lemma propagate_cfg_fixed_total : forall objs, exists gs,
  propagate_cfg_fixed objs = Ok gs /\ List.length gs = List.length (preorder objs).
Proof.
  intro objs. destruct (walk_total exit_fixed exit_fixed_tall (preorder objs) ws_init ws_init_tall)
    as (gs & st & H & _ & Hl).
  exists gs. unfold propagate_cfg_fixed, propagate_gates. rewrite H; cbn. auto.
Qed.

Lemma walk_app : forall exit l1 l2 st,
  walk exit (l1 ++ l2) st =
  bind (walk exit l1 st) (fun r1 =>
  bind (walk exit l2 (snd r1)) (fun r2 => Ok (fst r1 ++ fst r2, snd r2))).
Proof.
  intros exit; induction l1 as [| [o d] t IH]; intros l2 st; cbn.
  - destruct (walk exit l2 st) as [[gs st'] | k]; reflexivity.
  - destruct (visit exit o d st) as [[g st1] | k]; cbn; [| reflexivity].
    rewrite IH. destruct (walk exit t st1) as [[gs1 st2] | k]; cbn; [| reflexivity].
    destruct (walk exit l2 st2) as [[gs2 st3] | k]; reflexivity.
Qed.

Lemma walk_length : forall exit l st gs st', walk exit l st = Ok (gs, st') -> List.length gs = List.length l.
Proof.
  intros exit; induction l as [| [o d] t IH]; intros st gs st' H; cbn in H.
  - inversion H; reflexivity.
  - destruct (visit exit o d st) as [[g st1] | k]; cbn in H; [| discriminate].
    destruct (walk exit t st1) as [[gs1 st2] | k] eqn:E; cbn in H; [| discriminate].
    inversion H; subst; cbn. f_equal. eapply IH; eassumption.
Qed.

(* ------------------------------------------------------------------ 5. attachment (used by 3 and 4) *)

Lemma own_agrees : forall c, gate_agrees (of_cfg c) (own_atoms c).
Proof. intros [s |]; apply same_set_refl. Qed.

Lemma conj_agrees : forall a pa b pb,
  gate_agrees a pa -> gate_agrees b pb -> gate_agrees (cfg_combine a b) (pa ++ pb).
Proof.
  intros a pa b pb Ha Hb. unfold gate_agrees.
  eapply same_set_trans; [apply combine_atoms | apply same_set_app; assumption].
Qed.

Lemma plain_agrees : forall k g p, gate_agrees g p -> item_agrees (plain k g) (plain k p).
Proof. intros k g p H; repeat split; cbn; apply H. Qed.

Lemma Forall2_flat_map_same : forall {A B C} (R : B -> C -> Prop) (f : A -> list B) (g : A -> list C) l,
  (forall x, Forall2 R (f x) (g x)) -> Forall2 R (flat_map f l) (flat_map g l).
Proof.
  intros A B C R f g l H; induction l as [| h t IH]; cbn; [constructor |].
  apply Forall2_app; [apply H | exact IH].
Qed.

Lemma Forall2_map_same : forall {A B C} (R : B -> C -> Prop) (f : A -> B) (g : A -> C) l,
  (forall x, R (f x) (g x)) -> Forall2 R (map f l) (map g l).
Proof. intros A B C R f g l H; induction l; cbn; constructor; auto. Qed.

Section AttachAgree.
  Variables (g : cfgx) (p : list string).
  Hypothesis Hg : gate_agrees g p.

  Lemma variant_item_agrees : forall en eg ep v, gate_agrees eg ep ->
    item_agrees (variant_item of_cfg cfg_combine en eg v) (variant_item own_atoms (@app string) en ep v).
  Proof.
    intros en eg ep v He; repeat split; cbn.
    - apply own_agrees.
    - apply own_agrees.
    - apply conj_agrees; [apply own_agrees | exact He]; apply own_agrees.
    - apply conj_agrees; [apply own_agrees | exact He]; apply own_agrees.
  Qed.

  Lemma field_enum_items_agree : forall f,
    items_agree (field_enum_items of_cfg cfg_combine g f) (field_enum_items own_atoms (@app string) p f).
  Proof.
    intro f; unfold field_enum_items. destruct (f_conv f) as [[tn ut | e ut] |]; try constructor.
    - apply plain_agrees, conj_agrees; [apply own_agrees | exact Hg].
    - apply Forall2_map_same. intro v. apply variant_item_agrees.
      apply conj_agrees; [apply own_agrees | exact Hg].
  Qed.

  Lemma field_accessor_items_agree : forall set f,
    items_agree (field_accessor_items of_cfg cfg_combine set g f)
                (field_accessor_items own_atoms (@app string) set p f).
  Proof.
    intros set f; unfold field_accessor_items.
    assert (Hi : forall k, item_agrees (mk_item k (of_cfg (f_cfg f)) (cfg_combine (of_cfg (f_cfg f)) g))
                                      (mk_item k (own_atoms (f_cfg f)) (own_atoms (f_cfg f) ++ p))).
    { intro k; repeat split; cbn; try apply own_agrees;
        apply conj_agrees; try apply own_agrees; exact Hg. }
    apply Forall2_app.
    - destruct (readable (f_access f)); [constructor; [apply Hi | constructor] | constructor].
    - destruct (writable (f_access f)); [constructor; [apply Hi | constructor] | constructor].
  Qed.

  Lemma field_set_items_agree : forall set size fs,
    items_agree (field_set_items of_cfg cfg_combine set size g fs)
                (field_set_items own_atoms (@app string) set size p fs).
  Proof.
    intros set size fs; unfold field_set_items. destruct (size =? 0)%Z; [constructor |].
    constructor; [apply plain_agrees, Hg |]. constructor; [apply plain_agrees, Hg |].
    apply Forall2_flat_map_same. intro f; apply field_accessor_items_agree.
  Qed.

  Lemma object_items_agree : forall o,
    items_agree (object_items of_cfg cfg_combine g o) (object_items own_atoms (@app string) p o).
  Proof.
    intro o; unfold object_items. constructor; [apply plain_agrees, Hg |].
    destruct o as [c n off rep objs | r | c | b | c n ov].
    - constructor; [apply plain_agrees, Hg |]. constructor; [apply plain_agrees, Hg | constructor].
    - apply Forall2_app;
        [destruct (readable (rg_access r)); [constructor; [apply plain_agrees, Hg | constructor] | constructor] |].
      apply Forall2_app; [apply field_set_items_agree |].
      apply Forall2_flat_map_same; intro f; apply field_enum_items_agree.
    - apply Forall2_app; [apply field_set_items_agree |].
      apply Forall2_app; [apply field_set_items_agree |].
      apply Forall2_flat_map_same; intro f; apply field_enum_items_agree.
    - constructor.
    - constructor.
  Qed.
End AttachAgree.

Lemma root_items_agree : items_agree (root_items of_cfg) (root_items own_atoms).
Proof.
  unfold root_items. constructor; [apply plain_agrees, own_agrees |].
  constructor; [apply plain_agrees, own_agrees | constructor].
Qed.

(* ------------------------------------------------------------------ 3. the corrected walk = spec *)

(* the stack cut down to depth d: what `while depth < current_depth { pop; current_depth -= 1 }` leaves *)
Definition base (d : nat) (st : walk_state) : list cfgx := skipn (ws_depth st - d) (ws_stack st).

(* the stack holds exactly one entry per open level plus the initial Cfg::new(None) *)
Definition wfst (st : walk_state) : Prop := List.length (ws_stack st) = S (ws_depth st).

Lemma skipn_S_tl : forall {A} n (l : list A), skipn (S n) l = skipn n (tl l).
Proof. intros A n [| h t]; cbn; [rewrite skipn_nil |]; reflexivity. Qed.

Lemma tl_skipn : forall {A} n (l : list A), tl (skipn n l) = skipn (S n) l.
Proof.
  intros A; induction n as [| n IH]; intros l.
  - destruct l; reflexivity.
  - destruct l as [| h t]; [reflexivity |]. change (skipn (S n) (h :: t)) with (skipn n t).
    rewrite IH. reflexivity.
Qed.

Lemma unwind_spec : forall cur d stack, d <= cur ->
  unwind d stack cur = {| ws_stack := skipn (cur - d) stack; ws_depth := d |}.
Proof.
  induction cur as [| c IH]; intros d stack H.
  - assert (d = 0) by lia; subst; reflexivity.
  - cbn [unwind]. destruct (d <? S c) eqn:E.
    + apply Nat.ltb_lt in E. rewrite IH by lia.
      replace (S c - d) with (S (c - d)) by lia. rewrite skipn_S_tl. reflexivity.
    + apply Nat.ltb_ge in E. assert (d = S c) by lia; subst.
      rewrite Nat.sub_diag. reflexivity.
Qed.

Lemma exit_fixed_spec : forall d st, d <= ws_depth st ->
  exit_fixed d st = {| ws_stack := base d st; ws_depth := d |}.
Proof. intros d [stack cur] H; unfold exit_fixed, base; cbn in *. apply unwind_spec, H. Qed.

Lemma base_length : forall d st, wfst st -> d <= ws_depth st -> List.length (base d st) = S d.
Proof. intros d [stack cur]; unfold wfst, base; cbn. intros H1 H2. rewrite skipn_length. lia. Qed.

(* pairing the pre-order objects with the gates a walk produced, and attaching *)
Definition attach_model (objs : list object) (gs : list cfgx) : list (item cfgx) :=
  flat_map (fun og => object_items of_cfg cfg_combine (snd og) (fst og)) (List.combine objs gs).

Lemma combine_app_eq : forall {A B} (l1 l2 : list A) (g1 g2 : list B), List.length l1 = List.length g1 ->
  List.combine (l1 ++ l2) (g1 ++ g2) = List.combine l1 g1 ++ List.combine l2 g2.
Proof.
  induction l1 as [| x t IH]; intros l2 [| g gt] g2 H; try discriminate; [reflexivity |].
  cbn [app List.combine]. f_equal. apply IH. cbn in H; congruence.
Qed.

Lemma attach_model_app : forall o1 o2 g1 g2, List.length o1 = List.length g1 ->
  attach_model (o1 ++ o2) (g1 ++ g2) = attach_model o1 g1 ++ attach_model o2 g2.
Proof.
  intros o1 o2 g1 g2 H. unfold attach_model. rewrite combine_app_eq by exact H. apply flat_map_app.
Qed.

Definition subtree_ok (d : nat) (st : walk_state) (path : list string)
           (l : list (object * nat)) (sg : list (list string)) (si : list (item (list string))) : Prop :=
  wfst st -> d <= ws_depth st -> gate_agrees (hd None (base d st)) path ->
  exists gs st',
    walk exit_fixed l st = Ok (gs, st') /\
    wfst st' /\ d <= ws_depth st' /\ base d st' = base d st /\
    Forall2 gate_agrees gs sg /\
    items_agree (attach_model (map fst l) gs) si.

Lemma fixed_forest : forall objs,
  Forall (fun o => forall d st path,
              subtree_ok d st path (flatten_depth d o) (spec_gates_object path o) (spec_object_items path o)) objs ->
  forall d st path,
    subtree_ok d st path (flat_map (flatten_depth d) objs)
               (flat_map (spec_gates_object path) objs) (flat_map (spec_object_items path) objs).
Proof.
  induction 1 as [| o t Ho Ht IH]; intros d st path Hwf Hd Htop.
  - exists [], st; cbn; repeat split; auto; constructor.
  - cbn [flat_map].
    destruct (Ho d st path Hwf Hd Htop) as (gs1 & st1 & Hw1 & Hwf1 & Hd1 & Hb1 & Hg1 & Hi1).
    assert (Htop1 : gate_agrees (hd None (base d st1)) path) by (rewrite Hb1; exact Htop).
    destruct (IH d st1 path Hwf1 Hd1 Htop1) as (gs2 & st2 & Hw2 & Hwf2 & Hd2 & Hb2 & Hg2 & Hi2).
    exists (gs1 ++ gs2), st2. rewrite walk_app, Hw1; cbn. rewrite Hw2; cbn.
    repeat split; auto.
    + congruence.
    + apply Forall2_app; assumption.
    + rewrite map_app, attach_model_app.
      * apply Forall2_app; assumption.
      * rewrite map_length. symmetry. eapply walk_length; eassumption.
Qed.

(* one closure invocation of the corrected walk under the invariant *)
Lemma visit_fixed : forall o d st path,
  wfst st -> d <= ws_depth st -> gate_agrees (hd None (base d st)) path ->
  exists top rest,
    base d st = top :: rest /\ List.length rest = d /\
    gate_agrees (cfg_combine (of_cfg (object_cfg o)) top) (own_atoms (object_cfg o) ++ path) /\
    visit exit_fixed o d st =
    Ok (cfg_combine (of_cfg (object_cfg o)) top,
        if is_block o
        then {| ws_stack := cfg_combine (of_cfg (object_cfg o)) top :: top :: rest; ws_depth := S d |}
        else {| ws_stack := top :: rest; ws_depth := d |}).
Proof.
  intros o d st path Hwf Hd Htop.
  pose proof (base_length d st Hwf Hd) as Hlen.
  destruct (base d st) as [| top rest] eqn:Eb; [discriminate |]. cbn [hd] in Htop.
  exists top, rest. split; [reflexivity |]. split; [cbn in Hlen; congruence |].
  split; [apply conj_agrees; [apply own_agrees | exact Htop] |].
  unfold visit. rewrite exit_fixed_spec by exact Hd. cbn [ws_stack ws_depth]. rewrite Eb. reflexivity.
Qed.

Lemma fixed_object : forall o d st path,
  subtree_ok d st path (flatten_depth d o) (spec_gates_object path o) (spec_object_items path o).
Proof.
  induction o as [c n off rep objs IHobjs | r | c | b | c n ov] using object_tree_ind;
    intros d st path Hwf Hd Htop;
    match goal with |- context [flatten_depth d ?o] =>
      destruct (visit_fixed o d st path Hwf Hd Htop) as (top & rest & Eb & Hrest & Hg & Hv)
    end;
    cbn [is_block] in Hv.
  - (* block *)
    set (o := OBlock c n off rep objs) in *.
    set (g := cfg_combine (of_cfg (object_cfg o)) top) in *.
    set (p := own_atoms (object_cfg o) ++ path) in *.
    set (st1 := {| ws_stack := g :: top :: rest; ws_depth := S d |}) in *.
    assert (Hwf1 : wfst st1) by (unfold wfst, st1; cbn [ws_stack ws_depth List.length]; lia).
    assert (Hb1 : base (S d) st1 = g :: top :: rest)
      by (unfold base, st1; cbn [ws_stack ws_depth]; rewrite Nat.sub_diag; reflexivity).
    assert (Htop1 : gate_agrees (hd None (base (S d) st1)) p) by (rewrite Hb1; exact Hg).
    destruct (fixed_forest objs IHobjs (S d) st1 p Hwf1 (Nat.le_refl _) Htop1)
      as (gs & st2 & Hw & Hwf2 & Hd2 & Hb2 & Hgs & His).
    exists (g :: gs), st2.
    change (flatten_depth d o) with ((o, d) :: flat_map (flatten_depth (S d)) objs).
    cbn [walk]. rewrite Hv. cbn [bind snd fst]. rewrite Hw. cbn [bind snd fst].
    split; [reflexivity |]. split; [exact Hwf2 |]. split; [lia |]. split; [| split].
    + (* the caller's part of the stack is untouched *)
      unfold base in Hb2 |- *. replace (ws_depth st2 - d) with (S (ws_depth st2 - S d)) by lia.
      rewrite <- tl_skipn, Hb2. fold (base (S d) st1). rewrite Hb1. cbn [tl]. symmetry; exact Eb.
    + change (spec_gates_object path o) with (p :: flat_map (spec_gates_object p) objs).
      constructor; assumption.
    + change (spec_object_items path o)
        with (object_items own_atoms (@app string) p o ++ flat_map (spec_object_items p) objs).
      change (attach_model (map fst ((o, d) :: flat_map (flatten_depth (S d)) objs)) (g :: gs))
        with (object_items of_cfg cfg_combine g o ++
              attach_model (map fst (flat_map (flatten_depth (S d)) objs)) gs).
      apply Forall2_app; [apply object_items_agree; exact Hg | exact His].
  - (* register *)
    eexists; eexists. cbn [flatten_depth walk]. rewrite Hv. cbn [bind snd fst].
    split; [reflexivity |]. split; [unfold wfst; cbn [ws_stack ws_depth List.length]; lia |].
    split; [cbn [ws_depth]; lia |].
    split; [unfold base at 1; cbn [ws_stack ws_depth]; rewrite Nat.sub_diag; symmetry; exact Eb |].
    split; [cbn [spec_gates_object]; constructor; [exact Hg | constructor] |].
    cbn [spec_object_items]. rewrite app_nil_r. unfold attach_model. cbn [map fst List.combine flat_map snd].
    rewrite app_nil_r. apply object_items_agree; exact Hg.
  - (* command *)
    eexists; eexists. cbn [flatten_depth walk]. rewrite Hv. cbn [bind snd fst].
    split; [reflexivity |]. split; [unfold wfst; cbn [ws_stack ws_depth List.length]; lia |].
    split; [cbn [ws_depth]; lia |].
    split; [unfold base at 1; cbn [ws_stack ws_depth]; rewrite Nat.sub_diag; symmetry; exact Eb |].
    split; [cbn [spec_gates_object]; constructor; [exact Hg | constructor] |].
    cbn [spec_object_items]. rewrite app_nil_r. unfold attach_model. cbn [map fst List.combine flat_map snd].
    rewrite app_nil_r. apply object_items_agree; exact Hg.
  - (* buffer *)
    eexists; eexists. cbn [flatten_depth walk]. rewrite Hv. cbn [bind snd fst].
    split; [reflexivity |]. split; [unfold wfst; cbn [ws_stack ws_depth List.length]; lia |].
    split; [cbn [ws_depth]; lia |].
    split; [unfold base at 1; cbn [ws_stack ws_depth]; rewrite Nat.sub_diag; symmetry; exact Eb |].
    split; [cbn [spec_gates_object]; constructor; [exact Hg | constructor] |].
    cbn [spec_object_items]. rewrite app_nil_r. unfold attach_model. cbn [map fst List.combine flat_map snd].
    rewrite app_nil_r. apply object_items_agree; exact Hg.
  - (* ref *)
    eexists; eexists. cbn [flatten_depth walk]. rewrite Hv. cbn [bind snd fst].
    split; [reflexivity |]. split; [unfold wfst; cbn [ws_stack ws_depth List.length]; lia |].
    split; [cbn [ws_depth]; lia |].
    split; [unfold base at 1; cbn [ws_stack ws_depth]; rewrite Nat.sub_diag; symmetry; exact Eb |].
    split; [cbn [spec_gates_object]; constructor; [exact Hg | constructor] |].
    cbn [spec_object_items]. rewrite app_nil_r. unfold attach_model. cbn [map fst List.combine flat_map snd].
    rewrite app_nil_r. apply object_items_agree; exact Hg.
Qed.

Lemma fixed_top : forall objs, exists gs st',
  walk exit_fixed (preorder objs) ws_init = Ok (gs, st') /\
  Forall2 gate_agrees gs (spec_gates objs) /\
  items_agree (attach_model (preorder_objects objs) gs) (flat_map (spec_object_items []) objs).
Proof.
  intro objs.
  assert (HF : Forall (fun o => forall d st path,
              subtree_ok d st path (flatten_depth d o) (spec_gates_object path o) (spec_object_items path o)) objs)
    by (apply Forall_forall; intros o _; apply fixed_object).
  destruct (fixed_forest objs HF 0 ws_init []) as (gs & st' & Hw & _ & _ & _ & Hg & Hi).
  - reflexivity.
  - apply Nat.le_refl.
  - cbn. apply same_set_refl.
  - exists gs, st'. auto.
Qed.

(* the corrected walk gives every object exactly (as a set) its own atoms and those of all enclosing blocks *)
Theorem fixed_walk_correct : forall objs, exists gs,
  propagate_cfg_fixed objs = Ok gs /\ Forall2 gate_agrees gs (spec_gates objs).
Proof.
  intro objs. destruct (fixed_top objs) as (gs & st' & Hw & Hg & _).
  exists gs. unfold propagate_cfg_fixed, propagate_gates. rewrite Hw. auto.
Qed.

Theorem fixed_items_correct : forall d, exists its,
  items_fixed d = Ok its /\ items_agree its (spec_items d).
Proof.
  intro d. destruct (fixed_top (d_objects d)) as (gs & st' & Hw & _ & Hi).
  exists (model_items_of gs d). unfold items_fixed, model_items, propagate_gates. rewrite Hw.
  split; [reflexivity |]. unfold model_items_of, spec_items.
  apply Forall2_app; [apply root_items_agree | exact Hi].
Qed.

(* ------------------------------------------------------------------ 4. the walk as written *)

(* every entry's depth is at most the level left open by its predecessor (true of every pre-order list) *)
Fixpoint levels_ok (c : nat) (l : list (object * nat)) : Prop :=
  match l with
  | [] => True
  | e :: t => snd e <= c /\ levels_ok (level_after e) t
  end.

Lemma levels_ok_forest : forall objs,
  Forall (fun o => forall d c rest, d <= c -> (forall c', d <= c' -> levels_ok c' rest) ->
                                    levels_ok c (flatten_depth d o ++ rest)) objs ->
  forall d c rest, d <= c -> (forall c', d <= c' -> levels_ok c' rest) ->
                   levels_ok c (flat_map (flatten_depth d) objs ++ rest).
Proof.
  induction 1 as [| o t Ho Ht IH]; intros d c rest Hc Hrest.
  - cbn. apply Hrest, Hc.
  - cbn [flat_map]. rewrite <- app_assoc. apply Ho; [exact Hc |].
    intros c' Hc'. apply IH; assumption.
Qed.

Lemma levels_ok_object : forall o d c rest, d <= c -> (forall c', d <= c' -> levels_ok c' rest) ->
  levels_ok c (flatten_depth d o ++ rest).
Proof.
  induction o as [cf n off rep objs IHobjs | r | cm | b | cf n ov] using object_tree_ind;
    intros d c rest Hc Hrest.
  - change (flatten_depth d (OBlock cf n off rep objs))
      with ((OBlock cf n off rep objs, d) :: flat_map (flatten_depth (S d)) objs).
    cbn [app levels_ok snd]. split; [exact Hc |].
    unfold level_after; cbn [fst snd is_block].
    apply (levels_ok_forest objs IHobjs); [lia |]. intros c' Hc'. apply Hrest. lia.
  - cbn. split; [exact Hc |]. apply Hrest. lia.
  - cbn. split; [exact Hc |]. apply Hrest. lia.
  - cbn. split; [exact Hc |]. apply Hrest. lia.
  - cbn. split; [exact Hc |]. apply Hrest. lia.
Qed.

Lemma preorder_levels_ok : forall objs, levels_ok 0 (preorder objs).
Proof.
  intro objs. unfold preorder. rewrite <- (app_nil_r (flat_map _ objs)).
  apply levels_ok_forest; [| apply Nat.le_refl | intros; exact I].
  apply Forall_forall. intros o _. apply levels_ok_object.
Qed.

Lemma unwind_stop : forall d stack, unwind d stack d = {| ws_stack := stack; ws_depth := d |}.
Proof. intros [| d] stack; cbn [unwind]; [| rewrite Nat.ltb_irrefl]; reflexivity. Qed.

(* `if` pops once, `while` pops (current_depth - depth) times: the same when at most one level ends *)
Lemma exit_agree : forall d st, d <= ws_depth st -> ws_depth st - d <= 1 -> exit_code d st = exit_fixed d st.
Proof.
  intros d [stack cur]; unfold exit_code, exit_fixed; cbn [ws_stack ws_depth]. intros H1 H2.
  assert (Hc : cur = d \/ cur = S d) by lia. destruct Hc as [-> | ->].
  - rewrite Nat.ltb_irrefl, unwind_stop. reflexivity.
  - cbn [unwind]. replace (d <? S d) with true by (symmetry; apply Nat.ltb_lt; lia).
    rewrite unwind_stop. reflexivity.
Qed.

Lemma exit_fixed_depth : forall d st, d <= ws_depth st -> ws_depth (exit_fixed d st) = d.
Proof. intros d st H. rewrite exit_fixed_spec by exact H. reflexivity. Qed.

Lemma visit_fixed_depth : forall o d st g st', d <= ws_depth st ->
  visit exit_fixed o d st = Ok (g, st') -> ws_depth st' = level_after (o, d).
Proof.
  intros o d st g st' Hd H. unfold visit in H. pose proof (exit_fixed_depth d st Hd) as He.
  destruct (ws_stack (exit_fixed d st)) as [| top rest]; [discriminate |].
  inversion H; subst. unfold level_after; cbn [fst snd].
  destruct (is_block o); cbn [ws_depth]; lia.
Qed.

Definition first_ok (c : nat) (l : list (object * nat)) : Prop :=
  match l with [] => True | e :: _ => c - snd e <= 1 end.

Lemma walk_agree : forall l st,
  levels_ok (ws_depth st) l -> first_ok (ws_depth st) l -> single_exits l ->
  walk exit_code l st = walk exit_fixed l st.
Proof.
  induction l as [| [o d] t IH]; intros st Hl Hf Hs; [reflexivity |].
  cbn [levels_ok snd] in Hl. destruct Hl as [Hd Hl]. cbn [first_ok snd] in Hf.
  cbn [walk].
  assert (Hv : visit exit_code o d st = visit exit_fixed o d st)
    by (unfold visit; rewrite (exit_agree d st Hd Hf); reflexivity).
  rewrite Hv. destruct (visit exit_fixed o d st) as [[g st1] | k] eqn:E; [| reflexivity].
  cbn [bind snd fst]. pose proof (visit_fixed_depth o d st g st1 Hd E) as Hdep.
  rewrite IH; [reflexivity | rewrite Hdep; exact Hl | |].
  - rewrite Hdep. destruct t as [| e2 t']; [exact I |]. cbn [first_ok].
    cbn [single_exits] in Hs. destruct Hs as [Hs _]. exact Hs.
  - destruct t as [| e2 t']; [exact I |]. cbn [single_exits] in Hs. tauto.
Qed.

(* on trees without a multi-level exit the pass as written IS the corrected pass *)
Lemma code_eq_fixed : forall objs, single_exits (preorder objs) ->
  walk exit_code (preorder objs) ws_init = walk exit_fixed (preorder objs) ws_init.
Proof.
  intros objs Hs. apply walk_agree; [apply preorder_levels_ok | | exact Hs].
  destruct (preorder objs) as [| e t]; cbn; [exact I | lia].
Qed.

Theorem code_walk_partial : forall objs, single_exits (preorder objs) ->
  exists gs, propagate_cfg objs = Ok gs /\ propagate_cfg_fixed objs = Ok gs /\
             Forall2 gate_agrees gs (spec_gates objs).
Proof.
  intros objs Hs. destruct (fixed_walk_correct objs) as (gs & Hf & Hg).
  exists gs. split; [| split; assumption].
  unfold propagate_cfg, propagate_cfg_fixed, propagate_gates in *. rewrite (code_eq_fixed objs Hs). exact Hf.
Qed.

Theorem code_items_partial : forall d, single_exits (preorder (d_objects d)) ->
  exists its, items_code d = Ok its /\ items_agree its (spec_items d).
Proof.
  intros d Hs. destruct (fixed_items_correct d) as (its & Hf & Hi).
  exists its. split; [| exact Hi].
  unfold items_code, items_fixed, model_items, propagate_gates in *. rewrite (code_eq_fixed _ Hs). exact Hf.
Qed.

Lemma single_exitsb_spec : forall l, single_exitsb l = true <-> single_exits l.
Proof.
  induction l as [| e1 t IH]; [cbn; tauto |].
  destruct t as [| e2 t']; [cbn; tauto |].
  change (single_exitsb (e1 :: e2 :: t')) with ((exit_levels e1 e2 <=? 1) && single_exitsb (e2 :: t'))%bool.
  change (single_exits (e1 :: e2 :: t')) with (exit_levels e1 e2 <= 1 /\ single_exits (e2 :: t')).
  rewrite andb_true_iff, Nat.leb_le, IH. tauto.
Qed.

(* ------------------------------------------------------------------ no cfg on the path => unconditional *)

Lemma Forall2_combine_in : forall {A B} (R : A -> B -> Prop) l1 l2 a b,
  Forall2 R l1 l2 -> In (a, b) (List.combine l1 l2) -> R a b.
Proof.
  intros A B R l1 l2 a b H; induction H as [| x y l1 l2 Hxy H IH]; cbn; [tauto |].
  intros [E | E]; [inversion E; subst; exact Hxy | apply IH, E].
Qed.

Lemma agrees_unconditional : forall ms ss m s, items_agree ms ss -> In (m, s) (List.combine ms ss) ->
  (it_attr s = [] -> it_attr m = None) /\ (it_eff s = [] -> it_eff m = None).
Proof.
  intros ms ss m s H Hin. destruct (Forall2_combine_in _ _ _ _ _ H Hin) as (_ & Ha & He).
  split; intro E; rewrite E in *; apply atoms_x_nil, same_set_nil; assumption.
Qed.

(* ------------------------------------------------------------------ 6. the D6 witness *)

Lemma Forall2_nth_error : forall {A B} (R : A -> B -> Prop) l1 l2 n a b,
  Forall2 R l1 l2 -> nth_error l1 n = Some a -> nth_error l2 n = Some b -> R a b.
Proof.
  intros A B R l1 l2 n a b H; revert n; induction H as [| x y l1 l2 Hxy H IH]; intros [| n] H1 H2;
    cbn in *; try discriminate.
  - inversion H1; inversion H2; subst; exact Hxy.
  - eapply IH; eassumption.
Qed.

(* #[cfg(a)] block A { #[cfg(b)] block B { R1 } }, R2 : the pass as written leaves `a` on R2 *)
Lemma d6_refuted :
  ~ single_exits (preorder (d_objects d6_witness)) /\
  exists gs its,
    propagate_cfg (d_objects d6_witness) = Ok gs /\
    ~ Forall2 gate_agrees gs (spec_gates (d_objects d6_witness)) /\
    items_code d6_witness = Ok its /\
    ~ items_agree its (spec_items d6_witness) /\
    In (mk_item "method:R2"%string (Some (Atom "a"%string)) (Some (Atom "a"%string))) its /\
    In (mk_item "method:R2"%string (@nil string) (@nil string)) (spec_items d6_witness).
Proof.
  split.
  - intro H. apply single_exitsb_spec in H. vm_compute in H. discriminate.
  - eexists; eexists. split; [vm_compute; reflexivity |]. split; [| split; [vm_compute; reflexivity |]].
    + intro H.
      pose proof (Forall2_nth_error _ _ _ 3 (Some (Atom "a"%string)) (@nil string) H eq_refl eq_refl) as Hbad.
      apply (proj1 (Hbad "a"%string)). left; reflexivity.
    + split; [| split].
      * intro H.
        assert (Hbad : item_agrees (mk_item "method:R2"%string (Some (Atom "a"%string)) (Some (Atom "a"%string)))
                                   (mk_item "method:R2"%string (@nil string) (@nil string))).
        { apply (Forall2_nth_error _ _ _ 12 _ _ H); vm_compute; reflexivity. }
        destruct Hbad as (_ & Ha & _). apply (proj1 (Ha "a"%string)). left; reflexivity.
      * vm_compute. tauto.
      * vm_compute. tauto.
Qed.

(* ------------------------------------------------------------------ 7. canonical (printed) atom sets *)
(* canon l is strictly increasing, and a strictly increasing list is determined by its set of elements:
   equal sets print equally, so the set statements above are statements about the strings the
   correspondence check compares. *)

Definition slt (s t : string) : Prop := String.compare s t = Lt.

Lemma ascii_compare_refl : forall a, Ascii.compare a a = Eq.
Proof. intro a. unfold Ascii.compare. apply N.compare_refl. Qed.

Lemma ascii_compare_lt_trans : forall a b c,
  Ascii.compare a b = Lt -> Ascii.compare b c = Lt -> Ascii.compare a c = Lt.
Proof.
  intros a b c. unfold Ascii.compare. rewrite !N.compare_lt_iff. apply N.lt_trans.
Qed.

Lemma string_compare_refl : forall s, String.compare s s = Eq.
Proof. induction s as [| a s IH]; cbn; [reflexivity |]. rewrite ascii_compare_refl. exact IH. Qed.

Lemma slt_irrefl : forall s, ~ slt s s.
Proof. intros s H. unfold slt in H. rewrite string_compare_refl in H. discriminate. Qed.

Lemma slt_trans : forall s1 s2 s3, slt s1 s2 -> slt s2 s3 -> slt s1 s3.
Proof.
  unfold slt. induction s1 as [| a s1 IH]; intros [| b s2] [| c s3]; cbn; try discriminate; auto.
  destruct (Ascii.compare a b) eqn:E1; try discriminate;
    destruct (Ascii.compare b c) eqn:E2; try discriminate; intros H1 H2.
  - apply Ascii.compare_eq_iff in E1, E2; subst. rewrite ascii_compare_refl. eapply IH; eassumption.
  - apply Ascii.compare_eq_iff in E1; subst. rewrite E2. reflexivity.
  - apply Ascii.compare_eq_iff in E2; subst. rewrite E1. reflexivity.
  - rewrite (ascii_compare_lt_trans _ _ _ E1 E2). reflexivity.
Qed.

Lemma leb_true_neq_slt : forall s h, String.eqb s h = false -> String.leb s h = true -> slt s h.
Proof.
  intros s h Hne Hle. unfold String.leb in Hle. unfold slt.
  destruct (String.compare s h) eqn:E; [| reflexivity | discriminate].
  apply String.compare_eq_iff in E; subst. rewrite String.eqb_refl in Hne. discriminate.
Qed.

Lemma leb_false_slt : forall s h, String.leb s h = false -> slt h s.
Proof.
  intros s h Hle. unfold String.leb in Hle. unfold slt. rewrite String.compare_antisym.
  destruct (String.compare s h); try discriminate. reflexivity.
Qed.

Lemma insert_str_sorted : forall s l, StronglySorted slt l -> StronglySorted slt (insert_str s l).
Proof.
  intros s l; induction l as [| h t IH]; intro H; cbn [insert_str].
  - constructor; constructor.
  - destruct (String.eqb s h) eqn:E; [exact H |].
    inversion H as [| ? ? Ht Hh]; subst.
    destruct (String.leb s h) eqn:L.
    + pose proof (leb_true_neq_slt s h E L) as Hsh.
      constructor; [exact H |]. constructor; [exact Hsh |].
      apply Forall_forall. intros x Hx. eapply slt_trans; [exact Hsh |].
      rewrite Forall_forall in Hh. apply Hh, Hx.
    + pose proof (leb_false_slt s h L) as Hhs.
      constructor; [apply IH, Ht |].
      apply Forall_forall. intros x Hx. apply in_insert_str in Hx as [-> | Hx]; [exact Hhs |].
      rewrite Forall_forall in Hh. apply Hh, Hx.
Qed.

Lemma canon_sorted : forall l, StronglySorted slt (canon l).
Proof. induction l as [| h t IH]; cbn; [constructor | apply insert_str_sorted, IH]. Qed.

Lemma sorted_unique : forall l1 l2,
  StronglySorted slt l1 -> StronglySorted slt l2 -> same_set l1 l2 -> l1 = l2.
Proof.
  induction l1 as [| h1 t1 IH]; intros [| h2 t2] H1 H2 Hs.
  - reflexivity.
  - exfalso. apply (proj2 (Hs h2)). left; reflexivity.
  - exfalso. apply (proj1 (Hs h1)). left; reflexivity.
  - inversion H1 as [| ? ? Ht1 Hh1]; inversion H2 as [| ? ? Ht2 Hh2]; subst.
    rewrite Forall_forall in Hh1, Hh2.
    assert (Eh : h1 = h2).
    { destruct (proj1 (Hs h1) (or_introl eq_refl)) as [E | Hin1]; [symmetry; exact E |].
      destruct (proj2 (Hs h2) (or_introl eq_refl)) as [E | Hin2]; [exact E |].
      exfalso. apply (slt_irrefl h1). eapply slt_trans; [apply Hh1, Hin2 | apply Hh2, Hin1]. }
    subst h2. f_equal. apply IH; try assumption.
    intro x; split; intro Hx.
    + destruct (proj1 (Hs x) (or_intror Hx)) as [E | Hin]; [| exact Hin].
      subst x. exfalso. apply (slt_irrefl h1), Hh1, Hx.
    + destruct (proj2 (Hs x) (or_intror Hx)) as [E | Hin]; [| exact Hin].
      subst x. exfalso. apply (slt_irrefl h1), Hh2, Hx.
Qed.

Lemma canon_ext : forall a b, same_set a b -> canon a = canon b.
Proof.
  intros a b H. apply sorted_unique; try apply canon_sorted.
  eapply same_set_trans; [apply canon_same_set |].
  eapply same_set_trans; [exact H | apply same_set_sym, canon_same_set].
Qed.

Lemma canon_nodup : forall l, NoDup (canon l).
Proof.
  intro l. pose proof (canon_sorted l) as H. induction H as [| h t Ht IH Hh]; constructor; [| exact IH].
  intro Hin. rewrite Forall_forall in Hh. exact (slt_irrefl h (Hh h Hin)).
Qed.

(* atom SETS as printed: flattening of combine is the union *)
Lemma combine_atom_set : forall a b, atom_set (cfg_combine a b) = canon (atoms_x a ++ atoms_x b).
Proof. intros a b. apply canon_ext, combine_atoms. Qed.

(* the three columns the check compares for an item, model side and spec side *)
Definition item_sets_model (i : item cfgx) : string * list string * list string :=
  (it_key i, atom_set (it_attr i), atom_set (it_eff i)).
Definition item_sets_spec (i : item (list string)) : string * list string * list string :=
  (it_key i, canon (it_attr i), canon (it_eff i)).

Lemma items_agree_printed : forall ms ss, items_agree ms ss -> map item_sets_model ms = map item_sets_spec ss.
Proof.
  intros ms ss H; induction H as [| m s ms ss (Hk & Ha & He) H IH]; cbn; [reflexivity |].
  f_equal; [| exact IH]. unfold item_sets_model, item_sets_spec, atom_set.
  rewrite Hk, (canon_ext _ _ Ha), (canon_ext _ _ He). reflexivity.
Qed.

(* ------------------------------------------------------------------ 8. statements used by props/C18.v *)

Lemma gates_are_conjunctions_fixed : forall d, exists its,
  items_fixed d = Ok its /\
  items_agree its (spec_items d) /\
  map item_sets_model its = map item_sets_spec (spec_items d).
Proof.
  intro d. destruct (fixed_items_correct d) as (its & H & Hi).
  exists its. split; [exact H |]. split; [exact Hi | apply items_agree_printed, Hi].
Qed.

Lemma gates_partial : forall d, single_exits (preorder (d_objects d)) ->
  exists its,
    items_code d = Ok its /\
    items_fixed d = Ok its /\
    items_agree its (spec_items d) /\
    map item_sets_model its = map item_sets_spec (spec_items d).
Proof.
  intros d Hs. destruct (gates_are_conjunctions_fixed d) as (its & Hf & Hi & Hp).
  exists its. split; [| auto].
  unfold items_code, items_fixed, model_items, propagate_gates in *. rewrite (code_eq_fixed _ Hs). exact Hf.
Qed.

Lemma combine_atoms_full : forall a b,
  same_set (atoms_x (cfg_combine a b)) (atoms_x a ++ atoms_x b) /\
  atom_set (cfg_combine a b) = canon (atoms_x a ++ atoms_x b) /\
  cfg_combine a a = a /\ cfg_combine None a = a /\ cfg_combine a None = a /\
  (forall v1 v2, v1 <> v2 -> cfg_combine (Some v1) (Some v2) = Some (All v1 v2)).
Proof.
  intros a b. split; [apply combine_atoms |]. split; [apply combine_atom_set |].
  split; [apply combine_dedup |]. split; [apply combine_none_l |]. split; [apply combine_none_r |].
  apply combine_distinct.
Qed.

Lemma no_cfg_unconditional : forall d its,
  items_fixed d = Ok its \/ (single_exits (preorder (d_objects d)) /\ items_code d = Ok its) ->
  forall m s, In (m, s) (List.combine its (spec_items d)) ->
    (it_attr s = [] -> it_attr m = None) /\ (it_eff s = [] -> it_eff m = None).
Proof.
  intros d its H m s Hin.
  assert (Hi : items_agree its (spec_items d)).
  { destruct H as [H | [Hs H]].
    - destruct (fixed_items_correct d) as (its' & H' & Hi). congruence.
    - destruct (code_items_partial d Hs) as (its' & H' & Hi). congruence. }
  eapply agrees_unconditional; eassumption.
Qed.

Lemma never_panics : forall objs,
  (exists gs, propagate_cfg objs = Ok gs /\ List.length gs = List.length (preorder objs)) /\
  (exists gs, propagate_cfg_fixed objs = Ok gs /\ List.length gs = List.length (preorder objs)).
Proof. intro objs; split; [exact (propagate_cfg_total objs) | exact (propagate_cfg_fixed_total objs)]. Qed.

(* ------------------------------------------------------------------ 9. no gate tests a predicate nobody wrote *)

(* atoms of an item, attribute or effective predicate *)
Definition item_atom (it : item (list string)) (a : string) : Prop := In a (it_attr it) \/ In a (it_eff it).

Lemma variant_item_atoms : forall en eg v a,
  item_atom (variant_item own_atoms (@app string) en eg v) a -> In a (own_atoms (v_cfg v)) \/ In a eg.
Proof.
  intros en eg v a [Ha | Ha]; cbn [variant_item it_attr it_eff] in Ha.
  - left; exact Ha.
  - apply in_app_or in Ha. exact Ha.
Qed.

Lemma field_enum_items_atoms : forall g f it a,
  In it (field_enum_items own_atoms (@app string) g f) -> item_atom it a ->
  In a g \/ In a (field_written_atoms f).
Proof.
  intros g f it a Hin Ha. unfold field_enum_items in Hin. unfold field_written_atoms.
  destruct (f_conv f) as [[tn ut | e ut] |]; cbn [In] in Hin; try contradiction.
  destruct Hin as [E | Hin].
  - subst it. assert (Hx : In a (own_atoms (f_cfg f) ++ g)).
    { destruct Ha as [Ha | Ha]; exact Ha. }
    apply in_app_or in Hx. destruct Hx as [Hx | Hx]; [right; apply in_or_app; left; exact Hx | left; exact Hx].
  - apply in_map_iff in Hin. destruct Hin as (v & E & Hv). subst it.
    apply variant_item_atoms in Ha. destruct Ha as [Ha | Ha].
    + right. apply in_or_app. right. apply in_flat_map. exists v. split; assumption.
    + apply in_app_or in Ha. destruct Ha as [Ha | Ha]; [right; apply in_or_app; left; exact Ha | left; exact Ha].
Qed.

Lemma field_accessor_items_atoms : forall set g f it a,
  In it (field_accessor_items own_atoms (@app string) set g f) -> item_atom it a ->
  In a g \/ In a (field_written_atoms f).
Proof.
  intros set g f it a Hin Ha. unfold field_accessor_items in Hin. unfold field_written_atoms.
  assert (Hx : In a (own_atoms (f_cfg f) ++ g)).
  { apply in_app_or in Hin.
    destruct Hin as [Hin | Hin];
      [destruct (readable (f_access f)) | destruct (writable (f_access f))];
      cbn [In] in Hin; try contradiction;
      destruct Hin as [E | []]; subst it; cbn [it_attr it_eff] in Ha;
      (destruct Ha as [Ha | Ha]; [apply in_or_app; left; exact Ha | exact Ha]). }
  apply in_app_or in Hx. destruct Hx as [Hx | Hx]; [right; apply in_or_app; left; exact Hx | left; exact Hx].
Qed.

Lemma plain_atoms : forall k (g : list string) a, item_atom (plain k g) a -> In a g.
Proof. intros k g a [Ha | Ha]; exact Ha. Qed.

Lemma field_set_items_atoms : forall set size g fs it a,
  In it (field_set_items own_atoms (@app string) set size g fs) -> item_atom it a ->
  In a g \/ In a (flat_map field_written_atoms fs).
Proof.
  intros set size g fs it a Hin Ha. unfold field_set_items in Hin.
  destruct (size =? 0)%Z; [contradiction |].
  destruct Hin as [E | [E | Hin]]; try (subst it; left; eapply plain_atoms; exact Ha).
  apply in_flat_map in Hin. destruct Hin as (f & Hf & Hin).
  destruct (field_accessor_items_atoms _ _ _ _ _ Hin Ha) as [H | H]; [left; exact H |].
  right. apply in_flat_map. exists f. split; assumption.
Qed.

Lemma flat_map_enum_items_atoms : forall g fs it a,
  In it (flat_map (field_enum_items own_atoms (@app string) g) fs) -> item_atom it a ->
  In a g \/ In a (flat_map field_written_atoms fs).
Proof.
  intros g fs it a Hin Ha. apply in_flat_map in Hin. destruct Hin as (f & Hf & Hin).
  destruct (field_enum_items_atoms _ _ _ _ Hin Ha) as [H | H]; [left; exact H |].
  right. apply in_flat_map. exists f. split; assumption.
Qed.

Lemma object_items_atoms : forall g o it a,
  In it (object_items own_atoms (@app string) g o) -> item_atom it a ->
  In a g \/ In a (flat_map field_written_atoms (object_fields o)).
Proof.
  intros g o it a Hin Ha. unfold object_items in Hin.
  destruct Hin as [E | Hin]; [subst it; left; eapply plain_atoms; exact Ha |].
  destruct o as [c n off rep objs | r | c | b | c n ov]; cbn [object_fields].
  - destruct Hin as [E | [E | []]]; subst it; left; eapply plain_atoms; exact Ha.
  - apply in_app_or in Hin. destruct Hin as [Hin | Hin].
    { destruct (readable (rg_access r)); [| contradiction].
      destruct Hin as [E | []]; subst it; left; eapply plain_atoms; exact Ha. }
    apply in_app_or in Hin. destruct Hin as [Hin | Hin].
    + eapply field_set_items_atoms; eassumption.
    + eapply flat_map_enum_items_atoms; eassumption.
  - rewrite flat_map_app.
    apply in_app_or in Hin. destruct Hin as [Hin | Hin].
    { destruct (field_set_items_atoms _ _ _ _ _ _ Hin Ha) as [H | H]; [left; exact H |].
      right. apply in_or_app. left. exact H. }
    apply in_app_or in Hin. destruct Hin as [Hin | Hin].
    { destruct (field_set_items_atoms _ _ _ _ _ _ Hin Ha) as [H | H]; [left; exact H |].
      right. apply in_or_app. right. exact H. }
    destruct (flat_map_enum_items_atoms _ _ _ _ Hin Ha) as [H | H]; [left; exact H |].
    right. rewrite <- flat_map_app. exact H.
  - contradiction.
  - contradiction.
Qed.

Lemma leaf_object_items_atoms : forall o path it a,
  match o with OBlock _ _ _ _ _ => False | _ => True end ->
  In it (spec_object_items path o) -> item_atom it a ->
  In a path \/ In a (object_written_atoms o).
Proof.
  intros o path it a Hleaf Hin Ha.
  assert (Hin' : In it (object_items own_atoms (@app string) (own_atoms (object_cfg o) ++ path) o)).
  { destruct o; [contradiction | | | |]; cbn [spec_object_items] in Hin; rewrite app_nil_r in Hin; exact Hin. }
  assert (Hw : object_written_atoms o
               = own_atoms (object_cfg o) ++ flat_map field_written_atoms (object_fields o) ++ []).
  { destruct o; [contradiction | | | |]; reflexivity. }
  rewrite Hw. destruct (object_items_atoms _ _ _ _ Hin' Ha) as [H | H].
  - apply in_app_or in H.
    destruct H as [H | H]; [right; apply in_or_app; left; exact H | left; exact H].
  - right. apply in_or_app. right. apply in_or_app. left. exact H.
Qed.

(* every atom of an item of the subtree of [o] is on the path above [o] or written inside [o] *)
Lemma spec_object_items_atoms : forall o path it a,
  In it (spec_object_items path o) -> item_atom it a ->
  In a path \/ In a (object_written_atoms o).
Proof.
  induction o as [c n off rep objs IH | r | c | b | c n ov] using object_tree_ind;
    intros path it a Hin Ha.
  - cbn [spec_object_items] in Hin. cbn [object_written_atoms object_cfg object_fields flat_map] in *.
    cbn [app].
    apply in_app_or in Hin. destruct Hin as [Hin | Hin].
    + destruct (object_items_atoms _ _ _ _ Hin Ha) as [H | H]; [| contradiction].
      cbn [object_cfg] in H. apply in_app_or in H.
      destruct H as [H | H]; [right; apply in_or_app; left; exact H | left; exact H].
    + apply in_flat_map in Hin. destruct Hin as (o & Ho & Hin).
      rewrite Forall_forall in IH. destruct (IH o Ho _ _ _ Hin Ha) as [H | H].
      * apply in_app_or in H.
        destruct H as [H | H]; [right; apply in_or_app; left; exact H | left; exact H].
      * right. apply in_or_app. right. apply in_flat_map. exists o. split; assumption.
  - apply (leaf_object_items_atoms _ _ it); [exact I | exact Hin | exact Ha].
  - apply (leaf_object_items_atoms _ _ it); [exact I | exact Hin | exact Ha].
  - apply (leaf_object_items_atoms _ _ it); [exact I | exact Hin | exact Ha].
  - apply (leaf_object_items_atoms _ _ it); [exact I | exact Hin | exact Ha].
Qed.

Lemma spec_item_atoms_are_written : forall d it a,
  In it (spec_items d) -> item_atom it a -> In a (written_atoms d).
Proof.
  intros d it a Hin Ha. unfold spec_items in Hin. apply in_app_or in Hin. destruct Hin as [Hin | Hin].
  - unfold root_items in Hin. destruct Hin as [E | [E | []]]; subst it;
      apply plain_atoms in Ha; cbn [own_atoms] in Ha; contradiction.
  - apply in_flat_map in Hin. destruct Hin as (o & Ho & Hin).
    destruct (spec_object_items_atoms _ _ _ _ Hin Ha) as [[] | H].
    unfold written_atoms. apply in_flat_map. exists o. split; assumption.
Qed.

Lemma spec_atoms_are_written : forall d it a,
  In it (spec_items d) -> In a (it_eff it) -> In a (written_atoms d).
Proof. intros d it a Hin Ha. eapply spec_item_atoms_are_written; [exact Hin | right; exact Ha]. Qed.

Lemma spec_attr_atoms_are_written : forall d it a,
  In it (spec_items d) -> In a (it_attr it) -> In a (written_atoms d).
Proof. intros d it a Hin Ha. eapply spec_item_atoms_are_written; [exact Hin | left; exact Ha]. Qed.

Lemma Forall2_in_l : forall {A B} (R : A -> B -> Prop) l1 l2 a,
  Forall2 R l1 l2 -> In a l1 -> exists b, In b l2 /\ R a b.
Proof.
  intros A B R l1 l2 a H; induction H as [| x y l1 l2 Hxy H IH]; cbn [In]; [tauto |].
  intros [E | Hin].
  - subst x. exists y. split; [left; reflexivity | exact Hxy].
  - destruct (IH Hin) as (b & Hb & Hr). exists b. split; [right; exact Hb | exact Hr].
Qed.

Theorem gate_atoms_are_written : forall d its, items_fixed d = Ok its ->
  forall it a, In it its -> In a (atoms_x (it_eff it)) -> In a (written_atoms d).
Proof.
  intros d its Hf it a Hin Ha.
  destruct (gates_are_conjunctions_fixed d) as (its' & Hf' & Hi & _).
  assert (E : its' = its) by congruence. subst its'.
  destruct (Forall2_in_l _ _ _ _ Hi Hin) as (s & Hs & _ & _ & He).
  eapply spec_atoms_are_written; [exact Hs | apply He, Ha].
Qed.

Theorem attr_atoms_are_written : forall d its, items_fixed d = Ok its ->
  forall it a, In it its -> In a (atoms_x (it_attr it)) -> In a (written_atoms d).
Proof.
  intros d its Hf it a Hin Ha.
  destruct (gates_are_conjunctions_fixed d) as (its' & Hf' & Hi & _).
  assert (E : its' = its) by congruence. subst its'.
  destruct (Forall2_in_l _ _ _ _ Hi Hin) as (s & Hs & _ & Hat & _).
  eapply spec_attr_atoms_are_written; [exact Hs | apply Hat, Ha].
Qed.
