(* FrontProofsM.v — C16, second half: the manifest front end implements [spec_device]; final theorems. *)
From Coq Require Import ZArith List Bool String Ascii Lia Permutation.
From DD Require Import Common Mir GenErr Front FrontProofs.
Import ListNotations.
Open Scope string_scope.
Open Scope Z_scope.

(* ================================================================== the manifest half *)

Ltac keys := cbn [String.eqb Ascii.eqb Bool.eqb].

Lemma m_access_ok : forall a, m_access (m_of_access a) = ROk a.
Proof. destruct a; reflexivity. Qed.
Lemma m_byte_order_ok : forall b, m_byte_order (m_of_byte_order b) = ROk b.
Proof. destruct b; reflexivity. Qed.
Lemma m_bit_order_ok : forall b, m_bit_order (m_of_bit_order b) = ROk b.
Proof. destruct b; reflexivity. Qed.
Lemma m_base_ok : forall b, m_base_type (m_of_base b) = ROk b.
Proof. destruct b; reflexivity. Qed.
Lemma m_integer_ok : forall i, m_integer_type (MStr (show_integer i)) = ROk i.
Proof. destruct i; reflexivity. Qed.

Lemma as_int_ok : forall z, in_i64 z = true -> as_int (MInt z) = ROk z.
Proof. intros z H. unfold as_int. rewrite H. reflexivity. Qed.
Lemma as_uint_ok : forall z, in_u64 z = true -> as_uint (MInt z) = ROk z.
Proof. intros z H. unfold as_uint. rewrite H. reflexivity. Qed.
Lemma in_u32_u64 : forall z, in_u32 z = true -> in_u64 z = true.
Proof.
  intros z H. unfold in_u32, in_u64 in *. apply andb_prop in H. destruct H as [H1 H2].
  apply Z.leb_le in H1. apply Z.ltb_lt in H2. apply andb_true_intro. split; [apply Z.leb_le|apply Z.ltb_lt]; lia.
Qed.
Lemma as_u32_ok : forall z, in_u32 z = true -> as_u32 (MInt z) = ROk z.
Proof. intros z H. unfold as_u32. rewrite (as_uint_ok _ (in_u32_u64 _ H)). cbn. unfold to_u32. rewrite H. reflexivity. Qed.

Lemma m_repeat_ok : forall r, repeat_ok r = true -> m_repeat (m_of_repeat r) = ROk r.
Proof.
  intros [c s] H. unfold repeat_ok in H. cbn in H. apply andb_prop in H. destruct H as [H1 H2].
  unfold m_repeat, m_of_repeat. cbn [as_map rbind r_count r_stride mget]. keys.
  rewrite (as_uint_ok _ H1), (as_int_ok _ H2). reflexivity.
Qed.

Lemma in_u8_u64 : forall z, in_u8 z = true -> in_u64 z = true.
Proof.
  intros z H. unfold in_u8, in_u64 in *. apply andb_prop in H. destruct H as [H1 H2].
  apply Z.leb_le in H1. apply Z.ltb_lt in H2. apply andb_true_intro. split; [apply Z.leb_le|apply Z.ltb_lt]; lia.
Qed.

Lemma m_reset_ok : forall r, reset_ok r = true -> m_reset (m_of_reset r) = ROk r.
Proof.
  intros [z|l] H; cbn in H; unfold m_reset, m_of_reset.
  - rewrite (as_uint_ok _ H). reflexivity.
  - cbn [as_uint as_array].
    rewrite <- mapR_mapM, mapR_map, (mapR_ok _ (fun z => z)).
    + rewrite map_id. reflexivity.
    + rewrite Forall_forall. intros z Hz. rewrite forallb_forall in H. specialize (H z Hz).
      rewrite (as_uint_ok _ (in_u8_u64 _ H)). cbn. rewrite H. reflexivity.
Qed.

(* ---- generic segments of a key list ---- *)

Lemma seg_m : forall {A S} (step : string * mvalue -> S -> result S) k (f : A -> mvalue)
                     (upd : option A -> S -> S) (P : A -> bool) x b,
  (forall a, P a = true -> step (k, f a) b = ROk (upd (Some a) b)) -> upd None b = b -> opt_ok P x = true ->
  foldM step (opt_key k f x) b = ROk (upd x b).
Proof. intros A S step k f upd P [a|] b H H0 Hx; cbn in *; [rewrite (H a Hx)|rewrite H0]; reflexivity. Qed.

Definition always {A} (_ : A) : bool := true.
Lemma opt_ok_always : forall {A} (x : option A), opt_ok always x = true.
Proof. intros A [a|]; reflexivity. Qed.

Lemma mget_app : forall k l1 l2, mget k (l1 ++ l2) = match mget k l1 with Some v => Some v | None => mget k l2 end.
Proof.
  induction l1 as [|[k' v] t IH]; intros l2; cbn; [reflexivity|].
  destruct (k' =s k); [reflexivity|apply IH].
Qed.

Lemma mget_opt_key : forall {A} k k' (f : A -> mvalue) x,
  mget k (opt_key k' f x) = if k' =s k then option_map f x else None.
Proof. intros A k k' f [a|]; cbn; destruct (k' =s k); reflexivity. Qed.

(* ---- variants and conversions ---- *)

Lemma m_variant_ok : forall toml v, variant_ok v = true -> m_variant (variant_to_m toml v) = ROk (spec_variant v).
Proof.
  intros toml [c n val mf ov] H. unfold variant_ok in H. cbn in H.
  apply andb_prop in H. destruct H as [_ H].
  unfold variant_to_m, spec_variant, m_variant. cbn [av_cfg av_name av_value av_map_form av_omit_value].
  destruct c as [c|], val as [|z| |], mf, ov, toml; cbn; keys; cbn;
    try rewrite (as_int_ok _ H); try reflexivity.
  all: unfold m_enum_value; cbn; rewrite ?H; reflexivity.
Qed.

Lemma variant_to_m_fst : forall toml v, fst (variant_to_m toml v) = av_name v.
Proof. reflexivity. Qed.

Lemma variants_no_key : forall toml k vs,
  (forall v, In v vs -> (av_name v =s k) = false) -> mget k (map (variant_to_m toml) vs) = None.
Proof.
  induction vs as [|v t IH]; intros H; cbn; [reflexivity|].
  destruct (variant_to_m toml v) as [k' x] eqn:E.
  assert (k' = av_name v) by (rewrite <- (variant_to_m_fst toml v), E; reflexivity). subst k'.
  rewrite (H v (or_introl eq_refl)). apply IH.
  intros v' Hv'. apply H. right; assumption.
Qed.

Lemma variants_filter : forall toml vs,
  forallb variant_ok vs = true ->
  filter (fun kv : string * mvalue => negb (fst kv =s "name") && negb (fst kv =s "description"))
         (map (variant_to_m toml) vs) = map (variant_to_m toml) vs.
Proof.
  induction vs as [|v t IH]; intros H; cbn [map filter]; [reflexivity|].
  cbn in H. apply andb_prop in H. destruct H as [Hv Ht].
  unfold variant_ok in Hv. apply andb_prop in Hv. destruct Hv as [Hv _].
  rewrite !variant_to_m_fst. rewrite Hv. rewrite (IH Ht). reflexivity.
Qed.

Lemma m_conv_ok : forall toml c, conv_ok c = true ->
  m_conv (snd (hd ("", MNull) (conv_to_m toml c))) (snd c) = ROk (spec_conv c).
Proof.
  intros toml [[n|n vs] t] H; unfold conv_to_m, spec_conv; cbn [fst snd hd]; [reflexivity|].
  unfold conv_ok in H. cbn [fst] in H.
  unfold m_conv. cbn [mget]. keys. cbn [as_string rbind].
  assert (Hd : mget "description" (map (variant_to_m toml) vs) = None).
  { apply variants_no_key. intros v Hv. rewrite forallb_forall in H. specialize (H v Hv).
    unfold variant_ok in H. apply andb_prop in H. destruct H as [H _]. apply andb_prop in H. destruct H as [_ H].
    apply negb_true_iff in H. exact H. }
  rewrite Hd. cbn [option_map transpose rbind filter fst negb andb]. keys. cbn [negb andb].
  rewrite (variants_filter toml vs H).
  rewrite <- mapR_mapM, mapR_map, (mapR_ok _ spec_variant).
  - reflexivity.
  - rewrite Forall_forall. intros v Hv. apply m_variant_ok. rewrite forallb_forall in H. apply H; assumption.
Qed.

Lemma m_conv_ok' : forall toml cv t, conv_ok (cv, t) = true ->
  m_conv (match cv with
          | ACDirect n => MStr n
          | ACEnum n vs => MMap (("name", MStr n) :: map (variant_to_m toml) vs)
          end) t = ROk (spec_conv (cv, t)).
Proof. intros toml cv t H. exact (m_conv_ok toml (cv, t) H). Qed.

(* ---- fields ---- *)

Definition spec_field_m (dfa : access) (f : afield) : field :=
  {| f_cfg := af_cfg f; f_name := af_name f; f_access := or_default (af_access f) dfa;
     f_base := af_base f; f_conv := option_map spec_conv (af_conv f);
     f_start := af_start f; f_end := or_default (af_end f) (af_start f) |}.

Section FieldProof.
Local Arguments as_u32 : simpl never.
Local Arguments m_conv : simpl never.
Local Arguments m_access : simpl never.
Local Arguments m_base_type : simpl never.
Local Arguments m_of_access : simpl never.
Local Arguments m_of_base : simpl never.

Lemma m_field_ok : forall toml dfa f,
  field_ok f = true -> m_field dfa (field_to_m toml f) = ROk (spec_field_m dfa f).
Proof.
  intros toml dfa [c n acc base conv s e incl] H.
  unfold field_ok in H. cbn in H. apply andb_prop in H. destruct H as [H Hc].
  apply andb_prop in H. destruct H as [Hst He].
  unfold m_field, field_to_m, spec_field_m, conv_to_m.
  cbn [af_cfg af_name af_access af_base af_conv af_start af_end af_incl].
  destruct c as [c|], acc as [a|], conv as [[cv [|]]|], e as [e|]; cbn in He, Hc; cbn;
    repeat (first [ rewrite m_access_ok | rewrite m_base_ok | rewrite (as_u32_ok _ Hst) | rewrite (as_u32_ok _ He)
                  | rewrite (m_conv_ok' toml _ _ Hc) ]; cbn);
    reflexivity.
Qed.
End FieldProof.

Lemma m_fields_ok : forall toml dfa fs,
  forallb field_ok fs = true -> m_fields dfa (fields_to_m toml fs) = ROk (map (spec_field_m dfa) fs).
Proof.
  intros toml dfa fs H. unfold m_fields, fields_to_m. cbn [as_map rbind].
  rewrite <- mapR_mapM, mapR_map. apply mapR_ok.
  rewrite Forall_forall. intros f Hf. apply m_field_ok. rewrite forallb_forall in H. apply H; assumption.
Qed.

Lemma fields_ok_field_ok : forall fs, fields_ok fs = true -> forallb field_ok fs = true.
Proof.
  intros fs H. unfold fields_ok in H. rewrite forallb_forall in *. intros f Hf. specialize (H f Hf).
  apply andb_prop in H. destruct H; assumption.
Qed.

Lemma spec_field_m_eq : forall g f, spec_field_m (g_default_field_access g) f = spec_field g f.
Proof. reflexivity. Qed.

(* ---- contains_key over segments ---- *)

Lemma contains_key_app : forall k l1 l2, contains_key k (l1 ++ l2) = contains_key k l1 || contains_key k l2.
Proof. intros. unfold contains_key. rewrite mget_app. destruct (mget k l1); reflexivity. Qed.

Lemma contains_key_opt_key : forall {A} k k' (f : A -> mvalue) x,
  contains_key k (opt_key k' f x) = (k' =s k) && negb (is_none x).
Proof. intros A k k' f [a|]; unfold contains_key; cbn; destruct (k' =s k); reflexivity. Qed.

Lemma contains_key_head : forall k ty h,
  ("type" =s k) = false -> ("cfg" =s k) = false -> ("description" =s k) = false ->
  contains_key k (head_keys ty h) = false.
Proof.
  intros k ty [[c|] [|] n] H1 H2 H3; unfold contains_key, head_keys; cbn [app opt_key h_cfg h_doc mget];
    rewrite ?H1, ?H2, ?H3; reflexivity.
Qed.


Notation NN := (@None _).

(* key dispatch of the step functions, proved once on an abstract state *)
Lemma rstep_access : forall dfa v s, m_register_step dfa ("access", v) s = (a <-- m_access v ;; ROk (upd_register s NN (Some a) NN NN NN NN NN NN NN NN NN)).
Proof. intros. unfold m_register_step. keys. reflexivity. Qed.
Lemma rstep_byte_order : forall dfa v s, m_register_step dfa ("byte_order", v) s = (b <-- m_byte_order v ;; ROk (upd_register s NN NN (Some (Some b)) NN NN NN NN NN NN NN NN)).
Proof. intros. unfold m_register_step. keys. reflexivity. Qed.
Lemma rstep_bit_order : forall dfa v s, m_register_step dfa ("bit_order", v) s = (b <-- m_bit_order v ;; ROk (upd_register s NN NN NN (Some b) NN NN NN NN NN NN NN)).
Proof. intros. unfold m_register_step. keys. reflexivity. Qed.
Lemma rstep_address : forall dfa v s, m_register_step dfa ("address", v) s = (z <-- as_int v ;; ROk (upd_register s NN NN NN NN NN NN (Some z) NN NN NN NN)).
Proof. intros. unfold m_register_step. keys. reflexivity. Qed.
Lemma rstep_size_bits : forall dfa v s, m_register_step dfa ("size_bits", v) s = (z <-- as_u32 v ;; ROk (upd_register s NN NN NN NN NN NN NN (Some z) NN NN NN)).
Proof. intros. unfold m_register_step. keys. reflexivity. Qed.
Lemma rstep_reset_value : forall dfa v s, m_register_step dfa ("reset_value", v) s = (x <-- m_reset v ;; ROk (upd_register s NN NN NN NN NN NN NN NN (Some (Some x)) NN NN)).
Proof. intros. unfold m_register_step. keys. reflexivity. Qed.
Lemma rstep_repeat : forall dfa v s, m_register_step dfa ("repeat", v) s = (x <-- m_repeat v ;; ROk (upd_register s NN NN NN NN NN NN NN NN NN (Some (Some x)) NN)).
Proof. intros. unfold m_register_step. keys. reflexivity. Qed.
Lemma rstep_allow_bit_overlap : forall dfa v s, m_register_step dfa ("allow_bit_overlap", v) s = (b <-- as_bool v ;; ROk (upd_register s NN NN NN NN (Some b) NN NN NN NN NN NN)).
Proof. intros. unfold m_register_step. keys. reflexivity. Qed.
Lemma rstep_allow_address_overlap : forall dfa v s, m_register_step dfa ("allow_address_overlap", v) s = (b <-- as_bool v ;; ROk (upd_register s NN NN NN NN NN (Some b) NN NN NN NN NN)).
Proof. intros. unfold m_register_step. keys. reflexivity. Qed.
Lemma rstep_fields : forall dfa v s, m_register_step dfa ("fields", v) s = (fs <-- m_fields dfa v ;; ROk (upd_register s NN NN NN NN NN NN NN NN NN NN (Some fs))).
Proof. intros. unfold m_register_step. keys. reflexivity. Qed.
Lemma cstep_byte_order : forall dfa v s, m_command_step dfa ("byte_order", v) s = (b <-- m_byte_order v ;; ROk (upd_command s NN (Some (Some b)) NN NN NN NN NN NN NN NN NN)).
Proof. intros. unfold m_command_step. keys. reflexivity. Qed.
Lemma cstep_bit_order : forall dfa v s, m_command_step dfa ("bit_order", v) s = (b <-- m_bit_order v ;; ROk (upd_command s NN NN (Some b) NN NN NN NN NN NN NN NN)).
Proof. intros. unfold m_command_step. keys. reflexivity. Qed.
Lemma cstep_address : forall dfa v s, m_command_step dfa ("address", v) s = (z <-- as_int v ;; ROk (upd_command s NN NN NN NN NN (Some z) NN NN NN NN NN)).
Proof. intros. unfold m_command_step. keys. reflexivity. Qed.
Lemma cstep_size_bits_in : forall dfa v s, m_command_step dfa ("size_bits_in", v) s = (z <-- as_u32 v ;; ROk (upd_command s NN NN NN NN NN NN (Some z) NN NN NN NN)).
Proof. intros. unfold m_command_step. keys. reflexivity. Qed.
Lemma cstep_size_bits_out : forall dfa v s, m_command_step dfa ("size_bits_out", v) s = (z <-- as_u32 v ;; ROk (upd_command s NN NN NN NN NN NN NN (Some z) NN NN NN)).
Proof. intros. unfold m_command_step. keys. reflexivity. Qed.
Lemma cstep_repeat : forall dfa v s, m_command_step dfa ("repeat", v) s = (x <-- m_repeat v ;; ROk (upd_command s NN NN NN NN NN NN NN NN (Some (Some x)) NN NN)).
Proof. intros. unfold m_command_step. keys. reflexivity. Qed.
Lemma cstep_allow_bit_overlap : forall dfa v s, m_command_step dfa ("allow_bit_overlap", v) s = (b <-- as_bool v ;; ROk (upd_command s NN NN NN (Some b) NN NN NN NN NN NN NN)).
Proof. intros. unfold m_command_step. keys. reflexivity. Qed.
Lemma cstep_allow_address_overlap : forall dfa v s, m_command_step dfa ("allow_address_overlap", v) s = (b <-- as_bool v ;; ROk (upd_command s NN NN NN NN (Some b) NN NN NN NN NN NN)).
Proof. intros. unfold m_command_step. keys. reflexivity. Qed.
Lemma cstep_fields_in : forall dfa v s, m_command_step dfa ("fields_in", v) s = (fs <-- m_fields dfa v ;; ROk (upd_command s NN NN NN NN NN NN NN NN NN (Some fs) NN)).
Proof. intros. unfold m_command_step. keys. reflexivity. Qed.
Lemma cstep_fields_out : forall dfa v s, m_command_step dfa ("fields_out", v) s = (fs <-- m_fields dfa v ;; ROk (upd_command s NN NN NN NN NN NN NN NN NN NN (Some fs))).
Proof. intros. unfold m_command_step. keys. reflexivity. Qed.

(* ---- register ---- *)


Lemma foldM_head : forall {S} (step : string * mvalue -> S -> result S) ty h (upd : option string -> S -> S) b,
  (forall v s, step ("type", v) s = ROk s) ->
  (forall c s, step ("cfg", MStr c) s = ROk (upd (Some c) s)) ->
  (forall s, step ("description", MStr "doc") s = ROk s) ->
  upd None b = b ->
  foldM step (head_keys ty h) b = ROk (upd (h_cfg h) b).
Proof.
  intros S step ty [[c|] [|] n] upd b H1 H2 H3 H4; unfold head_keys; cbn; rewrite H1; cbn; rewrite ?H2; cbn; rewrite ?H3;
    rewrite ?H4; reflexivity.
Qed.

Ltac flat_r :=
  unfold upd_register; cbn [rbind or_default option_map rg_cfg rg_name rg_access rg_byte_order rg_bit_order
       rg_allow_bit_overlap rg_allow_address_overlap rg_address rg_size_bits rg_reset rg_repeat rg_fields].
Ltac flat_c :=
  unfold upd_command; cbn [rbind or_default option_map cm_cfg cm_name cm_address cm_byte_order cm_bit_order
       cm_allow_bit_overlap cm_allow_address_overlap cm_size_in cm_size_out cm_repeat cm_in_fields cm_out_fields].

Lemma m_register_spec : forall toml g h r,
  register_ok r = true ->
  class_of (m_register (g_default_register_access g) (g_default_field_access g) (g_default_bit_order g) (h_name h)
                       (head_keys "register" h ++ register_keys toml r))
  = class_of (spec_register g h r).
Proof.
  intros toml g h r Hok.
  unfold register_ok in Hok. repeat (apply andb_prop in Hok; destruct Hok as [Hok ?]).
  unfold m_register.
  assert (Ka : contains_key "address" (head_keys "register" h ++ register_keys toml r) = negb (is_none (ar_address r))).
  { rewrite contains_key_app, contains_key_head by reflexivity. unfold register_keys.
    rewrite !contains_key_app, !contains_key_opt_key. keys. cbn [andb orb].
    destruct (ar_fields r); cbn; rewrite ?orb_false_r; reflexivity. }
  assert (Ks : contains_key "size_bits" (head_keys "register" h ++ register_keys toml r) = negb (is_none (ar_size_bits r))).
  { rewrite contains_key_app, contains_key_head by reflexivity. unfold register_keys.
    rewrite !contains_key_app, !contains_key_opt_key. keys. cbn [andb orb].
    destruct (ar_fields r); cbn; rewrite ?orb_false_r; reflexivity. }
  rewrite Ka, Ks. unfold spec_register.
  destruct (ar_address r) as [a|] eqn:Ea; cbn [is_none negb]; [|reflexivity].
  destruct (ar_size_bits r) as [s|] eqn:Es; cbn [is_none negb]; [|reflexivity].
  set (dfa := g_default_field_access g).
  rewrite foldM_app.
  rewrite (foldM_head (m_register_step dfa) "register" h
             (fun c s => upd_register s (option_map Some c) NN NN NN NN NN NN NN NN NN NN))
    by (intros; reflexivity).
  flat_r. unfold register_keys. rewrite Ea, Es.
  rewrite foldM_app, (seg_m (m_register_step dfa) "access" m_of_access
                         (fun x s => upd_register s NN x NN NN NN NN NN NN NN NN NN) always);
    [|intros a0 _; rewrite ?rstep_access, ?rstep_byte_order, ?rstep_bit_order, m_access_ok; reflexivity
     |flat_r; reflexivity|apply opt_ok_always].
  flat_r.
  rewrite foldM_app, (seg_m (m_register_step dfa) "byte_order" m_of_byte_order
                         (fun x s => upd_register s NN NN (option_map Some x) NN NN NN NN NN NN NN NN) always);
    [|intros a0 _; rewrite ?rstep_access, ?rstep_byte_order, ?rstep_bit_order, m_byte_order_ok; reflexivity
     |flat_r; reflexivity|apply opt_ok_always].
  flat_r.
  rewrite foldM_app, (seg_m (m_register_step dfa) "bit_order" m_of_bit_order
                         (fun x s => upd_register s NN NN NN x NN NN NN NN NN NN NN) always);
    [|intros a0 _; rewrite ?rstep_access, ?rstep_byte_order, ?rstep_bit_order, m_bit_order_ok; reflexivity
     |flat_r; reflexivity|apply opt_ok_always].
  flat_r.
  rewrite foldM_app. cbn [opt_key foldM]. rewrite rstep_address. cbn in Hok. rewrite (as_int_ok _ Hok).
  flat_r.
  rewrite foldM_app. cbn [opt_key foldM]. rewrite rstep_size_bits.
  match goal with H : opt_ok in_u32 (Some s) = true |- _ => cbn in H; rewrite (as_u32_ok _ H) end.
  flat_r.
  rewrite foldM_app, (seg_m (m_register_step dfa) "reset_value" m_of_reset
                         (fun x s => upd_register s NN NN NN NN NN NN NN NN (option_map Some x) NN NN) reset_ok);
    [|intros a0 Ha0; rewrite rstep_reset_value, (m_reset_ok _ Ha0); reflexivity
     |flat_r; reflexivity|assumption].
  flat_r.
  rewrite foldM_app, (seg_m (m_register_step dfa) "repeat" m_of_repeat
                         (fun x s => upd_register s NN NN NN NN NN NN NN NN NN (option_map Some x) NN) repeat_ok);
    [|intros a0 Ha0; rewrite rstep_repeat, (m_repeat_ok _ Ha0); reflexivity
     |flat_r; reflexivity|assumption].
  flat_r.
  rewrite foldM_app, (seg_m (m_register_step dfa) "allow_bit_overlap" MBool
                         (fun x s => upd_register s NN NN NN NN x NN NN NN NN NN NN) always);
    [|intros a0 _; rewrite rstep_allow_bit_overlap; reflexivity|flat_r; reflexivity|apply opt_ok_always].
  flat_r.
  rewrite foldM_app, (seg_m (m_register_step dfa) "allow_address_overlap" MBool
                         (fun x s => upd_register s NN NN NN NN NN x NN NN NN NN NN) always);
    [|intros a0 _; rewrite rstep_allow_address_overlap; reflexivity|flat_r; reflexivity|apply opt_ok_always].
  flat_r.
  destruct (ar_fields r) as [|f0 ft] eqn:Ef.
  - cbn [foldM]. unfold class_of. f_equal.
    destruct (h_cfg h), (ar_byte_order r), (ar_reset r), (ar_repeat r); reflexivity.
  - cbn [foldM]. rewrite rstep_fields.
    rewrite (m_fields_ok toml dfa (f0 :: ft)) by (apply fields_ok_field_ok; assumption).
    cbn [rbind]. unfold class_of. f_equal.
    destruct (h_cfg h), (ar_byte_order r), (ar_reset r), (ar_repeat r); reflexivity.
Qed.

(* ---- command ---- *)

Lemma m_command_spec : forall toml g h c,
  command_ok c = true ->
  class_of (m_command (g_default_field_access g) (g_default_bit_order g) (h_name h)
                      (head_keys "command" h ++ command_keys toml c))
  = class_of (spec_command g h c).
Proof.
  intros toml g h c Hok.
  unfold command_ok in Hok. repeat (apply andb_prop in Hok; destruct Hok as [Hok ?]).
  unfold m_command.
  assert (Ka : contains_key "address" (head_keys "command" h ++ command_keys toml c) = negb (is_none (ak_address c))).
  { rewrite contains_key_app, contains_key_head by reflexivity. unfold command_keys.
    rewrite !contains_key_app, !contains_key_opt_key. keys. cbn [andb orb]. rewrite ?orb_false_r. reflexivity. }
  rewrite Ka. unfold spec_command.
  destruct (ak_address c) as [a|] eqn:Ea; cbn [is_none negb]; [|reflexivity].
  set (dfa := g_default_field_access g).
  rewrite foldM_app.
  rewrite (foldM_head (m_command_step dfa) "command" h
             (fun c s => upd_command s (option_map Some c) NN NN NN NN NN NN NN NN NN NN))
    by (intros; reflexivity).
  flat_c. unfold command_keys. rewrite Ea.
  rewrite foldM_app, (seg_m (m_command_step dfa) "byte_order" m_of_byte_order
                         (fun x s => upd_command s NN (option_map Some x) NN NN NN NN NN NN NN NN NN) always);
    [|intros a0 _; rewrite ?cstep_byte_order, ?cstep_bit_order, m_byte_order_ok; reflexivity
     |flat_c; reflexivity|apply opt_ok_always].
  flat_c.
  rewrite foldM_app, (seg_m (m_command_step dfa) "bit_order" m_of_bit_order
                         (fun x s => upd_command s NN NN x NN NN NN NN NN NN NN NN) always);
    [|intros a0 _; rewrite ?cstep_byte_order, ?cstep_bit_order, m_bit_order_ok; reflexivity
     |flat_c; reflexivity|apply opt_ok_always].
  flat_c.
  rewrite foldM_app. cbn [opt_key foldM]. rewrite cstep_address. cbn in Hok. rewrite (as_int_ok _ Hok).
  flat_c.
  rewrite foldM_app, (seg_m (m_command_step dfa) "repeat" m_of_repeat
                         (fun x s => upd_command s NN NN NN NN NN NN NN NN (option_map Some x) NN NN) repeat_ok);
    [|intros a0 Ha0; rewrite cstep_repeat, (m_repeat_ok _ Ha0); reflexivity
     |flat_c; reflexivity|assumption].
  flat_c.
  rewrite foldM_app, (seg_m (m_command_step dfa) "allow_bit_overlap" MBool
                         (fun x s => upd_command s NN NN NN x NN NN NN NN NN NN NN) always);
    [|intros a0 _; rewrite cstep_allow_bit_overlap; reflexivity|flat_c; reflexivity|apply opt_ok_always].
  flat_c.
  rewrite foldM_app, (seg_m (m_command_step dfa) "allow_address_overlap" MBool
                         (fun x s => upd_command s NN NN NN NN x NN NN NN NN NN NN) always);
    [|intros a0 _; rewrite cstep_allow_address_overlap; reflexivity|flat_c; reflexivity|apply opt_ok_always].
  flat_c.
  rewrite foldM_app, (seg_m (m_command_step dfa) "size_bits_in" MInt
                         (fun x s => upd_command s NN NN NN NN NN NN x NN NN NN NN) in_u32);
    [|intros a0 Ha0; rewrite ?cstep_size_bits_in, ?cstep_size_bits_out, (as_u32_ok _ Ha0); reflexivity
     |flat_c; reflexivity|assumption].
  flat_c.
  rewrite foldM_app, (seg_m (m_command_step dfa) "fields_in" (fields_to_m toml)
                         (fun x s => upd_command s NN NN NN NN NN NN NN NN NN
                                                 (option_map (map (spec_field_m dfa)) x) NN) fields_ok);
    [|intros a0 Ha0; rewrite ?cstep_fields_in, ?cstep_fields_out,
        (m_fields_ok toml dfa a0 (fields_ok_field_ok _ Ha0)); reflexivity
     |flat_c; reflexivity|assumption].
  flat_c.
  rewrite foldM_app, (seg_m (m_command_step dfa) "size_bits_out" MInt
                         (fun x s => upd_command s NN NN NN NN NN NN NN x NN NN NN) in_u32);
    [|intros a0 Ha0; rewrite ?cstep_size_bits_in, ?cstep_size_bits_out, (as_u32_ok _ Ha0); reflexivity
     |flat_c; reflexivity|assumption].
  flat_c.
  rewrite (seg_m (m_command_step dfa) "fields_out" (fields_to_m toml)
                 (fun x s => upd_command s NN NN NN NN NN NN NN NN NN NN
                                         (option_map (map (spec_field_m dfa)) x)) fields_ok);
    [|intros a0 Ha0; rewrite ?cstep_fields_in, ?cstep_fields_out,
        (m_fields_ok toml dfa a0 (fields_ok_field_ok _ Ha0)); reflexivity
     |flat_c; reflexivity|assumption].
  unfold class_of. f_equal.
  destruct (h_cfg h), (ak_byte_order c), (ak_repeat c), (ak_fields_in c), (ak_fields_out c); reflexivity.
Qed.

(* ---- buffer ---- *)

Lemma m_buffer_spec : forall g h b,
  opt_ok in_i64 (ab_address b) = true ->
  class_of (m_buffer (g_default_buffer_access g) (h_name h)
                     (head_keys "buffer" h ++ opt_key "access" m_of_access (ab_access b)
                      ++ opt_key "address" MInt (ab_address b)))
  = class_of (spec_buffer g h b).
Proof.
  intros g [[c|] [|] n] [[[| |]|] [a|]] H; unfold m_buffer, spec_buffer, head_keys; cbn in H |- *;
    rewrite ?H; reflexivity.
Qed.

(* ---- ref overrides ---- *)

Lemma in_override_class : forall k, err_class (in_override (mk_err "manifest_unexpected_key" [k])) = ov_forbidden.
Proof. reflexivity. Qed.

Lemma mget_head_type : forall ty h rest, mget "type" (head_keys ty h ++ rest) = Some (MStr ty).
Proof. intros. reflexivity. Qed.

Definition ov_result (r : result override) : result override :=
  match r with ROk o => ROk o | RErr e => RErr (in_override e) end.

Definition upd_ro (s : reg_ov) (acc : option access) (addr : option Z) (allow : option bool)
           (reset : option reset_value) (rep : option repeat) : reg_ov :=
  {| ro_access := match acc with Some a => Some a | None => ro_access s end;
     ro_address := match addr with Some a => Some a | None => ro_address s end;
     ro_allow := or_default allow (ro_allow s);
     ro_reset := match reset with Some a => Some a | None => ro_reset s end;
     ro_repeat := match rep with Some a => Some a | None => ro_repeat s end |}.

Definition upd_co (s : cmd_ov) (addr : option Z) (allow : option bool) (rep : option repeat) : cmd_ov :=
  {| co_address := match addr with Some a => Some a | None => co_address s end;
     co_allow := or_default allow (co_allow s);
     co_repeat := match rep with Some a => Some a | None => co_repeat s end |}.

Ltac flat_ro := unfold upd_ro; cbn [rbind or_default ro_access ro_address ro_allow ro_reset ro_repeat].
Ltac flat_co := unfold upd_co; cbn [rbind or_default co_address co_allow co_repeat].

Lemma m_override_spec : forall toml ov,
  object_ok ov = true ->
  class_of (ov_result (m_object_override (h_name (ahead_of ov)) (obj_to_m toml ov))) = class_of (spec_override ov).
Proof.
  intros toml [h off rep order objs|h r|h c|h b|h ov'] Hok; cbn [obj_to_m spec_override ahead_of];
    unfold m_object_override; cbn [as_map rbind]; rewrite mget_head_type; cbn [as_string rbind]; keys;
    try reflexivity.
  - (* block *)
    cbn [object_ok] in Hok. apply andb_prop in Hok. destruct Hok as [Hok _]. apply andb_prop in Hok. destruct Hok as [Ho Hr].
    destruct h as [[c|] [|] n]; cbn [head_plain h_cfg h_doc h_name is_none negb andb];
      unfold head_keys; cbn [h_cfg h_doc opt_key app foldM]; unfold m_block_override_step at 1; keys; cbn [rbind];
      try (unfold m_block_override_step at 1; keys; cbn [rbind ov_result class_of]; reflexivity).
    destruct off as [o|], rep as [r|]; cbn [opt_key app foldM] in *;
      repeat (unfold m_block_override_step at 1; keys; cbn [rbind fst snd]);
      rewrite ?(as_int_ok _ Ho), ?(m_repeat_ok _ Hr); cbn [rbind fst snd];
      repeat (unfold m_block_override_step at 1; keys; cbn [rbind fst snd]);
      rewrite ?(m_repeat_ok _ Hr); cbn [rbind fst snd];
      destruct objs as [|o1 ot]; cbn [app foldM rbind fst snd ov_result class_of andb];
      try reflexivity;
      unfold m_block_override_step at 1; keys; reflexivity.
  - (* register *)
    cbn [object_ok] in Hok. unfold register_ok in Hok. repeat (apply andb_prop in Hok; destruct Hok as [Hok ?]).
    rewrite foldM_app.
    destruct h as [[c|] [|] n]; cbn [head_plain h_cfg h_doc h_name is_none negb andb];
      unfold head_keys; cbn [h_cfg h_doc opt_key app foldM]; unfold m_register_override_step at 1; keys; cbn [rbind];
      try (unfold m_register_override_step at 1; keys; cbn [rbind ov_result class_of]; reflexivity).
    unfold register_keys.
    rewrite foldM_app, (seg_m m_register_override_step "access" m_of_access
                              (fun x s => upd_ro s x NN NN NN NN) always);
      [|intros a0 _; unfold m_register_override_step; keys; rewrite m_access_ok; reflexivity
       |reflexivity|apply opt_ok_always].
    flat_ro.
    destruct (ar_byte_order r) as [bo|]; cbn [opt_key app is_none andb];
      [cbn [foldM]; unfold m_register_override_step at 1; keys; reflexivity|].
    destruct (ar_bit_order r) as [bio|]; cbn [opt_key app is_none andb];
      [cbn [foldM]; unfold m_register_override_step at 1; keys; reflexivity|].
    rewrite foldM_app, (seg_m m_register_override_step "address" MInt
                              (fun x s => upd_ro s NN x NN NN NN) in_i64);
      [|intros a0 Ha0; unfold m_register_override_step; keys; rewrite (as_int_ok _ Ha0); reflexivity
       |flat_ro; reflexivity|assumption].
    flat_ro.
    destruct (ar_size_bits r) as [sz|]; cbn [opt_key app is_none andb];
      [cbn [foldM]; unfold m_register_override_step at 1; keys; reflexivity|].
    rewrite foldM_app, (seg_m m_register_override_step "reset_value" m_of_reset
                              (fun x s => upd_ro s NN NN NN x NN) reset_ok);
      [|intros a0 Ha0; unfold m_register_override_step; keys; rewrite (m_reset_ok _ Ha0); reflexivity
       |flat_ro; reflexivity|assumption].
    flat_ro.
    rewrite foldM_app, (seg_m m_register_override_step "repeat" m_of_repeat
                              (fun x s => upd_ro s NN NN NN NN x) repeat_ok);
      [|intros a0 Ha0; unfold m_register_override_step; keys; rewrite (m_repeat_ok _ Ha0); reflexivity
       |flat_ro; reflexivity|assumption].
    flat_ro.
    destruct (ar_allow_bit_overlap r) as [abo|]; cbn [opt_key app is_none andb];
      [cbn [foldM]; unfold m_register_override_step at 1; keys; reflexivity|].
    rewrite foldM_app, (seg_m m_register_override_step "allow_address_overlap" MBool
                              (fun x s => upd_ro s NN NN x NN NN) always);
      [|intros a0 _; unfold m_register_override_step; keys; reflexivity
       |flat_ro; reflexivity|apply opt_ok_always].
    flat_ro.
    destruct (ar_fields r) as [|f0 ft]; cbn [foldM rbind ov_result class_of].
    + destruct (ar_access r), (ar_address r), (ar_reset r), (ar_repeat r); reflexivity.
    + unfold m_register_override_step at 1; keys; reflexivity.
  - (* command *)
    cbn [object_ok] in Hok. unfold command_ok in Hok. repeat (apply andb_prop in Hok; destruct Hok as [Hok ?]).
    rewrite foldM_app.
    destruct h as [[c0|] [|] n]; cbn [head_plain h_cfg h_doc h_name is_none negb andb];
      unfold head_keys; cbn [h_cfg h_doc opt_key app foldM]; unfold m_command_override_step at 1; keys; cbn [rbind];
      try (unfold m_command_override_step at 1; keys; cbn [rbind ov_result class_of]; reflexivity).
    unfold command_keys.
    destruct (ak_byte_order c) as [bo|]; cbn [opt_key app is_none andb];
      [cbn [foldM]; unfold m_command_override_step at 1; keys; reflexivity|].
    destruct (ak_bit_order c) as [bio|]; cbn [opt_key app is_none andb];
      [cbn [foldM]; unfold m_command_override_step at 1; keys; reflexivity|].
    rewrite foldM_app, (seg_m m_command_override_step "address" MInt
                              (fun x s => upd_co s x NN NN) in_i64);
      [|intros a0 Ha0; unfold m_command_override_step; keys; rewrite (as_int_ok _ Ha0); reflexivity
       |reflexivity|assumption].
    flat_co.
    rewrite foldM_app, (seg_m m_command_override_step "repeat" m_of_repeat
                              (fun x s => upd_co s NN NN x) repeat_ok);
      [|intros a0 Ha0; unfold m_command_override_step; keys; rewrite (m_repeat_ok _ Ha0); reflexivity
       |flat_co; reflexivity|assumption].
    flat_co.
    destruct (ak_allow_bit_overlap c) as [abo|]; cbn [opt_key app is_none andb];
      [cbn [foldM]; unfold m_command_override_step at 1; keys; reflexivity|].
    rewrite foldM_app, (seg_m m_command_override_step "allow_address_overlap" MBool
                              (fun x s => upd_co s NN x NN) always);
      [|intros a0 _; unfold m_command_override_step; keys; reflexivity
       |flat_co; reflexivity|apply opt_ok_always].
    flat_co.
    destruct (ak_size_in c) as [si|]; cbn [opt_key app is_none andb];
      [cbn [foldM]; unfold m_command_override_step at 1; keys; reflexivity|].
    destruct (ak_fields_in c) as [fi|]; cbn [opt_key app is_none andb];
      [cbn [foldM]; unfold m_command_override_step at 1; keys; reflexivity|].
    destruct (ak_size_out c) as [so|]; cbn [opt_key app is_none andb];
      [cbn [foldM]; unfold m_command_override_step at 1; keys; reflexivity|].
    destruct (ak_fields_out c) as [fo|]; cbn [opt_key app is_none andb foldM rbind ov_result class_of];
      [unfold m_command_override_step at 1; keys; reflexivity|].
    destruct (ak_address c), (ak_repeat c); reflexivity.
Qed.
