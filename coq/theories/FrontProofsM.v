(* FrontProofsM.v — C16, second half: the manifest front end implements [spec_device]; final theorems. *)
From Coq Require Import ZArith List Bool String Ascii Lia Permutation.
From DD Require Import Common Mir GenErr Front FrontProofs.
Import ListNotations.
Open Scope string_scope.
Open Scope Z_scope.

(* ================================================================== the manifest half *)

Ltac keys := cbn [String.eqb Ascii.eqb Bool.eqb].

Lemma m_access_ok : forall a, m_access (m_of_access a) = ROk a.
Proof. destruct a; reflexivity. Qed.
Lemma m_byte_order_ok : forall b, m_byte_order (m_of_byte_order b) = ROk b.
Proof. destruct b; reflexivity. Qed.
Lemma m_bit_order_ok : forall b, m_bit_order (m_of_bit_order b) = ROk b.
Proof. destruct b; reflexivity. Qed.
Lemma m_base_ok : forall b, m_base_type (m_of_base b) = ROk b.
Proof. destruct b; reflexivity. Qed.
Lemma m_integer_ok : forall i, m_integer_type (MStr (show_integer i)) = ROk i.
Proof. destruct i; reflexivity. Qed.

Lemma as_int_ok : forall z, in_i64 z = true -> as_int (MInt z) = ROk z.
Proof. intros z H. unfold as_int. rewrite H. reflexivity. Qed.
Lemma as_uint_ok : forall z, in_u64 z = true -> as_uint (MInt z) = ROk z.
Proof. intros z H. unfold as_uint. rewrite H. reflexivity. Qed.
Lemma in_u32_u64 : forall z, in_u32 z = true -> in_u64 z = true.
Proof.
  intros z H. unfold in_u32, in_u64 in *. apply andb_prop in H. destruct H as [H1 H2].
  apply Z.leb_le in H1. apply Z.ltb_lt in H2. apply andb_true_intro. split; [apply Z.leb_le|apply Z.ltb_lt]; lia.
Qed.
Lemma as_u32_ok : forall z, in_u32 z = true -> as_u32 (MInt z) = ROk z.
Proof. intros z H. unfold as_u32. rewrite (as_uint_ok _ (in_u32_u64 _ H)). cbn. unfold to_u32. rewrite H. reflexivity. Qed.

Lemma m_repeat_ok : forall r, repeat_ok r = true -> m_repeat (m_of_repeat r) = ROk r.
Proof.
  intros [c s] H. unfold repeat_ok in H. cbn in H. apply andb_prop in H. destruct H as [H1 H2].
  unfold m_repeat, m_of_repeat. cbn [as_map rbind r_count r_stride mget]. keys.
  rewrite (as_uint_ok _ H1), (as_int_ok _ H2). reflexivity.
Qed.

Lemma in_u8_u64 : forall z, in_u8 z = true -> in_u64 z = true.
Proof.
  intros z H. unfold in_u8, in_u64 in *. apply andb_prop in H. destruct H as [H1 H2].
  apply Z.leb_le in H1. apply Z.ltb_lt in H2. apply andb_true_intro. split; [apply Z.leb_le|apply Z.ltb_lt]; lia.
Qed.

Lemma m_reset_ok : forall r, reset_ok r = true -> m_reset (m_of_reset r) = ROk r.
Proof.
  intros [z|l] H; cbn in H; unfold m_reset, m_of_reset.
  - rewrite (as_uint_ok _ H). reflexivity.
  - cbn [as_uint as_array].
    rewrite <- mapR_mapM, mapR_map, (mapR_ok _ (fun z => z)).
    + rewrite map_id. reflexivity.
    + rewrite Forall_forall. intros z Hz. rewrite forallb_forall in H. specialize (H z Hz).
      rewrite (as_uint_ok _ (in_u8_u64 _ H)). cbn. rewrite H. reflexivity.
Qed.

(* ---- generic segments of a key list ---- *)

Lemma seg_m : forall {A S} (step : string * mvalue -> S -> result S) k (f : A -> mvalue)
                     (upd : option A -> S -> S) (P : A -> bool) x b,
  (forall a, P a = true -> step (k, f a) b = ROk (upd (Some a) b)) -> upd None b = b -> opt_ok P x = true ->
  foldM step (opt_key k f x) b = ROk (upd x b).
Proof. intros A S step k f upd P [a|] b H H0 Hx; cbn in *; [rewrite (H a Hx)|rewrite H0]; reflexivity. Qed.

Definition always {A} (_ : A) : bool := true.
Lemma opt_ok_always : forall {A} (x : option A), opt_ok always x = true.
Proof. intros A [a|]; reflexivity. Qed.

Lemma mget_app : forall k l1 l2, mget k (l1 ++ l2) = match mget k l1 with Some v => Some v | None => mget k l2 end.
Proof.
  induction l1 as [|[k' v] t IH]; intros l2; cbn; [reflexivity|].
  destruct (k' =s k); [reflexivity|apply IH].
Qed.

Lemma mget_opt_key : forall {A} k k' (f : A -> mvalue) x,
  mget k (opt_key k' f x) = if k' =s k then option_map f x else None.
Proof. intros A k k' f [a|]; cbn; destruct (k' =s k); reflexivity. Qed.

(* ---- variants and conversions ---- *)

Lemma m_variant_ok : forall toml v, variant_ok v = true -> m_variant (variant_to_m toml v) = ROk (spec_variant v).
Proof.
  intros toml [c n val mf ov] H. unfold variant_ok in H. cbn in H.
  apply andb_prop in H. destruct H as [_ H].
  unfold variant_to_m, spec_variant, m_variant. cbn [av_cfg av_name av_value av_map_form av_omit_value].
  destruct c as [c|], val as [|z| |], mf, ov, toml; cbn; keys; cbn;
    try rewrite (as_int_ok _ H); try reflexivity.
  all: unfold m_enum_value; cbn; rewrite ?H; reflexivity.
Qed.

Lemma variant_to_m_fst : forall toml v, fst (variant_to_m toml v) = av_name v.
Proof. reflexivity. Qed.

Lemma variants_no_key : forall toml k vs,
  (forall v, In v vs -> (av_name v =s k) = false) -> mget k (map (variant_to_m toml) vs) = None.
Proof.
  induction vs as [|v t IH]; intros H; cbn; [reflexivity|].
  destruct (variant_to_m toml v) as [k' x] eqn:E.
  assert (k' = av_name v) by (rewrite <- (variant_to_m_fst toml v), E; reflexivity). subst k'.
  rewrite (H v (or_introl eq_refl)). apply IH.
  intros v' Hv'. apply H. right; assumption.
Qed.

Lemma variants_filter : forall toml vs,
  forallb variant_ok vs = true ->
  filter (fun kv : string * mvalue => negb (fst kv =s "name") && negb (fst kv =s "description"))
         (map (variant_to_m toml) vs) = map (variant_to_m toml) vs.
Proof.
  induction vs as [|v t IH]; intros H; cbn [map filter]; [reflexivity|].
  cbn in H. apply andb_prop in H. destruct H as [Hv Ht].
  unfold variant_ok in Hv. apply andb_prop in Hv. destruct Hv as [Hv _].
  rewrite !variant_to_m_fst. rewrite Hv. rewrite (IH Ht). reflexivity.
Qed.

Lemma m_conv_ok : forall toml c, conv_ok c = true ->
  m_conv (snd (hd ("", MNull) (conv_to_m toml c))) (snd c) = ROk (spec_conv c).
Proof.
  intros toml [[n|n vs] t] H; unfold conv_to_m, spec_conv; cbn [fst snd hd]; [reflexivity|].
  unfold conv_ok in H. cbn [fst] in H.
  unfold m_conv. cbn [mget]. keys. cbn [as_string rbind].
  assert (Hd : mget "description" (map (variant_to_m toml) vs) = None).
  { apply variants_no_key. intros v Hv. rewrite forallb_forall in H. specialize (H v Hv).
    unfold variant_ok in H. apply andb_prop in H. destruct H as [H _]. apply andb_prop in H. destruct H as [_ H].
    apply negb_true_iff in H. exact H. }
  rewrite Hd. cbn [option_map transpose rbind filter fst negb andb]. keys. cbn [negb andb].
  rewrite (variants_filter toml vs H).
  rewrite <- mapR_mapM, mapR_map, (mapR_ok _ spec_variant).
  - reflexivity.
  - rewrite Forall_forall. intros v Hv. apply m_variant_ok. rewrite forallb_forall in H. apply H; assumption.
Qed.

Lemma m_conv_ok' : forall toml cv t, conv_ok (cv, t) = true ->
  m_conv (match cv with
          | ACDirect n => MStr n
          | ACEnum n vs => MMap (("name", MStr n) :: map (variant_to_m toml) vs)
          end) t = ROk (spec_conv (cv, t)).
Proof. intros toml cv t H. exact (m_conv_ok toml (cv, t) H). Qed.

(* ---- fields ---- *)

Definition spec_field_m (dfa : access) (f : afield) : field :=
  {| f_cfg := af_cfg f; f_name := af_name f; f_access := or_default (af_access f) dfa;
     f_base := af_base f; f_conv := option_map spec_conv (af_conv f);
     f_start := af_start f; f_end := or_default (af_end f) (af_start f) |}.

Section FieldProof.
Local Arguments as_u32 : simpl never.
Local Arguments m_conv : simpl never.
Local Arguments m_access : simpl never.
Local Arguments m_base_type : simpl never.
Local Arguments m_of_access : simpl never.
Local Arguments m_of_base : simpl never.

Lemma m_field_ok : forall toml dfa f,
  field_ok f = true -> m_field dfa (field_to_m toml f) = ROk (spec_field_m dfa f).
Proof.
  intros toml dfa [c n acc base conv s e incl] H.
  unfold field_ok in H. cbn in H. apply andb_prop in H. destruct H as [H Hc].
  apply andb_prop in H. destruct H as [Hst He].
  unfold m_field, field_to_m, spec_field_m, conv_to_m.
  cbn [af_cfg af_name af_access af_base af_conv af_start af_end af_incl].
  destruct c as [c|], acc as [a|], conv as [[cv [|]]|], e as [e|]; cbn in He, Hc; cbn;
    repeat (first [ rewrite m_access_ok | rewrite m_base_ok | rewrite (as_u32_ok _ Hst) | rewrite (as_u32_ok _ He)
                  | rewrite (m_conv_ok' toml _ _ Hc) ]; cbn);
    reflexivity.
Qed.
End FieldProof.

Lemma m_fields_ok : forall toml dfa fs,
  forallb field_ok fs = true -> m_fields dfa (fields_to_m toml fs) = ROk (map (spec_field_m dfa) fs).
Proof.
  intros toml dfa fs H. unfold m_fields, fields_to_m. cbn [as_map rbind].
  rewrite <- mapR_mapM, mapR_map. apply mapR_ok.
  rewrite Forall_forall. intros f Hf. apply m_field_ok. rewrite forallb_forall in H. apply H; assumption.
Qed.

Lemma fields_ok_field_ok : forall fs, fields_ok fs = true -> forallb field_ok fs = true.
Proof.
  intros fs H. unfold fields_ok in H. rewrite forallb_forall in *. intros f Hf. specialize (H f Hf).
  apply andb_prop in H. destruct H; assumption.
Qed.

Lemma spec_field_m_eq : forall g f, spec_field_m (g_default_field_access g) f = spec_field g f.
Proof. reflexivity. Qed.

(* ---- contains_key over segments ---- *)

Lemma contains_key_app : forall k l1 l2, contains_key k (l1 ++ l2) = contains_key k l1 || contains_key k l2.
Proof. intros. unfold contains_key. rewrite mget_app. destruct (mget k l1); reflexivity. Qed.

Lemma contains_key_opt_key : forall {A} k k' (f : A -> mvalue) x,
  contains_key k (opt_key k' f x) = (k' =s k) && negb (is_none x).
Proof. intros A k k' f [a|]; unfold contains_key; cbn; destruct (k' =s k); reflexivity. Qed.

Lemma contains_key_head : forall k ty h,
  ("type" =s k) = false -> ("cfg" =s k) = false -> ("description" =s k) = false ->
  contains_key k (head_keys ty h) = false.
Proof.
  intros k ty [[c|] [|] n] H1 H2 H3; unfold contains_key, head_keys; cbn [app opt_key h_cfg h_doc mget];
    rewrite ?H1, ?H2, ?H3; reflexivity.
Qed.


Notation NN := (@None _).

(* key dispatch of the step functions, proved once on an abstract state *)
Lemma rstep_access : forall dfa v s, m_register_step dfa ("access", v) s = (a <-- m_access v ;; ROk (upd_register s NN (Some a) NN NN NN NN NN NN NN NN NN)).
Proof. intros. unfold m_register_step. keys. reflexivity. Qed.
Lemma rstep_byte_order : forall dfa v s, m_register_step dfa ("byte_order", v) s = (b <-- m_byte_order v ;; ROk (upd_register s NN NN (Some (Some b)) NN NN NN NN NN NN NN NN)).
Proof. intros. unfold m_register_step. keys. reflexivity. Qed.
Lemma rstep_bit_order : forall dfa v s, m_register_step dfa ("bit_order", v) s = (b <-- m_bit_order v ;; ROk (upd_register s NN NN NN (Some b) NN NN NN NN NN NN NN)).
Proof. intros. unfold m_register_step. keys. reflexivity. Qed.
Lemma rstep_address : forall dfa v s, m_register_step dfa ("address", v) s = (z <-- as_int v ;; ROk (upd_register s NN NN NN NN NN NN (Some z) NN NN NN NN)).
Proof. intros. unfold m_register_step. keys. reflexivity. Qed.
Lemma rstep_size_bits : forall dfa v s, m_register_step dfa ("size_bits", v) s = (z <-- as_u32 v ;; ROk (upd_register s NN NN NN NN NN NN NN (Some z) NN NN NN)).
Proof. intros. unfold m_register_step. keys. reflexivity. Qed.
Lemma rstep_reset_value : forall dfa v s, m_register_step dfa ("reset_value", v) s = (x <-- m_reset v ;; ROk (upd_register s NN NN NN NN NN NN NN NN (Some (Some x)) NN NN)).
Proof. intros. unfold m_register_step. keys. reflexivity. Qed.
Lemma rstep_repeat : forall dfa v s, m_register_step dfa ("repeat", v) s = (x <-- m_repeat v ;; ROk (upd_register s NN NN NN NN NN NN NN NN NN (Some (Some x)) NN)).
Proof. intros. unfold m_register_step. keys. reflexivity. Qed.
Lemma rstep_allow_bit_overlap : forall dfa v s, m_register_step dfa ("allow_bit_overlap", v) s = (b <-- as_bool v ;; ROk (upd_register s NN NN NN NN (Some b) NN NN NN NN NN NN)).
Proof. intros. unfold m_register_step. keys. reflexivity. Qed.
Lemma rstep_allow_address_overlap : forall dfa v s, m_register_step dfa ("allow_address_overlap", v) s = (b <-- as_bool v ;; ROk (upd_register s NN NN NN NN NN (Some b) NN NN NN NN NN)).
Proof. intros. unfold m_register_step. keys. reflexivity. Qed.
Lemma rstep_fields : forall dfa v s, m_register_step dfa ("fields", v) s = (fs <-- m_fields dfa v ;; ROk (upd_register s NN NN NN NN NN NN NN NN NN NN (Some fs))).
Proof. intros. unfold m_register_step. keys. reflexivity. Qed.
Lemma cstep_byte_order : forall dfa v s, m_command_step dfa ("byte_order", v) s = (b <-- m_byte_order v ;; ROk (upd_command s NN (Some (Some b)) NN NN NN NN NN NN NN NN NN)).
Proof. intros. unfold m_command_step. keys. reflexivity. Qed.
Lemma cstep_bit_order : forall dfa v s, m_command_step dfa ("bit_order", v) s = (b <-- m_bit_order v ;; ROk (upd_command s NN NN (Some b) NN NN NN NN NN NN NN NN)).
Proof. intros. unfold m_command_step. keys. reflexivity. Qed.
Lemma cstep_address : forall dfa v s, m_command_step dfa ("address", v) s = (z <-- as_int v ;; ROk (upd_command s NN NN NN NN NN (Some z) NN NN NN NN NN)).
Proof. intros. unfold m_command_step. keys. reflexivity. Qed.
Lemma cstep_size_bits_in : forall dfa v s, m_command_step dfa ("size_bits_in", v) s = (z <-- as_u32 v ;; ROk (upd_command s NN NN NN NN NN NN (Some z) NN NN NN NN)).
Proof. intros. unfold m_command_step. keys. reflexivity. Qed.
Lemma cstep_size_bits_out : forall dfa v s, m_command_step dfa ("size_bits_out", v) s = (z <-- as_u32 v ;; ROk (upd_command s NN NN NN NN NN NN NN (Some z) NN NN NN)).
Proof. intros. unfold m_command_step. keys. reflexivity. Qed.
Lemma cstep_repeat : forall dfa v s, m_command_step dfa ("repeat", v) s = (x <-- m_repeat v ;; ROk (upd_command s NN NN NN NN NN NN NN NN (Some (Some x)) NN NN)).
Proof. intros. unfold m_command_step. keys. reflexivity. Qed.
Lemma cstep_allow_bit_overlap : forall dfa v s, m_command_step dfa ("allow_bit_overlap", v) s = (b <-- as_bool v ;; ROk (upd_command s NN NN NN (Some b) NN NN NN NN NN NN NN)).
Proof. intros. unfold m_command_step. keys. reflexivity. Qed.
Lemma cstep_allow_address_overlap : forall dfa v s, m_command_step dfa ("allow_address_overlap", v) s = (b <-- as_bool v ;; ROk (upd_command s NN NN NN NN (Some b) NN NN NN NN NN NN)).
Proof. intros. unfold m_command_step. keys. reflexivity. Qed.
Lemma cstep_fields_in : forall dfa v s, m_command_step dfa ("fields_in", v) s = (fs <-- m_fields dfa v ;; ROk (upd_command s NN NN NN NN NN NN NN NN NN (Some fs) NN)).
Proof. intros. unfold m_command_step. keys. reflexivity. Qed.
Lemma cstep_fields_out : forall dfa v s, m_command_step dfa ("fields_out", v) s = (fs <-- m_fields dfa v ;; ROk (upd_command s NN NN NN NN NN NN NN NN NN NN (Some fs))).
Proof. intros. unfold m_command_step. keys. reflexivity. Qed.

(* ---- register ---- *)


Lemma foldM_head : forall {S} (step : string * mvalue -> S -> result S) ty h (upd : option string -> S -> S) b,
  (forall v s, step ("type", v) s = ROk s) ->
  (forall c s, step ("cfg", MStr c) s = ROk (upd (Some c) s)) ->
  (forall s, step ("description", MStr "doc") s = ROk s) ->
  upd None b = b ->
  foldM step (head_keys ty h) b = ROk (upd (h_cfg h) b).
Proof.
  intros S step ty [[c|] [|] n] upd b H1 H2 H3 H4; unfold head_keys; cbn; rewrite H1; cbn; rewrite ?H2; cbn; rewrite ?H3;
    rewrite ?H4; reflexivity.
Qed.

Ltac flat_r :=
  unfold upd_register; cbn [rbind or_default option_map rg_cfg rg_name rg_access rg_byte_order rg_bit_order
       rg_allow_bit_overlap rg_allow_address_overlap rg_address rg_size_bits rg_reset rg_repeat rg_fields].
Ltac flat_c :=
  unfold upd_command; cbn [rbind or_default option_map cm_cfg cm_name cm_address cm_byte_order cm_bit_order
       cm_allow_bit_overlap cm_allow_address_overlap cm_size_in cm_size_out cm_repeat cm_in_fields cm_out_fields].

Lemma m_register_spec : forall toml g h r,
  register_ok r = true ->
  class_of (m_register (g_default_register_access g) (g_default_field_access g) (g_default_bit_order g) (h_name h)
                       (head_keys "register" h ++ register_keys toml r))
  = class_of (spec_register g h r).
Proof.
  intros toml g h r Hok.
  unfold register_ok in Hok. repeat (apply andb_prop in Hok; destruct Hok as [Hok ?]).
  unfold m_register.
  assert (Ka : contains_key "address" (head_keys "register" h ++ register_keys toml r) = negb (is_none (ar_address r))).
  { rewrite contains_key_app, contains_key_head by reflexivity. unfold register_keys.
    rewrite !contains_key_app, !contains_key_opt_key. keys. cbn [andb orb].
    destruct (ar_fields r); cbn; rewrite ?orb_false_r; reflexivity. }
  assert (Ks : contains_key "size_bits" (head_keys "register" h ++ register_keys toml r) = negb (is_none (ar_size_bits r))).
  { rewrite contains_key_app, contains_key_head by reflexivity. unfold register_keys.
    rewrite !contains_key_app, !contains_key_opt_key. keys. cbn [andb orb].
    destruct (ar_fields r); cbn; rewrite ?orb_false_r; reflexivity. }
  rewrite Ka, Ks. unfold spec_register.
  destruct (ar_address r) as [a|] eqn:Ea; cbn [is_none negb]; [|reflexivity].
  destruct (ar_size_bits r) as [s|] eqn:Es; cbn [is_none negb]; [|reflexivity].
  set (dfa := g_default_field_access g).
  rewrite foldM_app.
  rewrite (foldM_head (m_register_step dfa) "register" h
             (fun c s => upd_register s (option_map Some c) NN NN NN NN NN NN NN NN NN NN))
    by (intros; reflexivity).
  flat_r. unfold register_keys. rewrite Ea, Es.
  rewrite foldM_app, (seg_m (m_register_step dfa) "access" m_of_access
                         (fun x s => upd_register s NN x NN NN NN NN NN NN NN NN NN) always);
    [|intros a0 _; rewrite ?rstep_access, ?rstep_byte_order, ?rstep_bit_order, m_access_ok; reflexivity
     |flat_r; reflexivity|apply opt_ok_always].
  flat_r.
  rewrite foldM_app, (seg_m (m_register_step dfa) "byte_order" m_of_byte_order
                         (fun x s => upd_register s NN NN (option_map Some x) NN NN NN NN NN NN NN NN) always);
    [|intros a0 _; rewrite ?rstep_access, ?rstep_byte_order, ?rstep_bit_order, m_byte_order_ok; reflexivity
     |flat_r; reflexivity|apply opt_ok_always].
  flat_r.
  rewrite foldM_app, (seg_m (m_register_step dfa) "bit_order" m_of_bit_order
                         (fun x s => upd_register s NN NN NN x NN NN NN NN NN NN NN) always);
    [|intros a0 _; rewrite ?rstep_access, ?rstep_byte_order, ?rstep_bit_order, m_bit_order_ok; reflexivity
     |flat_r; reflexivity|apply opt_ok_always].
  flat_r.
  rewrite foldM_app. cbn [opt_key foldM]. rewrite rstep_address. cbn in Hok. rewrite (as_int_ok _ Hok).
  flat_r.
  rewrite foldM_app. cbn [opt_key foldM]. rewrite rstep_size_bits.
  match goal with H : opt_ok in_u32 (Some s) = true |- _ => cbn in H; rewrite (as_u32_ok _ H) end.
  flat_r.
  rewrite foldM_app, (seg_m (m_register_step dfa) "reset_value" m_of_reset
                         (fun x s => upd_register s NN NN NN NN NN NN NN NN (option_map Some x) NN NN) reset_ok);
    [|intros a0 Ha0; rewrite rstep_reset_value, (m_reset_ok _ Ha0); reflexivity
     |flat_r; reflexivity|assumption].
  flat_r.
  rewrite foldM_app, (seg_m (m_register_step dfa) "repeat" m_of_repeat
                         (fun x s => upd_register s NN NN NN NN NN NN NN NN NN (option_map Some x) NN) repeat_ok);
    [|intros a0 Ha0; rewrite rstep_repeat, (m_repeat_ok _ Ha0); reflexivity
     |flat_r; reflexivity|assumption].
  flat_r.
  rewrite foldM_app, (seg_m (m_register_step dfa) "allow_bit_overlap" MBool
                         (fun x s => upd_register s NN NN NN NN x NN NN NN NN NN NN) always);
    [|intros a0 _; rewrite rstep_allow_bit_overlap; reflexivity|flat_r; reflexivity|apply opt_ok_always].
  flat_r.
  rewrite foldM_app, (seg_m (m_register_step dfa) "allow_address_overlap" MBool
                         (fun x s => upd_register s NN NN NN NN NN x NN NN NN NN NN) always);
    [|intros a0 _; rewrite rstep_allow_address_overlap; reflexivity|flat_r; reflexivity|apply opt_ok_always].
  flat_r.
  destruct (ar_fields r) as [|f0 ft] eqn:Ef.
  - cbn [foldM]. unfold class_of. f_equal.
    destruct (h_cfg h), (ar_byte_order r), (ar_reset r), (ar_repeat r); reflexivity.
  - cbn [foldM]. rewrite rstep_fields.
    rewrite (m_fields_ok toml dfa (f0 :: ft)) by (apply fields_ok_field_ok; assumption).
    cbn [rbind]. unfold class_of. f_equal.
    destruct (h_cfg h), (ar_byte_order r), (ar_reset r), (ar_repeat r); reflexivity.
Qed.

(* ---- command ---- *)

Lemma m_command_spec : forall toml g h c,
  command_ok c = true ->
  class_of (m_command (g_default_field_access g) (g_default_bit_order g) (h_name h)
                      (head_keys "command" h ++ command_keys toml c))
  = class_of (spec_command g h c).
Proof.
  intros toml g h c Hok.
  unfold command_ok in Hok. repeat (apply andb_prop in Hok; destruct Hok as [Hok ?]).
  unfold m_command.
  assert (Ka : contains_key "address" (head_keys "command" h ++ command_keys toml c) = negb (is_none (ak_address c))).
  { rewrite contains_key_app, contains_key_head by reflexivity. unfold command_keys.
    rewrite !contains_key_app, !contains_key_opt_key. keys. cbn [andb orb]. rewrite ?orb_false_r. reflexivity. }
  rewrite Ka. unfold spec_command.
  destruct (ak_address c) as [a|] eqn:Ea; cbn [is_none negb]; [|reflexivity].
  set (dfa := g_default_field_access g).
  rewrite foldM_app.
  rewrite (foldM_head (m_command_step dfa) "command" h
             (fun c s => upd_command s (option_map Some c) NN NN NN NN NN NN NN NN NN NN))
    by (intros; reflexivity).
  flat_c. unfold command_keys. rewrite Ea.
  rewrite foldM_app, (seg_m (m_command_step dfa) "byte_order" m_of_byte_order
                         (fun x s => upd_command s NN (option_map Some x) NN NN NN NN NN NN NN NN NN) always);
    [|intros a0 _; rewrite ?cstep_byte_order, ?cstep_bit_order, m_byte_order_ok; reflexivity
     |flat_c; reflexivity|apply opt_ok_always].
  flat_c.
  rewrite foldM_app, (seg_m (m_command_step dfa) "bit_order" m_of_bit_order
                         (fun x s => upd_command s NN NN x NN NN NN NN NN NN NN NN) always);
    [|intros a0 _; rewrite ?cstep_byte_order, ?cstep_bit_order, m_bit_order_ok; reflexivity
     |flat_c; reflexivity|apply opt_ok_always].
  flat_c.
  rewrite foldM_app. cbn [opt_key foldM]. rewrite cstep_address. cbn in Hok. rewrite (as_int_ok _ Hok).
  flat_c.
  rewrite foldM_app, (seg_m (m_command_step dfa) "repeat" m_of_repeat
                         (fun x s => upd_command s NN NN NN NN NN NN NN NN (option_map Some x) NN NN) repeat_ok);
    [|intros a0 Ha0; rewrite cstep_repeat, (m_repeat_ok _ Ha0); reflexivity
     |flat_c; reflexivity|assumption].
  flat_c.
  rewrite foldM_app, (seg_m (m_command_step dfa) "allow_bit_overlap" MBool
                         (fun x s => upd_command s NN NN NN x NN NN NN NN NN NN NN) always);
    [|intros a0 _; rewrite cstep_allow_bit_overlap; reflexivity|flat_c; reflexivity|apply opt_ok_always].
  flat_c.
  rewrite foldM_app, (seg_m (m_command_step dfa) "allow_address_overlap" MBool
                         (fun x s => upd_command s NN NN NN NN x NN NN NN NN NN NN) always);
    [|intros a0 _; rewrite cstep_allow_address_overlap; reflexivity|flat_c; reflexivity|apply opt_ok_always].
  flat_c.
  rewrite foldM_app, (seg_m (m_command_step dfa) "size_bits_in" MInt
                         (fun x s => upd_command s NN NN NN NN NN NN x NN NN NN NN) in_u32);
    [|intros a0 Ha0; rewrite ?cstep_size_bits_in, ?cstep_size_bits_out, (as_u32_ok _ Ha0); reflexivity
     |flat_c; reflexivity|assumption].
  flat_c.
  rewrite foldM_app, (seg_m (m_command_step dfa) "fields_in" (fields_to_m toml)
                         (fun x s => upd_command s NN NN NN NN NN NN NN NN NN
                                                 (option_map (map (spec_field_m dfa)) x) NN) fields_ok);
    [|intros a0 Ha0; rewrite ?cstep_fields_in, ?cstep_fields_out,
        (m_fields_ok toml dfa a0 (fields_ok_field_ok _ Ha0)); reflexivity
     |flat_c; reflexivity|assumption].
  flat_c.
  rewrite foldM_app, (seg_m (m_command_step dfa) "size_bits_out" MInt
                         (fun x s => upd_command s NN NN NN NN NN NN NN x NN NN NN) in_u32);
    [|intros a0 Ha0; rewrite ?cstep_size_bits_in, ?cstep_size_bits_out, (as_u32_ok _ Ha0); reflexivity
     |flat_c; reflexivity|assumption].
  flat_c.
  rewrite (seg_m (m_command_step dfa) "fields_out" (fields_to_m toml)
                 (fun x s => upd_command s NN NN NN NN NN NN NN NN NN NN
                                         (option_map (map (spec_field_m dfa)) x)) fields_ok);
    [|intros a0 Ha0; rewrite ?cstep_fields_in, ?cstep_fields_out,
        (m_fields_ok toml dfa a0 (fields_ok_field_ok _ Ha0)); reflexivity
     |flat_c; reflexivity|assumption].
  unfold class_of. f_equal.
  destruct (h_cfg h), (ak_byte_order c), (ak_repeat c), (ak_fields_in c), (ak_fields_out c); reflexivity.
Qed.

(* ---- buffer ---- *)

Lemma m_buffer_spec : forall g h b,
  opt_ok in_i64 (ab_address b) = true ->
  class_of (m_buffer (g_default_buffer_access g) (h_name h)
                     (head_keys "buffer" h ++ opt_key "access" m_of_access (ab_access b)
                      ++ opt_key "address" MInt (ab_address b)))
  = class_of (spec_buffer g h b).
Proof.
  intros g [[c|] [|] n] [[[| |]|] [a|]] H; unfold m_buffer, spec_buffer, head_keys; cbn in H |- *;
    rewrite ?H; reflexivity.
Qed.

(* ---- ref overrides ---- *)

Lemma in_override_class : forall k, err_class (in_override (mk_err "manifest_unexpected_key" [k])) = ov_forbidden.
Proof. reflexivity. Qed.

Lemma mget_head_type : forall ty h rest, mget "type" (head_keys ty h ++ rest) = Some (MStr ty).
Proof. intros. reflexivity. Qed.

Definition ov_result (r : result override) : result override :=
  match r with ROk o => ROk o | RErr e => RErr (in_override e) end.

Definition upd_ro (s : reg_ov) (acc : option access) (addr : option Z) (allow : option bool)
           (reset : option reset_value) (rep : option repeat) : reg_ov :=
  {| ro_access := match acc with Some a => Some a | None => ro_access s end;
     ro_address := match addr with Some a => Some a | None => ro_address s end;
     ro_allow := or_default allow (ro_allow s);
     ro_reset := match reset with Some a => Some a | None => ro_reset s end;
     ro_repeat := match rep with Some a => Some a | None => ro_repeat s end |}.

Definition upd_co (s : cmd_ov) (addr : option Z) (allow : option bool) (rep : option repeat) : cmd_ov :=
  {| co_address := match addr with Some a => Some a | None => co_address s end;
     co_allow := or_default allow (co_allow s);
     co_repeat := match rep with Some a => Some a | None => co_repeat s end |}.

Ltac flat_ro := unfold upd_ro; cbn [rbind or_default ro_access ro_address ro_allow ro_reset ro_repeat].
Ltac flat_co := unfold upd_co; cbn [rbind or_default co_address co_allow co_repeat].

Lemma m_override_spec : forall toml ov,
  object_ok ov = true ->
  class_of (ov_result (m_object_override (h_name (ahead_of ov)) (obj_to_m toml ov))) = class_of (spec_override ov).
Proof.
  intros toml [h off rep order objs|h r|h c|h b|h ov'] Hok; cbn [obj_to_m spec_override ahead_of];
    unfold m_object_override; cbn [as_map rbind]; rewrite mget_head_type; cbn [as_string rbind]; keys;
    try reflexivity.
  - (* block *)
    cbn [object_ok] in Hok. apply andb_prop in Hok. destruct Hok as [Hok _]. apply andb_prop in Hok. destruct Hok as [Ho Hr].
    destruct h as [[c|] [|] n]; cbn [head_plain h_cfg h_doc h_name is_none negb andb];
      unfold head_keys; cbn [h_cfg h_doc opt_key app foldM]; unfold m_block_override_step at 1; keys; cbn [rbind];
      try (unfold m_block_override_step at 1; keys; cbn [rbind ov_result class_of]; reflexivity).
    destruct off as [o|], rep as [r|]; cbn [opt_key app foldM] in *;
      repeat (unfold m_block_override_step at 1; keys; cbn [rbind fst snd]);
      rewrite ?(as_int_ok _ Ho), ?(m_repeat_ok _ Hr); cbn [rbind fst snd];
      repeat (unfold m_block_override_step at 1; keys; cbn [rbind fst snd]);
      rewrite ?(m_repeat_ok _ Hr); cbn [rbind fst snd];
      destruct objs as [|o1 ot]; cbn [app foldM rbind fst snd ov_result class_of andb];
      try reflexivity;
      unfold m_block_override_step at 1; keys; reflexivity.
  - (* register *)
    cbn [object_ok] in Hok. unfold register_ok in Hok. repeat (apply andb_prop in Hok; destruct Hok as [Hok ?]).
    rewrite foldM_app.
    destruct h as [[c|] [|] n]; cbn [head_plain h_cfg h_doc h_name is_none negb andb];
      unfold head_keys; cbn [h_cfg h_doc opt_key app foldM]; unfold m_register_override_step at 1; keys; cbn [rbind];
      try (unfold m_register_override_step at 1; keys; cbn [rbind ov_result class_of]; reflexivity).
    unfold register_keys.
    rewrite foldM_app, (seg_m m_register_override_step "access" m_of_access
                              (fun x s => upd_ro s x NN NN NN NN) always);
      [|intros a0 _; unfold m_register_override_step; keys; rewrite m_access_ok; reflexivity
       |reflexivity|apply opt_ok_always].
    flat_ro.
    destruct (ar_byte_order r) as [bo|]; cbn [opt_key app is_none andb];
      [cbn [foldM]; unfold m_register_override_step at 1; keys; reflexivity|].
    destruct (ar_bit_order r) as [bio|]; cbn [opt_key app is_none andb];
      [cbn [foldM]; unfold m_register_override_step at 1; keys; reflexivity|].
    rewrite foldM_app, (seg_m m_register_override_step "address" MInt
                              (fun x s => upd_ro s NN x NN NN NN) in_i64);
      [|intros a0 Ha0; unfold m_register_override_step; keys; rewrite (as_int_ok _ Ha0); reflexivity
       |flat_ro; reflexivity|assumption].
    flat_ro.
    destruct (ar_size_bits r) as [sz|]; cbn [opt_key app is_none andb];
      [cbn [foldM]; unfold m_register_override_step at 1; keys; reflexivity|].
    rewrite foldM_app, (seg_m m_register_override_step "reset_value" m_of_reset
                              (fun x s => upd_ro s NN NN NN x NN) reset_ok);
      [|intros a0 Ha0; unfold m_register_override_step; keys; rewrite (m_reset_ok _ Ha0); reflexivity
       |flat_ro; reflexivity|assumption].
    flat_ro.
    rewrite foldM_app, (seg_m m_register_override_step "repeat" m_of_repeat
                              (fun x s => upd_ro s NN NN NN NN x) repeat_ok);
      [|intros a0 Ha0; unfold m_register_override_step; keys; rewrite (m_repeat_ok _ Ha0); reflexivity
       |flat_ro; reflexivity|assumption].
    flat_ro.
    destruct (ar_allow_bit_overlap r) as [abo|]; cbn [opt_key app is_none andb];
      [cbn [foldM]; unfold m_register_override_step at 1; keys; reflexivity|].
    rewrite foldM_app, (seg_m m_register_override_step "allow_address_overlap" MBool
                              (fun x s => upd_ro s NN NN x NN NN) always);
      [|intros a0 _; unfold m_register_override_step; keys; reflexivity
       |flat_ro; reflexivity|apply opt_ok_always].
    flat_ro.
    destruct (ar_fields r) as [|f0 ft]; cbn [foldM rbind ov_result class_of].
    + destruct (ar_access r), (ar_address r), (ar_reset r), (ar_repeat r); reflexivity.
    + unfold m_register_override_step at 1; keys; reflexivity.
  - (* command *)
    cbn [object_ok] in Hok. unfold command_ok in Hok. repeat (apply andb_prop in Hok; destruct Hok as [Hok ?]).
    rewrite foldM_app.
    destruct h as [[c0|] [|] n]; cbn [head_plain h_cfg h_doc h_name is_none negb andb];
      unfold head_keys; cbn [h_cfg h_doc opt_key app foldM]; unfold m_command_override_step at 1; keys; cbn [rbind];
      try (unfold m_command_override_step at 1; keys; cbn [rbind ov_result class_of]; reflexivity).
    unfold command_keys.
    destruct (ak_byte_order c) as [bo|]; cbn [opt_key app is_none andb];
      [cbn [foldM]; unfold m_command_override_step at 1; keys; reflexivity|].
    destruct (ak_bit_order c) as [bio|]; cbn [opt_key app is_none andb];
      [cbn [foldM]; unfold m_command_override_step at 1; keys; reflexivity|].
    rewrite foldM_app, (seg_m m_command_override_step "address" MInt
                              (fun x s => upd_co s x NN NN) in_i64);
      [|intros a0 Ha0; unfold m_command_override_step; keys; rewrite (as_int_ok _ Ha0); reflexivity
       |reflexivity|assumption].
    flat_co.
    rewrite foldM_app, (seg_m m_command_override_step "repeat" m_of_repeat
                              (fun x s => upd_co s NN NN x) repeat_ok);
      [|intros a0 Ha0; unfold m_command_override_step; keys; rewrite (m_repeat_ok _ Ha0); reflexivity
       |flat_co; reflexivity|assumption].
    flat_co.
    destruct (ak_allow_bit_overlap c) as [abo|]; cbn [opt_key app is_none andb];
      [cbn [foldM]; unfold m_command_override_step at 1; keys; reflexivity|].
    rewrite foldM_app, (seg_m m_command_override_step "allow_address_overlap" MBool
                              (fun x s => upd_co s NN x NN) always);
      [|intros a0 _; unfold m_command_override_step; keys; reflexivity
       |flat_co; reflexivity|apply opt_ok_always].
    flat_co.
    destruct (ak_size_in c) as [si|]; cbn [opt_key app is_none andb];
      [cbn [foldM]; unfold m_command_override_step at 1; keys; reflexivity|].
    destruct (ak_fields_in c) as [fi|]; cbn [opt_key app is_none andb];
      [cbn [foldM]; unfold m_command_override_step at 1; keys; reflexivity|].
    destruct (ak_size_out c) as [so|]; cbn [opt_key app is_none andb];
      [cbn [foldM]; unfold m_command_override_step at 1; keys; reflexivity|].
    destruct (ak_fields_out c) as [fo|]; cbn [opt_key app is_none andb foldM rbind ov_result class_of];
      [unfold m_command_override_step at 1; keys; reflexivity|].
    destruct (ak_address c), (ak_repeat c); reflexivity.
Qed.

(* ---- refs ---- *)

Lemma m_ref_eq : forall h t ovm,
  m_ref (h_name h) (head_keys "ref" h ++ [("target", MStr t); ("override", ovm)]) =
  rbind (ov_result (m_object_override t ovm)) (fun o => ROk (ORef (h_cfg h) (h_name h) o)).
Proof.
  intros [[c|] [|] n] t ovm; unfold m_ref, head_keys; cbn [h_cfg h_doc h_name opt_key app mget]; keys;
    cbn [as_string rbind foldM]; unfold m_ref_step; keys; cbn [as_string rbind];
    destruct (m_object_override t ovm); reflexivity.
Qed.

(* ---- blocks: the nested fixes of m_object are foldM / mapR ---- *)

Definition block_init : block_rec := {| bk_cfg := None; bk_offset := 0; bk_repeat := None; bk_objects := [] |}.

Definition m_block_step (md : mdefaults) (kv : string * mvalue) (b : block_rec) : result block_rec :=
  let (k, x) := kv in
  if k =s "type" then ROk b
  else if k =s "cfg" then
    s <-- as_string x ;;
    ROk {| bk_cfg := Some s; bk_offset := bk_offset b; bk_repeat := bk_repeat b; bk_objects := bk_objects b |}
  else if k =s "description" then _s <-- as_string x ;; ROk b
  else if k =s "address_offset" then
    z <-- as_int x ;;
    ROk {| bk_cfg := bk_cfg b; bk_offset := z; bk_repeat := bk_repeat b; bk_objects := bk_objects b |}
  else if k =s "repeat" then
    r <-- m_repeat x ;;
    ROk {| bk_cfg := bk_cfg b; bk_offset := bk_offset b; bk_repeat := Some r; bk_objects := bk_objects b |}
  else if k =s "objects" then
    match x with
    | MMap okvs =>
        os <-- mapR (fun kv => m_object md (fst kv) (snd kv)) okvs ;;
        ROk {| bk_cfg := bk_cfg b; bk_offset := bk_offset b; bk_repeat := bk_repeat b; bk_objects := os |}
    | _ => RErr (type_err "map")
    end
  else RErr (mk_err "manifest_unexpected_key" [k]).

Lemma m_object_block : forall md name kvs,
  mget "type" kvs = Some (MStr "block") ->
  m_object md name (MMap kvs) =
  rbind (foldM (m_block_step md) kvs block_init)
        (fun b => ROk (OBlock (bk_cfg b) name (bk_offset b) (bk_repeat b) (bk_objects b))).
Proof.
  intros md name kvs H. cbn [m_object]. rewrite H. cbn [as_string rbind]. keys.
  match goal with |- rbind ?x _ = rbind ?y _ => assert (E : x = y) end; [|rewrite E; reflexivity].
  unfold block_init. generalize {| bk_cfg := None; bk_offset := 0; bk_repeat := None; bk_objects := [] |}.
  clear H. induction kvs as [|[k x] t IH]; intros b; [reflexivity|].
  cbn [foldM]. lazy beta iota.
  match goal with |- rbind ?x ?f = rbind ?y ?g => assert (E : x = y) end.
  { unfold m_block_step.
    destruct (k =s "type"); [reflexivity|].
    destruct (k =s "cfg"); [reflexivity|].
    destruct (k =s "description"); [reflexivity|].
    destruct (k =s "address_offset"); [reflexivity|].
    destruct (k =s "repeat"); [reflexivity|].
    destruct (k =s "objects"); [|reflexivity].
    destruct x; try reflexivity.
    match goal with |- rbind ?x _ = rbind ?y _ => assert (E : x = y) end; [|rewrite E; reflexivity].
    induction kvs as [|[n ov] t2 IH2]; [reflexivity|].
    cbn [mapR fst snd]. rewrite <- IH2. reflexivity. }
  rewrite E. destruct (m_block_step md (k, x) b) as [b'|e]; cbn [rbind]; [apply IH|reflexivity].
Qed.

Definition upd_bk (s : block_rec) (c : option string) (off : option Z) (rep : option repeat) : block_rec :=
  {| bk_cfg := match c with Some x => Some x | None => bk_cfg s end; bk_offset := or_default off (bk_offset s);
     bk_repeat := match rep with Some r => Some r | None => bk_repeat s end; bk_objects := bk_objects s |}.

Ltac flat_bk := unfold upd_bk; cbn [rbind or_default bk_cfg bk_offset bk_repeat bk_objects].

Lemma m_object_spec : forall toml g o,
  object_ok o = true ->
  class_of (m_object (defaults_of g) (h_name (ahead_of o)) (obj_to_m toml o)) = class_of (spec_object g o).
Proof.
  intros toml g. induction o as [h off rep order objs IH|h r|h c|h b|h ov _] using aobject_ind'; intros Hok;
    cbn [obj_to_m ahead_of spec_object].
  - cbn [object_ok] in Hok. apply andb_prop in Hok. destruct Hok as [Hok Hobjs].
    apply andb_prop in Hok. destruct Hok as [Ho Hr].
    rewrite m_object_block by apply mget_head_type.
    rewrite foldM_app.
    rewrite (foldM_head (m_block_step (defaults_of g)) "block" h (fun c s => upd_bk s c NN NN))
      by (intros; reflexivity).
    unfold block_init. flat_bk.
    rewrite foldM_app, (seg_m (m_block_step (defaults_of g)) "address_offset" MInt
                              (fun x s => upd_bk s NN x NN) in_i64);
      [|intros a0 Ha0; unfold m_block_step; keys; rewrite (as_int_ok _ Ha0); reflexivity
       |flat_bk; reflexivity|assumption].
    flat_bk.
    rewrite foldM_app, (seg_m (m_block_step (defaults_of g)) "repeat" m_of_repeat
                              (fun x s => upd_bk s NN NN x) repeat_ok);
      [|intros a0 Ha0; unfold m_block_step; keys; rewrite (m_repeat_ok _ Ha0); reflexivity
       |flat_bk; reflexivity|assumption].
    flat_bk.
    destruct objs as [|o1 ot].
    + cbn [foldM rbind mapR]. destruct (h_cfg h), rep; reflexivity.
    + cbn [foldM]. unfold m_block_step at 1. keys. rewrite mapR_map. cbn [fst snd].
      set (objs := o1 :: ot) in *.
      assert (Hc : class_of (mapR (fun x => m_object (defaults_of g) (h_name (ahead_of x)) (obj_to_m toml x)) objs)
                   = class_of (mapR (spec_object g) objs)).
      { apply class_mapR. rewrite Forall_forall in *. intros x Hx. apply IH; [assumption|].
        rewrite forallb_forall in Hobjs. apply Hobjs; assumption. }
      destruct (mapR (fun x => m_object (defaults_of g) (h_name (ahead_of x)) (obj_to_m toml x)) objs) as [os|e];
        destruct (mapR (spec_object g) objs) as [os'|e']; cbn in Hc; try discriminate.
      * inversion Hc; subst. cbn [rbind foldM]. destruct (h_cfg h), rep; reflexivity.
      * cbn [rbind class_of]. inversion Hc. reflexivity.
  - cbn [m_object]. rewrite mget_head_type. cbn [as_string rbind]. keys.
    apply class_rmap. apply (m_register_spec toml g h r Hok).
  - cbn [m_object]. rewrite mget_head_type. cbn [as_string rbind]. keys.
    apply class_rmap. apply (m_command_spec toml g h c Hok).
  - cbn [m_object]. rewrite mget_head_type. cbn [as_string rbind]. keys.
    apply class_rmap. apply (m_buffer_spec g h b Hok).
  - cbn [m_object]. rewrite mget_head_type. cbn [as_string rbind]. keys.
    rewrite m_ref_eq. apply class_rbind; [|reflexivity]. apply m_override_spec. exact Hok.
Qed.

(* ---- global config (manifest) ---- *)

Lemma m_boundaries_ok : forall lf n,
  match n with NwbArray l => forallb is_boundary_name l | _ => true end = true ->
  m_boundaries lf (match n with NwbArray l => MArr (map MStr l) | NwbString s => MStr s end)
  = ROk (match n with NwbArray l => l | NwbString s => lf s end).
Proof.
  intros lf [l|s] H; cbn [m_boundaries]; [|reflexivity].
  rewrite <- mapR_mapM, mapR_map, (mapR_ok _ (fun s => s)).
  - rewrite map_id. reflexivity.
  - rewrite Forall_forall. intros s Hs. rewrite forallb_forall in H. cbn [as_string rbind]. rewrite (H s Hs). reflexivity.
Qed.

Lemma m_config_spec : forall lf c, config_ok c = true -> m_config lf (MMap (config_keys c)) = ROk (spec_config lf c).
Proof.
  intros lf c Hok. unfold m_config. cbn [as_map rbind]. unfold config_keys.
  rewrite foldM_app, (seg_m (m_config_step lf) "default_register_access" m_of_access
                            (fun x s => match x with Some a => set_g_dra a s | None => s end) always);
    [|intros a0 _; unfold m_config_step; keys; rewrite m_access_ok; reflexivity|reflexivity|apply opt_ok_always].
  cbn [rbind].
  rewrite foldM_app, (seg_m (m_config_step lf) "default_field_access" m_of_access
                            (fun x s => match x with Some a => set_g_dfa a s | None => s end) always);
    [|intros a0 _; unfold m_config_step; keys; rewrite m_access_ok; reflexivity|reflexivity|apply opt_ok_always].
  cbn [rbind].
  rewrite foldM_app, (seg_m (m_config_step lf) "default_buffer_access" m_of_access
                            (fun x s => match x with Some a => set_g_dba a s | None => s end) always);
    [|intros a0 _; unfold m_config_step; keys; rewrite m_access_ok; reflexivity|reflexivity|apply opt_ok_always].
  cbn [rbind].
  rewrite foldM_app, (seg_m (m_config_step lf) "default_byte_order" m_of_byte_order
                            (fun x s => match x with Some a => set_g_byo (Some a) s | None => s end) always);
    [|intros a0 _; unfold m_config_step; keys; rewrite m_byte_order_ok; reflexivity|reflexivity|apply opt_ok_always].
  cbn [rbind].
  rewrite foldM_app, (seg_m (m_config_step lf) "default_bit_order" m_of_bit_order
                            (fun x s => match x with Some a => set_g_bio a s | None => s end) always);
    [|intros a0 _; unfold m_config_step; keys; rewrite m_bit_order_ok; reflexivity|reflexivity|apply opt_ok_always].
  cbn [rbind].
  rewrite foldM_app, (seg_m (m_config_step lf) "register_address_type" (fun i => MStr (show_integer i))
                            (fun x s => match x with Some a => set_g_rat (Some a) s | None => s end) always);
    [|intros a0 _; unfold m_config_step; keys; rewrite m_integer_ok; reflexivity|reflexivity|apply opt_ok_always].
  cbn [rbind].
  rewrite foldM_app, (seg_m (m_config_step lf) "command_address_type" (fun i => MStr (show_integer i))
                            (fun x s => match x with Some a => set_g_cat (Some a) s | None => s end) always);
    [|intros a0 _; unfold m_config_step; keys; rewrite m_integer_ok; reflexivity|reflexivity|apply opt_ok_always].
  cbn [rbind].
  rewrite foldM_app, (seg_m (m_config_step lf) "buffer_address_type" (fun i => MStr (show_integer i))
                            (fun x s => match x with Some a => set_g_bat (Some a) s | None => s end) always);
    [|intros a0 _; unfold m_config_step; keys; rewrite m_integer_ok; reflexivity|reflexivity|apply opt_ok_always].
  cbn [rbind].
  rewrite foldM_app, (seg_m (m_config_step lf) "name_word_boundaries"
                            (fun n => match n with NwbArray l => MArr (map MStr l) | NwbString s => MStr s end)
                            (fun x s => match x with
                                        | Some n => set_g_nwb (match n with NwbArray l => l | NwbString s => lf s end) s
                                        | None => s end)
                            (fun n => match n with NwbArray l => forallb is_boundary_name l | _ => true end));
    [|intros a0 Ha0; unfold m_config_step; keys; rewrite (m_boundaries_ok lf a0 Ha0); reflexivity|reflexivity
     |unfold config_ok in Hok; destruct (ac_name_word_boundaries c) as [[l|s]|]; [exact Hok|reflexivity|reflexivity]].
  cbn [rbind].
  rewrite (seg_m (m_config_step lf) "defmt_feature" MStr
                 (fun x s => match x with Some a => set_g_defmt (Some a) s | None => s end) always);
    [|intros a0 _; unfold m_config_step; keys; reflexivity|reflexivity|apply opt_ok_always].
  f_equal. unfold spec_config.
  destruct c as [a1 a2 a3 a4 a5 a6 a7 a8 a9 a10].
  cbn [ac_default_register_access ac_default_field_access ac_default_buffer_access ac_default_byte_order
       ac_default_bit_order ac_register_address_type ac_command_address_type ac_buffer_address_type
       ac_name_word_boundaries ac_defmt_feature].
  destruct a1, a2, a3, a4, a5, a6, a7, a8, a9 as [[?|?]|], a10; reflexivity.
Qed.

Lemma config_keys_nil : forall lf c, config_keys c = [] -> spec_config lf c = default_config.
Proof.
  intros lf [a1 a2 a3 a4 a5 a6 a7 a8 a9 a10] H. unfold config_keys in H. cbn in H.
  destruct a1, a2, a3, a4, a5, a6, a7, a8, a9, a10; cbn in H; try discriminate. reflexivity.
Qed.

Lemma objects_no_config : forall toml objs,
  forallb (fun o => negb (h_name (ahead_of o) =s "config")) objs = true ->
  mget "config" (map (named_to_m toml) objs) = None /\
  filter (fun kv : string * mvalue => negb (fst kv =s "config")) (map (named_to_m toml) objs) = map (named_to_m toml) objs.
Proof.
  induction objs as [|o t IH]; intros H; [split; reflexivity|].
  cbn in H. apply andb_prop in H. destruct H as [Ho Ht]. destruct (IH Ht) as [I1 I2].
  cbn [map mget filter named_to_m fst]. apply negb_true_iff in Ho. rewrite Ho. cbn [negb].
  rewrite I2. split; [exact I1|reflexivity].
Qed.

Theorem manifest_half : forall lf toml d,
  adef_ok d = true ->
  class_of (lower_manifest lf (to_manifest toml d)) = class_of (spec_device lf d).
Proof.
  intros lf toml d Hok. unfold adef_ok in Hok.
  apply andb_prop in Hok. destruct Hok as [Hok Hnames]. apply andb_prop in Hok. destruct Hok as [Hcfg Hobjs].
  destruct (objects_no_config toml (a_objects d) Hnames) as [N1 N2].
  unfold lower_manifest, lower_manifest_gen, to_manifest, spec_device. cbn [as_map rbind].
  assert (Hg : forall kvs,
             kvs = match config_keys (a_config d) with [] => [] | ks => [("config", MMap ks)] end ->
             match mget "config" (kvs ++ map (named_to_m toml) (a_objects d)) with
             | Some c => m_config lf c | None => ROk default_config end = ROk (spec_config lf (a_config d))
             /\ filter (fun kv : string * mvalue => negb (fst kv =s "config")) (kvs ++ map (named_to_m toml) (a_objects d))
                = map (named_to_m toml) (a_objects d)).
  { intros kvs ->. pose proof (m_config_spec lf (a_config d) Hcfg) as Hm.
    destruct (config_keys (a_config d)) as [|k ks] eqn:E.
    - cbn [app]. rewrite N1, N2. split; [|reflexivity]. rewrite (config_keys_nil lf _ E). reflexivity.
    - cbn [app mget filter fst]. keys. cbn [negb]. rewrite N2. split; [exact Hm|reflexivity]. }
  destruct (Hg _ eq_refl) as [G1 G2]. rewrite G1, G2. cbn [rbind].
  apply class_rbind; [|reflexivity].
  rewrite <- mapR_mapM, mapR_map. apply class_mapR.
  rewrite Forall_forall. intros o Ho. cbn [named_to_m fst snd]. apply m_object_spec.
  rewrite forallb_forall in Hobjs. apply Hobjs; assumption.
Qed.

(* ================================================================== the property theorems *)

Lemma adef_ok_objects : forall d, adef_ok d = true -> forallb object_ok (a_objects d) = true.
Proof.
  intros d H. unfold adef_ok in H. apply andb_prop in H. destruct H as [H _]. apply andb_prop in H. destruct H; assumption.
Qed.

Theorem front_ends_agree : forall lf toml d,
  adef_ok d = true -> agree (lower_dsl (to_dsl lf d)) (lower_manifest lf (to_manifest toml d)).
Proof.
  intros lf toml d H. unfold agree.
  rewrite (dsl_half lf d (adef_ok_objects d H)), (manifest_half lf toml d H). reflexivity.
Qed.

Lemma agree_unpack : forall {A} (r1 r2 : result A),
  agree r1 r2 ->
  (forall a, r1 = ROk a <-> r2 = ROk a) /\
  (forall e1 e2, r1 = RErr e1 -> r2 = RErr e2 -> err_class e1 = err_class e2).
Proof.
  intros A [a|e] [b|e'] H; unfold agree in H; cbn in H; try discriminate; split.
  - intros x; split; intros Hx; congruence.
  - intros e1 e2 H1; discriminate.
  - intros x; split; intros Hx; discriminate.
  - intros e1 e2 H1 H2. inversion H1; inversion H2; subst. congruence.
Qed.

(* the classes in which a well-formed definition can be rejected by a front end *)
Definition front_end_classes : list string := ["missing"; "ref_buffer"; "ref_ref"; "override_forbidden"].

Lemma mapR_err : forall {A B} (f : A -> result B) l e,
  mapR f l = RErr e -> exists x, In x l /\ f x = RErr e.
Proof.
  induction l as [|a t IH]; cbn; intros e H; [discriminate|].
  destruct (f a) eqn:E; cbn in H.
  - destruct (mapR f t) eqn:E2; cbn in H; [discriminate|]. inversion H; subst.
    destruct (IH _ eq_refl) as [x [Hx Hf]]. exists x; auto.
  - inversion H; subst. exists a; auto.
Qed.

Lemma spec_object_err_kinds : forall g o e, spec_object g o = RErr e -> In (e_kind e) front_end_classes.
Proof.
  intros g. induction o as [h off rep order objs IH|h r|h c|h b|h ov _] using aobject_ind'; intros e H;
    cbn [spec_object] in H.
  - destruct (mapR (spec_object g) objs) eqn:E; cbn in H; [discriminate|]. inversion H; subst.
    destruct (mapR_err _ _ _ E) as [x [Hx Hf]]. rewrite Forall_forall in IH. exact (IH x Hx e Hf).
  - unfold spec_register in H. destruct (ar_address r), (ar_size_bits r); cbn in H; try discriminate;
      inversion H; subst; cbn; auto.
  - unfold spec_command in H. destruct (ak_address c); cbn in H; try discriminate; inversion H; subst; cbn; auto.
  - unfold spec_buffer in H. destruct (ab_address b); cbn in H; try discriminate; inversion H; subst; cbn; auto.
  - destruct (spec_override ov) eqn:E; cbn in H; [discriminate|]. inversion H; subst.
    destruct ov; cbn in E;
      try (match type of E with (if ?c then _ else _) = _ => destruct c end); try discriminate;
      inversion E; subst; cbn; auto 6.
Qed.

Theorem rejection_classes : forall lf toml d e,
  adef_ok d = true ->
  (lower_dsl (to_dsl lf d) = RErr e \/ lower_manifest lf (to_manifest toml d) = RErr e) ->
  In (e_kind (err_class e)) front_end_classes.
Proof.
  intros lf toml d e Hok H.
  assert (Hs : class_of (spec_device lf d) = RErr (err_class e)).
  { destruct H as [H|H].
    - rewrite <- (dsl_half lf d (adef_ok_objects d Hok)), H. reflexivity.
    - rewrite <- (manifest_half lf toml d Hok), H. reflexivity. }
  unfold spec_device in Hs.
  destruct (mapR (spec_object (spec_config lf (a_config d))) (a_objects d)) eqn:E; cbn in Hs; [discriminate|].
  destruct (mapR_err _ _ _ E) as [x [Hx Hf]].
  pose proof (spec_object_err_kinds _ _ _ Hf) as Hk.
  cbn in Hs. injection Hs as Hc.
  assert (Hfix : err_class e0 = e0).
  { unfold front_end_classes in Hk. destruct e0 as [k args]. cbn in Hk.
    destruct Hk as [<-|[<-|[<-|[<-|[]]]]]; reflexivity. }
  rewrite <- Hc, Hfix. exact Hk.
Qed.

(* either front end's MIR is the meaning of the definition *)
Theorem front_end_mir_is_spec : forall lf toml d m,
  adef_ok d = true ->
  (lower_dsl (to_dsl lf d) = ROk m \/ lower_manifest lf (to_manifest toml d) = ROk m) ->
  spec_device lf d = ROk m.
Proof.
  intros lf toml d m Hok [H|H]; apply class_of_ok.
  - rewrite <- (dsl_half lf d (adef_ok_objects d Hok)), H. reflexivity.
  - rewrite <- (manifest_half lf toml d Hok), H. reflexivity.
Qed.

(* ... and the meaning applies every global default *)
Theorem spec_applies_defaults : forall lf c g,
  g = spec_config lf c ->
  g_default_register_access g = or_default (ac_default_register_access c) RW /\
  g_default_field_access g = or_default (ac_default_field_access c) RW /\
  g_default_buffer_access g = or_default (ac_default_buffer_access c) RW /\
  g_default_bit_order g = or_default (ac_default_bit_order c) BiLSB0 /\
  g_default_byte_order g = ac_default_byte_order c /\
  (forall h r reg, spec_register g h r = ROk reg ->
     rg_access reg = or_default (ar_access r) (g_default_register_access g) /\
     rg_bit_order reg = or_default (ar_bit_order r) (g_default_bit_order g) /\
     rg_fields reg = map (spec_field g) (ar_fields r)) /\
  (forall h k cmd, spec_command g h k = ROk cmd ->
     cm_bit_order cmd = or_default (ak_bit_order k) (g_default_bit_order g) /\
     cm_in_fields cmd = map (spec_field g) (or_default (ak_fields_in k) []) /\
     cm_out_fields cmd = map (spec_field g) (or_default (ak_fields_out k) [])) /\
  (forall h b buf, spec_buffer g h b = ROk buf ->
     bf_access buf = or_default (ab_access b) (g_default_buffer_access g)) /\
  (forall f, f_access (spec_field g f) = or_default (af_access f) (g_default_field_access g)).
Proof.
  intros lf c g ->. do 5 (split; [reflexivity|]).
  split; [|split; [|split]].
  - intros h r reg H. unfold spec_register in H. destruct (ar_address r), (ar_size_bits r); try discriminate.
    inversion H. repeat split; reflexivity.
  - intros h k cmd H. unfold spec_command in H. destruct (ak_address k); try discriminate.
    inversion H. repeat split; reflexivity.
  - intros h b buf H. unfold spec_buffer in H. destruct (ab_address b); try discriminate. inversion H. reflexivity.
  - intros f. reflexivity.
Qed.

(* the rest of the pipeline is ONE function of the MIR (lib.rs: transform_mir), whatever it is *)
Definition finish {T} (transform_mir : device -> T) (r : result device) : T + gen_error :=
  match r with ROk m => inl (transform_mir m) | RErr e => inr (err_class e) end.

Theorem same_decision_and_output : forall (T : Type) (transform_mir : device -> T) lf toml d,
  adef_ok d = true ->
  finish transform_mir (lower_dsl (to_dsl lf d)) = finish transform_mir (lower_manifest lf (to_manifest toml d)).
Proof.
  intros T tm lf toml d H. pose proof (front_ends_agree lf toml d H) as Ha. unfold agree in Ha.
  destruct (lower_dsl (to_dsl lf d)), (lower_manifest lf (to_manifest toml d)); cbn in *; congruence.
Qed.

(* the documented DSL-specific class *)
Theorem nonbool_single_field : forall toml g f,
  field_ok f = true -> field_single_nonbool f = true ->
  dsl_field g (field_to_dsl f) = RErr (mk_err "dsl_nonbool_single" [af_name f]) /\
  (exists mf, m_field (g_default_field_access g) (field_to_m toml f) = ROk mf /\
              f_start mf = f_end mf /\ is_bool_base (f_base mf) = false).
Proof.
  intros toml g f Hok Hs. split.
  - destruct f as [c n acc base conv s e incl]. unfold field_single_nonbool in Hs. cbn in Hs.
    apply andb_prop in Hs. destruct Hs as [He Hb]. destruct e; [discriminate|]. apply negb_true_iff in Hb.
    unfold field_ok in Hok. cbn in Hok. apply andb_prop in Hok. destruct Hok as [_ Hc].
    unfold dsl_field, field_to_dsl. cbn [hf_attrs hf_name hf_access hf_base hf_conv hf_addr af_cfg af_name af_access
                                           af_base af_conv af_start af_end af_incl].
    rewrite get_cfg_opt. cbn [rbind].
    assert (Hconv : transpose (option_map dsl_conv (option_map conv_to_dsl conv)) = ROk (option_map spec_conv conv)).
    { destruct conv as [cv|]; cbn in *; [rewrite (dsl_conv_ok _ Hc)|]; reflexivity. }
    rewrite Hconv. cbn [rbind dsl_field_address]. rewrite Hb. reflexivity.
  - exists (spec_field_m (g_default_field_access g) f). split; [apply m_field_ok; assumption|].
    unfold field_single_nonbool in Hs. apply andb_prop in Hs. destruct Hs as [He Hb].
    destruct f as [c n acc base conv s e incl]. cbn in *. destruct e; [discriminate|].
    split; [reflexivity|]. apply negb_true_iff in Hb. exact Hb.
Qed.

(* first occurrence wins: what find_map does with an item list the PARSER would have refused *)
Theorem find_map_first_wins : forall {A B} (p : A -> option B) l1 i l2 v,
  find_map p l1 = None -> p i = Some v -> find_map p (l1 ++ i :: l2) = Some v.
Proof. intros. rewrite find_map_app, H. cbn. rewrite H0. reflexivity. Qed.

Theorem dsl_duplicate_access_ignored : forall g attrs name items fields a a',
  find_map pick_r_access items = Some a ->
  dsl_register g attrs name (items ++ [RIAccess a']) fields = dsl_register g attrs name items fields /\
  (forall r, dsl_register g attrs name items fields = ROk r -> rg_access r = a).
Proof.
  intros g attrs name items fields a a' H. split.
  - unfold dsl_register. rewrite !find_map_app. cbn [find_map pick_r_access pick_r_byte_order pick_r_bit_order
      pick_r_allow_bit pick_r_allow_addr pick_r_address pick_r_size pick_r_reset pick_r_repeat].
    rewrite H.
    destruct (find_map pick_r_address items), (find_map pick_r_size items), (find_map pick_r_reset items),
      (find_map pick_r_repeat items), (find_map pick_r_byte_order items), (find_map pick_r_bit_order items),
      (find_map pick_r_allow_bit items), (find_map pick_r_allow_addr items); reflexivity.
  - intros r Hr. unfold dsl_register in Hr. rewrite H in Hr.
    destruct (get_cfg_attr attrs); cbn in Hr; [|discriminate].
    repeat match type of Hr with
           | rbind ?x _ = _ => destruct x; cbn [rbind] in Hr; [|discriminate]
           end.
    inversion Hr. reflexivity.
Qed.

(* the behaviour before commit df2c08c differs from the DSL on a definition that sets a default *)
Definition d5_witness : adef :=
  {| a_config := {| ac_default_register_access := Some RO; ac_default_field_access := None;
                    ac_default_buffer_access := None; ac_default_byte_order := None; ac_default_bit_order := None;
                    ac_register_address_type := Some IU8; ac_command_address_type := None;
                    ac_buffer_address_type := None; ac_name_word_boundaries := None; ac_defmt_feature := None |};
     a_objects := [ARegister {| h_cfg := None; h_doc := false; h_name := "Ra" |}
                             {| ar_access := None; ar_byte_order := None; ar_bit_order := None; ar_address := Some 0;
                                ar_size_bits := Some 8; ar_reset := None; ar_repeat := None;
                                ar_allow_bit_overlap := None; ar_allow_address_overlap := None; ar_fields := [];
                                ar_order := [] |}] |}.

Definition no_lf (_ : string) : list string := [].

Theorem defaults_ignored_would_differ :
  adef_ok d5_witness = true /\
  (exists m1 m2, lower_dsl (to_dsl no_lf d5_witness) = ROk m1 /\
                 lower_manifest_nodefaults no_lf (to_manifest false d5_witness) = ROk m2 /\ m1 <> m2) /\
  lower_manifest no_lf (to_manifest false d5_witness) = lower_dsl (to_dsl no_lf d5_witness).
Proof.
  split; [reflexivity|]. split.
  - eexists. eexists. split; [vm_compute; reflexivity|]. split; [vm_compute; reflexivity|]. discriminate.
  - vm_compute. reflexivity.
Qed.
