(* MirShow.v — a canonical, total printer Mir.device -> string (and of results), for correspondence checks that compare
   a MIR computed by a Coq model with the MIR the real front end produced (the python side prints the parsed Rust
   Debug output in the same format: tools/checks/c16.py `show_device`).  Definitions only.
   Descriptions are not part of Mir.v and therefore not printed. *)
From Coq Require Import ZArith List Bool String.
From DD Require Import Common Mir GenErr.
Import ListNotations.
Open Scope string_scope.

Definition sep (l : list string) : string := String.concat ";" l.
Definition show_cfg (c : cfg) : string := match c with None => "-" | Some s => "cfg<" ++ s ++ ">" end.
Definition show_byte_ord (b : byte_ord) : string := match b with BoLE => "LE" | BoBE => "BE" end.
Definition show_bit_ord (b : bit_ord) : string := match b with BiLSB0 => "LSB0" | BiMSB0 => "MSB0" end.
Definition show_base (b : base_type) : string := match b with BBool => "bool" | BUint => "uint" | BInt => "int" end.
Definition show_repeat (r : repeat) : string := "rep<" ++ show_Z (r_count r) ++ "x" ++ show_Z (r_stride r) ++ ">".
Definition show_reset (r : reset_value) : string :=
  match r with RInt z => "int<" ++ show_Z z ++ ">" | RArr l => "arr<" ++ show_list show_Z l ++ ">" end.
Definition show_enum_value (v : enum_value) : string :=
  match v with EVUnspec => "_" | EVSpec z => show_Z z | EVDefault => "default" | EVCatchAll => "catch_all" end.
Definition show_variant (v : variant) : string :=
  show_cfg (v_cfg v) ++ v_name v ++ "=" ++ show_enum_value (v_value v).
Definition show_style (s : gen_style) : string :=
  match s with GFallible => "fallible" | GInfallible b => "infallible<" ++ show_Z b ++ ">" end.
Definition show_conv (c : conversion) : string :=
  match c with
  | ConvDirect n t => "direct<" ++ n ++ ";" ++ show_bool t ++ ">"
  | ConvEnum e t => "enum<" ++ show_cfg (e_cfg e) ++ e_name e ++ ";" ++ show_bool t ++ ";"
                    ++ show_option show_style (e_style e) ++ ";" ++ show_list show_variant (e_variants e) ++ ">"
  end.
Definition show_field (f : field) : string :=
  "field(" ++ sep [show_cfg (f_cfg f); f_name f; show_access (f_access f); show_base (f_base f);
                   show_option show_conv (f_conv f); show_Z (f_start f) ++ ".." ++ show_Z (f_end f)] ++ ")".
Definition show_fields (fs : list field) : string := "[" ++ show_list show_field fs ++ "]".
Definition show_register (r : register) : string :=
  "register(" ++ sep [show_cfg (rg_cfg r); rg_name r; show_access (rg_access r);
                      show_option show_byte_ord (rg_byte_order r); show_bit_ord (rg_bit_order r);
                      show_bool (rg_allow_bit_overlap r); show_bool (rg_allow_address_overlap r);
                      show_Z (rg_address r); show_Z (rg_size_bits r); show_option show_reset (rg_reset r);
                      show_option show_repeat (rg_repeat r); show_fields (rg_fields r)] ++ ")".
Definition show_command (c : command) : string :=
  "command(" ++ sep [show_cfg (cm_cfg c); cm_name c; show_Z (cm_address c);
                     show_option show_byte_ord (cm_byte_order c); show_bit_ord (cm_bit_order c);
                     show_bool (cm_allow_bit_overlap c); show_bool (cm_allow_address_overlap c);
                     show_Z (cm_size_in c); show_Z (cm_size_out c); show_option show_repeat (cm_repeat c);
                     show_fields (cm_in_fields c); show_fields (cm_out_fields c)] ++ ")".
Definition show_buffer (b : buffer) : string :=
  "buffer(" ++ sep [show_cfg (bf_cfg b); bf_name b; show_access (bf_access b); show_Z (bf_address b)] ++ ")".
Definition show_override (o : override) : string :=
  match o with
  | OvBlock t a r => "ovblock(" ++ sep [t; show_option show_Z a; show_option show_repeat r] ++ ")"
  | OvRegister t acc a allow rs r =>
      "ovregister(" ++ sep [t; show_option show_access acc; show_option show_Z a; show_bool allow;
                            show_option show_reset rs; show_option show_repeat r] ++ ")"
  | OvCommand t a allow r =>
      "ovcommand(" ++ sep [t; show_option show_Z a; show_bool allow; show_option show_repeat r] ++ ")"
  end.

Fixpoint show_object (o : object) : string :=
  match o with
  | OBlock c n off r objs =>
      "block(" ++ sep [show_cfg c; n; show_Z off; show_option show_repeat r;
                       "[" ++ String.concat "," (map show_object objs) ++ "]"] ++ ")"
  | ORegister r => show_register r
  | OCommand c => show_command c
  | OBuffer b => show_buffer b
  | ORef c n ov => "ref(" ++ sep [show_cfg c; n; show_override ov] ++ ")"
  end.

Definition show_config (g : config) : string :=
  "config(" ++ sep [show_access (g_default_register_access g); show_access (g_default_field_access g);
                    show_access (g_default_buffer_access g); show_option show_byte_ord (g_default_byte_order g);
                    show_bit_ord (g_default_bit_order g); show_option show_integer (g_register_address_type g);
                    show_option show_integer (g_command_address_type g);
                    show_option show_integer (g_buffer_address_type g);
                    "[" ++ String.concat "," (g_boundaries g) ++ "]";
                    show_option (fun s => "<" ++ s ++ ">") (g_defmt_feature g)] ++ ")".

Definition show_device (d : device) : string :=
  show_config (d_config d) ++ "[" ++ String.concat "," (map show_object (d_objects d)) ++ "]".

Definition show_result_device (r : result device) : string :=
  match r with ROk d => "ok:" ++ show_device d | RErr e => "error:" ++ show_error e end.
