(* FieldSetLaws.v — the C02 clause at the level of GENERATED accessors: in a field set the layout
   validation accepts without AllowBitOverlap, calling the setter of one field never changes what the
   getter of another field returns; and calling a setter then the getter of the same field reads the
   stored pattern.  Consequences of getter_reads_declared_range / setter_writes_declared_range
   (FieldSetGenProofs.v) and the set-bit theorems of the ops model. *)
From Coq Require Import ZArith List Bool String Lia ZifyBool.
From DD Require Import Common Carrier Bits BitsSpec BitsProofs BitsRoundtrip Mir GenErr Layout LayoutProofs
  FieldSetGen FieldSetGenProofs.
Import ListNotations.
Open Scope Z_scope.
Ltac Zify.zify_post_hook ::= Z.div_mod_to_equations.

Lemma size_le_bytes size : size <= 8 * div_ceil8 size.
Proof. unfold div_ceil8. lia. Qed.

Theorem generated_setter_preserves_other_getter ptrw bo bi size f g v bytes :
  In ptrw ptr_widths -> size <> 0 ->
  field_ok size f -> 0 <= f_start f -> field_end f - f_start f <= 128 ->
  field_ok size g -> 0 <= f_start g -> field_end g - f_start g <= 128 ->
  fields_disjoint f g ->
  bytes_ok bytes -> Z.of_nat (List.length bytes) = div_ceil8 size ->
  exists bytes', setter_call ptrw (setter_of bo bi (widen g)) v bytes = Some (Ok bytes') /\
    List.length bytes' = List.length bytes /\ bytes_ok bytes' /\
    getter_call ptrw (getter_of bo bi (widen f)) bytes' = getter_call ptrw (getter_of bo bi (widen f)) bytes.
Proof.
  intros Hp Hsz Hf Hf0 Hfw Hg Hg0 Hgw Hdis Hb Hlen.
  destruct (setter_writes_declared_range ptrw bo bi size g v bytes) as (bytes' & Hset & Hlen' & Hok' & Hbits);
    try assumption.
  exists bytes'. repeat split; try assumption.
  destruct (getter_reads_declared_range ptrw bo bi size f bytes) as (c & Hc & Hget); try assumption.
  destruct (getter_reads_declared_range ptrw bo bi size f bytes') as (c' & Hc' & Hget'); try assumption.
  { rewrite Hlen'. assumption. }
  rewrite Hget, Hget'. rewrite Hc in Hc'. injection Hc' as <-. do 3 f_equal.
  destruct Hf as (Hf1 & Hf2 & _).
  apply spec_load_local; [assumption|lia|].
  intros k Hk. pose proof (size_le_bytes size) as Hsb.
  rewrite Hbits by lia.
  unfold fields_disjoint in Hdis.
  destruct (Z.leb_spec (f_start g) k); destruct (Z.ltb_spec k (field_end g)); cbn [andb]; try reflexivity.
  exfalso. apply Hdis. lia.
Qed.

(* positions i < j of a pairwise-R list are R-related *)
Lemma pairwise_nth {A} (R : A -> A -> Prop) : forall l i j a b,
  pairwise R l -> (i < j)%nat -> nth_error l i = Some a -> nth_error l j = Some b -> R a b.
Proof.
  induction l as [|x t IH]; intros i j a b Hpw Hij Ha Hb.
  - destruct i; discriminate.
  - destruct Hpw as [Hx Ht]. destruct j as [|j]; [lia|]. cbn [nth_error] in Hb.
    destruct i as [|i].
    + cbn [nth_error] in Ha. injection Ha as <-. rewrite Forall_forall in Hx. apply Hx.
      eapply nth_error_In. exact Hb.
    + cbn [nth_error] in Ha. apply (IH i j); try assumption. lia.
Qed.

Lemma fields_disjoint_sym f g : fields_disjoint f g -> fields_disjoint g f.
Proof. unfold fields_disjoint. tauto. Qed.

(* ... for every accepted field set (set_ok is what the layout validation accepts: C11_accept_iff_wf) that does
   not allow bit overlap, and any two DIFFERENT positions of its field list. *)
Theorem accepted_set_fields_independent ptrw bo bi size fs i j f g v bytes :
  In ptrw ptr_widths -> size <> 0 -> set_ok fs size false ->
  nth_error fs i = Some f -> nth_error fs j = Some g -> i <> j ->
  0 <= f_start f -> field_end f - f_start f <= 128 -> 0 <= f_start g -> field_end g - f_start g <= 128 ->
  bytes_ok bytes -> Z.of_nat (List.length bytes) = div_ceil8 size ->
  exists bytes', setter_call ptrw (setter_of bo bi (widen g)) v bytes = Some (Ok bytes') /\
    List.length bytes' = List.length bytes /\ bytes_ok bytes' /\
    getter_call ptrw (getter_of bo bi (widen f)) bytes' = getter_call ptrw (getter_of bo bi (widen f)) bytes.
Proof.
  intros Hp Hsz (Hall & Hpw) Hi Hj Hne Hf0 Hfw Hg0 Hgw Hb Hlen.
  specialize (Hpw eq_refl). rewrite Forall_forall in Hall.
  apply (generated_setter_preserves_other_getter ptrw bo bi size); try assumption.
  - apply Hall. eapply nth_error_In. exact Hi.
  - apply Hall. eapply nth_error_In. exact Hj.
  - destruct (Nat.lt_ge_cases i j) as [Hlt|Hge].
    + apply (pairwise_nth _ fs i j); assumption.
    + apply fields_disjoint_sym. apply (pairwise_nth _ fs j i); try assumption. lia.
Qed.

(* ---------- set_x(v) then x() on one generated field ---------- *)

(* The emitted setter followed by the emitted getter of the SAME field returns the carrier reading of
   v reduced to the field's width: `wrap carrier (v mod 2^w)` — i.e. v mod 2^w itself unless the field is an
   `int` that fills its carrier (then the two's-complement reading).  For an `int` field NARROWER than its
   carrier this is the unsigned reading: finding D1, here in one formula at the generated level. *)
Theorem generated_set_then_get ptrw bo bi size f v bytes :
  In ptrw ptr_widths -> size <> 0 ->
  field_ok size f -> 0 <= f_start f -> field_end f - f_start f <= 128 ->
  bytes_ok bytes -> Z.of_nat (List.length bytes) = div_ceil8 size ->
  exists c bytes', cty_of (field_signed f) (field_cbits (widen f)) = Some c /\
    setter_call ptrw (setter_of bo bi (widen f)) v bytes = Some (Ok bytes') /\
    getter_call ptrw (getter_of bo bi (widen f)) bytes' =
      Some (Ok (wrap (cty_ity ptrw c) (v mod 2 ^ (field_end f - f_start f)))).
Proof.
  intros Hp Hsz Hf Hf0 Hfw Hb Hlen.
  destruct (setter_writes_declared_range ptrw bo bi size f v bytes) as (bytes' & Hset & Hpost); try assumption.
  pose proof Hpost as (Hlen' & Hok' & _).
  destruct (getter_reads_declared_range ptrw bo bi size f bytes') as (c & Hc & Hget); try assumption.
  { rewrite Hlen'. assumption. }
  exists c, bytes'. repeat split; try assumption.
  rewrite Hget. do 3 f_equal.
  destruct Hf as (Hf1 & Hf2 & _). pose proof (size_le_bytes size).
  apply (spec_load_after_store _ _ v _ _ bytes bytes'); try assumption; lia.
Qed.

(* ---------- C03: footprint of an emitted setter ---------- *)

(* An emitted setter of an accepted definition changes no byte of the set's array other than the bytes its
   declared bit range covers (under the set's byte order) — store_footprint at the generated level. *)
Theorem generated_setter_footprint ptrw fsf a v bytes :
  In ptrw ptr_widths -> accessor_in_bounds fsf a -> a_end a - a_start a <= 128 ->
  bytes_ok bytes -> Z.of_nat (List.length bytes) = fs_size_bytes fsf ->
  exists bytes', setter_call ptrw a v bytes = Some (Ok bytes') /\ List.length bytes' = List.length bytes /\
    forall idx, (idx < List.length bytes)%nat ->
      (forall k, a_start a <= k < a_end a ->
         phys_byte (to_byte_order (a_byte_order a)) (Z.of_nat (List.length bytes)) k <> Z.of_nat idx) ->
      nth idx bytes' 0 = nth idx bytes 0.
Proof.
  intros Hp (H1 & H0 & H2 & H3 & H4) Hw Hb Hlen. destruct (H4 Hw) as [H5 H6].
  destruct (cty_of_spec (a_signed a) (a_cbits a) H6) as (c & Hc & Hin & Hbits).
  unfold setter_call. rewrite Hc.
  pose proof (Hbits ptrw) as [Hbw _].
  apply store_footprint. repeat split; try assumption; lia.
Qed.
