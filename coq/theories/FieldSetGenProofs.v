(* FieldSetGenProofs.v — accepted definitions only emit in-bounds accessors (C03, generator half), and
   every emitted accessor reads/writes exactly the declared range under the effective orders with the
   minimal carrier (C06). *)
From Coq Require Import ZArith List Bool String Lia ZifyBool.
From DD Require Import Common Carrier Bits BitsSpec BitsProofs BitsRoundtrip Mir GenErr Layout LayoutProofs FieldSetGen.
Import ListNotations.
Open Scope Z_scope.
Ltac Zify.zify_post_hook ::= Z.div_mod_to_equations.

Lemma carrier_bits_cases w : w <= 128 ->
  carrier_bits w = if w <=? 8 then 8 else if w <=? 16 then 16 else if w <=? 32 then 32
                   else if w <=? 64 then 64 else 128.
Proof.
  intros Hw. unfold carrier_bits. change 40%nat with (S (S (S (S (S 35%nat))))).
  cbn [np2_from].
  destruct (w <=? 8) eqn:E1; [reflexivity|].
  change (2 * 8) with 16. destruct (w <=? 16) eqn:E2; [reflexivity|].
  change (2 * 16) with 32. destruct (w <=? 32) eqn:E3; [reflexivity|].
  change (2 * 32) with 64. destruct (w <=? 64) eqn:E4; [reflexivity|].
  change (2 * 64) with 128. destruct (w <=? 128) eqn:E5; [reflexivity|lia].
Qed.

(* smallest of 8,16,32,64,128 that fits *)
Lemma carrier_bits_minimal w : 0 < w <= 128 ->
  let b := carrier_bits w in
  w <= b /\ (b = 8 \/ b = 16 \/ b = 32 \/ b = 64 \/ b = 128) /\ (b = 8 \/ b / 2 < w).
Proof.
  intros Hw. cbv zeta. rewrite carrier_bits_cases by lia.
  destruct (w <=? 8) eqn:E1; [lia|]. destruct (w <=? 16) eqn:E2; [lia|].
  destruct (w <=? 32) eqn:E3; [lia|]. destruct (w <=? 64) eqn:E4; lia.
Qed.

Lemma cty_of_spec sg b : (b = 8 \/ b = 16 \/ b = 32 \/ b = 64 \/ b = 128) ->
  exists c, cty_of sg b = Some c /\ In c carriers /\
    forall ptrw, bits (cty_ity ptrw c) = b /\ signed (cty_ity ptrw c) = sg.
Proof.
  intros H. destruct sg; destruct H as [->|[->|[->|[->| ->]]]]; cbn;
    eexists; (split; [reflexivity|]); (split; [cbn; auto 12|]); intros; cbn; auto.
Qed.

(* ---------- what the facts contain ---------- *)

Definition accessor_in_bounds (f : fs_facts) (a : accessor) : Prop :=
  a_start a < a_end a /\ 0 <= a_start a /\ a_end a <= fs_size_bits f /\ fs_size_bits f <= 8 * fs_size_bytes f /\
  (a_end a - a_start a <= 128 ->
     a_end a - a_start a <= a_cbits a /\
     (a_cbits a = 8 \/ a_cbits a = 16 \/ a_cbits a = 32 \/ a_cbits a = 64 \/ a_cbits a = 128)).

Definition wfield_ok (size : Z) (f : field) : Prop :=
  0 <= f_start f /\ f_start f < f_end f /\ f_end f <= size /\ (f_base f = BBool -> f_end f - f_start f = 1).

Lemma field_cbits_ok f : f_start f < f_end f -> (f_base f = BBool -> f_end f - f_start f = 1) ->
  f_end f - f_start f <= 128 ->
  f_end f - f_start f <= field_cbits f /\
  (field_cbits f = 8 \/ field_cbits f = 16 \/ field_cbits f = 32 \/ field_cbits f = 64 \/ field_cbits f = 128).
Proof.
  intros H1 H2 H3. unfold field_cbits, range_count.
  destruct (f_base f) eqn:Eb.
  - specialize (H2 eq_refl). lia.
  - destruct (f_start f <? f_end f) eqn:E; [|lia].
    pose proof (carrier_bits_minimal (f_end f - f_start f) ltac:(lia)) as H. cbv zeta in H. tauto.
  - destruct (f_start f <? f_end f) eqn:E; [|lia].
    pose proof (carrier_bits_minimal (f_end f - f_start f) ltac:(lia)) as H. cbv zeta in H. tauto.
Qed.

Lemma field_set_facts_bounds name bo bi size fs fsf a :
  Forall (wfield_ok size) fs ->
  In fsf (field_set_facts name bo bi size fs) ->
  In a (fs_getters fsf ++ fs_setters fsf) -> accessor_in_bounds fsf a.
Proof.
  intros Hok Hin Ha. unfold field_set_facts in Hin.
  destruct (size =? 0) eqn:E; [contradiction|]. destruct Hin as [<-|[]]. cbn in Ha.
  rewrite Forall_forall in Hok.
  assert (exists f, In f fs /\ a_start a = f_start f /\ a_end a = f_end f /\ a_cbits a = field_cbits f)
    as (f & Hf & Hs & He & Hc).
  { apply in_app_or in Ha. destruct Ha as [Ha|Ha]; apply in_map_iff in Ha; destruct Ha as (f & <- & Hf);
      apply filter_In in Hf; destruct Hf as [Hf _]; exists f; cbn; auto. }
  destruct (Hok f Hf) as (H0 & H1 & H2 & H3).
  unfold accessor_in_bounds. cbn [fs_size_bits fs_size_bytes]. unfold div_ceil8. rewrite Hs, He, Hc.
  split; [lia|]. split; [lia|]. split; [lia|]. split; [lia|].
  intros Hw. apply field_cbits_ok; assumption || lia.
Qed.

(* well-formed, widened fields *)
Lemma wf_widen_fields size allow fs :
  Forall (fun f => 0 <= f_start f) fs -> set_ok fs size allow -> Forall (wfield_ok size) (map widen fs).
Proof.
  intros Hnn [Hok _]. rewrite Forall_map. rewrite Forall_forall in *. intros f Hf.
  destruct (Hok f Hf) as (H1 & H2 & H3). specialize (Hnn f Hf).
  unfold wfield_ok, widen; cbn [f_start f_end f_base]. split; [lia|]. split; [lia|]. split; [lia|].
  intros Hb. apply H3. assumption.
Qed.

Definition starts_nonneg (o : object) : Prop :=
  Forall (Forall (fun f => 0 <= f_start f)) (object_field_sets o).

(* field addresses are u32 in the MIR: non-negative by construction *)
Definition device_nonneg (d : device) : Prop := Forall starts_nonneg (preorder_objects (d_objects d)).

Theorem accepted_accessors_in_bounds d l :
  device_nonneg d -> emitted_field_sets d = Some l ->
  forall fsf a, In fsf l -> In a (fs_getters fsf ++ fs_setters fsf) -> accessor_in_bounds fsf a.
Proof.
  unfold emitted_field_sets. intros Hnn H.
  destruct (layout_check d) eqn:Elc; [discriminate|].
  pose proof (proj1 (layout_accept_iff_wf d) Elc) as Hwf. unfold wf_layout in Hwf.
  destruct (mapM bool_fields_object (preorder_objects (d_objects d))) as [objs|] eqn:Em; [|discriminate].
  inversion H; subst l. clear H.
  apply mapM_ok in Em.
  intros fsf a Hin Ha. apply in_flat_map in Hin. destruct Hin as (o' & Ho' & Hfs).
  assert (exists o, In o (preorder_objects (d_objects d)) /\ bool_fields_object o = ROk o') as (o & Ho & Hb).
  { clear -Em Ho'. induction Em as [|x y t t' Hxy Ht IH]; [contradiction|].
    destruct Ho' as [<-|Ho']; [exists x; split; [left; reflexivity|assumption]|].
    destruct (IH Ho') as (o & Hi & Hoo). exists o; split; [right; assumption|assumption]. }
  destruct (proj2 (bool_fields_object_spec o) _ Hb) as [_ ->].
  rewrite Forall_forall in Hwf. specialize (Hwf o Ho).
  unfold device_nonneg in Hnn. rewrite Forall_forall in Hnn. specialize (Hnn o Ho).
  unfold starts_nonneg in Hnn.
  destruct o as [| r | c | |]; cbn in Hfs; try contradiction.
  - cbn in Hwf. destruct Hwf as [Hset _]. cbn in Hnn. inversion Hnn; subst.
    eapply field_set_facts_bounds; [|exact Hfs|exact Ha].
    eapply wf_widen_fields; eassumption.
  - cbn in Hwf. destruct Hwf as (Hin & Hout & _). cbn in Hnn.
    inversion Hnn as [|? ? Hn1 Hn2]; subst. inversion Hn2 as [|? ? Hn3 _]; subst.
    apply in_app_or in Hfs. destruct Hfs as [Hfs|Hfs].
    + eapply field_set_facts_bounds; [|exact Hfs|exact Ha]. eapply wf_widen_fields; eassumption.
    + eapply field_set_facts_bounds; [|exact Hfs|exact Ha]. eapply wf_widen_fields; eassumption.
Qed.

(* ---------- composition with the ops theorems ---------- *)

Theorem generated_getter_safe_and_exact ptrw fsf a bytes :
  In ptrw ptr_widths -> accessor_in_bounds fsf a -> a_end a - a_start a <= 128 ->
  bytes_ok bytes -> Z.of_nat (List.length bytes) = fs_size_bytes fsf ->
  exists c, cty_of (a_signed a) (a_cbits a) = Some c /\
    getter_call ptrw a bytes =
      Some (Ok (wrap (cty_ity ptrw c)
                  (spec_load (to_byte_order (a_byte_order a)) (to_bit_order (a_bit_order a)) bytes (a_start a) (a_end a)))).
Proof.
  intros Hp (H1 & H0 & H2 & H3 & H4) Hw Hb Hlen. destruct (H4 Hw) as [H5 H6].
  destruct (cty_of_spec (a_signed a) (a_cbits a) H6) as (c & Hc & Hin & Hbits).
  exists c. split; [assumption|]. unfold getter_call. rewrite Hc.
  pose proof (Hbits ptrw) as [Hbw _].
  apply load_layout; try assumption; try lia.
Qed.

Theorem generated_setter_safe_and_exact ptrw fsf a v bytes :
  In ptrw ptr_widths -> accessor_in_bounds fsf a -> a_end a - a_start a <= 128 ->
  bytes_ok bytes -> Z.of_nat (List.length bytes) = fs_size_bytes fsf ->
  exists bytes', setter_call ptrw a v bytes = Some (Ok bytes') /\
    store_post (to_byte_order (a_byte_order a)) (to_bit_order (a_bit_order a)) v (a_start a) (a_end a) bytes bytes'.
Proof.
  intros Hp (H1 & H0 & H2 & H3 & H4) Hw Hb Hlen. destruct (H4 Hw) as [H5 H6].
  destruct (cty_of_spec (a_signed a) (a_cbits a) H6) as (c & Hc & Hin & Hbits).
  unfold setter_call. rewrite Hc.
  pose proof (Hbits ptrw) as [Hbw _].
  apply store_layout; try assumption; try lia.
Qed.

(* ---------- C06: the emitted sets are exactly the declared ones ---------- *)

Lemma emitted_sets_exact d l :
  emitted_field_sets d = Some l ->
  l = flat_map (fun o => object_field_set_facts (d_config d) (widen_object o)) (preorder_objects (d_objects d)).
Proof.
  unfold emitted_field_sets. destruct (layout_check d); [discriminate|].
  destruct (mapM bool_fields_object (preorder_objects (d_objects d))) as [objs|] eqn:Em; [|discriminate].
  intros H; inversion H; subst l. apply mapM_ok in Em.
  clear H. induction Em as [|x y t t' Hxy Ht IH]; [reflexivity|].
  cbn [flat_map]. rewrite IH. destruct (proj2 (bool_fields_object_spec x) _ Hxy) as [_ ->]. reflexivity.
Qed.

Lemma field_ok_wfield size f : field_ok size f -> 0 <= f_start f -> wfield_ok size (widen f).
Proof.
  intros (H1 & H2 & H3) H0. unfold wfield_ok, widen; cbn [f_start f_end f_base].
  split; [lia|]. split; [lia|]. split; [lia|]. intros Hb. apply H3. assumption.
Qed.

Lemma single_accessor_bounds name bo bi size f a :
  size <> 0 -> field_ok size f -> 0 <= f_start f ->
  (a = getter_of bo bi (widen f) \/ a = setter_of bo bi (widen f)) ->
  accessor_in_bounds {| fs_name := name; fs_size_bytes := div_ceil8 size; fs_size_bits := size;
                        fs_getters := [getter_of bo bi (widen f)]; fs_setters := [setter_of bo bi (widen f)] |} a.
Proof.
  intros Hs Hok H0 Ha.
  pose proof (field_ok_wfield size f Hok H0) as (W0 & W1 & W2 & W3).
  assert (a_start a = f_start (widen f) /\ a_end a = f_end (widen f) /\ a_cbits a = field_cbits (widen f)) as (Es & Ee & Ec)
    by (destruct Ha as [-> | ->]; cbn; auto).
  unfold accessor_in_bounds. cbn [fs_size_bits fs_size_bytes]. unfold div_ceil8. rewrite Es, Ee, Ec.
  split; [lia|]. split; [lia|]. split; [lia|]. split; [lia|].
  intros Hw. apply field_cbits_ok; assumption || lia.
Qed.

Theorem getter_reads_declared_range ptrw bo bi size f bytes :
  In ptrw ptr_widths -> size <> 0 -> field_ok size f -> 0 <= f_start f -> field_end f - f_start f <= 128 ->
  bytes_ok bytes -> Z.of_nat (List.length bytes) = div_ceil8 size ->
  exists c, cty_of (field_signed f) (field_cbits (widen f)) = Some c /\
    getter_call ptrw (getter_of bo bi (widen f)) bytes =
      Some (Ok (wrap (cty_ity ptrw c)
                  (spec_load (to_byte_order bo) (to_bit_order bi) bytes (f_start f) (field_end f)))).
Proof.
  intros Hp Hs Hok H0 Hw Hb Hlen.
  pose proof (single_accessor_bounds "x"%string bo bi size f _ Hs Hok H0 (or_introl eq_refl)) as Hab.
  destruct (generated_getter_safe_and_exact ptrw _ _ bytes Hp Hab) as (c & Hc & Hg); try assumption.
  exists c. split; [exact Hc|exact Hg].
Qed.

Theorem setter_writes_declared_range ptrw bo bi size f v bytes :
  In ptrw ptr_widths -> size <> 0 -> field_ok size f -> 0 <= f_start f -> field_end f - f_start f <= 128 ->
  bytes_ok bytes -> Z.of_nat (List.length bytes) = div_ceil8 size ->
  exists bytes', setter_call ptrw (setter_of bo bi (widen f)) v bytes = Some (Ok bytes') /\
    store_post (to_byte_order bo) (to_bit_order bi) v (f_start f) (field_end f) bytes bytes'.
Proof.
  intros Hp Hs Hok H0 Hw Hb Hlen.
  pose proof (single_accessor_bounds "x"%string bo bi size f _ Hs Hok H0 (or_intror eq_refl)) as Hab.
  destruct (generated_setter_safe_and_exact ptrw _ _ v bytes Hp Hab) as (b' & Hst & Hpost); try assumption.
  exists b'. split; [exact Hst|exact Hpost].
Qed.

Lemma emitted_getters_only_readable name bo bi size fs a :
  In a (flat_map fs_getters (field_set_facts name bo bi size fs)) ->
  exists f, In f fs /\ readable (f_access f) = true /\ a = getter_of bo bi f.
Proof.
  unfold field_set_facts. destruct (size =? 0); [contradiction|]. cbn. rewrite app_nil_r.
  intros H. apply in_map_iff in H. destruct H as (f & <- & Hf). apply filter_In in Hf. exists f. tauto.
Qed.

Lemma emitted_setters_only_writable name bo bi size fs a :
  In a (flat_map fs_setters (field_set_facts name bo bi size fs)) ->
  exists f, In f fs /\ writable (f_access f) = true /\ a = setter_of bo bi f.
Proof.
  unfold field_set_facts. destruct (size =? 0); [contradiction|]. cbn. rewrite app_nil_r.
  intros H. apply in_map_iff in H. destruct H as (f & <- & Hf). apply filter_In in Hf. exists f. tauto.
Qed.

Lemma readable_field_has_getter name bo bi size fs f : size <> 0 -> In f fs -> readable (f_access f) = true ->
  In (getter_of bo bi f) (flat_map fs_getters (field_set_facts name bo bi size fs)).
Proof.
  intros Hs Hin Hr. unfold field_set_facts. destruct (Z.eqb_spec size 0); [contradiction|].
  cbn. rewrite app_nil_r. apply in_map. apply filter_In. auto.
Qed.

Lemma writable_field_has_setter name bo bi size fs f : size <> 0 -> In f fs -> writable (f_access f) = true ->
  In (setter_of bo bi f) (flat_map fs_setters (field_set_facts name bo bi size fs)).
Proof.
  intros Hs Hin Hr. unfold field_set_facts. destruct (Z.eqb_spec size 0); [contradiction|].
  cbn. rewrite app_nil_r. apply in_map. apply filter_In. auto.
Qed.

(* ---- byte array in / out and the bitwise operators (C06: "Converting a field set to and from its byte array is the
   identity on the bytes, the bitwise operators act on all underlying bits") ---- *)
Lemma fs_bytes_roundtrip bs : fs_to_bytes (fs_from_bytes bs) = bs.
Proof. reflexivity. Qed.

Lemma zip_with_length f : forall a b, List.length a = List.length b -> List.length (zip_with f a b) = List.length a.
Proof.
  induction a as [|x a IH]; intros [|y b] H; cbn in *; try reflexivity; try discriminate.
  f_equal. apply IH. lia.
Qed.

Lemma zip_with_nth f : forall a b i, List.length a = List.length b -> (i < List.length a)%nat ->
  nth i (zip_with f a b) 0 = f (nth i a 0) (nth i b 0).
Proof.
  induction a as [|x a IH]; intros [|y b] i H Hi; cbn in *; try lia.
  destruct i as [|i]; [reflexivity|]. apply IH; lia.
Qed.

(* every bit of every byte: AND / OR / XOR of the two operands' bits at that position *)
Theorem fs_binops_act_on_all_bits a b i j :
  List.length a = List.length b -> (i < List.length a)%nat ->
  Z.testbit (nth i (fs_and a b) 0) j = Z.testbit (nth i a 0) j && Z.testbit (nth i b 0) j /\
  Z.testbit (nth i (fs_or a b) 0) j = Z.testbit (nth i a 0) j || Z.testbit (nth i b 0) j /\
  Z.testbit (nth i (fs_xor a b) 0) j = xorb (Z.testbit (nth i a 0) j) (Z.testbit (nth i b 0) j) /\
  List.length (fs_and a b) = List.length a /\ List.length (fs_or a b) = List.length a /\
  List.length (fs_xor a b) = List.length a.
Proof.
  intros H Hi. unfold fs_and, fs_or, fs_xor. rewrite !zip_with_nth, !zip_with_length by assumption.
  rewrite Z.land_spec, Z.lor_spec, Z.lxor_spec. repeat split; reflexivity.
Qed.

Definition zr (n : nat) : list Z := map Z.of_nat (seq 0 n).
Lemma in_zr n z : 0 <= z < Z.of_nat n -> In z (zr n).
Proof.
  intros H. unfold zr. replace z with (Z.of_nat (Z.to_nat z)) by lia. apply in_map, in_seq. lia.
Qed.

(* a finite domain (256 byte values x 8 bit positions): checked by computation, lifted with forallb_forall *)
Lemma byte_not_bits_table :
  forallb (fun x => forallb (fun j => Bool.eqb (Z.testbit (255 - x) j) (negb (Z.testbit x j))) (zr 8)) (zr 256) = true.
Proof. vm_compute. reflexivity. Qed.

Lemma byte_not_bits x j : 0 <= x < 256 -> 0 <= j < 8 -> Z.testbit (255 - x) j = negb (Z.testbit x j).
Proof.
  intros Hx Hj. pose proof byte_not_bits_table as T. rewrite forallb_forall in T.
  specialize (T x (in_zr 256 x ltac:(lia))). rewrite forallb_forall in T.
  specialize (T j (in_zr 8 j ltac:(lia))). apply Bool.eqb_prop in T. exact T.
Qed.

Lemma nth_map_in (f : Z -> Z) a i d d' : (i < List.length a)%nat -> nth i (map f a) d = f (nth i a d').
Proof. intros H. rewrite (nth_indep _ d (f d')) by (rewrite map_length; exact H). apply map_nth. Qed.

(* NOT flips each of the eight bits of every byte and yields a byte again *)
Theorem fs_not_acts_on_all_bits a i j :
  Forall (fun x => 0 <= x < 256) a -> (i < List.length a)%nat -> 0 <= j < 8 ->
  Z.testbit (nth i (fs_not a) 0) j = negb (Z.testbit (nth i a 0) j) /\
  0 <= nth i (fs_not a) 0 < 256 /\ List.length (fs_not a) = List.length a.
Proof.
  intros Ha Hi Hj. unfold fs_not. rewrite map_length.
  assert (Hx : 0 <= nth i a 0 < 256) by (rewrite Forall_forall in Ha; apply Ha, nth_In; exact Hi).
  rewrite (nth_map_in _ a i 0 0 Hi). split; [apply byte_not_bits; assumption|]. split; [lia|reflexivity].
Qed.
