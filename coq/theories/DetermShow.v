(* DetermShow.v — C20: printing helpers used by the generated cases.v files of tools/checks/c20.py
   (model results are rendered as strings so that python only has to read quoted tokens).
   Definitions only; nothing here is used by a theorem. *)
From Coq Require Import List String Ascii ZArith NArith DecimalString.
From DD Require Import Common Determ.
Import ListNotations.
Open Scope string_scope.

Definition show_N (n : N) : string := NilZero.string_of_uint (N.to_uint n).

Fixpoint strlenN (s : string) (acc : N) : N :=
  match s with EmptyString => acc | String _ r => strlenN r (N.succ acc) end.

Definition show_kind (k : rkind) : string := match k with KBlock => "B" | KRegister => "R" | KCommand => "C" end.

Definition show_error (e : gen_error) : string :=
  match e with
  | ERefUnknown k r t => show_kind k ++ ":" ++ r ++ ":" ++ t
  | EResetConv s => "RESET:" ++ s
  end.

Definition show_pres {A} (r : pres A) : string :=
  match r with Accept _ => "ACCEPT" | Reject e => "REJECT " ++ show_error e | Abort _ => "ABORT" end.

(* the reset conversion is not what C20 is about: every value converts *)
Definition conv_all (_ : obj) (v : Z) : option Z := Some v.

(* [outcome under identity order; outcome under reversed order; candidates...] *)
Definition model_case (d : device) : list string :=
  show_pres (hash_passes conv_all orders_id d) :: show_pres (hash_passes conv_all orders_rev d)
  :: map show_error (candidate_errors d).

Definition show_parser (p : parser) : string :=
  match p with PJson => "json" | PYaml => "yaml" | PToml => "toml" | PDsl => "dsl" end.

Definition show_dispatch (path : string) : string :=
  match path_extension path with
  | None => "NOEXT"
  | Some e => match parser_of_ext e with None => "UNKNOWN:" ++ e | Some p => show_parser p end
  end.

Definition show_stop (s : cli_stop) : string :=
  match s with
  | Finished => "Finished" | ReturnedErr => "ReturnedErr" | PanicNoExtension => "PanicNoExtension"
  | PanicUnreadable => "PanicUnreadable" | PanicUnknownExtension => "PanicUnknownExtension"
  | PanicLibrary => "PanicLibrary" | PanicCannotCreate => "PanicCannotCreate" | PanicStrip => "PanicStrip"
  end.

Definition show_sink (s : sink) : string := match s with Stdout => "stdout" | ToFile f => "file:" ++ f end.

Definition show_write (lib_text : option string) (w : sink * string) : string :=
  show_sink (fst w) ++ "," ++ show_N (strlenN (snd w) 0) ++ "," ++
  match lib_text with
  | Some t => if String.eqb t (snd w) then "LIB" else "OTHER"
  | None => "OTHER"
  end.

Definition show_cli (lib_text : option string) (r : cli_result) : string :=
  show_N (Z.to_N (exit_status (r_stop r))) ++ "|" ++ show_stop (r_stop r) ++ "|" ++
  String.concat "&" (map (show_write lib_text) (r_writes r)).

(* one CLI case: the file system knows exactly one file (or none), the library answers lib_text *)
Definition cli_case (path : string) (content : option string) (creatable : bool) (out : option string)
                    (lib_text : option string) : string :=
  show_cli lib_text
    (cli_run (fun p => if String.eqb p path then content else None) (fun _ => creatable)
             (fun _ _ => lib_text) (fun s => s) {| ci_path := path; ci_out := out |}).

Definition show_macro (r : macro_result string) : string :=
  match r with
  | MExpand t => "EXPAND"
  | MCompileError (MECannotOpen p) => "CANNOT_OPEN:" ++ p
  | MCompileError MENoExtension => "NOEXT"
  | MCompileError (MEUnknownExtension e) => "UNKNOWN:" ++ e
  | MCompileError MELibrary => "LIBRARY"
  end.

(* macro on a manifest path: which file is read (resolved path) and which parser is chosen *)
Definition macro_case (root path : string) : string :=
  resolve root path ++ "|" ++ show_dispatch (resolve root path).
